#!/bin/bash
# usage: tools/try_seed.sh <patch.diff> <Cxx> [tier]   -> prints DETECTED / MISSED
. /verif/env.sh
cd /verif
# evidence files describe runs on /repo itself: keep the one on disk across a patched run
ev=/verif/evidence/$2.json; bak=$(mktemp /var/tmp/verif-ev-XXXXXX); [ -f $ev ] && cp $ev $bak
out=$(tools/with_patch.sh "$1" ./run.sh "$2" "${3:-quick}" 2>&1); code=$?
[ -s $bak ] && cp $bak $ev; rm -f $bak
n=$(echo "$out" | grep -c "^VIOLATION")
echo "$out" | grep -E "^VIOLATION|signature:|BROKEN" | head -6
if [ $code -eq 1 ] && [ $n -gt 0 ]; then echo "RESULT $2 $(basename $(dirname $1)): DETECTED ($n violation lines)"; elif [ $code -eq 2 ]; then echo "RESULT $2: BROKEN (exit 2)"; echo "$out" | tail -15; else echo "RESULT $2 $(basename $(dirname $1)): MISSED (exit $code)"; fi
find /verif/replays -name "$2-*" -newer "$1" -delete 2>/dev/null

#!/usr/bin/env python3
"""usage: manifest_set.py Cxx category 'technique' 'text' 'level_note' [design_ref] [--no-thorough]
Adds or replaces the check entry for a property and removes it from not_applicable."""
import json,sys
a=sys.argv[1:]
nothorough='--no-thorough' in a
a=[x for x in a if x!='--no-thorough']
pid,cat,tech,text,note=a[:5]
ref=a[5] if len(a)>5 else 'DESIGN.md section 4 '+pid
m=json.load(open('/verif/MANIFEST.json'))
m['checks']=[c for c in m['checks'] if c['property_id']!=pid]
e={"property_id":pid,"quick_cmd":f"./run.sh {pid} quick","thorough_cmd":f"./run.sh {pid} thorough","evidence_file":f"/verif/evidence/{pid}.json",
   "replay_cmd_template":f"./run.sh {pid} quick --replay {{path}}","engine":"verif","level_claimed":{"category":cat,"text":text,"design_ref":ref},"level_note":note,"technique":tech}
if nothorough: del e['thorough_cmd']
m['checks'].append(e)
m['checks'].sort(key=lambda c:c['property_id'])
m['not_applicable']=[n for n in m.get('not_applicable',[]) if n['property_id']!=pid]
json.dump(m,open('/verif/MANIFEST.json','w'),indent=1)
print('checks:',[c['property_id'] for c in m['checks']])

#!/bin/bash
# usage: tools/with_patch.sh <patch.diff> <command...>
# Runs <command> with VERIF_OVERLAY pointing at a go-build overlay in which the files
# touched by the patch (paths relative to /repo, -p1) are replaced by patched copies.
# /repo itself is never modified.  Checks pass VERIF_OVERLAY to `go build -overlay`.
set -e
patch=$(readlink -f "$1"); shift
d=$(mktemp -d /var/tmp/verif-patch-XXXXXX)
trap 'rm -rf "$d"' EXIT
files=$(grep -E '^\+\+\+ ' "$patch" | sed -E 's#^\+\+\+ (b/)?##; s#\t.*##' | grep -v '^/dev/null$' | sort -u)
echo '{"Replace":{' > $d/overlay.json
first=1
for f in $files; do
  mkdir -p "$d/src/$(dirname $f)"
  [ -f /repo/$f ] && cp /repo/$f "$d/src/$f"
done
(cd $d/src && patch -s -p1 < "$patch")
for f in $files; do
  [ $first = 1 ] || echo ',' >> $d/overlay.json
  first=0
  printf '"%s":"%s"' "/repo/$f" "$d/src/$f" >> $d/overlay.json
done
echo '}}' >> $d/overlay.json
export VERIF_OVERLAY=$d/overlay.json
"$@"

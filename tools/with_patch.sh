#!/bin/bash
# usage: tools/with_patch.sh <patch.diff> <command...>
# Runs <command> with VERIF_REPO pointing at a scratch copy of /repo with the patch applied
# (git apply / patch -p1). /repo itself is never modified; the copy is removed afterwards.
# Every check honours VERIF_REPO (see env.sh), so e.g.
#   tools/with_patch.sh my.diff ./run.sh C08 quick
# runs the C08 check against the patched tree.
set -e
patch=$(readlink -f "$1"); shift
d=$(mktemp -d /var/tmp/verif-repo-XXXXXX)
trap 'rm -rf "$d"' EXIT
rsync -a --exclude .git /repo/ $d/
(cd $d && patch -s -p1 < "$patch")
export VERIF_REPO=$d
"$@"

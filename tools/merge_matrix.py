#!/usr/bin/env python3
"""usage: tools/merge_matrix.py <stream .md files...>  -> writes /verif/seeded/RESULTS.md
Merges the result tables written by parallel runs of tools/seed_matrix.sh (one per group of
properties, SEED_RESULTS=<file>) into one table sorted by seed name, and appends the seeds
that a later fix: commit neutralised (meta.json "neutralised_by_fix")."""
import glob
import json
import re
import subprocess
import sys

rows, heads = [], []
for f in sys.argv[1:]:
    for line in open(f):
        if line.startswith('# '):
            heads.append(line.strip())
        elif line.startswith('| C'):
            rows.append(line.rstrip('\n'))
order = {}
for i, r in enumerate(rows):
    order.setdefault(r.split('|')[1].strip(), []).append(r)
head = subprocess.run(['git', '-C', '/repo', 'log', '--format=%h', '-1'], capture_output=True, text=True).stdout.strip()
stamps = sorted(re.findall(r'\d{4}-\d\d-\d\dT[\d:]+Z', ' '.join(heads)))
out = ['# Seeded changes vs. the checks (quick tier; %d parallel streams of tools/seed_matrix.sh started between %s and %s; /repo at the end: %s)' % (len(sys.argv) - 1, stamps[0], stamps[-1], head), '',
       'A change its own check misses is then run against the checks listed for it in the ALSO map of tools/seed_matrix.sh',
       '(cross-property detection), and the memory-level race seeds against the thorough tier (free-running -race pass).', '',
       '| seed | check | result | first signature |', '|---|---|---|---|']
detected = missed = 0
neutral = {}
for mf in glob.glob('/verif/seeded/C*/meta.json'):
    m = json.load(open(mf))
    if m.get('neutralised_by_fix'):
        neutral[mf.split('/')[-2]] = m['neutralised_by_fix']
for name in sorted(order):
    rs = order[name]
    out += rs
    if any('DETECTED' in r for r in rs):
        detected += 1
    elif name in neutral:
        out.append('| %s | - | NEUTRALISED | %s |' % (name, neutral[name].split(':')[0] + ': the change no longer breaks the property on the repaired tree (see meta.json) |'))
    else:
        missed += 1
out += ['', '%d seeds: %d detected, %d neutralised by a later fix, %d not detected.' % (len(order), detected, len([n for n in order if n in neutral and not any('DETECTED' in r for r in order[n])]), missed)]
open('/verif/seeded/RESULTS.md', 'w').write('\n'.join(out) + '\n')
print(out[-1])

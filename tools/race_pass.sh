#!/bin/bash
# usage: tools/race_pass.sh <cxx> [runs-per-scenario] -- <vinstr args as in props/<cxx>/check.sh>
# Auxiliary free-running -race pass (DESIGN.md section 3.4): the same harness bodies, built
# from the instrumented sources in passthrough mode with the race detector, run without the
# scheduler. Sampling, NOT the deciding step of any check. Exit 0: no race reported;
# exit 1: the race detector reported a data race (report on stderr, first 60 lines).
. /verif/env.sh
cd /verif
lc=$1; runs=${2:-20}; shift; shift; [ "$1" = "--" ] && shift
scratch=$(mktemp -d "$VERIF_SCRATCH/verif-race-$lc-XXXXXX")
trap 'rm -rf "$scratch"' EXIT
export GOFLAGS="-mod=mod $VERIF_MODFLAG" GODEBUG=goindex=0
go build -o "$scratch/vinstr" ./cmd/vinstr || exit 2
"$scratch/vinstr" -dir /verif -out "$scratch/instr" "$@" >"$scratch/log" 2>&1 || { cat "$scratch/log" >&2; exit 2; }
if [ -n "${VERIF_EXTRA_OVERLAY:-}" ]; then
  python3 - "$scratch/instr/overlay.json" "$VERIF_EXTRA_OVERLAY" <<'PY'
import json,sys
p=sys.argv[1]; o=json.load(open(p))
for pair in sys.argv[2].split(';'):
    if pair:
        d,s=pair.split('=',1); o['Replace'][d]=s
json.dump(o,open(p,'w'),indent=1)
PY
fi
go build -race -overlay "$scratch/instr/overlay.json" -o "$scratch/$lc" ./props/$lc 2>"$scratch/log" || { cat "$scratch/log" >&2; exit 2; }
VERIF_FREE_RUN=1 VERIF_SEED=${VERIF_SEED:-1} GORACE="halt_on_error=0" "$scratch/$lc" --tier quick --free-run "$runs" 2>"$scratch/race.log"
code=$?
grep "FREE-RUN" "$scratch/race.log" /dev/null 2>/dev/null | head -2
if grep -q "WARNING: DATA RACE" "$scratch/race.log"; then
  n=$(grep -c "WARNING: DATA RACE" "$scratch/race.log")
  echo "RACE-PASS property=$lc data races reported: $n" 
  head -60 "$scratch/race.log" >&2
  exit 1
fi
echo "RACE-PASS property=$lc no data race reported (exit $code)"
exit 0

#!/bin/bash
# usage: tools/import_seed.sh <seed out dir> <Cxx> <name> <result text>
src=$1; prop=$2; name=$3; result=$4
dst=/verif/seeded/$prop-$name
mkdir -p $dst/demo
cp $src/patch.diff $dst/
[ -f $src/demo.md ] && cp $src/demo.md $dst/
for f in $(cd $src && find . -maxdepth 4 \( -name "*_test.go" -o -name "*.go.txt" -o -name 'run.sh' -o -name 'main.go' -o -name '*.graphql' -o -name '*.graphqls' -o -name 'gqlgen.yml' -o -name 'go.mod' \) -not -path '*/graph/generated*' | head -30); do mkdir -p $dst/demo/$(dirname $f); cp $src/$f $dst/demo/$f; done
python3 - "$src/meta.json" "$dst/meta.json" "$prop" "$result" <<'PY'
import json,sys
try: m=json.load(open(sys.argv[1]))
except Exception: m={}
m['property']=sys.argv[3]
m['verified_by_main_session']={'check_result':sys.argv[4],'how':'tools/with_patch.sh patch.diff ./run.sh '+sys.argv[3]+' quick (patched scratch copy of /repo; /repo itself untouched)'}
json.dump(m,open(sys.argv[2],'w'),indent=1)
PY
du -sh $dst | cut -f1

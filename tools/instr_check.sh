#!/bin/bash
# usage: tools/instr_check.sh <cxx> <tier> [vinstr flags and package args...]
# Instruments the listed packages of the tree under test (mechanically, at check time),
# builds /verif/props/<cxx> against them with `go build -overlay`, runs the check and
# removes the scratch directory. Exit code of the check is passed through; a failing
# instrumentation or build is exit 2 (broken machinery, never a violation).
. /verif/env.sh
cd /verif
lc=$1; tier=$2; shift; shift
scratch=$(mktemp -d "$VERIF_SCRATCH/verif-$lc-XXXXXX")
trap 'rm -rf "$scratch"' EXIT
export GOFLAGS="-mod=mod $VERIF_MODFLAG"
export GODEBUG=goindex=0   # the module-cache index ignores -overlay (new imports in instrumented files)
if ! go build -o "$scratch/vinstr" ./cmd/vinstr 2>"$scratch/log"; then cat "$scratch/log" >&2; echo "BROKEN: vinstr build failed" >&2; exit 2; fi
if ! "$scratch/vinstr" -dir /verif -out "$scratch/instr" -stats "$scratch/instr-stats.json" "$@" >"$scratch/log" 2>&1; then cat "$scratch/log" >&2; echo "BROKEN: instrumentation failed" >&2; exit 2; fi
# VERIF_EXTRA_OVERLAY="dst=src;dst=src": files ADDED to packages (export shims for unexported state)
if [ -n "${VERIF_EXTRA_OVERLAY:-}" ]; then
  python3 - "$scratch/instr/overlay.json" "$VERIF_EXTRA_OVERLAY" <<'PY' || { echo "BROKEN: extra overlay" >&2; exit 2; }
import json,sys
p=sys.argv[1]; o=json.load(open(p))
for pair in sys.argv[2].split(';'):
    if pair:
        d,s=pair.split('=',1); o['Replace'][d]=s
json.dump(o,open(p,'w'),indent=1)
PY
fi
if ! go build -overlay "$scratch/instr/overlay.json" -o "$scratch/$lc" ./props/$lc 2>"$scratch/log"; then cat "$scratch/log" >&2; echo "BROKEN: instrumented build of $lc failed" >&2; exit 2; fi
shift $#
VERIF_INSTR_STATS="$scratch/instr-stats.json" "$scratch/$lc" --tier "$tier" ${VERIF_ARGS:-}
exit $?

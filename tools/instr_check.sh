#!/bin/bash
# usage: tools/instr_check.sh <cxx> <tier> [vinstr flags and package args...]
# Instruments the listed packages of the tree under test (mechanically, at check time),
# builds /verif/props/<cxx> against them with `go build -overlay`, runs the check and
# removes the scratch directory. Exit code of the check is passed through; a failing
# instrumentation or build is exit 2 (broken machinery, never a violation).
. /verif/env.sh
cd /verif
lc=$1; tier=$2; shift; shift
scratch=$(mktemp -d "$VERIF_SCRATCH/verif-$lc-XXXXXX")
trap 'rm -rf "$scratch"' EXIT
export GOFLAGS="-mod=mod $VERIF_MODFLAG"
export GODEBUG=goindex=0   # the module-cache index ignores -overlay (new imports in instrumented files)
if ! go build -o "$scratch/vinstr" ./cmd/vinstr 2>"$scratch/log"; then cat "$scratch/log" >&2; echo "BROKEN: vinstr build failed" >&2; exit 2; fi
if ! "$scratch/vinstr" -dir /verif -out "$scratch/instr" -stats "$scratch/instr-stats.json" "$@" >"$scratch/log" 2>&1; then cat "$scratch/log" >&2; echo "BROKEN: instrumentation failed" >&2; exit 2; fi
# VERIF_EXTRA_OVERLAY="dst=src;dst=src": files ADDED to packages (export shims for unexported state)
if [ -n "${VERIF_EXTRA_OVERLAY:-}" ]; then
  python3 - "$scratch/instr/overlay.json" "$VERIF_EXTRA_OVERLAY" <<'PY' || { echo "BROKEN: extra overlay" >&2; exit 2; }
import json,sys
p=sys.argv[1]; o=json.load(open(p))
for pair in sys.argv[2].split(';'):
    if pair:
        d,s=pair.split('=',1); o['Replace'][d]=s
json.dump(o,open(p,'w'),indent=1)
PY
fi
if ! go build -overlay "$scratch/instr/overlay.json" -o "$scratch/$lc" ./props/$lc 2>"$scratch/log"; then cat "$scratch/log" >&2; echo "BROKEN: instrumented build of $lc failed" >&2; exit 2; fi
shift $#
VERIF_INSTR_STATS="$scratch/instr-stats.json" "$scratch/$lc" --tier "$tier" ${VERIF_ARGS:-}
code=$?
# Auxiliary free-running -race pass (thorough tier only; sampling, reported separately in
# the evidence, DESIGN.md section 3.4). A reported data race is a violation of the
# "no data race" clause of the property.
if [ "$tier" = thorough ] && [ -n "${VERIF_RACE_RUNS:-}" ] && [ -z "${VERIF_ARGS:-}" ] && [ $code -le 1 ]; then
  if go build -race -overlay "$scratch/instr/overlay.json" -o "$scratch/$lc-race" ./props/$lc 2>"$scratch/log"; then
    VERIF_FREE_RUN=1 VERIF_SEED=${VERIF_SEED:-1} GORACE="halt_on_error=0" "$scratch/$lc-race" --tier quick --free-run "$VERIF_RACE_RUNS" >"$scratch/race.out" 2>"$scratch/race.log"
    races=$(grep -c "WARNING: DATA RACE" "$scratch/race.log")
    up=$(echo $lc | tr a-z A-Z)
    python3 - "$up" "$races" "$VERIF_RACE_RUNS" "$(cat $scratch/race.out | tail -1)" <<'PY'
import json,sys
pid,races,runs,line=sys.argv[1],int(sys.argv[2]),int(sys.argv[3]),sys.argv[4]
p=f'/verif/evidence/{pid}.json'
e=json.load(open(p))
e['coverage']['race_pass']={'runs_per_scenario':runs,'data_races_reported':races,'summary':line,'note':'auxiliary free-running -race pass: sampling, not the deciding step'}
if races: e['violations']=e.get('violations',0)+1
json.dump(e,open(p,'w'),indent=1)
PY
    if [ "$races" -gt 0 ]; then
      mkdir -p /verif/replays; rp=/verif/replays/$up-race-$$.txt; head -120 "$scratch/race.log" > $rp
      echo "VIOLATION property=$up replay=$rp"
      echo "  signature: data-race (free-running -race pass)"
      code=1
    fi
  else
    cat "$scratch/log" >&2; echo "BROKEN: race build failed" >&2; exit 2
  fi
fi
exit $code

#!/bin/bash
# usage: tools/seed_matrix.sh [quick|thorough]  -> writes /verif/seeded/RESULTS.md
# Runs every seeded change against the check of its own property (and prints the result).
cd /verif
tier=${1:-quick}
out=/verif/seeded/RESULTS.md
echo "# Seeded changes vs. the check of their property ($tier tier, $(date -u +%FT%TZ), /repo $(git -C /repo log --format=%h -1))" > $out
echo >> $out
echo "| seed | property | result | first signature |" >> $out
echo "|---|---|---|---|" >> $out
for d in seeded/C*/; do
  name=$(basename $d); prop=${name%%-*}
  res=$(tools/try_seed.sh $d/patch.diff $prop $tier 2>&1)
  r=$(echo "$res" | grep "^RESULT" | sed 's/^RESULT [^:]*: //')
  sig=$(echo "$res" | grep "signature:" | head -1 | sed 's/^ *signature: //' | cut -c1-90)
  echo "| $name | $prop | $r | $sig |" >> $out
  echo "$name: $r"
done

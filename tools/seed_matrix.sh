#!/bin/bash
# usage: tools/seed_matrix.sh [quick|thorough] [name-filter-regex]  -> writes /verif/seeded/RESULTS.md
# Runs every seeded change against the check of its own property; a change its own check
# misses is then run against the checks listed for it in ALSO (cross-property detection).
cd /verif
tier=${1:-quick}
filter=${2:-.}
out=${SEED_RESULTS:-/verif/seeded/RESULTS.md}
declare -A ALSO=(
  [C05-ws-init-timeout-reader-leak]="C11"
  [C12-writejson-pooled-buffer]="C07"
  [C09-cache-before-validation]="C03"
  [C10-pong-skips-write-lock]="C11"
  [C01-collectfields-aliases-ast-slice]="C06"
  [C01-dispatch-exits-early-when-ctx-done]="C06"
  [C04-ws-recover-skips-cleanup]="C11 C05"
  [C04-semaphore-slot-leak-on-element-panic]="C05"
  [C04-deferred-invalids-on-parent]="C13"
  [C15-querycache-key-collapses-whitespace]="C07"
  [C07-collectfields-reuses-cached-selection-slice]="C06"
  [C07-ws-read-loop-message-hoisted]="C11"
  [C16-mutators-run-in-reverse-order]="C03"
  [C10-cache-before-validation-recover-hook]="C03"
  [C03-post-release-keeps-variables]="C07"
  [C15-post-params-released-twice]="C07"
  [C15-selection-narrows-cached-document]="C03"
  [C02-bindargs-schema-order-index]="C17"
  [C08-query-exec-shared-payload-buffer]="C13"
  [C06-deferred-closure-uses-outer-ctx]="C13"
  [C07-oftype-writes-into-shared-schema]="C16"
  [C05-slot-released-after-marshal-not-deferred]="C04"
  [C05-stop-deletes-active-id-immediately]="C11"
  [C07-defaultrecover-shared-sentinel-error]="C04"
  [C01-hasfielderror-newest-only]="C06"
  [C01-serial-only-when-root-named-mutation]="C06"
  [C13-multipart-batch-hasnext-any]="C12"
  [C02-no-variables-key-skips-coercion]="C03"
  [C17-prune-skip-object-resolution-shadowed-arg]="C19"
  [C08-deferred-fieldset-window-overwrites-next-key]="C13"
  [C15-last-parameter-mutator-wins]="C03"
  [C04-adderror-returns-early-on-done-context]="C06"
  [C06-deferred-group-decrements-own-pending]="C13"
  [C06-list-element-wg-done-before-recover]="C04"
  [C07-apq-registered-hash-replaces-request-text]="C15"
  [C05-ws-pongonly-goroutine-bound-to-connection-context]="C11"
  [C08-followschema-subscription-buffer-never-reset]="C04"
  [C02-query-cached-before-validation]="C03"
  [C13-multipart-queue-lock-split-backing-array-reuse]="C12"
)
# memory-level races: no interleaving of synchronisation operations exposes them, the
# free-running -race pass of the thorough tier does
declare -A THOROUGH=(
  [C06-adderror-appends-under-read-lock]=1
  [C06-isconcurrent-by-type-fields-plain-increment]=1
  [C06-registerextension-check-before-lock]=1
  [C03-lazy-extension-chain-stale-flag-cleared-early]=1
)
echo "# Seeded changes vs. the checks ($tier tier, $(date -u +%FT%TZ), /repo $(git -C /repo log --format=%h -1))" > $out
echo >> $out
echo "| seed | check | result | first signature |" >> $out
echo "|---|---|---|---|" >> $out
for d in seeded/C*/; do
  name=$(basename $d); prop=${name%%-*}
  echo "$name" | grep -Eq "$filter" || continue
  for p in $prop ${ALSO[$name]}; do
    res=$(tools/try_seed.sh $d/patch.diff $p $tier 2>&1)
    r=$(echo "$res" | grep "^RESULT" | sed 's/^RESULT [^:]*: //')
    sig=$(echo "$res" | grep "signature:" | head -1 | sed 's/^ *signature: //' | cut -c1-90 | tr '|' '/')
    echo "| $name | $p | $r | $sig |" >> $out
    echo "$name [$p]: $r"
    case "$r" in DETECTED*) break;; esac
  done
  case "$r" in DETECTED*) ;; *)
    if [ -n "${THOROUGH[$name]:-}" ] && [ "$tier" = quick ]; then
      res=$(tools/try_seed.sh $d/patch.diff $prop thorough 2>&1)
      r=$(echo "$res" | grep "^RESULT" | sed 's/^RESULT [^:]*: //')
      sig=$(echo "$res" | grep "signature:" | head -1 | sed 's/^ *signature: //' | cut -c1-90 | tr '|' '/')
      echo "| $name | $prop (thorough) | $r | $sig |" >> $out
      echo "$name [$prop thorough]: $r"
    fi;;
  esac
done

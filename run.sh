#!/bin/bash
# usage: run.sh <Cxx> <quick|thorough> [extra args]
# Rebuilds the check for property Cxx from /repo's current working tree and runs it.
set -u
cd /verif
. ./env.sh
prop=$1; tier=${2:-quick}; shift; shift || true
lc=$(echo "$prop" | tr 'A-Z' 'a-z')
export VERIF_TIER=$tier
if [ -x props/$lc/check.sh ]; then
  exec props/$lc/check.sh "$tier" "$@"
fi
mkdir -p bin
if ! go build $VERIF_MODFLAG -o bin/$lc ./props/$lc 2>bin/$lc.buildlog; then
  cat bin/$lc.buildlog >&2
  echo "BROKEN: build of check $prop failed" >&2
  exit 2
fi
exec bin/$lc --tier "$tier" "$@"

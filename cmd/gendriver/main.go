// gendriver runs /repo's api.Generate in the current directory, exactly like
// `gqlgen generate`, optionally adding the stubgen plugin. It is built from the current
// /repo working tree (optionally through a go-build overlay) by the checks.
//
//	gendriver [-config gqlgen.yml] [-stub graph/stub.go] [-stubtype Stub]
//
// exit 0: generation succeeded; exit 3: api.Generate returned an error (printed);
// exit 4: api.Generate panicked (stack printed).
package main

import (
	"errors"
	"flag"
	"fmt"
	"io"
	"io/fs"
	"log"
	"os"
	"runtime/debug"

	"github.com/99designs/gqlgen/api"
	"github.com/99designs/gqlgen/codegen/config"
	"github.com/99designs/gqlgen/plugin/stubgen"
)

func main() {
	cfgFile := flag.String("config", "", "config file (default: search upwards like gqlgen)")
	stub := flag.String("stub", "", "emit a stubgen file at this path")
	stubType := flag.String("stubtype", "Stub", "stub type name")
	verbose := flag.Bool("v", false, "verbose")
	flag.Parse()
	if !*verbose {
		log.SetOutput(io.Discard)
	}
	defer func() {
		if r := recover(); r != nil {
			fmt.Fprintf(os.Stderr, "GENERATE PANIC: %v\n%s\n", r, debug.Stack())
			os.Exit(4)
		}
	}()
	var cfg *config.Config
	var err error
	if *cfgFile != "" {
		cfg, err = config.LoadConfig(*cfgFile)
	} else {
		cfg, err = config.LoadConfigFromDefaultLocations()
		if errors.Is(err, fs.ErrNotExist) {
			cfg, err = config.LoadDefaultConfig()
		}
	}
	if err != nil {
		fmt.Fprintf(os.Stderr, "CONFIG ERROR: %v\n", err)
		os.Exit(3)
	}
	var opts []api.Option
	if *stub != "" {
		opts = append(opts, api.AddPlugin(stubgen.New(*stub, *stubType)))
	}
	if err := api.Generate(cfg, opts...); err != nil {
		fmt.Fprintf(os.Stderr, "GENERATE ERROR: %v\n", err)
		os.Exit(3)
	}
}

// vinstr is the type-directed source instrumenter (DESIGN.md section 3.1). It loads the
// named packages from source, rewrites concurrency constructs to calls into verif/vrt,
// writes the rewritten files to an output directory and emits a `go build -overlay` map.
//
//	vinstr -dir <module dir> -out <dir> [-maprange] [-notime] [-globals pkgpath.var,...] pkg[:fileRegexp]...
//
// A construct that cannot be handled is a hard error (exit 2), never a silent gap.
package main

import (
	"bytes"
	"crypto/sha256"
	"encoding/hex"
	"encoding/json"
	"flag"
	"fmt"
	"go/ast"
	"go/format"
	"go/token"
	"go/types"
	"os"
	"path/filepath"
	"regexp"
	"sort"
	"strings"

	"golang.org/x/tools/go/ast/astutil"
	"golang.org/x/tools/go/packages"
)

const vrtName = "vrt__"

var (
	flagDir      = flag.String("dir", ".", "directory to load packages from (a module that can resolve them)")
	flagOut      = flag.String("out", "", "output directory")
	flagMapRange = flag.Bool("maprange", false, "rewrite range-over-map to vrt.MapKeys order")
	flagNoTime   = flag.Bool("notime", false, "do not swap package time")
	flagNoSync   = flag.Bool("nosync", false, "do not swap sync / sync/atomic / context and do not rewrite go/chan/select (map-range only mode)")
	flagGlobals  = flag.String("globals", "", "comma separated pkgpath.var package-level variables whose accesses become visible")
	flagOverlay  = flag.String("overlay", "", "existing overlay JSON to load sources through (and to merge into the output)")
	flagStats    = flag.String("stats", "", "write rewrite statistics JSON here")
)

type stats struct {
	Files      int            `json:"files"`
	Rewrites   map[string]int `json:"rewrites"`
	MapSites   []string       `json:"map_sites"`
	Unordered  []string       `json:"unordered_map_sites"`
	GoStmts    int            `json:"go_statements"`
	GlobalHits int            `json:"global_access_points"`
}

var st = stats{Rewrites: map[string]int{}}

// oldModule: the package's module declares a language version below go1.21 (or none).
func oldModule(pkg *packages.Package) bool {
	if pkg.Module == nil || pkg.Module.GoVersion == "" {
		return true
	}
	var major, minor int
	fmt.Sscanf(pkg.Module.GoVersion, "%d.%d", &major, &minor)
	return major == 1 && minor < 21
}

func fatal(format string, a ...any) {
	fmt.Fprintf(os.Stderr, "vinstr: "+format+"\n", a...)
	os.Exit(2)
}

type rewriter struct {
	pkg     *packages.Package
	fset    *token.FileSet
	info    *types.Info
	file    *ast.File
	usedVrt bool
	counter int
	globals map[types.Object]string
	relName string
}

func (r *rewriter) site(pos token.Pos) string {
	p := r.fset.Position(pos)
	return fmt.Sprintf("%s/%s:%d", r.pkg.PkgPath, filepath.Base(p.Filename), p.Line)
}

func (r *rewriter) tmp(prefix string) *ast.Ident {
	r.counter++
	return ast.NewIdent(fmt.Sprintf("__%s%d", prefix, r.counter))
}

func (r *rewriter) vrtCall(fn string, args ...ast.Expr) *ast.CallExpr {
	r.usedVrt = true
	return &ast.CallExpr{Fun: &ast.SelectorExpr{X: ast.NewIdent(vrtName), Sel: ast.NewIdent(fn)}, Args: args}
}

func strLit(s string) *ast.BasicLit {
	return &ast.BasicLit{Kind: token.STRING, Value: fmt.Sprintf("%q", s)}
}

func (r *rewriter) isChan(e ast.Expr) bool {
	t := r.info.TypeOf(e)
	if t == nil {
		return false
	}
	_, ok := t.Underlying().(*types.Chan)
	return ok
}

func (r *rewriter) mapKeyOrdered(e ast.Expr) (isMap, ordered bool) {
	t := r.info.TypeOf(e)
	if t == nil {
		return false, false
	}
	m, ok := t.Underlying().(*types.Map)
	if !ok {
		return false, false
	}
	b, ok := m.Key().Underlying().(*types.Basic)
	if !ok {
		return true, false
	}
	return true, b.Info()&(types.IsInteger|types.IsFloat|types.IsString) != 0
}

func (r *rewriter) isBuiltin(id *ast.Ident, name string) bool {
	if id.Name != name {
		return false
	}
	_, ok := r.info.Uses[id].(*types.Builtin)
	return ok
}

// apply rewrites a subtree and returns the new root.
func (r *rewriter) apply(n ast.Node) ast.Node {
	if n == nil {
		return nil
	}
	return astutil.Apply(n, r.pre, r.post)
}

func (r *rewriter) applyExpr(e ast.Expr) ast.Expr {
	if e == nil {
		return nil
	}
	return r.apply(e).(ast.Expr)
}

func (r *rewriter) applyStmts(l []ast.Stmt) []ast.Stmt {
	b := &ast.BlockStmt{List: l}
	return r.apply(b).(*ast.BlockStmt).List
}

func unparen(e ast.Expr) ast.Expr {
	for {
		p, ok := e.(*ast.ParenExpr)
		if !ok {
			return e
		}
		e = p.X
	}
}

func recvOf(e ast.Expr) (ast.Expr, bool) {
	u, ok := unparen(e).(*ast.UnaryExpr)
	if ok && u.Op == token.ARROW {
		return u.X, true
	}
	return nil, false
}

func (r *rewriter) pre(c *astutil.Cursor) bool {
	if *flagNoSync {
		if rs, ok := c.Node().(*ast.RangeStmt); ok {
			return r.preRange(c, rs)
		}
		return true
	}
	switch n := c.Node().(type) {
	case *ast.GoStmt:
		c.Replace(r.rewriteGo(n))
		return false
	case *ast.SelectStmt:
		c.Replace(r.rewriteSelect(n))
		return false
	case *ast.RangeStmt:
		return r.preRange(c, n)
	case *ast.AssignStmt:
		if len(n.Lhs) == 2 && len(n.Rhs) == 1 {
			if ch, ok := recvOf(n.Rhs[0]); ok {
				n.Rhs[0] = r.vrtCall("Recv2", r.applyExpr(ch))
				st.Rewrites["recv2"]++
			}
		}
	case *ast.ValueSpec:
		if len(n.Names) == 2 && len(n.Values) == 1 {
			if ch, ok := recvOf(n.Values[0]); ok {
				n.Values[0] = r.vrtCall("Recv2", r.applyExpr(ch))
				st.Rewrites["recv2"]++
			}
		}
	}
	return true
}

func (r *rewriter) preRange(c *astutil.Cursor, n *ast.RangeStmt) bool {
	if !*flagNoSync && r.isChan(n.X) {
		c.Replace(r.rewriteRangeChan(n))
		return false
	}
	if *flagMapRange {
		if isMap, ordered := r.mapKeyOrdered(n.X); isMap {
			if _, labeled := c.Parent().(*ast.LabeledStmt); labeled || !ordered {
				st.Unordered = append(st.Unordered, r.site(n.Pos()))
				return true
			}
			c.Replace(r.rewriteRangeMap(n))
			return false
		}
	}
	return true
}

func (r *rewriter) post(c *astutil.Cursor) bool {
	if *flagNoSync {
		return true
	}
	switch n := c.Node().(type) {
	case *ast.UnaryExpr:
		if n.Op == token.ARROW {
			c.Replace(r.vrtCall("Recv", n.X))
			st.Rewrites["recv"]++
		}
	case *ast.SendStmt:
		c.Replace(&ast.ExprStmt{X: r.vrtCall("Send", n.Chan, n.Value)})
		st.Rewrites["send"]++
	case *ast.CallExpr:
		if id, ok := n.Fun.(*ast.Ident); ok && r.isBuiltin(id, "close") && len(n.Args) == 1 {
			c.Replace(r.vrtCall("Close", n.Args[0]))
			st.Rewrites["close"]++
		}
	}
	return true
}

// go f(a, b)  ==>  { __fn := f; __a0, __a1 := a, b; vrt.Go(site, func() { __fn(__a0, __a1) }) }
func (r *rewriter) rewriteGo(g *ast.GoStmt) ast.Stmt {
	st.GoStmts++
	st.Rewrites["go"]++
	site := r.site(g.Pos())
	call := g.Call
	if fl, ok := call.Fun.(*ast.FuncLit); ok && len(call.Args) == 0 && (fl.Type.Results == nil || len(fl.Type.Results.List) == 0) {
		fl.Body = r.apply(fl.Body).(*ast.BlockStmt)
		return &ast.ExprStmt{X: r.vrtCall("Go", strLit(site), fl)}
	}
	var list []ast.Stmt
	fn := r.tmp("fn")
	list = append(list, &ast.AssignStmt{Lhs: []ast.Expr{fn}, Tok: token.DEFINE, Rhs: []ast.Expr{r.applyExpr(call.Fun)}})
	var args []ast.Expr
	for _, a := range call.Args {
		t := r.tmp("a")
		list = append(list, &ast.AssignStmt{Lhs: []ast.Expr{t}, Tok: token.DEFINE, Rhs: []ast.Expr{r.applyExpr(a)}})
		args = append(args, t)
	}
	inner := &ast.CallExpr{Fun: fn, Args: args, Ellipsis: call.Ellipsis}
	if call.Ellipsis.IsValid() {
		inner.Ellipsis = 1
	}
	body := &ast.BlockStmt{List: []ast.Stmt{&ast.ExprStmt{X: inner}}}
	list = append(list, &ast.ExprStmt{X: r.vrtCall("Go", strLit(site), &ast.FuncLit{Type: &ast.FuncType{Params: &ast.FieldList{}}, Body: body})})
	return &ast.BlockStmt{List: list}
}

// for k := range ch { body }  ==>  for __ch := ch; ; { k, __ok := vrt.Recv2(__ch); if !__ok { break }; body }
func (r *rewriter) rewriteRangeChan(n *ast.RangeStmt) ast.Stmt {
	st.Rewrites["range-chan"]++
	chv := r.tmp("ch")
	okv := r.tmp("ok")
	init := &ast.AssignStmt{Lhs: []ast.Expr{chv}, Tok: token.DEFINE, Rhs: []ast.Expr{r.applyExpr(n.X)}}
	var head []ast.Stmt
	recv := r.vrtCall("Recv2", chv)
	if n.Key == nil {
		head = append(head, &ast.AssignStmt{Lhs: []ast.Expr{ast.NewIdent("_"), okv}, Tok: token.DEFINE, Rhs: []ast.Expr{recv}})
	} else if n.Tok == token.DEFINE {
		head = append(head, &ast.AssignStmt{Lhs: []ast.Expr{n.Key, okv}, Tok: token.DEFINE, Rhs: []ast.Expr{recv}})
	} else {
		head = append(head, &ast.DeclStmt{Decl: &ast.GenDecl{Tok: token.VAR, Specs: []ast.Spec{&ast.ValueSpec{Names: []*ast.Ident{okv}, Type: ast.NewIdent("bool")}}}})
		head = append(head, &ast.AssignStmt{Lhs: []ast.Expr{n.Key, okv}, Tok: token.ASSIGN, Rhs: []ast.Expr{recv}})
	}
	head = append(head, &ast.IfStmt{Cond: &ast.UnaryExpr{Op: token.NOT, X: okv}, Body: &ast.BlockStmt{List: []ast.Stmt{&ast.BranchStmt{Tok: token.BREAK}}}})
	body := r.apply(n.Body).(*ast.BlockStmt)
	return &ast.ForStmt{Init: init, Body: &ast.BlockStmt{List: append(head, body.List...)}}
}

// for k, v := range m { body } ==> for _, k := range vrt.MapKeys(site, m) { v, __ok := m[k]; if !__ok { continue }; body }
func (r *rewriter) rewriteRangeMap(n *ast.RangeStmt) ast.Stmt {
	st.Rewrites["range-map"]++
	site := r.site(n.Pos())
	st.MapSites = append(st.MapSites, site)
	mv := r.tmp("m")
	x := r.applyExpr(n.X)
	body := r.apply(n.Body).(*ast.BlockStmt)
	kv := r.tmp("k")
	var head []ast.Stmt
	keyIsBlank := n.Key == nil || isBlank(n.Key)
	valIsBlank := n.Value == nil || isBlank(n.Value)
	okv := r.tmp("ok")
	// existence check (entries deleted during iteration are skipped, as in Go)
	if valIsBlank {
		head = append(head, &ast.AssignStmt{Lhs: []ast.Expr{ast.NewIdent("_"), okv}, Tok: token.DEFINE, Rhs: []ast.Expr{&ast.IndexExpr{X: mv, Index: kv}}})
	} else if n.Tok == token.DEFINE {
		head = append(head, &ast.AssignStmt{Lhs: []ast.Expr{n.Value, okv}, Tok: token.DEFINE, Rhs: []ast.Expr{&ast.IndexExpr{X: mv, Index: kv}}})
	} else {
		head = append(head, &ast.DeclStmt{Decl: &ast.GenDecl{Tok: token.VAR, Specs: []ast.Spec{&ast.ValueSpec{Names: []*ast.Ident{okv}, Type: ast.NewIdent("bool")}}}})
		head = append(head, &ast.AssignStmt{Lhs: []ast.Expr{n.Value, okv}, Tok: token.ASSIGN, Rhs: []ast.Expr{&ast.IndexExpr{X: mv, Index: kv}}})
	}
	head = append(head, &ast.IfStmt{Cond: &ast.UnaryExpr{Op: token.NOT, X: okv}, Body: &ast.BlockStmt{List: []ast.Stmt{&ast.BranchStmt{Tok: token.CONTINUE}}}})
	if !keyIsBlank {
		tok := n.Tok
		head = append(head, &ast.AssignStmt{Lhs: []ast.Expr{n.Key}, Tok: tok, Rhs: []ast.Expr{kv}})
		if tok == token.DEFINE {
			// avoid "declared and not used" when the body never reads the key
			head = append(head, &ast.AssignStmt{Lhs: []ast.Expr{ast.NewIdent("_")}, Tok: token.ASSIGN, Rhs: []ast.Expr{n.Key}})
		}
	}
	inner := &ast.RangeStmt{Key: ast.NewIdent("_"), Value: kv, Tok: token.DEFINE, X: r.vrtCall("MapKeys", strLit(site), mv), Body: &ast.BlockStmt{List: append(head, body.List...)}}
	// for __m := m; ; { inner; break } keeps a single statement (labels stay legal for break only)
	return &ast.BlockStmt{List: []ast.Stmt{
		&ast.AssignStmt{Lhs: []ast.Expr{mv}, Tok: token.DEFINE, Rhs: []ast.Expr{x}},
		inner,
	}}
}

func isBlank(e ast.Expr) bool {
	id, ok := e.(*ast.Ident)
	return ok && id.Name == "_"
}

// select rewriting, see vrt/chan.go
func (r *rewriter) rewriteSelect(s *ast.SelectStmt) ast.Stmt {
	st.Rewrites["select"]++
	if len(s.Body.List) == 0 {
		return &ast.ExprStmt{X: r.vrtCall("BlockForever")}
	}
	var handles []ast.Expr
	var hvals []ast.Expr
	sw := &ast.SwitchStmt{Body: &ast.BlockStmt{}}
	hasDefault := false
	idx := 0
	for _, cl := range s.Body.List {
		cc := cl.(*ast.CommClause)
		body := r.applyStmts(cc.Body)
		if cc.Comm == nil {
			hasDefault = true
			sw.Body.List = append(sw.Body.List, &ast.CaseClause{List: nil, Body: body})
			continue
		}
		h := r.tmp("h")
		var pre []ast.Stmt
		switch cm := cc.Comm.(type) {
		case *ast.SendStmt:
			hvals = append(hvals, r.vrtCall("SendCase", r.applyExpr(cm.Chan), r.applyExpr(cm.Value)))
		case *ast.ExprStmt:
			ch, ok := recvOf(cm.X)
			if !ok {
				fatal("%s: unsupported select case", r.site(cm.Pos()))
			}
			hvals = append(hvals, r.vrtCall("RecvCase", r.applyExpr(ch)))
		case *ast.AssignStmt:
			if len(cm.Rhs) != 1 {
				fatal("%s: unsupported select case", r.site(cm.Pos()))
			}
			ch, ok := recvOf(cm.Rhs[0])
			if !ok {
				fatal("%s: unsupported select case", r.site(cm.Pos()))
			}
			hvals = append(hvals, r.vrtCall("RecvCase", r.applyExpr(ch)))
			rhs := []ast.Expr{&ast.CallExpr{Fun: &ast.SelectorExpr{X: h, Sel: ast.NewIdent("Val")}}}
			if len(cm.Lhs) == 2 {
				rhs = append(rhs, &ast.CallExpr{Fun: &ast.SelectorExpr{X: h, Sel: ast.NewIdent("OK")}})
			}
			var lhs []ast.Expr
			for _, l := range cm.Lhs {
				lhs = append(lhs, r.applyExpr(l))
			}
			pre = append(pre, &ast.AssignStmt{Lhs: lhs, Tok: cm.Tok, Rhs: rhs})
			if cm.Tok == token.DEFINE {
				for _, l := range lhs {
					if !isBlank(l) {
						pre = append(pre, &ast.AssignStmt{Lhs: []ast.Expr{ast.NewIdent("_")}, Tok: token.ASSIGN, Rhs: []ast.Expr{l}})
					}
				}
			}
		default:
			fatal("%s: unsupported select case", r.site(cc.Pos()))
		}
		handles = append(handles, h)
		sw.Body.List = append(sw.Body.List, &ast.CaseClause{
			List: []ast.Expr{&ast.BasicLit{Kind: token.INT, Value: fmt.Sprint(idx)}},
			Body: append(pre, body...),
		})
		idx++
	}
	dflt := "false"
	if hasDefault {
		dflt = "true"
	} else {
		// keep the statement terminating when the select was: the last case becomes the
		// switch's default clause (Select returns 0..n-1 when there is no default)
		for i := len(sw.Body.List) - 1; i >= 0; i-- {
			if cc := sw.Body.List[i].(*ast.CaseClause); cc.List != nil {
				cc.List = nil
				break
			}
		}
	}
	args := append([]ast.Expr{ast.NewIdent(dflt)}, handles...)
	sw.Tag = r.vrtCall("Select", args...)
	if len(handles) > 0 {
		sw.Init = &ast.AssignStmt{Lhs: handles, Tok: token.DEFINE, Rhs: hvals}
	}
	return sw
}

// addGlobalPoints inserts vrt.Access(name, write) before statements that mention a
// configured package-level variable.
func (r *rewriter) addGlobalPoints(f *ast.File) {
	if len(r.globals) == 0 {
		return
	}
	var visitList func(list []ast.Stmt) []ast.Stmt
	mentions := func(n ast.Node) (string, bool, bool) {
		name, found, write := "", false, false
		if n == nil {
			return name, found, write
		}
		ast.Inspect(n, func(x ast.Node) bool {
			switch x := x.(type) {
			case *ast.BlockStmt:
				return false // nested bodies are handled on their own
			case *ast.FuncLit:
				return false
			case *ast.AssignStmt:
				for _, l := range x.Lhs {
					if id, ok := l.(*ast.Ident); ok {
						if nm, ok := r.globals[r.info.ObjectOf(id)]; ok {
							name, found, write = nm, true, true
						}
					}
				}
			case *ast.Ident:
				if nm, ok := r.globals[r.info.ObjectOf(x)]; ok {
					name, found = nm, true
				}
			}
			return true
		})
		return name, found, write
	}
	header := func(s ast.Stmt) ast.Node {
		switch s := s.(type) {
		case *ast.ForStmt:
			return &ast.BlockStmt{} // conditions re-evaluated per iteration: not supported as headers
		case *ast.RangeStmt:
			return s.X
		case *ast.IfStmt:
			if s.Init != nil {
				return &ast.ExprStmt{X: &ast.CallExpr{Fun: ast.NewIdent("_"), Args: []ast.Expr{s.Cond}}}
			}
			return s.Cond
		case *ast.SwitchStmt:
			return s.Tag
		}
		return s
	}
	visitList = func(list []ast.Stmt) []ast.Stmt {
		var out []ast.Stmt
		for _, s := range list {
			if name, found, write := mentions(header(s)); found {
				w := "false"
				if write {
					w = "true"
				}
				out = append(out, &ast.ExprStmt{X: r.vrtCall("Access", strLit(name), ast.NewIdent(w))})
				st.GlobalHits++
			}
			out = append(out, s)
		}
		return out
	}
	ast.Inspect(f, func(n ast.Node) bool {
		switch n := n.(type) {
		case *ast.BlockStmt:
			n.List = visitList(n.List)
		case *ast.CaseClause:
			n.Body = visitList(n.Body)
		case *ast.CommClause:
			n.Body = visitList(n.Body)
		}
		return true
	})
}

var swaps = map[string][2]string{
	"sync":        {"sync", "verif/vrt/vsync"},
	"sync/atomic": {"atomic", "verif/vrt/vatomic"},
	"context":     {"context", "verif/vrt/vcontext"},
	"time":        {"time", "verif/vrt/vtime"},
}

func (r *rewriter) rewriteImports(f *ast.File) {
	if *flagNoSync {
		return
	}
	for _, imp := range f.Imports {
		p := strings.Trim(imp.Path.Value, `"`)
		sw, ok := swaps[p]
		if !ok || (p == "time" && *flagNoTime) {
			continue
		}
		if imp.Name != nil && (imp.Name.Name == "." || imp.Name.Name == "_") {
			fatal("%s: dot/blank import of %s cannot be swapped", r.site(imp.Pos()), p)
		}
		if imp.Name == nil {
			imp.Name = ast.NewIdent(sw[0])
		}
		imp.Path = &ast.BasicLit{Kind: token.STRING, Value: fmt.Sprintf("%q", sw[1])}
		imp.EndPos = 0
		st.Rewrites["import:"+p]++
	}
}

func keepComments(f *ast.File) {
	// Drop ordinary comments (they can be displaced by the printer into positions where
	// they swallow code); keep //go: directives and everything before the package clause.
	var keep []*ast.CommentGroup
	for _, g := range f.Comments {
		if g.End() < f.Package {
			keep = append(keep, g)
			continue
		}
		var l []*ast.Comment
		for _, c := range g.List {
			if strings.HasPrefix(c.Text, "//go:") {
				l = append(l, c)
			}
		}
		if len(l) > 0 {
			keep = append(keep, &ast.CommentGroup{List: l})
		}
	}
	f.Comments = keep
	// detach doc comments that were dropped
	ast.Inspect(f, func(n ast.Node) bool {
		switch n := n.(type) {
		case *ast.FuncDecl:
			n.Doc = filterDoc(n.Doc)
		case *ast.GenDecl:
			n.Doc = filterDoc(n.Doc)
		case *ast.Field:
			n.Doc, n.Comment = nil, nil
		case *ast.ValueSpec:
			n.Doc, n.Comment = filterDoc(n.Doc), nil
		case *ast.TypeSpec:
			n.Doc, n.Comment = nil, nil
		case *ast.ImportSpec:
			n.Doc, n.Comment = nil, nil
		}
		return true
	})
}

func filterDoc(g *ast.CommentGroup) *ast.CommentGroup {
	if g == nil {
		return nil
	}
	var l []*ast.Comment
	for _, c := range g.List {
		if strings.HasPrefix(c.Text, "//go:") {
			l = append(l, c)
		}
	}
	if len(l) == 0 {
		return nil
	}
	return &ast.CommentGroup{List: l}
}

func main() {
	flag.Parse()
	if *flagOut == "" || flag.NArg() == 0 {
		fatal("usage: vinstr -dir D -out O pkg[:fileRegexp]...")
	}
	type target struct {
		pattern string
		re      *regexp.Regexp
	}
	var targets []target
	var patterns []string
	for _, a := range flag.Args() {
		t := target{pattern: a}
		if i := strings.Index(a, ":"); i >= 0 {
			t.pattern = a[:i]
			t.re = regexp.MustCompile(a[i+1:])
		}
		targets = append(targets, t)
		patterns = append(patterns, t.pattern)
	}
	overlay := map[string]string{}
	cfg := &packages.Config{
		Mode: packages.NeedName | packages.NeedFiles | packages.NeedCompiledGoFiles | packages.NeedSyntax | packages.NeedTypes | packages.NeedTypesInfo | packages.NeedImports | packages.NeedModule,
		Dir:  *flagDir,
		Env:  os.Environ(),
	}
	if *flagOverlay != "" {
		b, err := os.ReadFile(*flagOverlay)
		if err != nil {
			fatal("overlay: %v", err)
		}
		var ov struct{ Replace map[string]string }
		if err := json.Unmarshal(b, &ov); err != nil {
			fatal("overlay: %v", err)
		}
		cfg.Overlay = map[string][]byte{}
		for k, v := range ov.Replace {
			overlay[k] = v
			src, err := os.ReadFile(v)
			if err != nil {
				fatal("overlay: %v", err)
			}
			cfg.Overlay[k] = src
		}
	}
	pkgs, err := packages.Load(cfg, patterns...)
	if err != nil {
		fatal("load: %v", err)
	}
	if packages.PrintErrors(pkgs) > 0 {
		fatal("packages have errors")
	}
	if len(pkgs) < len(patterns) {
		fatal("loaded %d packages for %d patterns (a pattern did not resolve; go list problem?)", len(pkgs), len(patterns))
	}
	globalNames := map[string]bool{}
	for _, g := range strings.Split(*flagGlobals, ",") {
		if g != "" {
			globalNames[g] = true
		}
	}
	if err := os.MkdirAll(*flagOut, 0o755); err != nil {
		fatal("%v", err)
	}
	sort.Slice(pkgs, func(i, j int) bool { return pkgs[i].PkgPath < pkgs[j].PkgPath })
	for _, pkg := range pkgs {
		var re *regexp.Regexp
		for _, t := range targets {
			if t.re != nil && (t.pattern == pkg.PkgPath || strings.HasSuffix(pkg.PkgPath, strings.TrimPrefix(t.pattern, "./"))) {
				re = t.re
			}
		}
		globals := map[types.Object]string{}
		for g := range globalNames {
			i := strings.LastIndex(g, ".")
			if g[:i] == pkg.PkgPath {
				obj := pkg.Types.Scope().Lookup(g[i+1:])
				if obj == nil {
					fatal("global %s not found", g)
				}
				globals[obj] = g
			}
		}
		for i, f := range pkg.Syntax {
			fn := pkg.CompiledGoFiles[i]
			if strings.HasSuffix(fn, "_test.go") || !strings.HasSuffix(fn, ".go") {
				continue
			}
			if re != nil && !re.MatchString(filepath.Base(fn)) {
				continue
			}
			r := &rewriter{pkg: pkg, fset: pkg.Fset, info: pkg.TypesInfo, file: f, globals: globals}
			keepComments(f)
			r.addGlobalPoints(f)
			r.rewriteImports(f)
			nf := r.apply(f).(*ast.File)
			if r.usedVrt {
				astutil.AddNamedImport(pkg.Fset, nf, vrtName, "verif/vrt")
			}
			var buf bytes.Buffer
			if err := format.Node(&buf, pkg.Fset, nf); err != nil {
				fatal("%s: print: %v", fn, err)
			}
			src := buf.Bytes()
			if r.usedVrt && !bytes.Contains(src, []byte("//go:build")) && oldModule(pkg) {
				// generic vrt helpers need go1.18+ language features even when the module's
				// go.mod declares an older version: a go:build line sets the file's version.
				// ONLY for such old modules: the line would otherwise DOWNGRADE a newer module's
				// files to go1.21 semantics (per-loop instead of per-iteration loop variables).
				src = append([]byte("//go:build go1.21\n\n"), src...)
				buf.Reset()
				buf.Write(src)
			}
			h := sha256.Sum256([]byte(fn))
			dir := filepath.Join(*flagOut, hex.EncodeToString(h[:6]))
			os.MkdirAll(dir, 0o755)
			out := filepath.Join(dir, filepath.Base(fn))
			if err := os.WriteFile(out, buf.Bytes(), 0o644); err != nil {
				fatal("%v", err)
			}
			overlay[fn] = out
			st.Files++
		}
	}
	ob, _ := json.MarshalIndent(map[string]any{"Replace": overlay}, "", " ")
	if err := os.WriteFile(filepath.Join(*flagOut, "overlay.json"), ob, 0o644); err != nil {
		fatal("%v", err)
	}
	sort.Strings(st.MapSites)
	sort.Strings(st.Unordered)
	if *flagStats != "" {
		sb, _ := json.MarshalIndent(st, "", " ")
		os.WriteFile(*flagStats, sb, 0o644)
	}
	if st.Files == 0 {
		fatal("no files were instrumented")
	}
	fmt.Printf("vinstr: %d files, rewrites %v\n", st.Files, st.Rewrites)
}

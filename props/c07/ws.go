package main

import (
	"bytes"
	"context"
	"encoding/json"
	"fmt"
	"strings"
	"sync"

	"github.com/99designs/gqlgen/graphql/handler/transport"

	"verif/explore"
	"verif/handschema"
	"verif/rig"
	"verif/vrt"
)

// (c) websocket: several operations over ONE connection, one after the other. The result
// frames of the last operation must be the ones it gets as the only operation of a fresh
// connection to a fresh server - whatever the operations before it carried (variables,
// extensions, a `headers` member in the payload).

type wsOp struct {
	Name    string
	Payload map[string]any
}

func wsAlphabet() []wsOp {
	m := func(kv ...any) map[string]any {
		o := map[string]any{}
		for i := 0; i+1 < len(kv); i += 2 {
			o[kv[i].(string)] = kv[i+1]
		}
		return o
	}
	return []wsOp{
		{"ctx", m("query", `{ctxinfo}`)},
		{"ctx-headers-member", m("query", `{ctxinfo}`, "headers", m("X-Verif", []string{"from-body"}))},
		{"A", m("query", qInfo, "operationName", "A")},
		{"B-vars-ext", m("query", qInfo, "operationName", "B", "variables", m("v", 1), "extensions", m("k", "ext-B"))},
		{"echo-var", m("query", `query($s:String){echo(s:$s) ctxinfo}`, "variables", m("s", "S1"))},
		{"echo-novar", m("query", `query($s:String){echo(s:$s) ctxinfo}`)},
		{"unknown-field", m("query", `{nosuch}`)},
		// subscriptions: one that reports a late error (transport.AddSubscriptionError), one that emits
		{"sub-late-error", m("query", `subscription{s(n:1)}`)},
		{"sub-emit", m("query", `subscription{s(n:2)}`)},
	}
}

type wsHistInst struct {
	names []string
	ops   []wsOp
	got   []string // frames of the LAST operation on the shared connection
	want  []string // frames of that operation alone on a fresh connection
	perOp [][]string
}

// session runs ops over one connection of a fresh server and returns the frames per operation.
func wsSession(ops []wsOp) [][]string {
	s := newServer(nil)
	s.hs.Sub = func(ctx context.Context, field string, args map[string]any, call int) handschema.SubStep {
		n, _ := args["n"].(int64)
		switch {
		case n == 1:
			return handschema.SubStep{Kind: "late-error"}
		case call == 0:
			return handschema.SubStep{Kind: "emit", Val: int(n)}
		}
		return handschema.SubStep{Kind: "end"}
	}
	s.srv.AddTransport(transport.Websocket{})
	conn := rig.NewConn()
	// (a real mutex: in the free-running -race pass operation goroutines may still be writing
	// their last frames when the handler has returned)
	var fmu sync.Mutex
	frames := make([][]string, len(ops))
	done := make([]bool, len(ops))
	hdrDone, parsed := false, 0
	conn.OnWrite = func(p []byte) {
		out := conn.Out
		if !hdrDone {
			i := bytes.Index(out, []byte("\r\n\r\n"))
			if i < 0 {
				return
			}
			hdrDone, parsed = true, i+4
		}
		fs, n, _ := rig.ParseServerFrames(out[parsed:])
		parsed += n
		for _, f := range fs {
			if f.Op != rig.OpText {
				continue
			}
			var msg struct {
				Type    string          `json:"type"`
				ID      string          `json:"id"`
				Payload json.RawMessage `json:"payload"`
			}
			if json.Unmarshal(f.Payload, &msg) != nil || msg.ID == "" {
				continue
			}
			var k int
			fmt.Sscanf(msg.ID, "%d", &k)
			if k < 0 || k >= len(ops) {
				continue
			}
			fmu.Lock()
			frames[k] = append(frames[k], msg.Type+":"+string(msg.Payload))
			if msg.Type == "complete" || msg.Type == "error" {
				done[k] = true
			}
			fmu.Unlock()
		}
	}
	hrw := rig.NewHijackRW(conn)
	req := rig.UpgradeRequest("graphql-transport-ws")
	req.Header.Set("X-Verif", "hdr-conn")
	vrt.Go("ws-client", func() {
		conn.Feed(rig.ClientFrame(rig.OpText, []byte(`{"type":"connection_init"}`)))
		for k, op := range ops {
			k := k
			pl, _ := json.Marshal(op.Payload)
			vrt.Yield("client-send")
			conn.Feed(rig.ClientFrame(rig.OpText, []byte(fmt.Sprintf(`{"type":"subscribe","id":"%d","payload":%s}`, k, pl))))
			vrt.Point("client awaits completion", nil, func() int {
				fmu.Lock()
				defer fmu.Unlock()
				if done[k] || conn.IsClosed() {
					return 1
				}
				return 0
			})
		}
		vrt.Yield("client-disconnect")
		conn.CloseClient()
	})
	s.srv.ServeHTTP(hrw, req)
	fmu.Lock()
	defer fmu.Unlock()
	out := make([][]string, len(frames))
	for i, f := range frames {
		out[i] = append([]string(nil), f...)
	}
	return out
}

func (h *wsHistInst) Body() {
	last := h.ops[len(h.ops)-1]
	h.want = wsSession([]wsOp{last})[0]
	h.perOp = wsSession(h.ops)
	h.got = h.perOp[len(h.ops)-1]
}

func (h *wsHistInst) Obs() string { return fmt.Sprint(h.perOp) }

func (h *wsHistInst) Check(x *explore.Exec) (string, string) {
	if x.Out.Kind != "quiescent" {
		return "ws-history:" + x.Out.Kind, x.Out.Crash + fmt.Sprint(x.Out.Blocked)
	}
	if strings.Join(h.got, "\n") != strings.Join(h.want, "\n") {
		return "ws-history:response-depends-on-earlier-operation:" + h.names[len(h.names)-1],
			fmt.Sprintf("operations %v over one websocket connection\n  alone on a fresh connection: %v\n  after the others:            %v", h.names, h.want, h.got)
	}
	return "", ""
}

func wsScenarios(tier string) []*explore.Scenario {
	var out []*explore.Scenario
	al := wsAlphabet()
	zero, one := 0, 1
	bound := &zero
	if tier == "thorough" {
		bound = &one
	}
	for _, a := range al {
		for _, b := range al {
			a, b := a, b
			names := []string{a.Name, b.Name}
			out = append(out, &explore.Scenario{Name: "ws " + a.Name + "," + b.Name, Bound: bound, Meta: map[string]any{"websocket_history": names},
				New: func() explore.Instance { return &wsHistInst{names: names, ops: []wsOp{a, b}} }})
		}
	}
	if tier == "thorough" {
		for _, a := range al[:4] {
			for _, b := range al[:4] {
				a, b := a, b
				names := []string{a.Name, b.Name, "ctx"}
				out = append(out, &explore.Scenario{Name: "ws " + strings.Join(names, ","), Bound: &zero, Meta: map[string]any{"websocket_history": names},
					New: func() explore.Instance { return &wsHistInst{names: names, ops: []wsOp{a, b, al[0]}} }})
			}
		}
	}
	return out
}

#!/bin/bash
tier=$1; shift
export VERIF_ARGS="$*"
export VERIF_RACE_RUNS=3
. /verif/env.sh
export VERIF_EXTRA_OVERLAY="$VERIF_REPO/graphql/handler/transport/export_verif.go=/verif/props/c07/shim/export_verif.go"
exec /verif/tools/instr_check.sh c07 "$tier" -maprange \
  github.com/99designs/gqlgen/graphql github.com/99designs/gqlgen/graphql/executor \
  github.com/99designs/gqlgen/graphql/handler github.com/99designs/gqlgen/graphql/handler/transport \
  github.com/99designs/gqlgen/graphql/handler/extension github.com/99designs/gqlgen/graphql/handler/lru \
  'github.com/gorilla/websocket:^conn\.go$'

// C07: a response depends only on its own request, not on earlier or concurrent ones.
//
// (a) histories: every sequence of requests up to a depth over a request alphabet (all
// HTTP transports, present/absent optional members, same text with different operation
// name / variables, invalid bodies, APQ) runs on one real handler.Server; the pooled
// request parameters' Get is an environment answer (recycled / fresh) enumerated by the
// explorer; the LAST response must equal the response of a freshly constructed server
// given only that request (primed with the APQ registrations of the history).
// (b) schedules: every pair of requests in flight together on one server, all
// interleavings within a preemption bound, same oracle per request.
package main

import (
	"bytes"
	"context"
	"crypto/sha256"
	"encoding/hex"
	"encoding/json"
	"fmt"
	"mime/multipart"
	"net/http"
	"net/http/httptest"
	"net/url"
	"sort"
	"strings"
	gosync "sync"
	"time"

	"github.com/vektah/gqlparser/v2/ast"

	"github.com/99designs/gqlgen/graphql"
	"github.com/99designs/gqlgen/graphql/handler"
	"github.com/99designs/gqlgen/graphql/handler/extension"
	"github.com/99designs/gqlgen/graphql/handler/lru"
	"github.com/99designs/gqlgen/graphql/handler/transport"

	"verif/common"
	"verif/exech/driver"
	"verif/explore"
	"verif/handschema"
	"verif/probe"
	"verif/rig"
	"verif/vrt"
)

const qInfo = `query A{ctxinfo a} query B{ctxinfo name}`

func hashOf(q string) string {
	h := sha256.Sum256([]byte(q))
	return hex.EncodeToString(h[:])
}

type reqDef struct {
	Name string
	// build returns a fresh *http.Request
	build func() *http.Request
	// registers: APQ (hash -> text) registration this request performs when accepted
	regHash, regText string
}

func jsonPost(name string, body any, hdr map[string]string) reqDef {
	return reqDef{Name: name, build: func() *http.Request {
		var b []byte
		if s, ok := body.(string); ok {
			b = []byte(s)
		} else {
			b, _ = json.Marshal(body)
		}
		r := httptest.NewRequest("POST", "/query", bytes.NewReader(b))
		r.Header.Set("Content-Type", "application/json")
		for k, v := range hdr {
			r.Header.Set(k, v)
		}
		return r
	}}
}

func alphabet() []reqDef {
	m := func(kv ...any) map[string]any {
		o := map[string]any{}
		for i := 0; i+1 < len(kv); i += 2 {
			o[kv[i].(string)] = kv[i+1]
		}
		return o
	}
	apq := func(h string) map[string]any {
		return m("persistedQuery", m("version", 1, "sha256Hash", h))
	}
	out := []reqDef{
		jsonPost("post-A", m("query", qInfo, "operationName", "A"), nil),
		jsonPost("post-B-vars", m("query", qInfo, "operationName", "B", "variables", m("v", 1)), map[string]string{"X-Verif": "hdr-B"}),
		jsonPost("post-A-ext", m("query", qInfo, "operationName", "A", "extensions", m("k", "ext-A")), nil),
		// the text of post-A again, naming an operation the document does not hold
		jsonPost("post-unknown-op", m("query", qInfo, "operationName", "Z"), nil),
		jsonPost("post-plain", m("query", `{ctxinfo}`), nil),
		jsonPost("post-echo-var", m("query", `query($s:String){echo(s:$s) ctxinfo}`, "variables", m("s", "S1")), nil),
		jsonPost("post-echo-novar", m("query", `query($s:String){echo(s:$s) ctxinfo}`), nil),
		// the same text again with a variable that puts the operation over the complexity limit
		jsonPost("post-echo-var-over-limit", m("query", `query($s:String){echo(s:$s) ctxinfo}`, "variables", m("s", strings.Repeat("long ", 8))), nil),
		// two texts that differ only in white space INSIDE a string literal
		jsonPost("post-echo-2sp", m("query", `{echo(s:"a  b")}`), nil),
		jsonPost("post-echo-1sp", m("query", `{echo(s:"a b")}`), nil),
		jsonPost("post-empty-object", `{}`, nil),
		jsonPost("post-invalid-json", `{"query":`, nil),
		jsonPost("post-headers-member", m("query", `{ctxinfo}`, "headers", m("X-Verif", []string{"from-body"})), nil),
		jsonPost("post-unknown-field", m("query", `{nosuch}`), nil),
		jsonPost("post-accept-gr", m("query", `{ctxinfo}`), map[string]string{"Accept": "application/graphql-response+json"}),
		jsonPost("post-accept-json-bad", m("query", `{nosuch}`), map[string]string{"Accept": "application/json"}),
		{Name: "get-accept-gr-bad", build: func() *http.Request {
			r := httptest.NewRequest("GET", "/query?query="+url.QueryEscape(`{nosuch}`), nil)
			r.Header.Set("Accept", "application/graphql-response+json")
			return r
		}},
		{Name: "get-A", build: func() *http.Request {
			return httptest.NewRequest("GET", "/query?query="+url.QueryEscape(qInfo)+"&operationName=A", nil)
		}},
		{Name: "get-vars", build: func() *http.Request {
			return httptest.NewRequest("GET", "/query?query="+url.QueryEscape(`query($s:String){echo(s:$s) ctxinfo}`)+"&variables="+url.QueryEscape(`{"s":"G"}`), nil)
		}},
		{Name: "urlencoded", build: func() *http.Request {
			r := httptest.NewRequest("POST", "/query", strings.NewReader("query="+url.QueryEscape(`{ctxinfo}`)))
			r.Header.Set("Content-Type", "application/x-www-form-urlencoded")
			return r
		}},
		{Name: "app-graphql", build: func() *http.Request {
			r := httptest.NewRequest("POST", "/query", strings.NewReader(`{ctxinfo name}`))
			r.Header.Set("Content-Type", "application/graphql")
			return r
		}},
		{Name: "multipart", build: func() *http.Request {
			var b bytes.Buffer
			w := multipart.NewWriter(&b)
			w.SetBoundary("verifboundary")
			w.WriteField("operations", `{"query":"{ctxinfo}","variables":{}}`)
			w.WriteField("map", `{}`)
			w.Close()
			r := httptest.NewRequest("POST", "/query", &b)
			r.Header.Set("Content-Type", w.FormDataContentType())
			return r
		}},
		{Name: "sse", build: func() *http.Request {
			b, _ := json.Marshal(m("query", qInfo, "operationName", "B", "variables", m("w", 2)))
			r := httptest.NewRequest("POST", "/query", bytes.NewReader(b))
			r.Header.Set("Content-Type", "application/json")
			r.Header.Set("Accept", "text/event-stream")
			return r
		}},
	}
	reg := jsonPost("apq-register", m("query", `{ctxinfo name}`, "extensions", apq(hashOf(`{ctxinfo name}`))), nil)
	reg.regHash, reg.regText = hashOf(`{ctxinfo name}`), `{ctxinfo name}`
	out = append(out, reg, jsonPost("apq-hash-only", m("extensions", apq(hashOf(`{ctxinfo name}`))), nil),
		jsonPost("apq-wrong-hash", m("query", `{a}`, "extensions", apq(hashOf(`{ctxinfo name}`))), nil))
	return out
}

// recCache is a graphql.Cache that records the keys it was asked to add (state key).
type recCache[T any] struct {
	inner graphql.Cache[T]
	adds  *[]string
}

func (c recCache[T]) Get(ctx context.Context, k string) (T, bool) { return c.inner.Get(ctx, k) }
func (c recCache[T]) Add(ctx context.Context, k string, v T) {
	// the recording itself must not race in the free-running -race pass (two requests in
	// flight); gosync is the real sync package, not the modelled one
	recMu.Lock()
	*c.adds = append(*c.adds, k)
	recMu.Unlock()
	c.inner.Add(ctx, k, v)
}

var recMu gosync.Mutex

// lockedCache is the persisted-query store of the servers under test: a map behind a (real)
// mutex. graphql.MapCache is a bare map meant for single-goroutine tests; two requests in
// flight on it would be the harness's own data race in the free-running -race pass.
type lockedCache struct {
	mu gosync.Mutex
	m  map[string]string
}

func (c *lockedCache) Get(_ context.Context, k string) (string, bool) {
	c.mu.Lock()
	defer c.mu.Unlock()
	v, ok := c.m[k]
	return v, ok
}

func (c *lockedCache) Add(_ context.Context, k, v string) {
	c.mu.Lock()
	c.m[k] = v
	c.mu.Unlock()
}

func (c *lockedCache) keys() []string {
	c.mu.Lock()
	defer c.mu.Unlock()
	out := make([]string, 0, len(c.m))
	for k := range c.m {
		out = append(out, k)
	}
	return out
}

type server struct {
	srv   *handler.Server
	hs    *handschema.Schema
	apq   *lockedCache
	qAdds []string
}

func newServer(prime map[string]string) *server {
	s := &server{apq: &lockedCache{m: map[string]string{}}}
	hs := handschema.New(&handschema.Log{})
	// the complexity of echo depends on its argument, i.e. on the request's variables
	hs.ComplexityFn = func(typeName, field string, child int, args map[string]any) (int, bool) {
		if field == "echo" {
			str, _ := args["s"].(string)
			return 1 + len(str), true
		}
		return 0, false
	}
	s.hs = hs
	s.srv = handler.New(hs)
	s.srv.Use(extension.FixedComplexityLimit(20))
	// each server gets its OWN configuration maps (a transport that writes into its
	// configured ResponseHeaders would carry one request's negotiation into the next)
	rh := func() map[string][]string { return map[string][]string{"X-Custom": {"v"}} }
	s.srv.AddTransport(transport.SSE{})
	s.srv.AddTransport(transport.GET{ResponseHeaders: rh()})
	s.srv.AddTransport(transport.POST{ResponseHeaders: rh()})
	s.srv.AddTransport(transport.UrlEncodedForm{ResponseHeaders: rh()})
	s.srv.AddTransport(transport.GRAPHQL{ResponseHeaders: rh()})
	s.srv.AddTransport(transport.MultipartForm{ResponseHeaders: rh()})
	s.srv.SetQueryCache(recCache[*ast.QueryDocument]{inner: lru.New[*ast.QueryDocument](2), adds: &s.qAdds})
	for h, t := range prime {
		s.apq.Add(context.Background(), h, t)
	}
	s.srv.Use(extension.AutomaticPersistedQuery{Cache: s.apq})
	// a response middleware that writes directly into the extensions map of the response it
	// got (instead of graphql.RegisterExtension): only for requests carrying the header
	s.srv.AroundResponses(func(ctx context.Context, next graphql.ResponseHandler) *graphql.Response {
		resp := next(ctx)
		if resp != nil && resp.Extensions != nil && graphql.HasOperationContext(ctx) {
			if h := graphql.GetOperationContext(ctx).Headers.Get("X-Verif"); h != "" {
				resp.Extensions["seen"] = h
			}
		}
		return resp
	})
	return s
}

type result struct {
	Status int
	Header string
	Body   string
}

func serve(s *server, rd reqDef) result {
	rw := rig.NewRW()
	s.srv.ServeHTTP(rw, rd.build())
	var hs []string
	h := rw.SentHdr
	if h == nil {
		h = rw.Hdr
	}
	for k, v := range h {
		hs = append(hs, k+"="+strings.Join(v, ","))
	}
	sort.Strings(hs)
	st := rw.Status
	if st == 0 {
		st = 200
	}
	return result{st, strings.Join(hs, ";"), rw.Buf.String()}
}

// freshResult: what a freshly constructed server answers to rd alone, primed with the APQ
// registrations that precede it. Computed outside the scheduler (sequentially).
var freshCache = map[string]result{}

func fresh(rd reqDef, prime map[string]string) result {
	ks := make([]string, 0, len(prime))
	for k := range prime {
		ks = append(ks, k)
	}
	sort.Strings(ks)
	key := rd.Name + "|" + strings.Join(ks, ",")
	if r, ok := freshCache[key]; ok {
		return r
	}
	r := serve(newServer(prime), rd)
	freshCache[key] = r
	return r
}

// ---- (a) histories ------------------------------------------------------------------------

type histInst struct {
	names []string
	defs  []reqDef
	last  result
	want  result
	state string
}

func (h *histInst) Body() {
	s := newServer(nil)
	prime := map[string]string{}
	for i, rd := range h.defs {
		if i == len(h.defs)-1 {
			// registrations visible to the last request = accepted registrations before it
			p := map[string]string{}
			for k, v := range prime {
				p[k] = v
			}
			h.want = wantFor(rd, p)
			h.last = serve(s, rd)
		} else {
			serve(s, rd)
		}
		if rd.regHash != "" {
			prime[rd.regHash] = rd.regText
		}
	}
	// state key: modelled pool contents + query-cache adds + APQ contents
	var pool []string
	for _, it := range transport.VerifPoolItems() {
		b, _ := json.Marshal(it)
		pool = append(pool, string(b))
	}
	var apq []string
	for _, k := range s.apq.keys() {
		apq = append(apq, k[:8])
	}
	sort.Strings(apq)
	h.state = fmt.Sprintf("pool=%v qcache=%v apq=%v", pool, s.qAdds, apq)
}

// wantFor must not run under the scheduler's thread (it builds a server and serves a
// request, which is fine: the operations are the same visible ones) - it is memoised
// before exploration starts, see precompute.
func wantFor(rd reqDef, prime map[string]string) result { return fresh(rd, prime) }

func (h *histInst) Obs() string { return fmt.Sprintf("%v|%s", h.last, h.state) }

// ownExtension: the "seen" extension of a response is written by the server's response
// middleware from the request's OWN X-Verif header - an absolute oracle that needs no
// reference server (state leaked into process-wide variables corrupts references too).
func ownExtension(rd reqDef, r result) string {
	var body struct {
		Extensions map[string]any `json:"extensions"`
	}
	if json.Unmarshal([]byte(r.Body), &body) != nil {
		return ""
	}
	seen, has := body.Extensions["seen"]
	want := rd.build().Header.Get("X-Verif")
	if rd.Name == "post-headers-member" {
		return "" // a request naming headers in its body is judged by the reference comparison only
	}
	if want == "" && has {
		return fmt.Sprintf("request %s carries no X-Verif header but its response has extensions.seen=%v", rd.Name, seen)
	}
	if want != "" && has && seen != want {
		return fmt.Sprintf("request %s carries X-Verif=%q but its response has extensions.seen=%v", rd.Name, want, seen)
	}
	return ""
}

func (h *histInst) Check(x *explore.Exec) (string, string) {
	if x.Out.Kind != "quiescent" {
		return "history:" + x.Out.Kind, x.Out.Crash + fmt.Sprint(x.Out.Blocked)
	}
	if msg := ownExtension(h.defs[len(h.defs)-1], h.last); msg != "" {
		return "history:extension-not-from-own-request:" + h.names[len(h.names)-1], fmt.Sprintf("history %v\n  %s", h.names, msg)
	}
	if h.last != h.want {
		return "history:response-depends-on-history:" + h.names[len(h.names)-1], fmt.Sprintf("history %v\n  fresh server: %v\n  this server:  %v\n  state %s", h.names, h.want, h.last, h.state)
	}
	// invariant: pooled parameters carry nothing of a finished request
	for _, it := range transport.VerifPoolItems() {
		p := it.(*graphql.RawParams)
		if p.Query != "" || p.OperationName != "" || p.Variables != nil || p.Extensions != nil || p.Headers != nil {
			b, _ := json.Marshal(p)
			return "history:pooled-params-not-reset", fmt.Sprintf("after history %v the pool holds %s", h.names, b)
		}
	}
	return "", ""
}

// ---- (b) pairs in flight together ------------------------------------------------------------

type pairInst struct {
	names []string
	defs  []reqDef
	got   []result
	want  []result
	// prefix: requests served one after the other BEFORE the pair goes in flight (what an
	// earlier request leaves in pooled / cached state meets two concurrent requests)
	prefix []reqDef
}

func (p *pairInst) Body() {
	s := newServer(nil)
	for _, rd := range p.prefix {
		serve(s, rd)
	}
	p.got = make([]result, len(p.defs))
	done := make(chan int, len(p.defs))
	for i := range p.defs {
		i := i
		vrt.Go("request", func() {
			p.got[i] = serve(s, p.defs[i])
			vrt.Send(done, i)
		})
	}
	for range p.defs {
		vrt.Recv(done)
	}
}

func (p *pairInst) Obs() string { return fmt.Sprint(p.got) }

func (p *pairInst) Check(x *explore.Exec) (string, string) {
	if x.Out.Kind != "quiescent" {
		return "concurrent:" + x.Out.Kind, x.Out.Crash + fmt.Sprint(x.Out.Blocked)
	}
	for i := range p.defs {
		if msg := ownExtension(p.defs[i], p.got[i]); msg != "" {
			return "concurrent:extension-not-from-own-request:" + p.names[i], fmt.Sprintf("requests %v in flight together\n  %s", p.names, msg)
		}
	}
	for i := range p.defs {
		w := p.want[i]
		if p.got[i] == w {
			continue
		}
		// the only permitted memory: an APQ registration by the other request in flight
		ok := false
		for j, o := range p.defs {
			if j != i && o.regHash != "" {
				if p.got[i] == fresh(p.defs[i], map[string]string{o.regHash: o.regText}) {
					ok = true
				}
			}
		}
		if !ok {
			return "concurrent:response-depends-on-other-request:" + p.names[i], fmt.Sprintf("requests %v in flight together\n  fresh server: %v\n  this server:  %v", p.names, w, p.got[i])
		}
	}
	return "", ""
}

func scenarios(tier string) []*explore.Scenario {
	al := alphabet()
	byName := map[string]reqDef{}
	for _, r := range al {
		byName[r.Name] = r
	}
	// memoise every fresh-server answer before exploring (no scheduler active here)
	for _, r := range al {
		fresh(r, nil)
		for _, o := range al {
			if o.regHash != "" {
				fresh(r, map[string]string{o.regHash: o.regText})
			}
		}
	}
	depth := 3
	if tier == "thorough" {
		depth = 4
	}
	var out []*explore.Scenario
	unb := -1
	var rec func(prefix []string)
	rec = func(prefix []string) {
		if len(prefix) > 0 {
			names := append([]string{}, prefix...)
			var defs []reqDef
			for _, n := range names {
				defs = append(defs, byName[n])
			}
			out = append(out, &explore.Scenario{Name: "hist " + strings.Join(names, ","), Bound: &unb, Meta: map[string]any{"history": names},
				New: func() explore.Instance { return &histInst{names: names, defs: defs} }})
		}
		if len(prefix) == depth {
			return
		}
		for _, r := range al {
			// depth-4 histories (thorough) are restricted to POST-family prefixes: only POST
			// touches the pool, and the caches are exercised by every transport at depth <= 3
			if len(prefix) >= 3 && !strings.HasPrefix(r.Name, "post") && !strings.HasPrefix(r.Name, "apq") {
				continue
			}
			rec(append(prefix, r.Name))
		}
	}
	rec(nil)
	two := 2
	if tier == "thorough" {
		two = 3
	}
	for i, a := range al {
		for j, b := range al {
			if j < i {
				continue
			}
			a, b := a, b
			names := []string{a.Name, b.Name}
			out = append(out, &explore.Scenario{Name: "pair " + a.Name + "+" + b.Name, Bound: &two, Meta: map[string]any{"pair": names},
				New: func() explore.Instance {
					return &pairInst{names: names, defs: []reqDef{a, b}, want: []result{fresh(a, nil), fresh(b, nil)}}
				}})
		}
	}
	// a history prefix, then a pair in flight: e.g. a pooled object released twice by an
	// error path is then handed to two concurrent requests
	prefixes := []string{"post-invalid-json"}
	members := []string{"post-A", "post-B-vars", "post-echo-novar", "post-plain", "post-echo-var-over-limit"}
	if tier == "thorough" {
		prefixes = append(prefixes, "post-B-vars", "post-empty-object", "post-unknown-field")
		members = append(members, "post-echo-var", "post-A-ext", "sse")
	}
	for _, pn := range prefixes {
		for i, an := range members {
			for j, bn := range members {
				if j < i {
					continue
				}
				pre, a, b := byName[pn], byName[an], byName[bn]
				names := []string{a.Name, b.Name}
				out = append(out, &explore.Scenario{Name: "after " + pn + ": pair " + a.Name + "+" + b.Name, Bound: &two, Meta: map[string]any{"prefix": pn, "pair": names},
					New: func() explore.Instance {
						return &pairInst{names: names, defs: []reqDef{a, b}, want: []result{fresh(a, nil), fresh(b, nil)}, prefix: []reqDef{pre}}
					}})
			}
		}
	}
	out = append(out, wsScenarios(tier)...)
	return out
}

// generatedServerPairs is the second stage: on a server GENERATED from the tree under
// test (nested selection sets, field merging, fragments - which the hand-written schema
// lacks), two requests with the same query text and different variables are served
// concurrently by one executor with a query cache, i.e. they execute the same cached
// document; every interleaving within the bound must give each request the response the
// reference executor computes for it alone (exech/pair.go).
func generatedServerPairs(c *common.Check, tier string, _ []explore.Stats) {
	cfgs := []driver.ProbeConfig{driver.CfgDefault}
	budget := 40 * time.Second
	if tier == "thorough" {
		cfgs = append(cfgs, driver.CfgWorker2, driver.CfgFollowSchema)
		budget = 4 * time.Minute
	}
	builds := driver.BuildAll("exec", cfgs)
	defer probe.Cleanup()
	for _, b := range builds {
		if b.Err != nil {
			probe.Cleanup()
			common.Broken("generated-server stage, config %s: %v", b.Cfg.Name, b.Err)
		}
	}
	sts := driver.RunSched("C07", tier, builds, budget)
	var execs, trans int64
	exhaustive := true
	var rows []map[string]any
	for _, st := range sts {
		if st.Broken != "" {
			probe.Cleanup()
			common.Broken("%s", st.Broken)
		}
		execs += st.Execs
		trans += st.Transitions
		if !st.Exhaustive {
			exhaustive = false
		}
		rows = append(rows, map[string]any{"scenario": st.Scenario, "schedules": st.Execs, "distinct_outcomes": st.NOutcomes, "exhaustive": st.Exhaustive})
		for _, f := range st.Found {
			c.Report("generated-server:"+f.Sig+"@"+st.Scenario, f.Msg, f)
		}
	}
	c.Cov["generated_server_pairs"] = map[string]any{"schedules": execs, "transitions": trans, "exhaustive": exhaustive, "deviation_bound": 2, "scenarios": rows}
	if v, ok := c.Cov["states"].(int64); ok {
		c.Cov["states"] = v + execs
	}
	if v, ok := c.Cov["transitions"].(int64); ok {
		c.Cov["transitions"] = v + trans
	}
	if !exhaustive {
		c.Cov["exhaustive"] = false
	}
}

func main() {
	explore.Main(explore.Options{
		Prop: "C07", Level: "model_checking",
		Cfg:       func(string) explore.Config { return explore.Config{Bound: 2, MaxSteps: 20000} },
		Scenarios: scenarios,
		Extra:     generatedServerPairs,
		BudgetQ:   100 * time.Second, BudgetT: 11 * time.Minute,
		Assume: []string{
			"deterministic resolvers (hand-written schema); the body of ctxinfo exposes operation name, variables, extensions, X-Verif header and raw query of the operation context, so any leak changes the body",
			"sync.Pool is modelled: Get answers 'recycled' or 'fresh' (GC emptied the pool) as an enumerated environment choice",
			"net/http replaced by a recording ResponseWriter; histories are all sequences up to the depth (no state merging is relied upon); the state key (pool contents, query-cache adds, APQ entries) is reported as distinct outcomes",
		},
	})
}

package transport

import "verif/vrt/vsync"

// Added to the transport package through a go-build overlay by the C07 check: the
// modelled contents of the request-parameter pool (state key / reset invariant).
func VerifPoolItems() []any { return vsync.PoolItems(&pool) }

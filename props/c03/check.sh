#!/bin/bash
tier=$1; shift
export VERIF_ARGS="$*"
export VERIF_RACE_RUNS=3
V=$(cd /verif && . ./env.sh && go list -m -f '{{.Dir}}' github.com/vektah/gqlparser/v2)
export VERIF_EXTRA_OVERLAY="$V/validator/export_verif.go=/verif/props/c03/shim/export_verif.go"
exec /verif/tools/instr_check.sh c03 "$tier" \
  -globals github.com/vektah/gqlparser/v2/validator.specifiedRules \
  github.com/99designs/gqlgen/graphql github.com/99designs/gqlgen/graphql/executor \
  github.com/99designs/gqlgen/graphql/handler/lru \
  'github.com/vektah/gqlparser/v2/validator:^validator\.go$'

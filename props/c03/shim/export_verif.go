package validator

// Added to gqlparser's validator package through a go-build overlay by the C03 check:
// read / restore the process-global rule list between executions.

func VerifRules() []Rule { return append([]Rule(nil), specifiedRules...) }

func VerifSetRules(r []Rule) { specifiedRules = r }

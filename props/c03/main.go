// C03: nothing executes unless the operation passed parsing, validation and every gate;
// extension hooks run in lifecycle order, first-registered outermost, exactly once.
//
// (a) bounded-exhaustive: request documents (valid + single-edit invalidations) x all
// extension lists of length <= 3 over 6 probe extensions x query caches x suggestions
// on/off x preceding histories of length <= 2, each on a fresh executor, against a
// reference lifecycle.
// (b) model checking: 2-3 concurrent requests on one executor with suggestions disabled,
// gqlparser's process-global rule list made visible to the controlled scheduler, all
// interleavings (unbounded for two requests).
package main

import (
	"context"
	"encoding/json"
	"fmt"
	"os"
	"os/exec"
	"runtime"
	"sort"
	"strconv"
	"strings"
	"sync"
	"time"

	"github.com/vektah/gqlparser/v2/ast"
	"github.com/vektah/gqlparser/v2/gqlerror"
	"github.com/vektah/gqlparser/v2/parser"
	"github.com/vektah/gqlparser/v2/validator"

	"github.com/99designs/gqlgen/graphql"
	"github.com/99designs/gqlgen/graphql/executor"
	"github.com/99designs/gqlgen/graphql/handler/lru"

	"verif/common"
	"verif/explore"
	"verif/handschema"
	"verif/vrt"
)

// ---- probe extensions ---------------------------------------------------------------

type allExt struct {
	name string
	log  *handschema.Log
}

func (e allExt) ExtensionName() string                   { return "all" + e.name }
func (e allExt) Validate(graphql.ExecutableSchema) error { return nil }
func (e allExt) MutateOperationParameters(ctx context.Context, p *graphql.RawParams) *gqlerror.Error {
	handschema.LogOf(ctx, e.log).Add("pm:%s", e.name)
	return nil
}
func (e allExt) MutateOperationContext(ctx context.Context, oc *graphql.OperationContext) *gqlerror.Error {
	handschema.LogOf(ctx, e.log).Add("cm:%s", e.name)
	return nil
}
func (e allExt) InterceptOperation(ctx context.Context, next graphql.OperationHandler) graphql.ResponseHandler {
	handschema.LogOf(ctx, e.log).Add("op-in:%s", e.name)
	r := next(ctx)
	handschema.LogOf(ctx, e.log).Add("op-out:%s", e.name)
	return r
}
func (e allExt) InterceptResponse(ctx context.Context, next graphql.ResponseHandler) *graphql.Response {
	handschema.LogOf(ctx, e.log).Add("resp-in:%s", e.name)
	r := next(ctx)
	handschema.LogOf(ctx, e.log).Add("resp-out:%s", e.name)
	return r
}
func (e allExt) InterceptRootField(ctx context.Context, next graphql.RootResolver) graphql.Marshaler {
	handschema.LogOf(ctx, e.log).Add("root-in:%s", e.name)
	r := next(ctx)
	handschema.LogOf(ctx, e.log).Add("root-out:%s", e.name)
	return r
}
func (e allExt) InterceptField(ctx context.Context, next graphql.Resolver) (any, error) {
	handschema.LogOf(ctx, e.log).Add("field-in:%s", e.name)
	r, err := next(ctx)
	handschema.LogOf(ctx, e.log).Add("field-out:%s", e.name)
	return r, err
}

type pmReject struct{ log *handschema.Log }

func (e pmReject) ExtensionName() string                   { return "pmReject" }
func (e pmReject) Validate(graphql.ExecutableSchema) error { return nil }
func (e pmReject) MutateOperationParameters(ctx context.Context, p *graphql.RawParams) *gqlerror.Error {
	handschema.LogOf(ctx, e.log).Add("pm:R")
	return gqlerror.Errorf("rejected by parameter mutator")
}

type cmReject struct{ log *handschema.Log }

func (e cmReject) ExtensionName() string                   { return "cmReject" }
func (e cmReject) Validate(graphql.ExecutableSchema) error { return nil }
func (e cmReject) MutateOperationContext(ctx context.Context, oc *graphql.OperationContext) *gqlerror.Error {
	handschema.LogOf(ctx, e.log).Add("cm:R")
	return gqlerror.Errorf("rejected by context mutator")
}

type fieldExt struct{ log *handschema.Log }

func (e fieldExt) ExtensionName() string                   { return "fieldOnly" }
func (e fieldExt) Validate(graphql.ExecutableSchema) error { return nil }
func (e fieldExt) InterceptField(ctx context.Context, next graphql.Resolver) (any, error) {
	handschema.LogOf(ctx, e.log).Add("field-in:F")
	r, err := next(ctx)
	handschema.LogOf(ctx, e.log).Add("field-out:F")
	return r, err
}

type respExt struct{ log *handschema.Log }

func (e respExt) ExtensionName() string                   { return "respOnly" }
func (e respExt) Validate(graphql.ExecutableSchema) error { return nil }
func (e respExt) InterceptResponse(ctx context.Context, next graphql.ResponseHandler) *graphql.Response {
	handschema.LogOf(ctx, e.log).Add("resp-in:S")
	r := next(ctx)
	handschema.LogOf(ctx, e.log).Add("resp-out:S")
	return r
}

// extension alphabet: A, B implement every hook; P / C reject; F field only; S response only
var extSymbols = []string{"A", "B", "P", "C", "F", "S"}

func mkExt(sym string, log *handschema.Log) graphql.HandlerExtension {
	switch sym {
	case "A", "B":
		return allExt{sym, log}
	case "P":
		return pmReject{log}
	case "C":
		return cmReject{log}
	case "F":
		return fieldExt{log}
	default:
		return respExt{log}
	}
}

// ---- request alphabet ---------------------------------------------------------------

type reqSpec struct {
	Name   string         `json:"name"`
	Query  string         `json:"query"`
	OpName string         `json:"operationName,omitempty"`
	Vars   map[string]any `json:"variables,omitempty"`
	// Accept: the request passes parsing, validation, operation selection and variable
	// coercion; Roots: "Object.field" of the root fields that then execute, in order.
	Accept bool     `json:"accept"`
	Roots  []string `json:"roots,omitempty"`
	// ValidatorDecides: rejection is (or is not) a verdict of parser+validator alone
	// (cross-checked against the pristine gqlparser validator at start-up).
	ValidatorDecides bool `json:"-"`
	// TokenLimit: the executor is configured with this parser token limit (0 = none)
	TokenLimit int `json:"parser_token_limit,omitempty"`
	// Ext: the request's extensions member (no extension of the executor reads it here)
	Ext map[string]any `json:"extensions,omitempty"`
}

func requests() []reqSpec {
	q := func(name, query string, roots ...string) reqSpec {
		return reqSpec{Name: name, Query: query, Accept: true, Roots: roots, ValidatorDecides: true}
	}
	bad := func(name, query string) reqSpec {
		return reqSpec{Name: name, Query: query, Accept: false, ValidatorDecides: true}
	}
	rs := []reqSpec{
		q("a", `{a}`, "Query.a"),
		q("a-name", `{a name}`, "Query.a", "Query.name"),
		q("b-lit", `query Q{b(x:1)}`, "Query.b"),
		{Name: "b-var", Query: `query($x:Int){b(x:$x)}`, Vars: map[string]any{"x": json.Number("3")}, Accept: true, Roots: []string{"Query.b"}, ValidatorDecides: true},
		q("mutation", `mutation{m(v:1)}`, "Mutation.m"),
		{Name: "two-ops-second", Query: `query A{a} query B{name}`, OpName: "B", Accept: true, Roots: []string{"Query.name"}, ValidatorDecides: true},
		q("fragment", `{...F} fragment F on Query{echo(s:"x")}`, "Query.echo"),
		// white space that is significant: the comment of the second text swallows the brace
		q("a-comment", "{a # c\n}", "Query.a"),
		bad("comment-swallows-brace", "{a # c }"),
		bad("unknown-field", `{a nosuch}`),
		bad("unknown-field-only", `{nosuch}`),
		bad("unknown-arg", `{b(y:1)}`),
		bad("wrong-type-literal", `{b(x:"s")}`),
		bad("undefined-variable", `{b(x:$u)}`),
		bad("unused-variable", `query($u:Int){a}`),
		bad("unknown-fragment", `{...G}`),
		bad("fragment-cycle", `{...F} fragment F on Query{...F}`),
		bad("unknown-type-condition", `{... on Nope{a}}`),
		bad("two-anonymous", `{a} {name}`),
		bad("syntax-error", `{a`),
		bad("empty-document", ``),
		bad("subselection-on-scalar", `{a{x}}`),
		{Name: "unknown-operation-name", Query: `query A{a}`, OpName: "Z", Accept: false},
		{Name: "ambiguous-operation", Query: `query A{a} query B{name}`, Accept: false},
		{Name: "variable-wrong-json-type", Query: `query($x:Int){b(x:$x)}`, Vars: map[string]any{"x": "abc"}, Accept: false},
		{Name: "missing-nonnull-variable", Query: `query($x:Int!){b(x:$x)}`, Accept: false},
		// the same coercion failures for every document shape: named operation chosen by name, and
		// either operation of a two-operation document (the accepted twin of each shape comes first)
		{Name: "named-var", Query: `query N($x:Int){b(x:$x)}`, OpName: "N", Vars: map[string]any{"x": json.Number("3")}, Accept: true, Roots: []string{"Query.b"}, ValidatorDecides: true},
		{Name: "two-ops-var-second", Query: `query A{a} query B($x:Int!){b(x:$x)}`, OpName: "B", Vars: map[string]any{"x": json.Number("3")}, Accept: true, Roots: []string{"Query.b"}, ValidatorDecides: true},
		{Name: "named-variable-wrong-json-type", Query: `query N($x:Int){b(x:$x)}`, OpName: "N", Vars: map[string]any{"x": "abc"}, Accept: false},
		{Name: "two-ops-second-variable-wrong-json-type", Query: `query A{a} query B($x:Int){b(x:$x)}`, OpName: "B", Vars: map[string]any{"x": "abc"}, Accept: false},
		{Name: "two-ops-first-missing-nonnull-variable", Query: `query A($x:Int!){b(x:$x)} query B{name}`, OpName: "A", Accept: false},
		{Name: "two-ops-second-null-for-nonnull-variable", Query: `query A{a} query B($x:Int!){b(x:$x)}`, OpName: "B", Vars: map[string]any{"x": nil}, Accept: false},
		{Name: "mutation-missing-nonnull-variable", Query: `mutation($v:Int!){m(v:$v)}`, Accept: false},
		// a client-supplied persisted-query hash that NOTHING verifies (no APQ extension): it
		// must not let an invalid document ride on a valid one that carried the same hash
		{Name: "a-with-hash", Query: `{a}`, Accept: true, Roots: []string{"Query.a"}, ValidatorDecides: true, Ext: map[string]any{"persistedQuery": map[string]any{"version": 1, "sha256Hash": "h1"}}},
		{Name: "unknown-field-with-same-hash", Query: `{nosuch}`, Accept: false, ValidatorDecides: true, Ext: map[string]any{"persistedQuery": map[string]any{"version": 1, "sha256Hash": "h1"}}},
		{Name: "syntax-error-with-same-hash", Query: `{a`, Accept: false, ValidatorDecides: true, Ext: map[string]any{"persistedQuery": map[string]any{"version": 1, "sha256Hash": "h1"}}},
		// the parser's token limit is a parse failure like any other (7 tokens > 5)
		{Name: "over-token-limit", Query: `{a name a name a}`, Accept: false, TokenLimit: 5},
		{Name: "at-token-limit", Query: `{a name a}`, Accept: true, Roots: []string{"Query.a", "Query.name"}, TokenLimit: 5},
	}
	return rs
}

// ---- one request on an executor -------------------------------------------------------

type outcome struct {
	Log     []string
	HasData bool
	NErrors int
}

func runRequest(ex *executor.Executor, log *handschema.Log, r reqSpec) outcome {
	log.Reset()
	params := &graphql.RawParams{Query: r.Query, OperationName: r.OpName, Variables: r.Vars, Extensions: r.Ext}
	ctx := graphql.StartOperationTrace(context.Background())
	var resp *graphql.Response
	oc, errs := ex.CreateOperationContext(ctx, params)
	if len(errs) > 0 {
		resp = ex.DispatchError(graphql.WithOperationContext(ctx, oc), errs)
	} else {
		rh, rctx := ex.DispatchOperation(ctx, oc)
		resp = rh(rctx)
	}
	o := outcome{Log: log.Snapshot()}
	if resp != nil {
		o.HasData = len(resp.Data) > 0 && string(resp.Data) != "null"
		o.NErrors = len(resp.Errors)
	}
	return o
}

// expectedLog is the reference lifecycle for request r under extension list exts.
func expectedLog(r reqSpec, exts []string) (log []string, accepted bool) {
	var pm, cm, opx, rsp, root, fld []string
	for _, e := range exts {
		switch e {
		case "A", "B":
			pm, cm, opx, rsp, root, fld = append(pm, e), append(cm, e), append(opx, e), append(rsp, e), append(root, e), append(fld, e)
		case "P":
			pm = append(pm, "R")
		case "C":
			cm = append(cm, "R")
		case "F":
			fld = append(fld, "F")
		case "S":
			rsp = append(rsp, "S")
		}
	}
	respWrap := func(inner []string) []string {
		var out []string
		for _, e := range rsp {
			out = append(out, "resp-in:"+e)
		}
		out = append(out, inner...)
		for i := len(rsp) - 1; i >= 0; i-- {
			out = append(out, "resp-out:"+rsp[i])
		}
		return out
	}
	for _, e := range pm {
		log = append(log, "pm:"+e)
		if e == "R" {
			return append(log, respWrap(nil)...), false
		}
	}
	if !r.Accept {
		return append(log, respWrap(nil)...), false
	}
	for _, e := range cm {
		log = append(log, "cm:"+e)
		if e == "R" {
			return append(log, respWrap(nil)...), false
		}
	}
	for _, e := range opx {
		log = append(log, "op-in:"+e)
	}
	op := "query"
	if strings.HasPrefix(r.Roots[0], "Mutation") {
		op = "mutation"
	}
	log = append(log, "exec:"+op)
	for i := len(opx) - 1; i >= 0; i-- {
		log = append(log, "op-out:"+opx[i])
	}
	var inner []string
	for _, rf := range r.Roots {
		for _, e := range root {
			inner = append(inner, "root-in:"+e)
		}
		inner = append(inner, "rootfield:"+rf)
		for _, e := range fld {
			inner = append(inner, "field-in:"+e)
		}
		inner = append(inner, "resolver:"+rf)
		for i := len(fld) - 1; i >= 0; i-- {
			inner = append(inner, "field-out:"+fld[i])
		}
		for i := len(root) - 1; i >= 0; i-- {
			inner = append(inner, "root-out:"+root[i])
		}
	}
	return append(log, respWrap(inner)...), true
}

// normalise strips resolver arguments and the payload log line.
func normalise(l []string) []string {
	var out []string
	for _, e := range l {
		if strings.HasPrefix(e, "payload:") {
			continue
		}
		if strings.HasPrefix(e, "resolver:") {
			if i := strings.IndexByte(e, '('); i >= 0 {
				e = e[:i]
			}
		}
		out = append(out, e)
	}
	return out
}

var forbiddenWhenRejected = []string{"op-in:", "root-in:", "field-in:", "exec:", "rootfield:", "resolver:"}

type caseDesc struct {
	Exts    []string `json:"extensions"`
	Cache   string   `json:"cache"`
	NoSugg  bool     `json:"disable_suggestion"`
	History []string `json:"history"`
	Request reqSpec  `json:"request"`
	// Via: "" = the executor API; "cancelled" = the same with an already cancelled request
	// context; "post" / "ws" = through that transport of a handler.Server (via.go)
	Via string `json:"via,omitempty"`
}

func newExecutor(log *handschema.Log, exts []string, cache string, noSugg bool, tokenLimit ...int) *executor.Executor {
	hs := handschema.New(log)
	ex := executor.New(hs)
	if len(tokenLimit) > 0 && tokenLimit[0] > 0 {
		ex.SetParserTokenLimit(tokenLimit[0])
	}
	for _, e := range exts {
		ex.Use(mkExt(e, log))
	}
	switch cache {
	case "map":
		ex.SetQueryCache(graphql.MapCache[*ast.QueryDocument]{})
	case "lru1":
		ex.SetQueryCache(lru.New[*ast.QueryDocument](1))
	case "lru8":
		ex.SetQueryCache(lru.New[*ast.QueryDocument](8))
	}
	ex.SetDisableSuggestion(noSugg)
	return ex
}

func checkCase(c *common.Check, cd caseDesc, byName map[string]reqSpec) (nontrivial bool) {
	if cd.Via != "" {
		return checkVia(c, cd)
	}
	log := &handschema.Log{}
	ex := newExecutor(log, cd.Exts, cd.Cache, cd.NoSugg, cd.Request.TokenLimit)
	for _, h := range cd.History {
		runRequest(ex, log, byName[h])
	}
	got := runRequest(ex, log, cd.Request)
	want, accepted := expectedLog(cd.Request, cd.Exts)
	gl := normalise(got.Log)
	class := "accepted"
	if !accepted {
		class = "rejected:" + cd.Request.Name
		for _, e := range gl {
			for _, f := range forbiddenWhenRejected {
				if strings.HasPrefix(e, f) {
					c.Report("executed-after-rejection:"+cd.Request.Name+":"+f, fmt.Sprintf("request %q must be rejected but event %q occurred; log %v", cd.Request.Name, e, gl), cd)
					return true
				}
			}
		}
		if got.HasData || got.NErrors == 0 {
			c.Report("rejection-without-errors-only-response:"+cd.Request.Name, fmt.Sprintf("hasData=%v errors=%d", got.HasData, got.NErrors), cd)
		}
	}
	if strings.Join(gl, " ") != strings.Join(want, " ") {
		c.Report("lifecycle-order:"+class, fmt.Sprintf("extensions %v cache %s noSugg %v history %v request %s\n  want %v\n  got  %v", cd.Exts, cd.Cache, cd.NoSugg, cd.History, cd.Request.Name, want, gl), cd)
	}
	if accepted && (!got.HasData || got.NErrors != 0) {
		c.Report("accepted-request-failed:"+cd.Request.Name, fmt.Sprintf("hasData=%v errors=%d log %v", got.HasData, got.NErrors, gl), cd)
	}
	return len(cd.Exts) > 0 || len(cd.History) > 0
}

func extLists(maxLen int) [][]string {
	out := [][]string{{}}
	frontier := [][]string{{}}
	for l := 0; l < maxLen; l++ {
		var next [][]string
		for _, f := range frontier {
			for _, s := range extSymbols {
				n := append(append([]string{}, f...), s)
				next = append(next, n)
				out = append(out, n)
			}
		}
		frontier = next
	}
	return out
}

// crossCheckValidator: the hand annotation of the alphabet agrees with the pristine validator.
func crossCheckValidator(rs []reqSpec) {
	schema := handschema.New(nil).Schema()
	for _, r := range rs {
		if !r.ValidatorDecides {
			continue
		}
		ok := true
		doc, err := parser.ParseQuery(&ast.Source{Input: r.Query})
		if err != nil || len(doc.Operations) == 0 {
			ok = false
		} else if errs := validator.Validate(schema, doc); len(errs) > 0 {
			ok = false
		}
		if ok != r.Accept {
			common.Broken("request alphabet entry %q annotated accept=%v but the pristine validator says %v", r.Name, r.Accept, ok)
		}
	}
}

func argValue(name string) string {
	for i, a := range os.Args {
		if a == name && i+1 < len(os.Args) {
			return os.Args[i+1]
		}
	}
	return ""
}

type seqResult struct {
	Evaluations int64               `json:"evaluations"`
	Nontrivial  int64               `json:"nontrivial"`
	Complete    bool                `json:"complete"`
	Found       []map[string]string `json:"found"`
	Replay      []json.RawMessage   `json:"replay"`
	Sample      []caseDesc          `json:"sample"`
}

// sequentialShard enumerates part (a) for shard i of n.
func sequentialShard(tier string, shard, n int, deadline time.Time) seqResult {
	rs := requests()
	byName := map[string]reqSpec{}
	for _, r := range rs {
		byName[r.Name] = r
	}
	crossCheckValidator(rs)
	maxExt, histNames := 3, []string{"a", "unknown-field", "two-ops-second", "a-comment", "a-with-hash"}
	caches := []string{"none", "lru1", "map"}
	if tier == "thorough" {
		maxExt, histNames = 3, []string{"a", "a-name", "unknown-field", "mutation", "two-ops-second", "a-comment", "a-with-hash"}
		caches = []string{"none", "map", "lru1", "lru8"}
	}
	var hists [][]string
	hists = append(hists, nil)
	for _, h := range histNames {
		hists = append(hists, []string{h})
	}
	for _, h1 := range histNames {
		for _, h2 := range histNames {
			hists = append(hists, []string{h1, h2})
		}
	}
	res := seqResult{Complete: true}
	// findings are collected through a private Check-like shim: signatures de-duplicated
	shim := common.New("C03", "model_checking")
	idx := 0
	for _, exts := range extLists(maxExt) {
		for _, cache := range caches {
			for _, ns := range []bool{false, true} {
				for _, h := range hists {
					if cache == "none" && len(h) > 0 && tier != "thorough" {
						continue // history only matters through the cache (and the global rule set: thorough)
					}
					for _, r := range rs {
						// a history entry equal to the request itself is added implicitly: "same text"
						me := idx%n == shard
						idx++
						if !me {
							continue
						}
						if !deadline.IsZero() && idx%512 == 0 && time.Now().After(deadline) {
							res.Complete = false
							return res
						}
						cd := caseDesc{Exts: exts, Cache: cache, NoSugg: ns, History: h, Request: r}
						res.Evaluations++
						if checkCase(shim, cd, byName) {
							res.Nontrivial++
						}
						if len(res.Sample) < 2 && len(exts) == 2 && len(h) == 1 {
							res.Sample = append(res.Sample, cd)
						}
					}
				}
			}
		}
	}
	// the other ways into the executor (via.go): every request x extension lists of length <= 2
	for _, exts := range extLists(2) {
		for _, via := range viaKinds {
			for _, r := range rs {
				me := idx%n == shard
				idx++
				if !me {
					continue
				}
				if !deadline.IsZero() && time.Now().After(deadline) {
					res.Complete = false
					return res
				}
				res.Evaluations++
				if checkCase(shim, caseDesc{Exts: exts, Cache: "none", Request: r, Via: via}, byName) {
					res.Nontrivial++
				}
			}
		}
	}
	return res
}

// ---- (b) concurrent requests under the controlled scheduler ------------------------------

type concInst struct {
	reqs    []reqSpec
	exts    []string // extensions registered on the shared executor (hooks log per request)
	cache   string
	mixed   bool // a second executor WITH suggestions in the same process
	logs    []*handschema.Log
	out     []outcome
	saved   []validator.Rule
	endHave bool
}

func (ci *concInst) Body() {
	// fresh process-global rule list for every execution
	validator.VerifSetRules(append([]validator.Rule(nil), pristineRules...))
	n := len(ci.reqs)
	ci.logs = make([]*handschema.Log, n)
	ci.out = make([]outcome, n)
	// one executor shared by all requests (shared cache, shared global rules); per-request logs
	shared := &handschema.Log{}
	ex := newExecutor(shared, ci.exts, ci.cache, true)
	var ex2 *executor.Executor
	if ci.mixed {
		ex2 = newExecutor(shared, ci.exts, ci.cache, false)
	}
	done := make(chan int, n)
	for i := range ci.reqs {
		i := i
		vrt.Go("request", func() {
			// requests share the executor (cache, global rule list); events are attributed
			// to a per-request log carried in the context
			l := &handschema.Log{}
			ci.logs[i] = l
			use := ex
			if ci.mixed && i%2 == 1 {
				use = ex2
			}
			ci.out[i] = runOn(use, l, ci.reqs[i])
			vrt.Send(done, i)
		})
	}
	for range ci.reqs {
		vrt.Recv(done)
	}
	ci.endHave = hasFieldRule()
}

// runOn executes r on ex but attributes hook/resolver events to l: the handschema log is
// selected through the context.
func runOn(ex *executor.Executor, l *handschema.Log, r reqSpec) outcome {
	params := &graphql.RawParams{Query: r.Query, OperationName: r.OpName, Variables: r.Vars}
	ctx := graphql.StartOperationTrace(handschema.WithLog(context.Background(), l))
	var resp *graphql.Response
	oc, errs := ex.CreateOperationContext(ctx, params)
	if len(errs) > 0 {
		resp = ex.DispatchError(graphql.WithOperationContext(ctx, oc), errs)
	} else {
		rh, rctx := ex.DispatchOperation(ctx, oc)
		resp = rh(rctx)
	}
	o := outcome{Log: l.Snapshot()}
	if resp != nil {
		o.HasData = len(resp.Data) > 0 && string(resp.Data) != "null"
		o.NErrors = len(resp.Errors)
	}
	return o
}

var pristineRules []validator.Rule

func hasFieldRule() bool {
	for _, r := range validator.VerifRules() {
		if strings.HasPrefix(r.Name, "FieldsOnCorrectType") {
			return true
		}
	}
	return false
}

func (ci *concInst) Obs() string {
	b, _ := json.Marshal(struct {
		O []outcome
		H bool
	}{ci.out, ci.endHave})
	return string(b)
}

func (ci *concInst) Check(x *explore.Exec) (string, string) {
	switch x.Out.Kind {
	case "crash":
		return "concurrent:crash", x.Out.Crash
	case "blocked":
		return "concurrent:deadlock", fmt.Sprint(x.Out.Blocked)
	case "horizon":
		return "horizon", ""
	}
	for i, r := range ci.reqs {
		gl := normalise(ci.out[i].Log)
		want, accepted := expectedLog(r, ci.exts)
		if !accepted {
			for _, e := range gl {
				for _, f := range forbiddenWhenRejected {
					if strings.HasPrefix(e, f) {
						return "concurrent:executed-after-rejection:" + r.Name, fmt.Sprintf("request %d (%s) must be rejected (unknown field) but %q happened: %v", i, r.Name, e, gl)
					}
				}
			}
			if ci.out[i].HasData || ci.out[i].NErrors == 0 {
				return "concurrent:rejection-response:" + r.Name, fmt.Sprintf("hasData=%v errors=%d", ci.out[i].HasData, ci.out[i].NErrors)
			}
		} else if strings.Join(gl, " ") != strings.Join(want, " ") || !ci.out[i].HasData {
			return "concurrent:accepted-request-differs:" + r.Name, fmt.Sprintf("want %v got %v data=%v errors=%d", want, gl, ci.out[i].HasData, ci.out[i].NErrors)
		}
	}
	if !ci.endHave {
		return "concurrent:field-existence-rule-lost", "after all requests finished the process-global rule list contains no FieldsOnCorrectType rule"
	}
	return "", ""
}

func concScenarios(tier string) []*explore.Scenario {
	rs := requests()
	byName := map[string]reqSpec{}
	for _, r := range rs {
		byName[r.Name] = r
	}
	var out []*explore.Scenario
	unb := -1
	three := 3
	if tier != "thorough" {
		unb = 3 // quick: 3 preemptions (the lost update needs exactly 3); thorough: unbounded
		three = 2
	}
	add := func(names []string, cache string, mixed bool, bound *int) {
		var reqs []reqSpec
		for _, n := range names {
			reqs = append(reqs, byName[n])
		}
		nm := fmt.Sprintf("%v cache=%s mixed=%v", names, cache, mixed)
		out = append(out, &explore.Scenario{Name: nm, Bound: bound, Meta: map[string]any{"requests": names, "cache": cache, "mixed": mixed},
			New: func() explore.Instance { return &concInst{reqs: reqs, cache: cache, mixed: mixed} }})
	}
	for _, cache := range []string{"none", "lru8"} {
		add([]string{"a", "unknown-field-only"}, cache, false, &unb)
		add([]string{"unknown-field-only", "unknown-field"}, cache, false, &unb)
		add([]string{"a", "unknown-field-only"}, cache, true, &unb)
	}
	add([]string{"a", "unknown-field-only", "a-name"}, "none", false, &three)
	// the FIRST requests of a freshly configured executor arrive together: every one of them
	// passes through all registered extensions (gates included)
	one := 1
	for _, exts := range [][]string{{"A"}, {"P"}, {"A", "C"}} {
		exts := exts
		names := []string{"a", "unknown-field-only"}
		reqs := []reqSpec{byName["a"], byName["unknown-field-only"]}
		out = append(out, &explore.Scenario{Name: fmt.Sprintf("%v exts=%v first requests together", names, exts), Bound: &one,
			Meta: map[string]any{"requests": names, "extensions": exts},
			New:  func() explore.Instance { return &concInst{reqs: reqs, exts: exts, cache: "none"} }})
	}
	if tier == "thorough" {
		add([]string{"a", "unknown-field-only", "unknown-field"}, "lru8", false, &three)
		add([]string{"a", "unknown-field-only", "a-name"}, "none", true, &three)
	}
	return out
}

func main() {
	tier := common.TierFromArgs()
	pristineRules = validator.VerifRules()
	// worker modes ------------------------------------------------------------------
	if sh := argValue("--seq-shard"); sh != "" {
		var i, n int
		fmt.Sscanf(sh, "%d/%d", &i, &n)
		dl, _ := strconv.ParseInt(argValue("--deadline"), 10, 64)
		res := sequentialShard(tier, i, n, time.Unix(dl, 0))
		json.NewEncoder(os.Stdout).Encode(res)
		return
	}
	opts := explore.Options{
		Prop: "C03", Level: "model_checking",
		Cfg:       func(string) explore.Config { return explore.Config{Bound: 3, MaxSteps: 5000} },
		Scenarios: concScenarios,
		PassArgs:  []string{"--conc", "1"},
		BudgetQ:   70 * time.Second, BudgetT: 8 * time.Minute,
	}
	if argValue("--scenario") != "" || argValue("--free-run") != "" || common.ReplayArg() != "" && argValue("--conc") != "" {
		explore.Main(opts)
		return
	}
	// orchestrator --------------------------------------------------------------------
	c := common.New("C03", "model_checking")
	if rp := common.ReplayArg(); rp != "" {
		replay(rp, opts)
		return
	}
	n := runtime.NumCPU()
	budget := 60 * time.Second
	if tier == "thorough" {
		budget = 6 * time.Minute
	}
	deadline := time.Now().Add(budget)
	var mu sync.Mutex
	var wg sync.WaitGroup
	var seqEval, seqNon int64
	seqComplete := true
	var samples []caseDesc
	for i := 0; i < n; i++ {
		wg.Add(1)
		go func(i int) {
			defer wg.Done()
			cmd := exec.Command(os.Args[0], "--tier", tier, "--seq-shard", fmt.Sprintf("%d/%d", i, n), "--deadline", strconv.FormatInt(deadline.Unix(), 10))
			cmd.Stderr = os.Stderr
			out, err := cmd.Output()
			// a shard exits 1 when its shim reported violations: parse its stdout anyway
			lines := strings.Split(strings.TrimSpace(string(out)), "\n")
			var res seqResult
			if jerr := json.Unmarshal([]byte(lines[len(lines)-1]), &res); jerr != nil {
				common.Broken("sequential shard %d: %v %v: %.300s", i, err, jerr, out)
			}
			mu.Lock()
			seqEval += res.Evaluations
			seqNon += res.Nontrivial
			if !res.Complete {
				seqComplete = false
			}
			if len(samples) < 3 {
				samples = append(samples, res.Sample...)
			}
			for _, l := range lines[:len(lines)-1] {
				if strings.HasPrefix(l, "VIOLATION ") {
					// re-report through the orchestrator's check so that known findings apply
					p := l[strings.Index(l, "replay=")+7:]
					b, _ := os.ReadFile(p)
					var doc struct {
						Signature, What string
						Replay          json.RawMessage
					}
					json.Unmarshal(b, &doc)
					os.Remove(p)
					c.Report(doc.Signature, doc.What, doc.Replay)
				}
			}
			mu.Unlock()
		}(i)
	}
	wg.Wait()
	cfg := opts.Cfg(tier)
	scs := concScenarios(tier)
	sort.SliceStable(scs, func(i, j int) bool { return scs[i].Name < scs[j].Name })
	bq := opts.BudgetQ
	if tier == "thorough" {
		bq = opts.BudgetT
	}
	all := explore.Collect(opts, tier, cfg, scs, bq)
	explore.Summarize(c, cfg, all, len(scs))
	c.Cov["sequential_evaluations"] = seqEval
	c.Cov["sequential_nontrivial"] = seqNon
	c.Cov["sequential_complete"] = seqComplete
	c.Cov["evaluations"] = seqEval
	c.Cov["distinct_nontrivial"] = seqNon
	c.Cov["rule"] = "sequential part: request alphabet (valid operations and single-edit invalidations, operation-selection and variable-coercion failures) x all extension lists up to length 2/3 over {A,B all-hooks, P rejecting parameter mutator, C rejecting context mutator, F field-only, S response-only} x query cache kinds x suggestions on/off x histories up to length 2, each on a fresh executor; non-trivial = has extensions or a history. Concurrent part: see states/transitions (two requests: unbounded exploration)"
	for _, s := range samples {
		c.Sample(s)
	}
	if !seqComplete {
		c.Cov["exhaustive"] = false
	}
	c.Assume = []string{
		"gqlparser's process-global rule list is made visible at statement granularity (reads/writes of validator.specifiedRules are scheduling points); validation itself is atomic",
		"hand-written ExecutableSchema logs exec/rootfield/resolver events; extensions log their hooks",
		"response interceptors may run for rejected requests (the statement forbids only operation/root-field/field interceptors, directives and resolvers)",
	}
	c.Finish()
}

func replay(path string, opts explore.Options) {
	b, err := os.ReadFile(path)
	if err != nil {
		common.Broken("replay: %v", err)
	}
	var doc struct {
		Replay json.RawMessage `json:"replay"`
	}
	json.Unmarshal(b, &doc)
	var cd caseDesc
	if json.Unmarshal(doc.Replay, &cd) == nil && cd.Request.Name != "" {
		byName := map[string]reqSpec{}
		for _, r := range requests() {
			byName[r.Name] = r
		}
		shim := common.New("C03", "model_checking")
		checkCase(shim, cd, byName)
		want, _ := expectedLog(cd.Request, cd.Exts)
		fmt.Println("expected lifecycle:", want)
		if shim.Violations() > 0 {
			os.Exit(1)
		}
		os.Exit(0)
	}
	os.Args = append(os.Args, "--conc", "1")
	explore.Main(opts)
}

package main

import (
	"bytes"
	"context"
	"encoding/json"
	"fmt"
	"net/http"
	"net/http/httptest"
	"strings"
	"time"

	"github.com/gorilla/websocket"

	"github.com/99designs/gqlgen/graphql"
	"github.com/99designs/gqlgen/graphql/handler"
	"github.com/99designs/gqlgen/graphql/handler/transport"

	"verif/common"
	"verif/handschema"
)

// The gate holds on every way into the executor: the same requests and extension lists
// arrive (a) with a request context that is already cancelled, (b) through the POST
// transport, (c) as an operation on a websocket connection. Only the rejection clause is
// judged here: a request that must be rejected shows no operation / root-field / field
// interceptor, directive or resolver event - whatever the response looks like.

var viaKinds = []string{"cancelled", "post", "ws"}

func newServerVia(log *handschema.Log, cd caseDesc) *handler.Server {
	srv := handler.New(handschema.New(log))
	if cd.Request.TokenLimit > 0 {
		srv.SetParserTokenLimit(cd.Request.TokenLimit)
	}
	for _, e := range cd.Exts {
		srv.Use(mkExt(e, log))
	}
	srv.SetDisableSuggestion(cd.NoSugg)
	return srv
}

func checkVia(c *common.Check, cd caseDesc) bool {
	log := &handschema.Log{}
	r := cd.Request
	switch cd.Via {
	case "cancelled":
		ex := newExecutor(log, cd.Exts, cd.Cache, cd.NoSugg, r.TokenLimit)
		ctx, cancel := context.WithCancel(context.Background())
		cancel()
		ctx = graphql.StartOperationTrace(ctx)
		params := &graphql.RawParams{Query: r.Query, OperationName: r.OpName, Variables: r.Vars, Extensions: r.Ext}
		oc, errs := ex.CreateOperationContext(ctx, params)
		if len(errs) > 0 {
			ex.DispatchError(graphql.WithOperationContext(ctx, oc), errs)
		} else {
			rh, rctx := ex.DispatchOperation(ctx, oc)
			rh(rctx)
		}
	case "post":
		srv := newServerVia(log, cd)
		srv.AddTransport(transport.POST{})
		body, _ := json.Marshal(map[string]any{"query": r.Query, "operationName": r.OpName, "variables": r.Vars, "extensions": r.Ext})
		req := httptest.NewRequest("POST", "/query", bytes.NewReader(body))
		req.Header.Set("Content-Type", "application/json")
		srv.ServeHTTP(httptest.NewRecorder(), req)
	case "ws":
		srv := newServerVia(log, cd)
		srv.AddTransport(transport.Websocket{})
		ts := httptest.NewServer(srv)
		defer ts.Close()
		conn, _, err := websocket.DefaultDialer.Dial("ws"+strings.TrimPrefix(ts.URL, "http"), http.Header{"Sec-WebSocket-Protocol": {"graphql-transport-ws"}})
		if err != nil {
			common.Broken("websocket dial: %v", err)
		}
		defer conn.Close()
		conn.SetReadDeadline(time.Now().Add(20 * time.Second))
		conn.WriteJSON(map[string]any{"type": "connection_init"})
		payload := map[string]any{"query": r.Query, "operationName": r.OpName, "variables": r.Vars, "extensions": r.Ext}
		conn.WriteJSON(map[string]any{"type": "subscribe", "id": "1", "payload": payload})
		for {
			var m struct {
				Type string `json:"type"`
				ID   string `json:"id"`
			}
			if err := conn.ReadJSON(&m); err != nil {
				break // closed by the server (or the deadline: the log is judged either way)
			}
			if m.ID == "1" && (m.Type == "complete" || m.Type == "error") {
				break
			}
		}
	}
	_, accepted := expectedLog(r, cd.Exts)
	if accepted {
		return false
	}
	gl := normalise(log.Snapshot())
	for _, e := range gl {
		for _, f := range forbiddenWhenRejected {
			if strings.HasPrefix(e, f) {
				c.Report("executed-after-rejection:via-"+cd.Via+":"+r.Name+":"+f, fmt.Sprintf("request %q (%s, extensions %v) must be rejected but event %q occurred; log %v", r.Name, cd.Via, cd.Exts, e, gl), cd)
				return true
			}
		}
	}
	return true
}

//go:build verifharness

package main

// Reference evaluator of the documented complexity definition, on the grammar tree and the
// hand-written schema table (no gqlparser AST, no gqlgen code), in math/big with saturation.
//
//   cost(selection set)  = sum of the costs of its selections                      (saturating)
//   cost(fragment)       = cost of its selection set (inline, or the named fragment's body)
//   cost(field on object O) = custom[O.field](children, args)  if a custom function is set (for
//                             the Go field the schema field is bound to) and
//                             its value is not below the children's cost,
//                             else 1 + children                                    (saturating)
//   cost(field on interface I) = max over the object types implementing I of cost(field on O)
//   children             = cost of the field's own selection set (0 for leaves)
// A negative custom value is always below children (>= 0), hence ignored.

import (
	"math/big"
	"strings"
)

const maxInt = int(^uint(0) >> 1)

var bigMax = big.NewInt(int64(maxInt))

func sat(x *big.Int) *big.Int {
	if x.Cmp(bigMax) > 0 {
		return new(big.Int).Set(bigMax)
	}
	return x
}

// Custom complexity function alphabet, simplest first. Index 0 = no custom function.
const (
	FnNone = iota
	FnC0
	FnC1
	FnC5
	FnNeg3
	FnMax
	FnMax1
	FnDouble   // child*2, saturating
	FnChildArg // child + x + 10*len(y), saturating; x null/absent counts 0; fields without
	//            arguments: child (identity - the boundary "custom == children")
	NumFn
)

var fnNames = []string{"none", "const0", "const1", "const5", "const-3", "maxInt", "maxInt-1", "child*2", "child+x+10*len(y)"}

// bigFn is the specification of the custom functions (the int versions the generated code
// calls are in assign.go; both are compared on a boundary grid at start-up).
func bigFn(fn int, child *big.Int, x *big.Int, ylen int) *big.Int {
	switch fn {
	case FnC0:
		return big.NewInt(0)
	case FnC1:
		return big.NewInt(1)
	case FnC5:
		return big.NewInt(5)
	case FnNeg3:
		return big.NewInt(-3)
	case FnMax:
		return new(big.Int).Set(bigMax)
	case FnMax1:
		return new(big.Int).Sub(bigMax, big.NewInt(1))
	case FnDouble:
		return sat(new(big.Int).Mul(child, big.NewInt(2)))
	case FnChildArg:
		r := new(big.Int).Set(child)
		if x != nil {
			r.Add(r, x)
		}
		r.Add(r, big.NewInt(int64(10*ylen)))
		return sat(r)
	}
	panic("bigFn: none")
}

// Assign maps "Object.field" to a function index; missing = none.
type Assign map[string]int

// argValues: coerced argument values of a selection of a field with arguments (GraphQL spec,
// CoerceArgumentValues); def is the schema default of x.
func argValues(form, varMode, varVal int, def int64) (x *big.Int, ylen int) {
	switch form {
	case ArgNone:
		return big.NewInt(def), 0 // schema default
	case ArgLit:
		return big.NewInt(3), 0
	case ArgBoth:
		return big.NewInt(2), 2
	case ArgNeg:
		return big.NewInt(-4), 0
	case ArgNull:
		return nil, 0
	case ArgVar:
		switch varMode {
		case VarGiven:
			return big.NewInt(int64(varVal)), 0
		case VarDefault:
			return big.NewInt(4), 0 // variable default
		case VarAbsent:
			return big.NewInt(def), 0 // no value, no variable default: argument default
		case VarNull:
			return nil, 0
		}
	}
	panic("argValues")
}

type refEval struct {
	op   *Op
	as   Assign
	defs []*Node
	// interfacesAsImplementors: alternative reading used only to classify a disagreement
	// (interfaces that implement I are counted as implementors at the default cost).
	altIfaceImpl bool
	customUsed   bool // some custom value was taken
	maxTaken     bool // an interface field with differing implementor costs
}

// interfaces implementing an interface (for the alternative reading only)
var ifaceImplementors = map[string][]string{"Node": {"Deep"}}

func (r *refEval) set(sels []*Node, parent string) *big.Int {
	sum := big.NewInt(0)
	for _, n := range sels {
		var c *big.Int
		switch n.Kind {
		case KField:
			child := big.NewInt(0)
			if len(n.Kids) > 0 {
				child = r.set(n.Kids, fieldType(parent, n.Name))
			}
			c = r.field(parent, n, child)
		case KInline:
			t := parent
			if n.Cond != "" {
				t = n.Cond
			}
			c = r.set(n.Kids, t)
		case KDef:
			c = r.set(n.Kids, n.Cond)
		case KRef:
			d := r.defs[n.Ref]
			c = r.set(d.Kids, d.Cond)
		}
		sum = sat(new(big.Int).Add(sum, c))
	}
	return sum
}

func (r *refEval) field(parent string, n *Node, child *big.Int) *big.Int {
	// The introspection entry point __schema is exempt: the field and everything below it cost
	// nothing; the rest of the selection set it sits in counts as usual. (complexity.go skips
	// fields of type __Schema only; __type(name:) is costed like an ordinary field.)
	if parent == "Query" && n.Name == "__schema" {
		return big.NewInt(0)
	}
	td := schemaTab[parent]
	if td.Kind != "INTERFACE" {
		return r.objField(parent, n, child)
	}
	best := big.NewInt(0)
	first := true
	for _, o := range td.Objects {
		c := r.objField(o, n, child)
		if !first && c.Cmp(best) != 0 {
			r.maxTaken = true
		}
		first = false
		if c.Cmp(best) > 0 {
			best = c
		}
	}
	if r.altIfaceImpl {
		for range ifaceImplementors[parent] {
			c := sat(new(big.Int).Add(big.NewInt(1), child))
			if c.Cmp(best) > 0 {
				best = c
			}
		}
	}
	return best
}

func (r *refEval) objField(object string, n *Node, child *big.Int) *big.Int {
	// the custom function is configured per Go field: schema fields sharing one are all costed by it
	if fn, ok := r.as[canon(object+"."+n.Name)]; ok && fn != FnNone && !strings.HasPrefix(n.Name, "__") {
		var x *big.Int
		ylen := 0
		if def, ok := argDefault[object+"."+n.Name]; ok {
			x, ylen = argValues(n.Arg, r.op.VarMode, r.op.varVal(), def)
		}
		v := bigFn(fn, child, x, ylen)
		if v.Cmp(child) >= 0 {
			r.customUsed = true
			return v
		}
	}
	return sat(new(big.Int).Add(big.NewInt(1), child))
}

// RefComplexity returns the reference complexity (always within [0, maxInt]).
func RefComplexity(op *Op, as Assign) (c int, customUsed, maxTaken bool) {
	r := &refEval{op: op, as: as, defs: op.defs()}
	v := r.set(op.Sels, rootType(op.Root))
	return int(v.Int64()), r.customUsed, r.maxTaken
}

func RefComplexityAlt(op *Op, as Assign) int {
	r := &refEval{op: op, as: as, defs: op.defs(), altIfaceImpl: true}
	return int(r.set(op.Sels, rootType(op.Root)).Int64())
}

// refSafeAdd: documented behaviour of the saturating add.
// both >= 0: min(a+b, maxInt); exactly one negative: the other operand ("ignores negative
// operands"); both negative: undefined by the documentation (any value in [0,maxInt] accepted).
func refSafeAdd(a, b int) (want int, defined bool) {
	switch {
	case a >= 0 && b >= 0:
		s := new(big.Int).Add(big.NewInt(int64(a)), big.NewInt(int64(b)))
		return int(sat(s).Int64()), true
	case a < 0 && b < 0:
		return 0, false
	case a < 0:
		return b, true
	default:
		return a, true
	}
}

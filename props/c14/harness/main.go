//go:build verifharness

// Harness for property C14, built inside the scratch probe module (it imports the probe's
// generated package "probe/graph"). It enumerates operations x custom-complexity assignments
// x limits, evaluates the oracles against the real code and writes a JSON result file that
// /verif/props/c14/main.go merges into the evidence.
package main

import (
	"bytes"
	"context"
	"encoding/json"
	"flag"
	"fmt"
	"net/http"
	"net/http/httptest"
	"os"
	"sort"
	"strconv"
	"strings"
	"time"

	"github.com/vektah/gqlparser/v2"
	"github.com/vektah/gqlparser/v2/ast"
	"github.com/vektah/gqlparser/v2/validator"

	"github.com/99designs/gqlgen/complexity"
	"github.com/99designs/gqlgen/graphql"
	"github.com/99designs/gqlgen/graphql/executor"
	"github.com/99designs/gqlgen/graphql/handler"
	"github.com/99designs/gqlgen/graphql/handler/extension"
	"github.com/99designs/gqlgen/graphql/handler/lru"
	"github.com/99designs/gqlgen/graphql/handler/transport"

	"probe/graph"
)

const codeExceeded = "COMPLEXITY_LIMIT_EXCEEDED"

// ---- result file ----

type Violation struct {
	Order  []int  `json:"order"` // position in the enumeration (for a deterministic selection)
	Kind   string `json:"kind"`
	Sig    string `json:"sig"`
	What   string `json:"what"`
	Replay Replay `json:"replay"`
}

type Replay struct {
	Layout   string    `json:"layout"`
	Kind     string    `json:"kind"`
	Op       *Op       `json:"op,omitempty"`
	Text     string    `json:"text,omitempty"`
	Assign   Assign    `json:"assign,omitempty"`
	Limit    *int      `json:"limit,omitempty"`
	History  []histReq `json:"history,omitempty"`
	Fixed    bool      `json:"fixed_limit_server,omitempty"`
	Fault    *ctxFault `json:"context_fault,omitempty"`
	Schedule []int     `json:"in_flight_schedule,omitempty"` // which request runs its next segment
	A        *int      `json:"a,omitempty"`                  // safeAdd operands
	B        *int      `json:"b,omitempty"`
}

type Result struct {
	Layout      string             `json:"layout"`
	Counts      map[string]int64   `json:"counts"`
	PerSize     map[string]int64   `json:"ops_per_size"`
	Violations  []Violation        `json:"violations"`
	Samples     []any              `json:"samples"`
	Exhaustive  bool               `json:"exhaustive"`
	Completed   []int              `json:"completed_sizes"`
	Broken      string             `json:"broken,omitempty"`
	SafeAddGrid int                `json:"safeadd_grid_cells"`
	Notes       []string           `json:"notes,omitempty"`
	Seconds     map[string]float64 `json:"seconds_per_size"`
	Dropped     map[string]int64   `json:"dropped_by_rule"`
}

// ---- configuration ----

type Config struct {
	Layout      string
	MaxNodes    int
	FullGateMax int // sizes <= this: executor gate for every assignment; above: one assignment per distinct complexity value
	HTTPMax     int // sizes <= this: additionally through handler.Server + POST
	HistMax     int // sizes <= this: request histories through a long-lived executor
	CtxMax      int // sizes <= this: context-fault enumeration
	ConcMax     int // sizes <= this: two requests in flight on one server
	Grammar     *Grammar
	TopGrammar  *Grammar // used for the largest size
	Deadline    time.Time
}

// grammarFor: top = the grammar used for the LARGEST operation size of a quick run. Bounds are
// lowered before alphabets are thinned: all sizes below the top use the full alphabet; at the
// top size of the quick tier three redundant-at-that-size variants are left out (they are all
// enumerated in operations of smaller size, and at every size in the thorough tier).
func grammarFor(tier string, top bool) *Grammar {
	g := &Grammar{memoS: map[string][][]*Node{}, memoN: map[string][]*Node{}}
	g.Roots = []string{"query", "mutation"}
	g.VarModes = []int{VarGiven, VarDefault, VarAbsent, VarNull}
	g.Fields = map[string][]string{
		"Query": {"str", "arg", "t", "targ", "node", "u", "rep", "ent", "__typename", "__schema", "__type"}, "Mutation": {"m1", "m3"},
		"Ent":      {"score", "related"},
		"__Schema": {"__typename", "queryType"}, "__Type": {"name"},
		"Rep": {"old", "rows", "newFoo", "new_foo"}, "Row": {"id"},
		"T": {"id", "name", "kid", "peer", "u", "__typename"}, "S": {"id", "peer"}, "Node": {"id", "__typename"},
		"Named": {"name"}, "Deep": {"peer"}, "U": {"__typename"}}
	// the same field twice in one selection set needs an alias; with arguments: one aliased form
	// next to every plain form ("arg(x:3) z:arg", "z:arg arg(x:3)", ...)
	g.Alias = map[string]bool{"Query.str": true, "T.id": true, "Query.arg": true, "Query.targ": true, "Ent.score": true, "Ent.related": true}
	g.AliasOnly = map[string][]int{"Query.arg": {ArgNone}, "Query.targ": {ArgNone}, "Ent.score": {ArgNone, ArgLit}, "Ent.related": {ArgNone}}
	g.Forms = map[string][]int{"Ent.score": {ArgNone, ArgLit, ArgVar}, "Ent.related": {ArgNone, ArgLit}}
	g.ArgForms = []int{ArgNone, ArgLit, ArgVar, ArgBoth, ArgNeg, ArgNull}
	g.TargForms = []int{ArgNone, ArgLit, ArgVar}
	g.Conds = []string{"Query", "T", "S", "Node", "Named", "Deep", "U"}
	if top && tier == "quick" {
		delete(g.Alias, "Query.arg")                         // z:arg
		delete(g.Alias, "Query.targ")                        // z:targ{...}
		g.ArgForms = []int{ArgNone, ArgLit, ArgVar, ArgBoth} // no arg(x:-4), arg(x:null)
	}
	return g
}

// ---- prepared operations ----

type prepared struct {
	idx      int
	op       *Op
	text     string
	doc      *ast.QueryDocument
	def      *ast.OperationDefinition
	rawVars  map[string]any
	vars     map[string]any
	relevant []string
}

type worker struct {
	cfg    *Config
	schema *ast.Schema
	ct     *customTable
	log    *resolverLog
	stub   *graph.Stub
	cache  *lru.LRU[*ast.QueryDocument]
	counts map[string]int64
	viols  []Violation
	table  map[string]*prepared // operations of smaller sizes (read only)
	nontr  int64
}

func (w *worker) es(as Assign) graphql.ExecutableSchema {
	return graph.NewExecutableSchema(graph.Config{Resolvers: w.stub, Complexity: w.ct.root(as)})
}

const maxViolPerKind = 3

func (w *worker) report(order []int, kind, sig, what string, rp Replay) {
	rp.Layout = w.cfg.Layout
	rp.Kind = kind
	w.counts["violations_"+kind]++
	// keep the lowest-ordered few per kind
	n := 0
	for _, v := range w.viols {
		if v.Kind == kind {
			n++
		}
	}
	if n >= maxViolPerKind {
		return
	}
	w.viols = append(w.viols, Violation{Order: append([]int{}, order...), Kind: kind, Sig: sig, What: what, Replay: rp})
}

func asString(as Assign) string {
	if len(as) == 0 {
		return "none"
	}
	keys := make([]string, 0, len(as))
	for k := range as {
		keys = append(keys, k)
	}
	sort.Strings(keys)
	var parts []string
	for _, k := range keys {
		parts = append(parts, k+"="+fnNames[as[k]])
	}
	return strings.Join(parts, ",")
}

// calc calls the real complexity.Calculate, turning a panic into an error.
func calc(es graphql.ExecutableSchema, def *ast.OperationDefinition, vars map[string]any) (c int, err error) {
	return calcCtx(context.Background(), es, def, vars)
}

func calcCtx(ctx context.Context, es graphql.ExecutableSchema, def *ast.OperationDefinition, vars map[string]any) (c int, err error) {
	defer func() {
		if r := recover(); r != nil {
			err = fmt.Errorf("panic: %v", r)
		}
	}()
	return complexity.Calculate(ctx, es, def, vars), nil
}

// ---- gate through the real executor ----

type gateOutcome struct {
	rejected   bool     // an error with code COMPLEXITY_LIMIT_EXCEEDED
	otherErrs  []string // errors that prevented execution for another reason
	data       string
	respErrs   int
	log        []string
	stats      *extension.ComplexityStats
	panicValue any
}

// session is one long-lived executor: a schema with its custom functions, a query-document
// cache (as handler.NewDefaultServer configures) and one instance of the limit extension.
type session struct {
	exec *executor.Executor
}

const limitHeader = "X-Complexity-Limit"

// newSession: fixed != nil installs FixedComplexityLimit(*fixed); dynamic installs
// ComplexityLimit{Func} reading the request's limit from a header (per-request limits);
// neither: no extension (unlimited baseline). cache nil: the worker's shared cache.
func (w *worker) newSession(es graphql.ExecutableSchema, fixed *int, dynamic bool, cache graphql.Cache[*ast.QueryDocument]) *session {
	exec := executor.New(es)
	if cache == nil {
		cache = w.cache
	}
	exec.SetQueryCache(cache)
	exec.Use(extension.Introspection{}) // so that __schema / __type selections really execute
	switch {
	case fixed != nil:
		exec.Use(extension.FixedComplexityLimit(*fixed))
	case dynamic:
		exec.Use(&extension.ComplexityLimit{Func: func(_ context.Context, opCtx *graphql.OperationContext) int {
			l, err := strconv.Atoi(opCtx.Headers.Get(limitHeader))
			if err != nil {
				panic("harness: request without " + limitHeader)
			}
			return l
		}})
	}
	return &session{exec: exec}
}

// do sends one request through the session's executor the way a transport does.
func (w *worker) do(s *session, text string, opName string, rawVars map[string]any, dynLimit *int) gateOutcome {
	return w.doCtx(context.Background(), s, text, opName, rawVars, dynLimit)
}

// doCtx: as do, with the request context given by the caller (context faults).
func (w *worker) doCtx(base context.Context, s *session, text string, opName string, rawVars map[string]any, dynLimit *int) (out gateOutcome) {
	defer func() {
		if r := recover(); r != nil {
			out.panicValue = r
		}
	}()
	w.log.take()
	exec := s.exec
	ctx := graphql.StartOperationTrace(base)
	params := &graphql.RawParams{Query: text, OperationName: opName, Variables: rawVars, Headers: http.Header{}}
	if dynLimit != nil {
		params.Headers.Set(limitHeader, strconv.Itoa(*dynLimit))
	}
	opCtx, errs := exec.CreateOperationContext(ctx, params)
	var resp *graphql.Response
	if errs != nil {
		resp = exec.DispatchError(graphql.WithOperationContext(ctx, opCtx), errs)
		for _, e := range resp.Errors {
			if code, _ := e.Extensions["code"].(string); code == codeExceeded {
				out.rejected = true
			} else {
				out.otherErrs = append(out.otherErrs, e.Message)
			}
		}
	} else {
		h, ctx2 := exec.DispatchOperation(ctx, opCtx)
		resp = h(ctx2)
		for _, e := range resp.Errors {
			if code, _ := e.Extensions["code"].(string); code == codeExceeded {
				out.rejected = true
			}
		}
	}
	out.data = string(resp.Data)
	out.respErrs = len(resp.Errors)
	out.log = w.log.take()
	if opCtx != nil {
		out.stats = extension.GetComplexityStats(graphql.WithOperationContext(ctx, opCtx))
	}
	return out
}

// runExecutor: a fresh executor (sharing the worker's document cache) handling one request.
func (w *worker) runExecutor(es graphql.ExecutableSchema, limit *int, text string, opName string, rawVars map[string]any) gateOutcome {
	return w.do(w.newSession(es, limit, false, nil), text, opName, rawVars, nil)
}

// ---- histories: several requests through ONE long-lived executor with a document cache ----

// histReq is one request of a history; all requests of a history share the query text.
type histReq struct {
	Label   string         `json:"label"`
	OpName  string         `json:"operationName,omitempty"`
	RawVars map[string]any `json:"variables,omitempty"`
	Limit   int            `json:"limit"`
	cref    int
	base    *gateOutcome
}

// judge applies the single-request oracle (the same as gate) and returns a description of the
// first disagreement, or "".
func judge(o *gateOutcome, cref, limit int, base *gateOutcome) string {
	switch {
	case o.panicValue != nil:
		return fmt.Sprintf("panic: %v", o.panicValue)
	case len(o.otherErrs) > 0:
		return fmt.Sprintf("refused for another reason: %v", o.otherErrs)
	case o.stats == nil || o.stats.Complexity != cref || o.stats.ComplexityLimit != limit:
		return fmt.Sprintf("ComplexityStats = %+v, want {%d %d}", o.stats, cref, limit)
	case cref > limit && (!o.rejected || len(o.log) != 0 || (o.data != "" && o.data != "null")):
		return fmt.Sprintf("over the limit (%d > %d) but rejected=%v resolvers=%v data=%s", cref, limit, o.rejected, o.log, o.data)
	case cref <= limit && (o.rejected || o.data != base.data || o.respErrs != base.respErrs || !sameLog(o.log, base.log)):
		return fmt.Sprintf("within the limit (%d <= %d) but rejected=%v data=%s (unlimited run: %s) resolvers=%v (unlimited: %v)", cref, limit, o.rejected, o.data, base.data, o.log, base.log)
	}
	return ""
}

// runHistory sends reqs in order through one fresh long-lived executor (own LRU document cache).
// fixed: all requests carry the same limit and the server uses FixedComplexityLimit; otherwise
// the per-request ComplexityLimit{Func}.
func (w *worker) runHistory(order []int, es graphql.ExecutableSchema, text string, as Assign, fixed bool, reqs []histReq, rp Replay) {
	var s *session
	if fixed {
		l := reqs[0].Limit
		s = w.newSession(es, &l, false, lru.New[*ast.QueryDocument](4))
	} else {
		s = w.newSession(es, nil, true, lru.New[*ast.QueryDocument](4))
	}
	w.counts["histories"]++
	differ := false
	for i := range reqs {
		if reqs[i].cref != reqs[0].cref || reqs[i].Limit != reqs[0].Limit {
			differ = true
		}
	}
	if differ {
		w.counts["histories_with_differing_expectations"]++
	}
	for i, r := range reqs {
		w.counts["history_requests"]++
		var dyn *int
		if !fixed {
			l := r.Limit
			dyn = &l
		}
		o := w.do(s, text, r.OpName, r.RawVars, dyn)
		if msg := judge(&o, r.cref, r.Limit, r.base); msg != "" {
			var labels []string
			for _, q := range reqs {
				labels = append(labels, fmt.Sprintf("%s@L=%d", q.Label, q.Limit))
			}
			rp.History = reqs
			rp.Fixed = fixed
			w.report(order, "history", fmt.Sprintf("history:%s|%s|%s", text, asString(as), strings.Join(labels, ">")),
				fmt.Sprintf("long-lived executor with a query cache, request %d of [%s] on %s | custom %s: %s", i+1, strings.Join(labels, " > "), text, asString(as), msg), rp)
			return
		}
	}
}

type httpOutcome struct {
	status   int
	rejected bool
	data     string
	nErrs    int
	log      []string
}

func (w *worker) runHTTP(es graphql.ExecutableSchema, limit *int, text string, rawVars map[string]any) (httpOutcome, error) {
	return w.runHTTPCtx(nil, es, limit, text, rawVars)
}

// runHTTPCtx: reqCtx, when not nil, is the request's context (context faults).
func (w *worker) runHTTPCtx(reqCtx context.Context, es graphql.ExecutableSchema, limit *int, text string, rawVars map[string]any) (httpOutcome, error) {
	w.log.take()
	srv := handler.New(es)
	srv.AddTransport(transport.POST{})
	srv.SetQueryCache(w.cache)
	srv.Use(extension.Introspection{})
	if limit != nil {
		// the per-request form of the extension (the executor path uses FixedComplexityLimit)
		l := *limit
		srv.Use(&extension.ComplexityLimit{Func: func(context.Context, *graphql.OperationContext) int { return l }})
	}
	body := map[string]any{"query": text}
	if rawVars != nil {
		body["variables"] = rawVars
	}
	bb, _ := json.Marshal(body)
	req := httptest.NewRequest(http.MethodPost, "/query", bytes.NewReader(bb))
	req.Header.Set("Content-Type", "application/json")
	if reqCtx != nil {
		req = req.WithContext(reqCtx)
	}
	rec := httptest.NewRecorder()
	srv.ServeHTTP(rec, req)
	var parsed struct {
		Data   json.RawMessage `json:"data"`
		Errors []struct {
			Message    string         `json:"message"`
			Extensions map[string]any `json:"extensions"`
		} `json:"errors"`
	}
	if err := json.Unmarshal(rec.Body.Bytes(), &parsed); err != nil {
		return httpOutcome{}, fmt.Errorf("response is not JSON: %v: %q", err, rec.Body.String())
	}
	o := httpOutcome{status: rec.Code, data: string(parsed.Data), nErrs: len(parsed.Errors), log: w.log.take()}
	for _, e := range parsed.Errors {
		if c, _ := e.Extensions["code"].(string); c == codeExceeded {
			o.rejected = true
		}
	}
	return o, nil
}

func limitsFor(c int) []int {
	cand := []int{0, 1, c - 1, c}
	if c < maxInt {
		cand = append(cand, c+1)
	}
	cand = append(cand, maxInt)
	seen := map[int]bool{}
	var out []int
	for _, l := range cand {
		if !seen[l] {
			seen[l] = true
			out = append(out, l)
		}
	}
	return out
}

// limitGrid: the boundary grid of the limit dimension (de-duplicated, ascending apart from
// the c-relative values): {minInt, minInt+1, -maxInt, -2, -1, 0, 1, c-1, c, c+1, maxInt-1, maxInt}.
func limitGrid(c int) []int {
	minInt := -maxInt - 1
	cand := []int{minInt, minInt + 1, -maxInt, -2, -1, 0, 1, c - 1, c}
	if c < maxInt {
		cand = append(cand, c+1)
	}
	cand = append(cand, maxInt-1, maxInt)
	seen := map[int]bool{}
	var out []int
	for _, l := range cand {
		if !seen[l] {
			seen[l] = true
			out = append(out, l)
		}
	}
	return out
}

func sameLog(a, b []string) bool {
	if len(a) != len(b) {
		return false
	}
	for i := range a {
		if a[i] != b[i] {
			return false
		}
	}
	return true
}

// gate checks one (operation, assignment, limit) through the executor.
func (w *worker) gate(order []int, p *prepared, as Assign, es graphql.ExecutableSchema, cref int, limit int, base *gateOutcome) {
	w.counts["gate_runs"]++
	o := w.runExecutor(es, &limit, p.text, "", p.rawVars)
	rp := Replay{Op: p.op, Text: p.text, Assign: as, Limit: &limit}
	desc := fmt.Sprintf("%s | custom %s | limit %d | reference complexity %d", p.text, asString(as), limit, cref)
	if o.panicValue != nil {
		w.report(order, "panic", "panic:"+p.text+"|"+asString(as), fmt.Sprintf("executor panicked: %v (%s)", o.panicValue, desc), rp)
		return
	}
	if len(o.otherErrs) > 0 {
		w.report(order, "gate-other", "gate-other:"+p.text, fmt.Sprintf("validated operation was refused for another reason %v (%s)", o.otherErrs, desc), rp)
		return
	}
	if o.stats == nil || o.stats.Complexity != cref || o.stats.ComplexityLimit != limit {
		w.report(order, "stats", "stats:"+p.text+"|"+asString(as), fmt.Sprintf("ComplexityStats = %+v, want {%d %d} (%s)", o.stats, cref, limit, desc), rp)
	}
	if cref > limit {
		w.counts["gate_over_limit"]++
		if !o.rejected || len(o.log) != 0 || (o.data != "" && o.data != "null") {
			w.report(order, "gate-reject", "gate-reject:"+p.text+"|"+asString(as)+fmt.Sprintf("|L=%d", limit),
				fmt.Sprintf("over the limit but rejected=%v resolvers=%v data=%s (%s)", o.rejected, o.log, o.data, desc), rp)
		}
		return
	}
	w.counts["gate_within_limit"]++
	if o.rejected || o.data != base.data || o.respErrs != base.respErrs || !sameLog(o.log, base.log) {
		w.report(order, "gate-allow", "gate-allow:"+p.text+"|"+asString(as)+fmt.Sprintf("|L=%d", limit),
			fmt.Sprintf("within the limit but rejected=%v; data=%s (unlimited run: %s) resolvers=%v (unlimited: %v) (%s)", o.rejected, o.data, base.data, o.log, base.log, desc), rp)
	}
}

// ---- two requests in flight on one server ----

// inFlight runs two requests concurrently through ONE executor (FixedComplexityLimit(limit), LRU
// document cache) under a hand-rolled cooperative schedule: a request runs until its next custom
// complexity function call (the only preemption points) or its end, then the schedule decides
// which request continues. Every schedule (order of the segments of the two requests) is
// enumerated by depth-first search over the choices. Oracle: each request is admitted/rejected and
// executed exactly as it is alone (judge, the single-request oracle). This is not the vrt
// scheduler: preemption happens only at custom complexity function calls.
func (w *worker) inFlight(order []int, es graphql.ExecutableSchema, text string, as Assign, limit int, reqs [2]histReq, rp Replay) {
	prefix := []int{}
	for {
		steps, bad := w.runSchedule(es, text, limit, reqs, prefix)
		w.counts["in_flight_schedules"]++
		if bad != "" {
			var sched []int
			for _, st := range steps {
				sched = append(sched, st[0])
			}
			reqs[0].Limit, reqs[1].Limit = limit, limit
			rp.History = reqs[:]
			rp.Fixed = true
			rp.Schedule = sched
			w.report(order, "in-flight", fmt.Sprintf("in-flight:%s|%s|L=%d|%s+%s|%v", text, asString(as), limit, reqs[0].Label, reqs[1].Label, sched),
				fmt.Sprintf("two requests in flight on one executor (A: %s, B: %s; segment schedule %v, 0=A 1=B; FixedComplexityLimit(%d)) on %s | custom %s: %s", reqs[0].Label, reqs[1].Label, sched, limit, text, asString(as), bad), rp)
			return
		}
		// next schedule: bump the last choice that has an untried alternative
		i := len(steps) - 1
		for i >= 0 && steps[i][0]+1 >= steps[i][1] {
			i--
		}
		if i < 0 {
			return
		}
		prefix = prefix[:0]
		for _, st := range steps[:i] {
			prefix = append(prefix, st[0])
		}
		prefix = append(prefix, steps[i][0]+1)
	}
}

// runSchedule executes one schedule; prefix gives the first choices (index into the list of
// unfinished requests), later choices default to 0. Returns the steps taken as
// {choice, alternatives} and a description of the first oracle disagreement.
func (w *worker) runSchedule(es graphql.ExecutableSchema, text string, limit int, reqs [2]histReq, prefix []int) (steps [][2]int, bad string) {
	sess := w.newSession(es, &limit, false, lru.New[*ast.QueryDocument](4))
	type event struct {
		who  int
		done bool
	}
	events := make(chan event)
	resume := [2]chan struct{}{make(chan struct{}), make(chan struct{})}
	var outs [2]gateOutcome
	var started, finished [2]bool
	cur := -1
	onCustomCall = func() {
		me := cur
		events <- event{me, false}
		<-resume[me]
		cur = me
	}
	defer func() { onCustomCall = nil }()
	for !(finished[0] && finished[1]) {
		var alts []int
		for i := 0; i < 2; i++ {
			if !finished[i] {
				alts = append(alts, i)
			}
		}
		choice := 0
		if len(steps) < len(prefix) {
			choice = prefix[len(steps)]
		}
		steps = append(steps, [2]int{choice, len(alts)})
		who := alts[choice]
		cur = who
		if !started[who] {
			started[who] = true
			go func(i int) {
				outs[i] = w.do(sess, text, reqs[i].OpName, reqs[i].RawVars, nil)
				events <- event{i, true}
			}(who)
		} else {
			resume[who] <- struct{}{}
		}
		e := <-events
		w.counts["in_flight_segments"]++
		if e.who != who {
			return steps, fmt.Sprintf("harness: segment of request %d ended with an event of request %d", who, e.who)
		}
		if e.done {
			finished[who] = true
		}
	}
	for i := 0; i < 2; i++ {
		if msg := judge(&outs[i], reqs[i].cref, limit, reqs[i].base); msg != "" {
			return steps, fmt.Sprintf("request %s (alone: reference %d): %s", reqs[i].Label, reqs[i].cref, msg)
		}
	}
	return steps, ""
}

// ---- context faults: the request context is done before / becomes done during the walk ----

// ctxFault is one placement of "the request context is done".
type ctxFault struct {
	Kind string `json:"kind"`        // cancelled-before | deadline-expired | cancel-in-call
	K    int    `json:"k,omitempty"` // cancel-in-call: the context is cancelled inside the K-th custom complexity function call
}

func (f ctxFault) String() string {
	if f.Kind == "cancel-in-call" {
		return fmt.Sprintf("context cancelled inside custom complexity call #%d", f.K)
	}
	return "context " + f.Kind
}

// faultCtx arms the fault and returns the context to use for ONE request/walk and a disarm func.
func faultCtx(f ctxFault) (context.Context, func()) {
	switch f.Kind {
	case "cancelled-before":
		ctx, cancel := context.WithCancel(context.Background())
		cancel()
		return ctx, func() {}
	case "deadline-expired":
		ctx, cancel := context.WithDeadline(context.Background(), time.Unix(1, 0))
		return ctx, cancel
	case "cancel-in-call":
		ctx, cancel := context.WithCancel(context.Background())
		n := 0
		onCustomCall = func() {
			n++
			if n == f.K {
				cancel()
			}
		}
		return ctx, func() { onCustomCall = nil; cancel() }
	}
	panic("faultCtx: " + f.Kind)
}

// countCustomCalls: number of custom complexity function calls of one live-context walk.
func countCustomCalls(es graphql.ExecutableSchema, p *prepared) int {
	n := 0
	onCustomCall = func() { n++ }
	calc(es, p.def, p.vars)
	onCustomCall = nil
	return n
}

// ctxFaults enumerates every fault placement for (operation, assignment): the context is
// already cancelled, has an expired deadline, or is cancelled inside the k-th custom complexity
// function call for every k of the walk. Oracle: Calculate returns the reference value as with a
// live context; through the executor with FixedComplexityLimit an over-limit operation invokes no
// resolver and yields no data (which error is reported is not constrained), an at-or-below-limit
// operation is not rejected for complexity, and ComplexityStats equal the reference.
func (w *worker) ctxFaults(order []int, p *prepared, as Assign, es graphql.ExecutableSchema, cref int) {
	calls := countCustomCalls(es, p)
	w.counts["ctx_fault_call_positions"] += int64(calls)
	faults := []ctxFault{{Kind: "cancelled-before"}, {Kind: "deadline-expired"}}
	for k := 1; k <= calls; k++ {
		faults = append(faults, ctxFault{Kind: "cancel-in-call", K: k})
	}
	for fi, f := range faults {
		f := f
		o := append(append([]int{}, order...), 1<<22+fi)
		rp := Replay{Op: p.op, Text: p.text, Assign: as, Fault: &f}
		ctx, disarm := faultCtx(f)
		cimpl, err := calcCtx(ctx, es, p.def, p.vars)
		disarm()
		w.counts["ctx_fault_calculate_calls"]++
		if err != nil || cimpl != cref {
			w.report(o, "ctx-calc", fmt.Sprintf("ctx-calc:%s|%s|%s", p.text, asString(as), f),
				fmt.Sprintf("%s: complexity.Calculate = %d (err %v), with a live context and by the reference %d; %s | custom %s", f, cimpl, err, cref, p.text, asString(as)), rp)
		}
		for _, l := range []int{cref - 1, cref} {
			l := l
			rp.Limit = &l
			s := w.newSession(es, &l, false, nil)
			ctx, disarm := faultCtx(f)
			out := w.doCtx(ctx, s, p.text, "", p.rawVars, nil)
			disarm()
			w.counts["ctx_fault_gate_runs"]++
			var msg string
			switch {
			case out.panicValue != nil:
				msg = fmt.Sprintf("panic: %v", out.panicValue)
			case out.stats == nil || out.stats.Complexity != cref || out.stats.ComplexityLimit != l:
				msg = fmt.Sprintf("ComplexityStats = %+v, want {%d %d}", out.stats, cref, l)
			case cref > l && (len(out.log) != 0 || (out.data != "" && out.data != "null")):
				msg = fmt.Sprintf("over the limit (%d > %d) but resolvers=%v data=%s rejected=%v", cref, l, out.log, out.data, out.rejected)
			case cref <= l && out.rejected:
				msg = fmt.Sprintf("within the limit (%d <= %d) but rejected for complexity", cref, l)
			}
			if msg != "" {
				w.report(o, "ctx-gate", fmt.Sprintf("ctx-gate:%s|%s|L=%d|%s", p.text, asString(as), l, f),
					fmt.Sprintf("%s, FixedComplexityLimit(%d): %s; %s | custom %s", f, l, msg, p.text, asString(as)), rp)
			}
		}
	}
}

// ---- per-operation evaluation ----

func assignments(rel []string, f func(i int, as Assign)) {
	i := 0
	f(i, Assign{})
	i++
	for _, a := range rel {
		for fn := 1; fn < NumFn; fn++ {
			f(i, Assign{a: fn})
			i++
		}
	}
	for x := 0; x < len(rel); x++ {
		for y := x + 1; y < len(rel); y++ {
			for f1 := 1; f1 < NumFn; f1++ {
				for f2 := 1; f2 < NumFn; f2++ {
					f(i, Assign{rel[x]: f1, rel[y]: f2})
					i++
				}
			}
		}
	}
}

func (w *worker) evalOp(p *prepared) {
	size := p.op.Size()
	w.counts["operations"]++
	// removals (sub-operations): must be operations of the enumeration
	var subs []*prepared
	for _, r := range p.op.Removals() {
		t := r.Text()
		if sp, ok := w.table[t]; ok {
			subs = append(subs, sp)
		} else {
			w.counts["removals_not_valid_operations"]++
		}
	}
	// unlimited baseline run
	baseES := w.es(Assign{})
	base := w.runExecutor(baseES, nil, p.text, "", p.rawVars)
	if base.panicValue != nil || len(base.otherErrs) > 0 || base.rejected {
		w.report([]int{size, p.idx}, "baseline", "baseline:"+p.text, fmt.Sprintf("unlimited run failed: panic=%v errs=%v", base.panicValue, base.otherErrs), Replay{Op: p.op, Text: p.text})
		return
	}
	if len(base.log) > 0 {
		w.counts["operations_with_resolver_calls"]++
	}
	fullGate := size <= w.cfg.FullGateMax
	seenC := map[int]bool{}

	// Variable family: the same query text with different variables. The representative is the
	// operation in mode "given"; its variants send v=2, v=9, no value, null.
	type variant struct {
		op    *Op
		label string
		raw   map[string]any
		base  gateOutcome
	}
	var variants []*variant
	if size <= w.cfg.HistMax && p.op.VarMode == VarGiven && p.op.usesVar() {
		for _, v := range []struct {
			mode, val int
			label     string
		}{{VarGiven, 2, "v=2"}, {VarGiven, 9, "v=9"}, {VarAbsent, 0, "v absent"}, {VarNull, 0, "v=null"}} {
			vo := &Op{Root: p.op.Root, Sels: p.op.Sels, VarMode: v.mode, VarVal: v.val}
			if vo.Text() != p.text {
				panic("harness: variable variants must share the query text")
			}
			vr := &variant{op: vo, label: v.label, raw: vo.Vars()}
			vr.base = w.runExecutor(baseES, nil, p.text, "", vr.raw)
			variants = append(variants, vr)
		}
	}

	// order independence (differential, no reference involved): the operation with every
	// selection set reversed must have the same complexity
	var reversed *prepared
	if rop := p.op.Reversed(); rop.Text() != p.text {
		rt := rop.Text()
		if doc, errs := gqlparser.LoadQuery(w.schema, rt); len(errs) == 0 {
			if vars, err := validator.VariableValues(w.schema, doc.Operations[0], p.rawVars); err == nil {
				reversed = &prepared{op: rop, text: rt, doc: doc, def: doc.Operations[0], vars: vars}
			}
		}
		if reversed == nil {
			w.counts["reversed_not_valid"]++
		}
	}

	assignments(p.relevant, func(ai int, as Assign) {
		order := []int{size, p.idx, ai}
		w.counts["op_x_assignment"]++
		cref, customUsed, maxTaken := RefComplexity(p.op, as)
		if customUsed || maxTaken {
			w.nontr++
		}
		es := w.es(as)
		rp := Replay{Op: p.op, Text: p.text, Assign: as}
		cimpl, err := calc(es, p.def, p.vars)
		w.counts["calculate_calls"]++
		if err != nil {
			w.report(order, "panic", "panic:"+p.text+"|"+asString(as), fmt.Sprintf("complexity.Calculate: %v (%s | custom %s)", err, p.text, asString(as)), rp)
			return
		}
		if cimpl != cref {
			kind, sig := "calc", "calc:"+p.text+"|"+asString(as)
			if alt := RefComplexityAlt(p.op, as); alt == cimpl {
				// its own kind, so that it does not use up the reporting slots of other mismatches
				kind, sig = "calc-iface", "calc:interface-implementing-interface-counted-as-implementor-at-default-cost"
			}
			w.report(order, kind, sig, fmt.Sprintf("complexity.Calculate = %d, reference = %d for %s | custom %s | variables %v", cimpl, cref, p.text, asString(as), p.rawVars), rp)
			return // the gate oracles below are stated in terms of the reference value
		}
		// monotonicity against every sub-operation
		for _, sp := range subs {
			cs, err := calc(es, sp.def, sp.vars)
			w.counts["calculate_calls"]++
			w.counts["monotonicity_pairs"]++
			if err == nil && cs > cimpl {
				w.report(order, "mono", "mono:"+sp.text+"<"+p.text+"|"+asString(as),
					fmt.Sprintf("complexity decreased when selections were added: %s = %d but %s = %d | custom %s", sp.text, cs, p.text, cimpl, asString(as)), rp)
			}
		}
		if reversed != nil && len(as) <= 1 {
			cr, err := calc(es, reversed.def, reversed.vars)
			w.counts["calculate_calls"]++
			w.counts["order_independence_pairs"]++
			if err != nil || cr != cimpl {
				w.report(order, "order", "order:"+p.text+"|"+asString(as),
					fmt.Sprintf("complexity depends on the order of selections: %s = %d but %s = %d (err %v) | custom %s", p.text, cimpl, reversed.text, cr, err, asString(as)), rp)
			}
		}
		// histories over the variable family: every ordered pair (and a-b-a triple) of variants
		// through one long-lived executor with FixedComplexityLimit. Run for the assignments under
		// which the variants' reference values can differ (a custom function that reads the
		// argument) and for "no custom function".
		// (operations above the full-gate size: without a second, unrelated deviating field)
		nArgFns := 0 // custom functions of the assignment that read the argument
		for k, fn := range as {
			if _, ok := argDefault[k]; ok && fn == FnChildArg {
				nArgFns++
			}
		}
		readsArg := nArgFns > 0
		onlyArgFns := len(as) == 1 || nArgFns == len(as)
		if variants != nil && (len(as) == 0 || (readsArg && (fullGate || onlyArgFns))) {
			w.counts["variable_family_op_x_assignment"]++
			cs := make([]int, len(variants))
			for i, v := range variants {
				cs[i], _, _ = RefComplexity(v.op, as)
			}
			mk := func(i, limit int) histReq {
				v := variants[i]
				return histReq{Label: v.label, RawVars: v.raw, Limit: limit, cref: cs[i], base: &v.base}
			}
			hi := 0
			for a := range variants {
				for b := range variants {
					if a == b {
						continue
					}
					// a > b > a at the lower value (the cheaper one admitted, the other rejected);
					// a > b at the higher value (both admitted, ComplexityStats must still differ)
					lo, up := min(cs[a], cs[b]), max(cs[a], cs[b])
					hi++
					w.runHistory(append(order, 1<<20+hi), es, p.text, as, true, []histReq{mk(a, lo), mk(b, lo), mk(a, lo)}, rp)
					if up != lo {
						hi++
						w.runHistory(append(order, 1<<20+hi), es, p.text, as, true, []histReq{mk(a, up), mk(b, up)}, rp)
					}
				}
			}
			// two requests IN FLIGHT on one server (same text, different variables): every order of
			// their custom-complexity-call segments
			if readsArg && nArgFns == len(as) && size <= w.cfg.ConcMax {
				pairs := [][2]int{{0, 1}, {1, 2}}
				if !fullGate {
					pairs = pairs[:1] // above the full-gate size: v=2 with v=9 only
				}
				for ci, pr := range pairs {
					a, b := pr[0], pr[1]
					w.inFlight(append(order, 1<<20+500+ci), es, p.text, as, min(cs[a], cs[b]), [2]histReq{mk(a, 0), mk(b, 0)}, rp)
				}
			}
		}
		// context faults: no custom function (context already done) for every operation; every
		// single-field assignment for operations within the full-gate size
		if size <= w.cfg.CtxMax && (len(as) == 0 || (fullGate && len(as) == 1)) {
			w.ctxFaults(order, p, as, es, cref)
		}
		if !fullGate && seenC[cref] {
			return
		}
		firstC := !seenC[cref]
		seenC[cref] = true
		core := limitsFor(cref)
		for li, l := range core {
			w.gate(append(order, li), p, as, es, cref, l, &base)
		}
		// the whole boundary grid of limits (negative and huge ones included) for the first
		// assignment that reaches each distinct complexity value of this operation: through
		// FixedComplexityLimit (fresh executor per limit) and, as one history in grid order, through
		// a long-lived executor with the per-request ComplexityLimit{Func}
		if firstC {
			var hist []histReq
			for li, l := range limitGrid(cref) {
				isCore := false
				for _, c := range core {
					isCore = isCore || c == l
				}
				if !isCore {
					w.counts["gate_runs_limit_grid_extension"]++
					w.gate(append(order, 100+li), p, as, es, cref, l, &base)
				}
				hist = append(hist, histReq{Label: "same request", RawVars: p.rawVars, Limit: l, cref: cref, base: &base})
			}
			w.counts["limit_grid_dynamic_histories"]++
			w.runHistory(append(order, 1<<21-1), es, p.text, as, false, hist, rp)
		}
		// limit family: the same request with different per-request limits through one
		// long-lived executor with ComplexityLimit{Func}
		if size <= w.cfg.HistMax {
			r := func(l int) histReq {
				return histReq{Label: "same request", RawVars: p.rawVars, Limit: l, cref: cref, base: &base}
			}
			w.runHistory(append(order, 1<<21), es, p.text, as, false, []histReq{r(cref), r(cref - 1), r(cref)}, rp)
		}
	})

	// context faults at every position of the walk: a custom function (const 1) on EVERY field
	// the operation touches, so that each field node of the walk (each implementor for interface
	// selections) is a call position
	if size <= w.cfg.CtxMax && len(p.relevant) > 0 {
		as := Assign{}
		for _, k := range p.relevant {
			as[k] = FnC1
		}
		order := []int{size, p.idx, 1<<30 - 1}
		cref, _, _ := RefComplexity(p.op, as)
		es := w.es(as)
		cimpl, err := calc(es, p.def, p.vars)
		w.counts["calculate_calls"]++
		if err != nil || cimpl != cref {
			w.report(order, "calc", "calc:"+p.text+"|"+asString(as), fmt.Sprintf("complexity.Calculate = %d (err %v), reference = %d for %s | custom %s", cimpl, err, cref, p.text, asString(as)), Replay{Op: p.op, Text: p.text, Assign: as})
		} else {
			w.counts["ctx_fault_all_fields_assignments"]++
			w.ctxFaults(order, p, as, es, cref)
		}
	}

	// functions on fields the definition never consults must not matter
	{
		rel := map[string]bool{}
		for _, r := range p.relevant {
			rel[r] = true
		}
		as := Assign{}
		for _, k := range w.ct.all {
			if !rel[k] {
				as[k] = FnMax
			}
		}
		cref, _, _ := RefComplexity(p.op, Assign{})
		cimpl, err := calc(w.es(as), p.def, p.vars)
		w.counts["calculate_calls"]++
		w.counts["irrelevant_assignment_checks"]++
		if err != nil || cimpl != cref {
			w.report([]int{size, p.idx, 1 << 30}, "calc-irrelevant", "calc-irrelevant:"+p.text,
				fmt.Sprintf("custom functions (maxInt) on fields not selected changed the result: Calculate = %d (err %v), reference %d, %s", cimpl, err, cref, p.text), Replay{Op: p.op, Text: p.text, Assign: as})
		}
	}

	// HTTP: handler.Server + POST transport, no custom functions, limits c-1 and c
	if size <= w.cfg.HTTPMax {
		cref, _, _ := RefComplexity(p.op, Assign{})
		for _, l := range []int{cref - 1, cref} {
			l := l
			w.counts["http_runs"]++
			o, err := w.runHTTP(baseES, &l, p.text, p.rawVars)
			rp := Replay{Op: p.op, Text: p.text, Limit: &l}
			switch {
			case err != nil:
				w.report([]int{size, p.idx, 1<<30 + 1}, "http", "http:"+p.text, err.Error(), rp)
			case cref > l && (!o.rejected || len(o.log) != 0 || o.data != "null"):
				w.report([]int{size, p.idx, 1<<30 + 1}, "http", fmt.Sprintf("http-reject:%s|L=%d", p.text, l),
					fmt.Sprintf("POST: over the limit (%d > %d) but rejected=%v resolvers=%v data=%s for %s", cref, l, o.rejected, o.log, o.data, p.text), rp)
			case cref <= l && (o.rejected || o.data != base.data || !sameLog(o.log, base.log)):
				w.report([]int{size, p.idx, 1<<30 + 1}, "http", fmt.Sprintf("http-allow:%s|L=%d", p.text, l),
					fmt.Sprintf("POST: within the limit (%d <= %d) but rejected=%v data=%s (unlimited %s) for %s", cref, l, o.rejected, o.data, base.data, p.text), rp)
			}
		}
	}

	// HTTP with a request context that is already done (client gone / deadline passed)
	if size <= w.cfg.HTTPMax && size <= w.cfg.CtxMax {
		cref, _, _ := RefComplexity(p.op, Assign{})
		for fi, f := range []ctxFault{{Kind: "cancelled-before"}, {Kind: "deadline-expired"}} {
			f := f
			for _, l := range []int{cref - 1, cref} {
				l := l
				w.counts["ctx_fault_http_runs"]++
				ctx, disarm := faultCtx(f)
				o, err := w.runHTTPCtx(ctx, baseES, &l, p.text, p.rawVars)
				disarm()
				rp := Replay{Op: p.op, Text: p.text, Limit: &l, Fault: &f}
				var msg string
				switch {
				case err != nil:
					msg = err.Error()
				case cref > l && (len(o.log) != 0 || (o.data != "" && o.data != "null")):
					msg = fmt.Sprintf("over the limit (%d > %d) but resolvers=%v data=%s", cref, l, o.log, o.data)
				case cref <= l && o.rejected:
					msg = fmt.Sprintf("within the limit (%d <= %d) but rejected for complexity", cref, l)
				}
				if msg != "" {
					w.report([]int{size, p.idx, 1<<30 + 1, fi}, "ctx-http", fmt.Sprintf("ctx-http:%s|L=%d|%s", p.text, l, f), fmt.Sprintf("POST, %s: %s; %s", f, msg, p.text), rp)
				}
			}
		}
	}

	// operationName family: a document with two operations (this one as Main and a more
	// expensive Decoy); single requests and histories that switch the selected operation on one
	// long-lived executor
	if size <= 2 {
		cref, _, _ := RefComplexity(p.op, Assign{})
		named := strings.Replace(p.text, p.op.Root, p.op.Root+" Main", 1)
		cdec, _, _ := RefComplexity(decoyOp, Assign{})
		for di, text := range []string{decoyText + " " + named, named + " " + decoyText} {
			decBase := w.runExecutor(baseES, nil, text, "Decoy", p.rawVars)
			mainBase := w.runExecutor(baseES, nil, text, "Main", p.rawVars)
			if mainBase.panicValue != nil || len(mainBase.otherErrs) > 0 || !sameLog(mainBase.log, base.log) || mainBase.data != base.data {
				w.report([]int{size, p.idx, 1<<30 + 2 + di}, "named", "named-baseline:"+text,
					fmt.Sprintf("unlimited run of operation Main differs from the single-operation document: %+v vs %+v", mainBase, base), Replay{Text: text})
				continue
			}
			mainReq := func(l int) histReq {
				return histReq{Label: "Main", OpName: "Main", RawVars: p.rawVars, Limit: l, cref: cref, base: &mainBase}
			}
			decReq := func(l int) histReq {
				return histReq{Label: "Decoy", OpName: "Decoy", RawVars: p.rawVars, Limit: l, cref: cdec, base: &decBase}
			}
			order := []int{size, p.idx, 1<<30 + 2 + di}
			rp := Replay{Text: text}
			for _, l := range []int{cref - 1, cref, cdec} {
				w.counts["named_operation_histories"] += 4
				w.runHistory(order, baseES, text, Assign{}, true, []histReq{mainReq(l)}, rp)
				w.runHistory(order, baseES, text, Assign{}, true, []histReq{decReq(l), mainReq(l)}, rp)
				w.runHistory(order, baseES, text, Assign{}, true, []histReq{mainReq(l), decReq(l)}, rp)
				w.runHistory(order, baseES, text, Assign{}, true, []histReq{mainReq(l), decReq(l), mainReq(l)}, rp)
			}
		}
	}
}

const decoyText = "query Decoy{t{kid{kid{kid{kid{id}}}}}}" // complexity 6 > any operation of <= 2 nodes

var decoyOp = func() *Op {
	leaf := &Node{Kind: KField, Name: "id"}
	n := leaf
	for i := 0; i < 4; i++ {
		n = &Node{Kind: KField, Name: "kid", Kids: []*Node{n}}
	}
	return &Op{Root: "query", Sels: []*Node{{Kind: KField, Name: "t", Kids: []*Node{n}}}}
}()

// ---- schema table self-check ----

func checkSchemaTable(s *ast.Schema) error {
	for name, td := range schemaTab {
		def := s.Types[name]
		if def == nil {
			return fmt.Errorf("type %s missing in generated schema", name)
		}
		if string(def.Kind) != td.Kind {
			return fmt.Errorf("type %s kind %s, table says %s", name, def.Kind, td.Kind)
		}
		for _, tf := range td.Fields {
			f := def.Fields.ForName(tf.Name)
			if f == nil {
				return fmt.Errorf("%s.%s missing in generated schema", name, tf.Name)
			}
			if tf.Type != f.Type.Name() {
				return fmt.Errorf("%s.%s type %s, table says %s", name, tf.Name, f.Type.Name(), tf.Type)
			}
		}
		// fields of the probe that the table does not know are outside the grammar (tolerated)
		var objs []string
		for _, pt := range s.GetPossibleTypes(def) {
			if pt.Kind == ast.Object {
				objs = append(objs, pt.Name)
			}
		}
		sort.Strings(objs)
		if strings.Join(objs, ",") != strings.Join(td.Objects, ",") {
			return fmt.Errorf("%s possible object types %v, table %v", name, objs, td.Objects)
		}
	}
	return nil
}

// ---- safeAdd boundary grid ----

func safeAddGrid(res *Result, layout string) {
	minInt := -maxInt - 1
	grid := []int{minInt, minInt + 1, -2, -1, 0, 1, 2, maxInt / 2, maxInt/2 + 1, maxInt - 2, maxInt - 1, maxInt}
	res.SafeAddGrid = len(grid) * len(grid)
	undefined := 0
	for _, a := range grid {
		for _, b := range grid {
			a, b := a, b
			got := complexity.SafeAddForVerif(a, b)
			want, defined := refSafeAdd(a, b)
			res.Counts["safeadd_cells"]++
			bad := false
			if defined {
				bad = got != want
			} else {
				undefined++
				bad = got < 0 // both operands negative: only "no negative result" is required
			}
			if bad {
				res.Violations = append(res.Violations, Violation{Order: []int{0, len(res.Violations)}, Kind: "safeadd",
					Sig:    fmt.Sprintf("safeadd:%d+%d", a, b),
					What:   fmt.Sprintf("safeAdd(%d, %d) = %d, documented saturating sum = %d (defined=%v)", a, b, got, want, defined),
					Replay: Replay{Layout: layout, Kind: "safeadd", A: &a, B: &b}})
			}
		}
	}
	res.Counts["safeadd_cells_both_negative_unspecified"] = int64(undefined)
}

// ---- driver ----

func writeResult(path string, res *Result) {
	b, _ := json.MarshalIndent(res, "", " ")
	if err := os.WriteFile(path, b, 0o644); err != nil {
		fmt.Fprintln(os.Stderr, "cannot write result:", err)
		os.Exit(2)
	}
}

func main() {
	layout := flag.String("layout", "single-file", "layout label")
	tier := flag.String("tier", "quick", "quick|thorough")
	out := flag.String("out", "", "result file")
	maxNodes := flag.Int("n", 4, "max selection nodes")
	fullGate := flag.Int("fullgate", 3, "sizes <= this get the executor gate for every assignment")
	httpMax := flag.Int("http", 4, "sizes <= this also go through HTTP POST")
	histMax := flag.Int("hist", 4, "sizes <= this get request histories through a long-lived executor")
	ctxMax := flag.Int("ctx", 4, "sizes <= this get the context-fault enumeration")
	concMax := flag.Int("conc", 4, "sizes <= this get the two-requests-in-flight enumeration")
	budget := flag.Int("budget", 100, "seconds")
	shard := flag.Int("shard", 0, "this process handles generated operations with index % shards == shard")
	shards := flag.Int("shards", 1, "number of harness processes")
	replay := flag.String("replay", "", "replay file (the 'replay' object of a violation)")
	flag.Parse()

	res := &Result{Layout: *layout, Counts: map[string]int64{}, PerSize: map[string]int64{}, Exhaustive: true,
		Seconds: map[string]float64{}, Dropped: map[string]int64{}}
	fail := func(format string, a ...any) {
		res.Broken = fmt.Sprintf(format, a...)
		writeResult(*out, res)
		os.Exit(2)
	}
	cfg := &Config{Layout: *layout, MaxNodes: *maxNodes, FullGateMax: *fullGate, HTTPMax: *httpMax, HistMax: *histMax, CtxMax: *ctxMax, ConcMax: *concMax, Grammar: grammarFor(*tier, false), TopGrammar: grammarFor(*tier, true),
		Deadline: time.Now().Add(time.Duration(*budget) * time.Second)}

	if err := selfCheckFns(); err != nil {
		fail("%v", err)
	}
	ct, err := buildCustomTable()
	if err != nil {
		fail("%v", err)
	}
	schema := graph.NewExecutableSchema(graph.Config{}).Schema()
	if err := checkSchemaTable(schema); err != nil {
		fail("schema table: %v", err)
	}
	l := &resolverLog{}
	w := &worker{cfg: cfg, schema: schema, ct: ct, log: l, stub: newStub(l), cache: lru.New[*ast.QueryDocument](2),
		counts: res.Counts, table: map[string]*prepared{}}

	if *replay != "" {
		runReplay(w, schema, *replay)
		return
	}

	// the grid also proves that the inserted observer is live: it must have seen exactly the
	// cells with a negative operand
	if *shard == 0 {
		before := complexity.VerifNegativeOperands()
		safeAddGrid(res, *layout)
		if d := complexity.VerifNegativeOperands() - before; d != 144-64 {
			fail("safeAdd observer saw %d negative-operand calls on the grid, expected 80", d)
		}
	}
	if *shard == 0 {
		res.Counts["complexityroot_members_outside_schema_table"] = int64(ct.extra)
	}
	negAfterGrid := complexity.VerifNegativeOperands()

	prepare := func(j int, op *Op, mine bool) *prepared {
		text := op.Text()
		doc, errs := gqlparser.LoadQuery(schema, text) // parse + validator.Validate
		if len(errs) > 0 {
			if mine {
				res.Dropped[errs[0].Rule]++
				res.Counts["operations_dropped_by_validator"]++
			}
			return nil
		}
		def := doc.Operations[0]
		raw := op.Vars()
		vars, verr := validator.VariableValues(schema, def, raw)
		if verr != nil {
			fail("variables of %s do not coerce: %v", text, verr)
		}
		return &prepared{idx: j, op: op, text: text, doc: doc, def: def, rawVars: raw, vars: vars, relevant: op.RelevantFields()}
	}

	expired := false
	for size := 1; size <= cfg.MaxNodes && !expired; size++ {
		t0 := time.Now()
		last := size == cfg.MaxNodes
		var keep []*prepared
		j := -1
		gram := cfg.Grammar
		if last {
			gram = cfg.TopGrammar
		}
		gram.Enumerate(size, func(op *Op) {
			j++
			// multiplicative hash of the index: plain j % shards lines up with the periods of the
			// enumeration (argument forms, aliases) and gives very uneven shards
			mine := int((uint32(j)*2654435761)>>12)%*shards == *shard
			if mine {
				res.Counts["operations_generated"]++
			}
			if expired || (last && !mine) {
				return
			}
			// operations below the top size are prepared by every shard: they form the table of
			// sub-operations for the monotonicity check
			p := prepare(j, op, mine)
			if p == nil {
				return
			}
			if !last {
				keep = append(keep, p)
			}
			if !mine {
				return
			}
			if time.Now().After(cfg.Deadline) {
				expired = true
				return
			}
			res.PerSize[fmt.Sprint(size)]++
			if os.Getenv("C14_COUNTONLY") != "" { // measuring aid: size of the operation space only
				return
			}
			w.evalOp(p)
		})
		if expired {
			res.Exhaustive = false
			res.Notes = append(res.Notes, fmt.Sprintf("shard %d: budget expired inside size %d", *shard, size))
			break
		}
		res.Completed = append(res.Completed, size)
		res.Seconds[fmt.Sprint(size)] = float64(int(time.Since(t0).Seconds()*10)) / 10
		for _, p := range keep {
			w.table[p.text] = p
		}
	}
	res.Counts["distinct_nontrivial"] = w.nontr
	res.Violations = append(res.Violations, w.viols...)
	res.Counts["safeadd_negative_operand_calls_from_walker"] = complexity.VerifNegativeOperands() - negAfterGrid
	if *shard == 0 {
		res.Samples = samples(cfg, schema, ct)
	}
	writeResult(*out, res)
}

// samples: a few explored cases, chosen deterministically.
func samples(cfg *Config, schema *ast.Schema, ct *customTable) []any {
	var out []any
	n := 0
	cfg.Grammar.Enumerate(min(3, cfg.MaxNodes), func(op *Op) {
		n++
		if len(out) >= 4 || n%977 != 1 {
			return
		}
		text := op.Text()
		if _, errs := gqlparser.LoadQuery(schema, text); len(errs) > 0 {
			return
		}
		rel := op.RelevantFields()
		as := Assign{}
		if len(rel) > 0 {
			as[rel[0]] = FnDouble
		}
		c, _, _ := RefComplexity(op, as)
		out = append(out, map[string]any{"operation": text, "custom": asString(as), "reference_complexity": c, "limits": limitsFor(c)})
	})
	return out
}

// ---- replay ----

func runReplay(w *worker, schema *ast.Schema, path string) {
	b, err := os.ReadFile(path)
	if err != nil {
		fmt.Println("cannot read replay:", err)
		os.Exit(2)
	}
	var rp Replay
	if err := json.Unmarshal(b, &rp); err != nil {
		fmt.Println("cannot parse replay:", err)
		os.Exit(2)
	}
	if rp.Kind == "safeadd" {
		got := complexity.SafeAddForVerif(*rp.A, *rp.B)
		want, def := refSafeAdd(*rp.A, *rp.B)
		fmt.Printf("safeAdd(%d, %d) = %d; documented = %d (defined=%v)\n", *rp.A, *rp.B, got, want, def)
		return
	}
	text := rp.Text
	var rawVars map[string]any
	if rp.Op != nil {
		text = rp.Op.Text()
		rawVars = rp.Op.Vars()
	}
	fmt.Println("operation:", text)
	fmt.Println("variables:", rawVars)
	fmt.Println("custom   :", asString(rp.Assign))
	doc, errs := gqlparser.LoadQuery(schema, text)
	if len(errs) > 0 {
		fmt.Println("does not validate:", errs)
		return
	}
	def := doc.Operations.ForName("")
	opName := ""
	if def == nil {
		def = doc.Operations.ForName("Main")
		opName = "Main"
	}
	vars, _ := validator.VariableValues(schema, def, rawVars)
	es := w.es(rp.Assign)
	c, err := calc(es, def, vars)
	fmt.Printf("complexity.Calculate = %d (err %v)\n", c, err)
	if rp.Op != nil {
		cref, _, _ := RefComplexity(rp.Op, rp.Assign)
		fmt.Printf("reference            = %d\n", cref)
		for _, r := range rp.Op.Removals() {
			if d2, errs := gqlparser.LoadQuery(schema, r.Text()); len(errs) == 0 {
				v2, _ := validator.VariableValues(schema, d2.Operations[0], r.Vars())
				cs, _ := calc(es, d2.Operations[0], v2)
				rr, _, _ := RefComplexity(r, rp.Assign)
				fmt.Printf("  sub-operation %s: Calculate = %d, reference = %d\n", r.Text(), cs, rr)
			}
		}
	}
	if rp.Fault != nil {
		ctx, disarm := faultCtx(*rp.Fault)
		cf, err := calcCtx(ctx, es, def, vars)
		disarm()
		fmt.Printf("%s: complexity.Calculate = %d (err %v); custom calls in a live walk: %d\n", *rp.Fault, cf, err,
			countCustomCalls(es, &prepared{def: def, vars: vars}))
		if rp.Limit != nil {
			ctx, disarm := faultCtx(*rp.Fault)
			o := w.doCtx(ctx, w.newSession(es, rp.Limit, false, nil), text, opName, rawVars, nil)
			disarm()
			fmt.Printf("executor with FixedComplexityLimit(%d) under the fault: rejected=%v resolvers=%v data=%s stats=%+v otherErrs=%v panic=%v\n",
				*rp.Limit, o.rejected, o.log, o.data, o.stats, o.otherErrs, o.panicValue)
		}
		return
	}
	if len(rp.History) > 0 {
		var sess *session
		if rp.Fixed {
			l := rp.History[0].Limit
			sess = w.newSession(es, &l, false, lru.New[*ast.QueryDocument](4))
		} else {
			sess = w.newSession(es, nil, true, lru.New[*ast.QueryDocument](4))
		}
		fmt.Printf("history through one long-lived executor with a query cache (fixed limit server: %v):\n", rp.Fixed)
		for i, r := range rp.History {
			for k, v := range r.RawVars {
				if f, ok := v.(float64); ok {
					r.RawVars[k] = int(f)
				}
			}
			var dyn *int
			if !rp.Fixed {
				l := r.Limit
				dyn = &l
			}
			o := w.do(sess, text, r.OpName, r.RawVars, dyn)
			ref := "n/a"
			if rp.Op != nil {
				vo := &Op{Root: rp.Op.Root, Sels: rp.Op.Sels, VarMode: VarAbsent}
				if v, ok := r.RawVars["v"]; ok {
					if v == nil {
						vo.VarMode = VarNull
					} else {
						vo.VarMode, vo.VarVal = VarGiven, v.(int)
					}
				}
				c, _, _ := RefComplexity(vo, rp.Assign)
				ref = fmt.Sprint(c)
			}
			fmt.Printf("  request %d %s operationName=%q variables=%v limit=%d: reference=%s rejected=%v resolvers=%v data=%s stats=%+v otherErrs=%v panic=%v\n",
				i+1, r.Label, r.OpName, r.RawVars, r.Limit, ref, o.rejected, o.log, o.data, o.stats, o.otherErrs, o.panicValue)
		}
		return
	}
	if rp.Limit != nil {
		o := w.runExecutor(es, rp.Limit, text, opName, rawVars)
		fmt.Printf("executor with FixedComplexityLimit(%d): rejected=%v resolvers=%v data=%s stats=%+v otherErrs=%v panic=%v\n",
			*rp.Limit, o.rejected, o.log, o.data, o.stats, o.otherErrs, o.panicValue)
	}
}

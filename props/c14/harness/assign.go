//go:build verifharness

package main

// The "user side" of the probe server: custom complexity functions (int versions of the
// alphabet in ref.go) installed into graph.ComplexityRoot by reflection, and logging stub
// resolvers installed into graph.Stub.

import (
	"fmt"
	"math/big"
	"reflect"
	"sort"
	"strings"
	"sync"

	"probe/graph"
)

// intFn is what a user would write: plain ints, written so that it cannot overflow itself.
func intFn(fn int, child int, x *int, ylen int) int {
	switch fn {
	case FnC0:
		return 0
	case FnC1:
		return 1
	case FnC5:
		return 5
	case FnNeg3:
		return -3
	case FnMax:
		return maxInt
	case FnMax1:
		return maxInt - 1
	case FnDouble:
		if child > maxInt/2 {
			return maxInt
		}
		return child * 2
	case FnChildArg:
		r := child
		add := func(d int) {
			if d > 0 && r > maxInt-d {
				r = maxInt
			} else {
				r += d
			}
		}
		if x != nil {
			add(*x)
		}
		add(10 * ylen)
		return r
	}
	panic("intFn")
}

// selfCheckFns compares intFn with bigFn on a boundary grid (machinery self-test).
func selfCheckFns() error {
	children := []int{0, 1, 2, 5, 6, maxInt/2 - 1, maxInt / 2, maxInt/2 + 1, maxInt - 11, maxInt - 10, maxInt - 1, maxInt}
	xs := []*int{nil, ip(0), ip(2), ip(3), ip(7), ip(-4)}
	for fn := 1; fn < NumFn; fn++ {
		for _, ch := range children {
			for _, x := range xs {
				for _, yl := range []int{0, 2} {
					var bx *big.Int
					if x != nil {
						bx = big.NewInt(int64(*x))
					}
					want := bigFn(fn, big.NewInt(int64(ch)), bx, yl)
					got := intFn(fn, ch, x, yl)
					if want.Cmp(big.NewInt(int64(got))) != 0 {
						return fmt.Errorf("custom function %s: int version gives %d, big version %s (child=%d)", fnNames[fn], got, want, ch)
					}
				}
			}
		}
	}
	return nil
}

func ip(i int) *int { return &i }

// Go names of the ComplexityRoot fields, written by hand from the schema (gqlgen's naming:
// upper-case first letter, initialism ID, "NN" lint-named to "Nn").
func goName(field string) string {
	switch field {
	case "id":
		return "ID"
	case "kidsNN":
		return "KidsNn"
	}
	return string(field[0]-'a'+'A') + field[1:]
}

// customFuncs[objectField][fn] = reflect.Value of a func with the ComplexityRoot field's type.
type customTable struct {
	typ   reflect.Type
	funcs map[string][]reflect.Value // "T.id" -> per fn
	index map[string][]int           // "T.id" -> field index path inside ComplexityRoot
	all   []string                   // all "Object.field" names, sorted
	extra int                        // members outside the schema table
}

// onCustomCall, when set, is invoked at the start of every custom complexity function call
// (the harness process is single-threaded; the walk calls the functions synchronously). Used
// to count the calls of a walk and to cancel the request context inside the k-th call.
var onCustomCall func()

func buildCustomTable() (*customTable, error) {
	ct := &customTable{typ: reflect.TypeOf(graph.ComplexityRoot{}), funcs: map[string][]reflect.Value{}, index: map[string][]int{}}
	mk := func(ft reflect.Type) []reflect.Value {
		fns := make([]reflect.Value, NumFn)
		for fn := 1; fn < NumFn; fn++ {
			fn := fn
			fns[fn] = reflect.MakeFunc(ft, func(args []reflect.Value) []reflect.Value {
				if onCustomCall != nil {
					onCustomCall()
				}
				child := int(args[0].Int())
				var x *int
				ylen := 0
				for _, a := range args[1:] {
					switch v := a.Interface().(type) {
					case *int:
						x = v
					case []string:
						ylen = len(v)
					}
				}
				return []reflect.Value{reflect.ValueOf(intFn(fn, child, x, ylen))}
			})
		}
		return fns
	}
	known := map[string]bool{} // "Object.GoMember" of the table's fields
	for obj, td := range schemaTab {
		if td.Kind != "OBJECT" || strings.HasPrefix(obj, "__") {
			continue // introspection types have no ComplexityRoot member
		}
		of, ok := ct.typ.FieldByName(obj)
		if !ok {
			return nil, fmt.Errorf("ComplexityRoot has no member %s", obj)
		}
		for _, f := range td.Fields {
			if strings.HasPrefix(f.Name, "__") {
				continue // meta fields have no ComplexityRoot member
			}
			if canon(obj+"."+f.Name) != obj+"."+f.Name {
				continue // configured through the member of the field it shares a Go field with
			}
			ff, ok := of.Type.FieldByName(goName(f.Name))
			if !ok {
				return nil, fmt.Errorf("ComplexityRoot.%s has no member %s (for field %s)", obj, goName(f.Name), f.Name)
			}
			key := obj + "." + f.Name
			ct.index[key] = append(append([]int{}, of.Index...), ff.Index...)
			ct.all = append(ct.all, key)
			ct.funcs[key] = mk(ff.Type)
			known[obj+"."+ff.Name] = true
		}
	}
	// members for types/fields outside the schema table (the shared probe schema may carry
	// more than this check's grammar uses): never relevant to an operation of the grammar, they
	// only take part in the "functions on untouched fields do not matter" assignment
	for i := 0; i < ct.typ.NumField(); i++ {
		of := ct.typ.Field(i)
		for j := 0; j < of.Type.NumField(); j++ {
			ff := of.Type.Field(j)
			if known[of.Name+"."+ff.Name] {
				continue
			}
			key := of.Name + ".(go)" + ff.Name
			ct.index[key] = []int{i, j}
			ct.all = append(ct.all, key)
			ct.funcs[key] = mk(ff.Type)
			ct.extra++
		}
	}
	sort.Strings(ct.all)
	return ct, nil
}

func (ct *customTable) root(as Assign) graph.ComplexityRoot {
	var cr graph.ComplexityRoot
	v := reflect.ValueOf(&cr).Elem()
	for key, fn := range as {
		if fn == FnNone {
			continue
		}
		v.FieldByIndex(ct.index[key]).Set(ct.funcs[key][fn])
	}
	return cr
}

// ---- logging stub resolvers ----

type resolverLog struct {
	mu    sync.Mutex
	calls []string
}

func (l *resolverLog) add(s string) {
	l.mu.Lock()
	l.calls = append(l.calls, s)
	l.mu.Unlock()
}

func (l *resolverLog) take() []string {
	l.mu.Lock()
	c := l.calls
	l.calls = nil
	l.mu.Unlock()
	sort.Strings(c)
	return c
}

var (
	errType  = reflect.TypeOf((*error)(nil)).Elem()
	nodeType = reflect.TypeOf((*graph.Node)(nil)).Elem()
	entType  = reflect.TypeOf((*graph.Ent)(nil)).Elem()
	uType    = reflect.TypeOf((*graph.U)(nil)).Elem()
)

func someValue(t reflect.Type) reflect.Value {
	switch {
	case t == errType:
		return reflect.Zero(t)
	case t == entType:
		return reflect.ValueOf(&graph.Usr{}).Convert(t)
	case t == nodeType || t == uType:
		return reflect.ValueOf(&graph.T{ID: "n"}).Convert(t)
	}
	switch t.Kind() {
	case reflect.Ptr:
		p := reflect.New(t.Elem())
		if t.Elem().Kind() == reflect.Struct && strings.HasSuffix(t.Elem().PkgPath(), "c14model") {
			// this check's own models: one element in every list so that nested fields execute
			for i := 0; i < t.Elem().NumField(); i++ {
				if f := p.Elem().Field(i); f.Kind() == reflect.Slice {
					f.Set(someValue(f.Type()))
				}
			}
		}
		if t.Elem().Kind() == reflect.String {
			p.Elem().SetString("s")
		}
		return p
	case reflect.String:
		return reflect.ValueOf("s").Convert(t)
	case reflect.Int:
		return reflect.ValueOf(1).Convert(t)
	case reflect.Slice:
		s := reflect.MakeSlice(t, 1, 1)
		s.Index(0).Set(someValue(t.Elem()))
		return s
	case reflect.Chan:
		ch := reflect.MakeChan(reflect.ChanOf(reflect.BothDir, t.Elem()), 0)
		ch.Close()
		return ch.Convert(t)
	}
	return reflect.Zero(t) // types outside this check's grammar (other checks' probe fields)
}

// newStub returns a Stub whose every resolver logs its name and returns a non-null value, so
// that nested resolvers run too.
func newStub(log *resolverLog) *graph.Stub {
	st := &graph.Stub{}
	v := reflect.ValueOf(st).Elem()
	for i := 0; i < v.NumField(); i++ {
		grp := v.Field(i)
		for j := 0; j < grp.NumField(); j++ {
			name := v.Type().Field(i).Name + "." + grp.Type().Field(j).Name
			ft := grp.Field(j).Type()
			outs := make([]reflect.Type, ft.NumOut())
			for k := range outs {
				outs[k] = ft.Out(k)
			}
			grp.Field(j).Set(reflect.MakeFunc(ft, func(args []reflect.Value) []reflect.Value {
				log.add(name)
				res := make([]reflect.Value, len(outs))
				for k, t := range outs {
					res[k] = someValue(t)
				}
				return res
			}))
		}
	}
	return st
}

//go:build verifharness

package main

// Operation grammar over the exec probe schema, enumerated completely up to a node bound.
//
// A selection node is one of
//   field            f            (leaf, or composite with a non-empty selection set)
//   aliased field    z: f         (the alias is always "z": two different fields aliased z in
//                                  one set are a merge conflict and are dropped by the validator)
//   duplicate field  arises from choosing the same field twice in a set
//   inline fragment  ... { }  /  ... on X { }
//   fragment def+use ...Fk   with  fragment Fk on X { }   (KDef: first use, carries the body)
//   fragment re-use  ...Fk   (KRef: refers to any KDef of the document, also one that encloses
//                                  it - such cycles are dropped by the validator)
// Size = number of selection nodes (a fragment body is counted once, at its KDef).
// Sibling order is significant: all ordered sequences are enumerated.

import (
	"fmt"
	"sort"
	"strings"
)

type Kind int

const (
	KField Kind = iota
	KInline
	KDef
	KRef
)

// Argument forms of Query.arg (leaf) and Query.targ (composite; added to the probe schema by
// this check: extend type Query { targ(x: Int = 6): T }).
const (
	ArgNone     = iota // arg                    -> x = schema default (arg: 7, targ: 6), y absent
	ArgLit             // arg(x: 3)
	ArgVar             // arg(x: $v)             -> depends on the variable mode
	ArgBoth            // arg(x: 2, y: ["p","q"])
	ArgNeg             // arg(x: -4)             -> custom "child+x" becomes negative
	ArgNull            // arg(x: null)
	ArgTypeName        // __type(name: "T")      (the only form of the meta field __type)
)

// argDefault: schema default of argument x per field with arguments.
var argDefault = map[string]int64{"Query.arg": 7, "Query.targ": 6,
	"Usr.score": 6, "Grp.score": 6, "Usr.related": 6, "Grp.related": 6}

// Variable modes for operations that use $v.
const (
	VarGiven   = iota // query($v: Int)      variables {"v": 2}   (histories also send {"v": 9})
	VarDefault        // query($v: Int = 4)  variables {}
	VarAbsent         // query($v: Int)      variables {}        -> field default 7
	VarNull           // query($v: Int)      variables {"v": null}
)

var varModeNames = []string{"given", "default", "absent", "null"}

type Node struct {
	Kind  Kind    `json:"k"`
	Name  string  `json:"n,omitempty"`
	Alias bool    `json:"a,omitempty"`
	Arg   int     `json:"g,omitempty"`
	Cond  string  `json:"c,omitempty"`
	Kids  []*Node `json:"s,omitempty"`
	Ref   int     `json:"r,omitempty"` // KRef: index of the target KDef in document pre-order
}

type Op struct {
	Root    string  `json:"root"` // "query" | "mutation"
	Sels    []*Node `json:"sels"`
	VarMode int     `json:"varmode"`
	VarVal  int     `json:"varval,omitempty"` // value of $v in mode VarGiven; 0 means 2
}

func (op *Op) varVal() int {
	if op.VarVal != 0 {
		return op.VarVal
	}
	return 2
}

// ---- hand-written table of the probe schema (checked against es.Schema() at start-up) ----

type fieldDef struct {
	Name string
	Type string // named type of the field
}

type typeDef struct {
	Kind    string // OBJECT | INTERFACE | UNION
	Fields  []fieldDef
	Objects []string // object types an instance can have
}

var scalars = map[string]bool{"String": true, "ID": true, "Int": true}

var schemaTab = map[string]*typeDef{
	"Query": {Kind: "OBJECT", Objects: []string{"Query"}, Fields: []fieldDef{
		{"t", "T"}, {"tReq", "T"}, {"ts", "T"}, {"node", "Node"}, {"u", "U"}, {"str", "String"}, {"strReq", "String"}, {"arg", "String"}, {"targ", "T"}, {"rep", "Rep"}, {"ent", "Ent"},
		{"__schema", "__Schema"}, {"__type", "__Type"}}}, // meta fields of the query root
	"__Schema": {Kind: "OBJECT", Objects: []string{"__Schema"}, Fields: []fieldDef{{"queryType", "__Type"}}},
	"__Type":   {Kind: "OBJECT", Objects: []string{"__Type"}, Fields: []fieldDef{{"name", "String"}}},
	// Rep/Row are added by this check (c14_extra.graphql, hand-written Go model): schema fields
	// that share ONE Go field and therefore one ComplexityRoot member
	"Rep": {Kind: "OBJECT", Objects: []string{"Rep"}, Fields: []fieldDef{{"old", "Row"}, {"rows", "Row"}, {"newFoo", "String"}, {"new_foo", "String"}}},
	"Row": {Kind: "OBJECT", Objects: []string{"Row"}, Fields: []fieldDef{{"id", "ID"}}},
	// Ent (added by this check): an interface with TWO implementors whose fields take an argument -
	// a leaf and a composite one - so that one operation can select the same interface field several
	// times with different arguments / sub-selections against custom functions that cross
	"Ent":      {Kind: "INTERFACE", Objects: []string{"Grp", "Usr"}, Fields: []fieldDef{{"score", "Int"}, {"related", "Row"}}},
	"Usr":      {Kind: "OBJECT", Objects: []string{"Usr"}, Fields: []fieldDef{{"score", "Int"}, {"related", "Row"}}},
	"Grp":      {Kind: "OBJECT", Objects: []string{"Grp"}, Fields: []fieldDef{{"score", "Int"}, {"related", "Row"}}},
	"Mutation": {Kind: "OBJECT", Objects: []string{"Mutation"}, Fields: []fieldDef{{"m1", "T"}, {"m2", "T"}, {"m3", "String"}}},
	"T": {Kind: "OBJECT", Objects: []string{"T"}, Fields: []fieldDef{
		{"id", "ID"}, {"name", "String"}, {"req", "String"}, {"plain", "String"}, {"plainReq", "String"},
		{"kid", "T"}, {"kidReq", "T"}, {"kids", "T"}, {"kidsNN", "T"}, {"kidsReq", "T"},
		{"peer", "Node"}, {"peerReq", "Node"}, {"u", "U"}, {"guarded", "String"}, {"ints", "Int"}}},
	"S":     {Kind: "OBJECT", Objects: []string{"S"}, Fields: []fieldDef{{"id", "ID"}, {"title", "String"}, {"peer", "Node"}}},
	"Node":  {Kind: "INTERFACE", Objects: []string{"S", "T"}, Fields: []fieldDef{{"id", "ID"}}},
	"Named": {Kind: "INTERFACE", Objects: []string{"T"}, Fields: []fieldDef{{"id", "ID"}, {"name", "String"}}},
	"Deep":  {Kind: "INTERFACE", Objects: []string{"T"}, Fields: []fieldDef{{"id", "ID"}, {"peer", "Node"}}},
	"U":     {Kind: "UNION", Objects: []string{"S", "T"}},
}

// sharedGoField: schema fields bound to the Go field (ComplexityRoot member) of another schema
// field: old @goField(name:"rows") precedes rows in the schema, new_foo follows newFoo.
var sharedGoField = map[string]string{"Rep.old": "Rep.rows", "Rep.new_foo": "Rep.newFoo"}

// canon maps "Object.schemaField" to the key under which its custom function is configured.
func canon(key string) string {
	if c, ok := sharedGoField[key]; ok {
		return c
	}
	return key
}

func fieldType(parent, field string) string {
	if field == "__typename" {
		return "String"
	}
	for _, f := range schemaTab[parent].Fields {
		if f.Name == field {
			return f.Type
		}
	}
	panic("schema table: no field " + parent + "." + field)
}

func overlap(a, b string) bool {
	for _, x := range schemaTab[a].Objects {
		for _, y := range schemaTab[b].Objects {
			if x == y {
				return true
			}
		}
	}
	return false
}

// ---- grammar ----

type Grammar struct {
	Fields    map[string][]string // type -> field alphabet (may contain __typename)
	Alias     map[string]bool     // "Type.field" -> the aliased variant is enumerated too
	ArgForms  []int               // forms of Query.arg
	TargForms []int               // forms of Query.targ
	Forms     map[string][]int    // argument forms of other fields with arguments ("Type.field")
	AliasOnly map[string][]int    // "Type.field" -> the aliased variant only in these argument forms
	Conds     []string            // type conditions tried for fragments (filtered by overlap with the parent)
	VarModes  []int
	Roots     []string
	memoS     map[string][][]*Node
	memoN     map[string][]*Node
}

func (g *Grammar) sets(parent string, n int) [][]*Node {
	key := fmt.Sprintf("%s/%d", parent, n)
	if r, ok := g.memoS[key]; ok {
		return r
	}
	var out [][]*Node
	for k := 1; k <= n; k++ {
		firsts := g.nodes(parent, k)
		if k == n {
			for _, f := range firsts {
				out = append(out, []*Node{f})
			}
			continue
		}
		rests := g.sets(parent, n-k)
		for _, f := range firsts {
			for _, r := range rests {
				s := make([]*Node, 0, 1+len(r))
				s = append(s, f)
				s = append(s, r...)
				out = append(out, s)
			}
		}
	}
	g.memoS[key] = out
	return out
}

func (g *Grammar) nodes(parent string, k int) []*Node {
	key := fmt.Sprintf("%s/%d", parent, k)
	if r, ok := g.memoN[key]; ok {
		return r
	}
	var out []*Node
	for _, fname := range g.Fields[parent] {
		ft := fieldType(parent, fname)
		aliases := []bool{false}
		if g.Alias[parent+"."+fname] {
			aliases = []bool{false, true}
		}
		if scalars[ft] {
			if k != 1 {
				continue
			}
			forms := []int{ArgNone}
			if parent == "Query" && fname == "arg" {
				forms = g.ArgForms
			}
			if f, ok := g.Forms[parent+"."+fname]; ok {
				forms = f
			}
			for _, a := range aliases {
				for _, f := range forms {
					if a && !g.aliasForm(parent+"."+fname, f) {
						continue
					}
					out = append(out, &Node{Kind: KField, Name: fname, Alias: a, Arg: f})
				}
			}
			continue
		}
		if k < 2 {
			continue
		}
		forms := []int{ArgNone}
		if parent == "Query" && fname == "targ" {
			forms = g.TargForms
		}
		if parent == "Query" && fname == "__type" {
			forms = []int{ArgTypeName}
		}
		if f, ok := g.Forms[parent+"."+fname]; ok {
			forms = f
		}
		for _, a := range aliases {
			for _, f := range forms {
				if a && !g.aliasForm(parent+"."+fname, f) {
					continue
				}
				for _, kids := range g.sets(ft, k-1) {
					out = append(out, &Node{Kind: KField, Name: fname, Alias: a, Arg: f, Kids: kids})
				}
			}
		}
	}
	if k >= 2 {
		for _, kids := range g.sets(parent, k-1) {
			out = append(out, &Node{Kind: KInline, Kids: kids})
		}
		for _, x := range g.Conds {
			if !overlap(parent, x) {
				continue
			}
			// at the query root "... on Query {}" would only repeat "... {}" (enumerated above);
			// the root type condition is used for named fragments only
			if x != "Query" {
				for _, kids := range g.sets(x, k-1) {
					out = append(out, &Node{Kind: KInline, Cond: x, Kids: kids})
				}
			}
			for _, kids := range g.sets(x, k-1) {
				out = append(out, &Node{Kind: KDef, Cond: x, Kids: kids})
			}
		}
	}
	if k == 1 && parent != "Query" && parent != "Mutation" || k == 1 && g.rootRefs() {
		out = append(out, &Node{Kind: KRef, Ref: -1})
	}
	g.memoN[key] = out
	return out
}

// aliasForm: is the aliased variant of the field enumerated in this argument form?
func (g *Grammar) aliasForm(key string, form int) bool {
	only, ok := g.AliasOnly[key]
	if !ok {
		return true
	}
	for _, f := range only {
		if f == form {
			return true
		}
	}
	return false
}

// rootRefs: fragments on the root types are only enumerated if a root type is in Conds.
func (g *Grammar) rootRefs() bool {
	for _, c := range g.Conds {
		if c == "Query" || c == "Mutation" {
			return true
		}
	}
	return false
}

// walk visits nodes in document pre-order with the type their selections apply to.
func walk(sels []*Node, parent string, f func(n *Node, parent string)) {
	for _, n := range sels {
		f(n, parent)
		switch n.Kind {
		case KField:
			if len(n.Kids) > 0 {
				walk(n.Kids, fieldType(parent, n.Name), f)
			}
		case KInline, KDef:
			t := parent
			if n.Cond != "" {
				t = n.Cond
			}
			walk(n.Kids, t, f)
		}
	}
}

func rootType(root string) string {
	if root == "mutation" {
		return "Mutation"
	}
	return "Query"
}

func cloneSels(sels []*Node) []*Node {
	out := make([]*Node, len(sels))
	for i, n := range sels {
		c := *n
		c.Kids = cloneSels(n.Kids)
		out[i] = &c
	}
	return out
}

// Enumerate calls emit for every operation with exactly n nodes (fragment re-uses resolved to
// every type-compatible fragment definition of the document; every variable mode if $v is used).
func (g *Grammar) Enumerate(n int, emit func(op *Op)) {
	for _, root := range g.Roots {
		rt := rootType(root)
		for _, sels := range g.sets(rt, n) {
			var defs []string // cond of each KDef in pre-order
			var refParents []string
			usesVar := false
			walk(sels, rt, func(nd *Node, parent string) {
				switch nd.Kind {
				case KDef:
					defs = append(defs, nd.Cond)
				case KRef:
					refParents = append(refParents, parent)
				case KField:
					if nd.Arg == ArgVar {
						usesVar = true
					}
				}
			})
			if len(refParents) > 0 && len(defs) == 0 {
				continue // a re-use without any definition is not an operation of the grammar
			}
			modes := []int{VarGiven}
			if usesVar {
				modes = g.VarModes
			}
			if len(refParents) == 0 {
				for _, m := range modes {
					emit(&Op{Root: root, Sels: sels, VarMode: m})
				}
				continue
			}
			// every assignment of re-uses to type-compatible definitions
			choice := make([]int, len(refParents))
			var rec func(i int)
			rec = func(i int) {
				if i == len(refParents) {
					cl := cloneSels(sels)
					j := 0
					walk(cl, rt, func(nd *Node, _ string) {
						if nd.Kind == KRef {
							nd.Ref = choice[j]
							j++
						}
					})
					for _, m := range modes {
						emit(&Op{Root: root, Sels: cl, VarMode: m})
					}
					return
				}
				for d, cond := range defs {
					if overlap(refParents[i], cond) {
						choice[i] = d
						rec(i + 1)
					}
				}
			}
			rec(0)
		}
	}
}

// ---- rendering ----

func (op *Op) Vars() map[string]any {
	switch op.VarMode {
	case VarGiven:
		if op.usesVar() {
			return map[string]any{"v": op.varVal()}
		}
	case VarNull:
		return map[string]any{"v": nil}
	}
	return nil
}

func (op *Op) usesVar() bool {
	u := false
	walk(op.Sels, rootType(op.Root), func(n *Node, _ string) {
		if n.Kind == KField && n.Arg == ArgVar {
			u = true
		}
	})
	return u
}

func (op *Op) Size() int {
	c := 0
	walk(op.Sels, rootType(op.Root), func(*Node, string) { c++ })
	return c
}

func (op *Op) Text() string {
	var b strings.Builder
	b.WriteString(op.Root)
	if op.usesVar() {
		if op.VarMode == VarDefault {
			b.WriteString("($v: Int = 4)")
		} else {
			b.WriteString("($v: Int)")
		}
	}
	var frags []string
	defIdx := 0
	var sel func(sels []*Node, b *strings.Builder)
	sel = func(sels []*Node, b *strings.Builder) {
		b.WriteString("{")
		for i, n := range sels {
			if i > 0 {
				b.WriteString(" ")
			}
			switch n.Kind {
			case KField:
				if n.Alias {
					b.WriteString("z:")
				}
				b.WriteString(n.Name)
				switch n.Arg {
				case ArgLit:
					b.WriteString("(x:3)")
				case ArgVar:
					b.WriteString("(x:$v)")
				case ArgBoth:
					b.WriteString(`(x:2,y:["p","q"])`)
				case ArgNeg:
					b.WriteString("(x:-4)")
				case ArgNull:
					b.WriteString("(x:null)")
				case ArgTypeName:
					b.WriteString(`(name:"T")`)
				}
				if len(n.Kids) > 0 {
					sel(n.Kids, b)
				}
			case KInline:
				b.WriteString("...")
				if n.Cond != "" {
					b.WriteString(" on " + n.Cond)
				}
				sel(n.Kids, b)
			case KDef:
				idx := defIdx
				defIdx++
				fmt.Fprintf(b, "...F%d", idx)
				frags = append(frags, "") // reserve the slot in pre-order
				var fb strings.Builder
				fmt.Fprintf(&fb, "fragment F%d on %s", idx, n.Cond)
				sel(n.Kids, &fb)
				frags[idx] = fb.String()
			case KRef:
				fmt.Fprintf(b, "...F%d", n.Ref)
			}
		}
		b.WriteString("}")
	}
	sel(op.Sels, &b)
	for _, f := range frags {
		b.WriteString(" ")
		b.WriteString(f)
	}
	return b.String()
}

// RelevantFields: the "Object.field" pairs whose custom complexity function the documented
// definition consults for this operation (fields selected on an object type, and for fields
// selected on an interface the same field of every object type implementing it).
func (op *Op) RelevantFields() []string {
	set := map[string]bool{}
	var visit func(sels []*Node, parent string)
	visit = func(sels []*Node, parent string) {
		for _, n := range sels {
			switch n.Kind {
			case KField:
				if !strings.HasPrefix(n.Name, "__") && !strings.HasPrefix(parent, "__") {
					for _, o := range schemaTab[parent].Objects {
						set[canon(o+"."+n.Name)] = true
					}
				}
				if len(n.Kids) > 0 {
					visit(n.Kids, fieldType(parent, n.Name))
				}
			case KInline, KDef:
				t := parent
				if n.Cond != "" {
					t = n.Cond
				}
				visit(n.Kids, t)
			case KRef:
				// the body is visited at its KDef
			}
		}
	}
	visit(op.Sels, rootType(op.Root))
	out := make([]string, 0, len(set))
	for k := range set {
		out = append(out, k)
	}
	sort.Strings(out)
	return out
}

// defs returns the KDef nodes in pre-order.
func (op *Op) defs() []*Node {
	var d []*Node
	walk(op.Sels, rootType(op.Root), func(n *Node, _ string) {
		if n.Kind == KDef {
			d = append(d, n)
		}
	})
	return d
}

// Removals returns every operation obtained by deleting one subtree (a node with everything
// below it) such that no selection set becomes empty. Fragment re-uses whose definition
// disappears make the candidate invalid (dropped here); remaining re-uses are renumbered.
func (op *Op) Removals() []*Op {
	var out []*Op
	// address nodes by pre-order index
	total := op.Size()
	for target := 0; target < total; target++ {
		idx := 0
		oldDef := 0
		var defMap []int // old def index -> new def index or -1
		newDef := 0
		ok := true
		var rebuild func(sels []*Node, dropping bool) []*Node
		rebuild = func(sels []*Node, dropping bool) []*Node {
			var res []*Node
			for _, n := range sels {
				me := idx
				idx++
				drop := dropping || me == target
				if n.Kind == KDef {
					if drop {
						defMap = append(defMap, -1)
					} else {
						defMap = append(defMap, newDef)
						newDef++
					}
					oldDef++
				}
				c := *n
				c.Kids = rebuild(n.Kids, drop)
				if drop {
					continue
				}
				if len(n.Kids) > 0 && len(c.Kids) == 0 {
					ok = false
				}
				res = append(res, &c)
			}
			return res
		}
		sels := rebuild(op.Sels, false)
		if !ok || len(sels) == 0 {
			continue
		}
		// renumber re-uses (a re-use may point to a later definition, so do it afterwards)
		cand := &Op{Root: op.Root, Sels: sels, VarMode: op.VarMode}
		walk(cand.Sels, rootType(op.Root), func(n *Node, _ string) {
			if n.Kind == KRef {
				if defMap[n.Ref] < 0 {
					ok = false
				} else {
					n.Ref = defMap[n.Ref]
				}
			}
		})
		if !ok {
			continue
		}
		if !cand.usesVar() {
			cand.VarMode = VarGiven
		}
		out = append(out, cand)
	}
	return out
}

// Reversed returns the operation with every selection set in reverse order (fragment re-uses
// renumbered to the new document order). Complexity must not depend on the order of selections.
func (op *Op) Reversed() *Op {
	oldDefs := op.defs()
	clone := map[*Node]*Node{}
	var rev func(sels []*Node) []*Node
	rev = func(sels []*Node) []*Node {
		out := make([]*Node, len(sels))
		for i, n := range sels {
			c := *n
			c.Kids = rev(n.Kids)
			clone[n] = &c
			out[len(sels)-1-i] = &c
		}
		return out
	}
	r := &Op{Root: op.Root, Sels: rev(op.Sels), VarMode: op.VarMode, VarVal: op.VarVal}
	newIdx := map[*Node]int{}
	for i, d := range r.defs() {
		newIdx[d] = i
	}
	walk(r.Sels, rootType(r.Root), func(n *Node, _ string) {
		if n.Kind == KRef {
			n.Ref = newIdx[clone[oldDefs[n.Ref]]]
		}
	})
	return r
}

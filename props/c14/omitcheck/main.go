//go:build verifharness

// omit_complexity: true variant of the exec probe: the generated package must still compile,
// ComplexityRoot must be empty, Complexity() must report "no custom value" for every field and
// complexity.Calculate then is the plain node count.
package main

import (
	"context"
	"fmt"
	"os"
	"reflect"

	"github.com/vektah/gqlparser/v2"

	"github.com/99designs/gqlgen/complexity"

	"probe/graph"
)

func main() {
	es := graph.NewExecutableSchema(graph.Config{Resolvers: &graph.Stub{}})
	if n := reflect.TypeOf(graph.ComplexityRoot{}).NumField(); n != 0 {
		fmt.Printf("ComplexityRoot has %d members with omit_complexity\n", n)
		os.Exit(1)
	}
	fields := 0
	for _, def := range es.Schema().Types {
		for _, f := range def.Fields {
			fields++
			if v, ok := es.Complexity(context.Background(), def.Name, f.Name, 3, map[string]any{}); ok || v != 0 {
				fmt.Printf("Complexity(%s.%s) = %d,%v with omit_complexity\n", def.Name, f.Name, v, ok)
				os.Exit(1)
			}
		}
	}
	ops := map[string]int{
		"{str}": 1, "{t{id kid{id}}}": 4, "{node{id ... on T{name}}}": 3, "{u{... on S{id} ...F}} fragment F on T{id name}": 4,
		"query($v:Int){arg(x:$v) z:arg}": 2,
	}
	for q, want := range ops {
		doc, errs := gqlparser.LoadQuery(es.Schema(), q)
		if len(errs) > 0 {
			fmt.Println("query does not validate:", q, errs)
			os.Exit(1)
		}
		if got := complexity.Calculate(context.Background(), es, doc.Operations[0], nil); got != want {
			fmt.Printf("Calculate(%s) = %d, want node count %d\n", q, got, want)
			os.Exit(1)
		}
	}
	fmt.Printf("ok: compiles, ComplexityRoot empty, Complexity() false for %d type.field pairs, %d operations cost their node count", fields, len(ops))
}

// Check for property C14: "The complexity limit is a sound gate: over-limit operations
// execute nothing".
//
// This process only orchestrates: it generates the exec probe server from the tree under test
// in two layouts (single-file, follow-schema), copies the harness (props/c14/harness, build tag
// verifharness) into each scratch module, builds it with a go-build overlay that (a) adds an
// export shim for the unexported safeAdd and (b) inserts one observing statement at the top of
// safeAdd (mechanically, via go/ast, from the current source), runs the harness binaries and
// merges their JSON results into the evidence. All enumeration and all oracles live in the
// harness (enum.go, ref.go, assign.go, main.go).
package main

import (
	"bytes"
	"encoding/json"
	"fmt"
	"go/ast"
	"go/parser"
	"go/printer"
	"go/token"
	"os"
	"os/exec"
	"path/filepath"
	"runtime"
	"sort"
	"strings"
	"sync"
	"time"

	"verif/common"
	"verif/probe"
)

// followSchema rewrites the probe's gqlgen.yml to the follow-schema layout.
func followSchema(yml string) string {
	const single = "exec:\n  filename: graph/generated.go\n  package: graph\n"
	if !strings.Contains(yml, single) {
		broken("probes/exec/gqlgen.yml: exec block not in the expected single-file form")
	}
	return strings.Replace(yml, single, "exec:\n  layout: follow-schema\n  dir: graph\n  package: graph\n", 1)
}

const exportShim = `package complexity

import "sync/atomic"

// Added by the C14 check through go build -overlay; not part of gqlgen.

var verifNegative int64

func verifObserve(a, b int) {
	if a < 0 || b < 0 {
		atomic.AddInt64(&verifNegative, 1)
	}
}

func SafeAddForVerif(a, b int) int { return safeAdd(a, b) }

func VerifNegativeOperands() int64 { return atomic.LoadInt64(&verifNegative) }
`

type violation struct {
	Order  []int          `json:"order"`
	Kind   string         `json:"kind"`
	Sig    string         `json:"sig"`
	What   string         `json:"what"`
	Replay map[string]any `json:"replay"`
}

type result struct {
	Layout      string             `json:"layout"`
	Counts      map[string]int64   `json:"counts"`
	PerSize     map[string]int64   `json:"ops_per_size"`
	Violations  []violation        `json:"violations"`
	Samples     []any              `json:"samples"`
	Exhaustive  bool               `json:"exhaustive"`
	Completed   []int              `json:"completed_sizes"`
	Broken      string             `json:"broken"`
	SafeAddGrid int                `json:"safeadd_grid_cells"`
	Notes       []string           `json:"notes"`
	Seconds     map[string]float64 `json:"seconds_per_size"`
	Dropped     map[string]int64   `json:"dropped_by_rule"`
}

// instrumentSafeAdd writes a copy of complexity.go whose safeAdd starts with
// verifObserve(<its two parameters>) and returns the overlay file path.
func instrumentSafeAdd(scratch string) string {
	src := filepath.Join(common.RepoDir(), "complexity", "complexity.go")
	fset := token.NewFileSet()
	f, err := parser.ParseFile(fset, src, nil, parser.ParseComments)
	if err != nil {
		broken("cannot parse %s: %v", src, err)
	}
	done := false
	for _, d := range f.Decls {
		fd, ok := d.(*ast.FuncDecl)
		if !ok || fd.Name.Name != "safeAdd" || fd.Recv != nil || fd.Body == nil {
			continue
		}
		var names []ast.Expr
		for _, p := range fd.Type.Params.List {
			for _, n := range p.Names {
				names = append(names, ast.NewIdent(n.Name))
			}
		}
		if len(names) != 2 {
			broken("safeAdd in %s does not have two named parameters", src)
		}
		call := &ast.ExprStmt{X: &ast.CallExpr{Fun: ast.NewIdent("verifObserve"), Args: names}}
		fd.Body.List = append([]ast.Stmt{call}, fd.Body.List...)
		done = true
	}
	if !done {
		broken("no function safeAdd in %s (the property is anchored on it)", src)
	}
	var buf bytes.Buffer
	if err := printer.Fprint(&buf, fset, f); err != nil {
		broken("printing instrumented complexity.go: %v", err)
	}
	instr := filepath.Join(scratch, "complexity_instrumented.go")
	shim := filepath.Join(scratch, "export_verif.go")
	os.WriteFile(instr, buf.Bytes(), 0o644)
	os.WriteFile(shim, []byte(exportShim), 0o644)
	ov := map[string]any{"Replace": map[string]string{
		src: instr,
		filepath.Join(common.RepoDir(), "complexity", "export_verif.go"): shim,
	}}
	b, _ := json.Marshal(ov)
	p := filepath.Join(scratch, "overlay.json")
	os.WriteFile(p, b, 0o644)
	return p
}

func harnessFiles() map[string]string {
	files := map[string]string{}
	dir := filepath.Join(common.Root, "props", "c14", "harness")
	ents, err := os.ReadDir(dir)
	if err != nil {
		broken("harness sources: %v", err)
	}
	for _, e := range ents {
		if strings.HasSuffix(e.Name(), ".go") {
			b, _ := os.ReadFile(filepath.Join(dir, e.Name()))
			files["harness/"+e.Name()] = string(b)
		}
	}
	return files
}

type layoutSpec struct {
	name         string
	followSchema bool
}

// buildHarness generates the probe in the given layout and builds the harness binary.
func buildHarness(l layoutSpec, overlay string, pkg string) (dir, bin string) {
	files := probeFiles()
	if l.followSchema {
		files["gqlgen.yml"] = followSchema(files["gqlgen.yml"])
	}
	for k, v := range harnessFiles() {
		files[k] = v
	}
	res, err := probe.Generate(probe.Spec{Name: "c14-" + l.name, Files: files, Stub: "graph/stub.go"})
	if err != nil {
		broken("generate (%s): %v", l.name, err)
	}
	if res.ExitCode != 0 {
		broken("generator failed for layout %s (exit %d):\n%s", l.name, res.ExitCode, res.Output)
	}
	bin = filepath.Join(res.Dir, "harness.bin")
	out, err := probe.GoBuild(res.Dir, "-tags", "verifharness", "-overlay", overlay, "-o", bin, pkg)
	if err != nil {
		broken("building %s in layout %s failed: %v\n%s", pkg, l.name, err, out)
	}
	return res.Dir, bin
}

func runHarness(bin string, shard int, args ...string) *result {
	outFile := fmt.Sprintf("%s.result-%d.json", bin, shard)
	cmd := exec.Command(bin, append(args, "-out", outFile)...)
	cmd.Env = append(os.Environ(), "GOMAXPROCS=1", "GOGC=400")
	var buf bytes.Buffer
	cmd.Stdout = &buf
	cmd.Stderr = &buf
	err := cmd.Run()
	b, rerr := os.ReadFile(outFile)
	if rerr != nil {
		broken("harness produced no result (%v):\n%s", err, buf.String())
	}
	var r result
	if jerr := json.Unmarshal(b, &r); jerr != nil {
		broken("harness result does not parse: %v", jerr)
	}
	if r.Broken != "" {
		broken("harness: %s", r.Broken)
	}
	if err != nil {
		broken("harness failed: %v\n%s", err, buf.String())
	}
	return &r
}

func lessOrder(a, b []int) bool {
	for i := 0; i < len(a) && i < len(b); i++ {
		if a[i] != b[i] {
			return a[i] < b[i]
		}
	}
	return len(a) < len(b)
}

const maxViolPerKind = 3

// mergeShards adds up the shard results of one layout; reported violations are the lowest few
// of each kind in enumeration order (deterministic).
func mergeShards(layout string, parts []*result) *result {
	m := &result{Layout: layout, Counts: map[string]int64{}, PerSize: map[string]int64{}, Exhaustive: true,
		Seconds: map[string]float64{}, Dropped: map[string]int64{}}
	var all []violation
	for i, p := range parts {
		for k, v := range p.Counts {
			m.Counts[k] += v
		}
		for k, v := range p.PerSize {
			m.PerSize[k] += v
		}
		for k, v := range p.Dropped {
			m.Dropped[k] += v
		}
		for k, v := range p.Seconds {
			if v > m.Seconds[k] {
				m.Seconds[k] = v
			}
		}
		if !p.Exhaustive {
			m.Exhaustive = false
		}
		if i == 0 || len(p.Completed) < len(m.Completed) {
			m.Completed = p.Completed
		}
		m.Notes = append(m.Notes, p.Notes...)
		all = append(all, p.Violations...)
		m.Samples = append(m.Samples, p.Samples...)
		m.SafeAddGrid += p.SafeAddGrid
	}
	sort.SliceStable(all, func(i, j int) bool {
		if all[i].Kind != all[j].Kind {
			return all[i].Kind < all[j].Kind
		}
		return lessOrder(all[i].Order, all[j].Order)
	})
	perKind := map[string]int{}
	seen := map[string]bool{}
	for _, v := range all {
		if seen[v.Sig] || perKind[v.Kind] >= maxViolPerKind {
			continue
		}
		seen[v.Sig] = true
		perKind[v.Kind]++
		m.Violations = append(m.Violations, v)
	}
	return m
}

func main() {
	c := common.New("C14", "exploration")
	quick := c.Tier == "quick"
	if quick {
		c.Budget(150 * time.Second)
	} else {
		c.Budget(20 * time.Minute)
	}
	if b, err := time.ParseDuration(os.Getenv("C14_BUDGET")); err == nil && b > 0 { // measuring aid
		c.Budget(b)
	}
	scratch := probe.ScratchRoot()
	defer probe.Cleanup()
	overlay := instrumentSafeAdd(scratch)

	layouts := []layoutSpec{{"single-file", false}, {"follow-schema", true}}

	if rp := common.ReplayArg(); rp != "" {
		replay(rp, layouts, overlay)
		probe.Cleanup()
		return
	}

	// tier parameters. The harness runs as single-threaded processes (GOMAXPROCS=1), each taking
	// the generated operations with index % shards == shard: the generated executor spawns a
	// goroutine per concurrent field, and cross-thread goroutine hand-offs dominated the run time
	// when one process used many threads.
	type plan struct{ n, fullGate, httpMax, histMax, ctxMax, concMax, shards int }
	cpus := runtime.NumCPU()
	plans := []plan{{4, 3, 4, 4, 4, 4, max(1, cpus/2)}, {4, 3, 4, 4, 4, 4, max(1, cpus/2)}}
	if !quick {
		// the layouts differ only in the template that emits Complexity() (generated!.gotpl vs
		// root_.gotpl); every "Type.field" case of the alphabet is already reached at 4 nodes, so
		// the deeper enumeration is spent on one layout
		plans = []plan{{5, 4, 5, 5, 5, 5, max(1, cpus-max(1, cpus/8))}, {4, 4, 4, 4, 4, 4, max(1, cpus/8)}}
	}

	results := make([]*result, len(layouts))
	var omitOut, omitViol string
	var wg sync.WaitGroup
	for i, l := range layouts {
		wg.Add(1)
		go func(i int, l layoutSpec) {
			defer wg.Done()
			pl := plans[i]
			_, bin := buildHarness(l, overlay, "./harness")
			// the harness gets what is left of the internal budget (quick 150 s, thorough 20 min)
			budget := max(10, int(time.Until(c.Deadline).Seconds())-8)
			parts := make([]*result, pl.shards)
			var sw sync.WaitGroup
			for sh := 0; sh < pl.shards; sh++ {
				sw.Add(1)
				go func(sh int) {
					defer sw.Done()
					parts[sh] = runHarness(bin, sh, "-layout", l.name, "-tier", c.Tier, "-n", fmt.Sprint(pl.n), "-fullgate", fmt.Sprint(pl.fullGate),
						"-http", fmt.Sprint(pl.httpMax), "-hist", fmt.Sprint(pl.histMax), "-ctx", fmt.Sprint(pl.ctxMax), "-conc", fmt.Sprint(pl.concMax), "-budget", fmt.Sprint(budget), "-shard", fmt.Sprint(sh), "-shards", fmt.Sprint(pl.shards))
				}(sh)
			}
			sw.Wait()
			results[i] = mergeShards(l.name, parts)
		}(i, l)
	}
	// omit_complexity: true -- generation still compiles, Complexity() reports no custom value
	wg.Add(1)
	go func() {
		defer wg.Done()
		omitOut, omitViol = omitVariant(overlay)
	}()
	wg.Wait()

	// merge
	total := map[string]int64{}
	exhaustive := true
	perLayout := map[string]any{}
	for _, r := range results {
		for k, v := range r.Counts {
			total[k] += v
		}
		if !r.Exhaustive {
			exhaustive = false
		}
		perLayout[r.Layout] = map[string]any{"counts": r.Counts, "valid_operations_per_size": r.PerSize,
			"completed_sizes": r.Completed, "exhaustive": r.Exhaustive, "notes": r.Notes,
			"seconds_per_size": r.Seconds, "operations_dropped_by_validator_rule": r.Dropped}
		for _, v := range r.Violations {
			c.Report(v.Sig, fmt.Sprintf("[%s] %s", r.Layout, v.What), v.Replay)
		}
		for _, s := range r.Samples {
			c.Sample(s)
		}
	}
	if omitViol != "" {
		c.Report("omit-complexity-variant", omitViol, map[string]any{"kind": "omit", "config": "omit_complexity: true"})
	}
	// the walker must never hand safeAdd a negative operand (then only the non-negative
	// quadrant of the grid is reachable from Calculate)
	if total["safeadd_negative_operand_calls_from_walker"] != 0 {
		c.Report("walker-negative-operand", fmt.Sprintf("complexityWalker passed a negative operand to safeAdd %d times", total["safeadd_negative_operand_calls_from_walker"]), nil)
	}
	// the two layouts must have explored the same space
	if plans[0].n == plans[1].n && results[0].Counts["op_x_assignment"] != results[1].Counts["op_x_assignment"] && results[0].Exhaustive && results[1].Exhaustive {
		broken("layouts explored different spaces: %d vs %d", results[0].Counts["op_x_assignment"], results[1].Counts["op_x_assignment"])
	}

	evals := total["calculate_calls"] + total["gate_runs"] + total["http_runs"] + total["history_requests"] + total["ctx_fault_calculate_calls"] + total["ctx_fault_gate_runs"] + total["ctx_fault_http_runs"] + total["in_flight_segments"] + total["safeadd_cells"]
	c.Cov["evaluations"] = evals
	c.Cov["distinct_nontrivial"] = results[0].Counts["distinct_nontrivial"]
	c.Cov["rule"] = "distinct (operation, custom-complexity assignment) pairs (per layout; identical in both) whose reference value takes at least one custom function's value or a maximum over implementors with differing costs, i.e. is not the plain node count"
	c.Cov["exhaustive"] = exhaustive
	c.Cov["totals_both_layouts"] = total
	c.Cov["per_layout"] = perLayout
	c.Cov["omit_complexity_variant"] = omitOut
	c.Cov["safeadd_grid"] = "12x12 = 144 cells over {minInt, minInt+1, -2, -1, 0, 1, 2, maxInt/2, maxInt/2+1, maxInt-2, maxInt-1, maxInt}; both operands >= 0 (64 cells): exact saturating sum from math/big; one negative (64): the other operand; both negative (16): documentation does not define the value, only a non-negative result is required (the code returns 1)"
	c.Cov["bounds"] = map[string]any{
		"max_selection_nodes": map[string]int{"single-file": plans[0].n, "follow-schema": plans[1].n},
		"grammar":             "ordered selection sets over Query{str,z:str,arg[6 argument forms],z:arg,t,targ[3 argument forms],z:targ,node,u,rep,ent,__typename,__schema,__type(name:\"T\")} __Schema{__typename,queryType} __Type{name} Ent{score[none,x:3,x:$v],z:score[none,x:3],related[none,x:3],z:related} (Ent is an interface added by this check with two implementors Usr and Grp whose fields take an argument, so one operation selects the same interface field several times with different arguments and sub-selections, in both orders, against custom functions that cross) Rep{old,rows,newFoo,new_foo} Row{id} (Rep.old is bound to the Go field of Rep.rows by @goField(name:) and is declared before it, Rep.new_foo normalises to the Go field of Rep.newFoo: one ComplexityRoot member per pair, assignments are per member and the oracle is asked under every schema name) Mutation{m1,m3} T{id,z:id,name,kid,peer,u,__typename} S{id,peer} Node{id,__typename} Named{name} Deep{peer} U{__typename}; inline fragments without / with type condition in {T,S,Node,Named,Deep,U} (where the types overlap); named fragment definition+spread on the same conditions and on Query; re-use of any fragment of the document; argument forms of Query.arg (leaf, default x=7): none, x:3, x:$v, x:2 y:[p,q], x:-4, x:null; of Query.targ (composite, added by this check as `extend type Query { targ(x: Int = 6): T }`, default x=6): none, x:3, x:$v; variable modes for $v: given 2, variable default 4, absent, null",
		"assignments":         "custom functions on <= 2 of the Object.field pairs the operation touches (for interface selections: every implementing object), each from {const 0, 1, 5, -3, maxInt, maxInt-1, child*2 saturating, child+x+10*len(y) (= child on fields without arguments)}; plus one assignment per operation putting maxInt on every field the operation does not touch",
		"limits":              "core {0, 1, c-1, c, c+1, maxInt} for every (operation, assignment) that gets the gate (c = reference complexity); the full boundary grid {minInt, minInt+1, -maxInt, -2, -1, 0, 1, c-1, c, c+1, maxInt-1, maxInt} (de-duplicated) for the first assignment reaching each distinct complexity value of each operation - each grid limit through FixedComplexityLimit on a fresh executor, and the grid as one history through a long-lived executor with the per-request ComplexityLimit{Func} (limit from a header). The assignments' constants put c on the boundary grid {0, 1, 2, 5, maxInt-1, maxInt (also as saturated sums)}",
		"executor_gate":       fmt.Sprintf("every limit x every assignment for operations with <= %d nodes (layout single-file) / <= %d nodes (layout follow-schema); for larger operations every limit x the first assignment reaching each distinct reference value", plans[0].fullGate, plans[1].fullGate),
		"http":                fmt.Sprintf("operations with <= %d nodes, no custom function, limits {c-1, c} through handler.Server + transport.POST (httptest recorder)", plans[0].httpMax),
		"requests_in_flight":  "two requests of the variable family (same query text; v=2 with v=9, and - for operations within the full-gate size - v=9 with v absent) running concurrently on ONE executor with FixedComplexityLimit(min of their reference values) and an LRU document cache, for every (operation using $v, assignment consisting only of custom functions that read the argument: child+x+10*len(y) on one or two of the fields with arguments). HAND-ROLLED cooperative handshake, not the vrt scheduler: a request runs until its next custom complexity function call or its end, and EVERY order of the two requests' segments is enumerated by depth-first search (exhaustive over call orders; preemption only at custom complexity function calls). Oracle: each request is admitted/rejected and executed exactly as alone on a fresh server.",
		"order_independence":  "differential oracle without the reference: Calculate(operation) == Calculate(operation with every selection set reversed), for every operation under the assignments with <= 1 deviating field",
		"context_faults":      "fault enumeration over where the request context becomes done: cancelled before CreateOperationContext, expired deadline, and cancelled inside the k-th custom complexity function call for EVERY k of the walk (k = 1..number of calls measured on a live walk). For every operation: (a) the assignment putting const 1 on every Object.field the operation touches (every field node of the walk, each implementor for interface selections, is a call position), (b) no custom function (the two already-done contexts); for operations within the full-gate size additionally every single-field assignment. Per placement: complexity.Calculate(ctx) and the executor with FixedComplexityLimit at limits {c-1, c}; plus POST through handler.Server with an already cancelled / expired request context, no custom function, limits {c-1, c}. Stub resolvers never look at ctx.",
		"histories":           "request sequences through ONE long-lived executor with an LRU query-document cache and one extension instance (fresh per history), each request judged by the single-request oracle: (a) variable family - operations using $v with header ($v: Int): variants v=2, v=9, absent, null share the query text; for every ordered pair the triple a>b>a at limit min(ca,cb) and the pair a>b at max(ca,cb), FixedComplexityLimit, for the assignments where the variants' reference values can differ (child+x+10*len(y) on Query.arg and/or Query.targ; for operations within the full-gate size also combined with any one other deviating field) and for no custom function; (b) limit family - every (operation, assignment) that gets the executor gate: the same request at per-request limits c > c-1 > c through ComplexityLimit{Func} (limit taken from a request header); (c) operationName family - operations with <= 2 nodes in a document next to a more expensive Decoy operation (both document orders): [Main], [Decoy>Main], [Main>Decoy], [Main>Decoy>Main] at limits {c-1, c, c(Decoy)}, FixedComplexityLimit",
		"top_size_thinning":   "quick tier only: at the largest operation size z:arg, z:targ, arg(x:-4) and arg(x:null) are left out (they are enumerated at all smaller sizes, and at every size in the thorough tier)",
		"layouts":             []string{"single-file", "follow-schema"},
	}
	c.Assume = []string{
		"Reference written from the property statement and docs/content/reference/complexity.md; complexity.go consulted for the following ambiguities only.",
		"Every selection node is costed separately: duplicate and aliased fields are not merged, and fragments on different (even mutually exclusive) type conditions are summed, not maximised.",
		"A custom value is taken when it is >= the children's cost (equality included: a leaf with custom const 0 costs 0); otherwise the field costs 1 + children.",
		"For a field selected on an interface the implementors are the OBJECT types that can stand behind the interface (ComplexityRoot has entries for objects only); a field selected on a union (__typename) costs 1.",
		"__typename has no custom function and costs 1. The meta field __schema and everything selected below it cost 0 while the rest of its selection set counts as usual (complexity.go skips fields of type __Schema); __type(name:) is NOT exempt in complexity.go and is costed like an ordinary field without custom function (1 + children) - the reference follows the code here, the documentation is silent on introspection. Meta fields are placed wherever they are legal: at the query root, inside inline and named fragments on Query, before and after ordinary fields. The sessions install extension.Introspection so these selections execute. @skip/@include (ignored by the walker, which over-counts) are outside the grammar.",
		"Argument values handed to a custom function are the coerced values of the GraphQL spec (literal, variable, variable default, argument default 7, explicit null).",
		"Saturation: every intermediate sum is min(exact, maxInt); the custom functions of the alphabet saturate themselves (they are the user's code, not gqlgen's).",
		"'Rejected' means: an error with extensions.code = COMPLEXITY_LIMIT_EXCEEDED, null/absent data and an empty resolver log. The HTTP status is not asserted (the extension's doc comment says 422, the code and gqlgen's own tests say 200). 'Not rejected' means: data, number of errors and resolver log equal those of a run without the extension.",
		"safeAdd is observed through an export shim added by go build -overlay; one statement is inserted at the top of safeAdd (go/ast rewrite of the current source) to count calls with a negative operand coming from the walker: the count must be 0, so only the non-negative quadrant of the grid is reachable from Calculate.",
		"Under a context fault the oracle is: Calculate and ComplexityStats equal the reference (same as with a live context); over the limit => empty resolver log and no data (whether the reported error is the complexity error or a cancellation is not constrained); at or below the limit => no COMPLEXITY_LIMIT_EXCEEDED error (whether execution then proceeds is not constrained).",
		"A history starts from a freshly constructed executor/extension/cache; the reference is stateless, so every request of a history has the same expected outcome as if it were sent alone.",
		"Stub resolvers return non-null values so that nested resolvers run; resolver errors, subscriptions and websocket transport are not part of this check.",
	}
	if os.Getenv("C14_KEEP") == "" { // debugging aid: keep the scratch modules and shard results
		probe.Cleanup()
	}
	c.Finish()
}

// probeFiles: the exec probe plus one composite field with an argument (the documented use of
// custom complexity is count*childComplexity; the probe itself has arguments on a leaf only).
func probeFiles() map[string]string {
	files := probe.ReadProbe("exec")
	files["c14_extra.graphql"] = c14ExtraSchema
	files["c14model/model.go"] = c14Model
	yml := strings.Replace(files["gqlgen.yml"], "  - schema.graphql\n", "  - schema.graphql\n  - c14_extra.graphql\n", 1)
	if yml == files["gqlgen.yml"] {
		broken("probes/exec/gqlgen.yml has no '  - schema.graphql' entry to extend")
	}
	const bind = "  Rep:\n    model: probe/c14model.Rep\n  Row:\n    model: probe/c14model.Row\n"
	if strings.Contains(yml, "\nmodels:\n") {
		yml = strings.Replace(yml, "\nmodels:\n", "\nmodels:\n"+bind, 1)
	} else {
		yml += "models:\n" + bind
	}
	files["gqlgen.yml"] = yml
	return files
}

// What this check adds to the shared exec probe:
//   - targ: a composite field with an argument (the documented use of custom complexity is
//     count*childComplexity; the probe itself has arguments on a leaf only);
//   - Rep: schema fields that share ONE Go field and hence one ComplexityRoot member - an old name
//     kept through @goField(name:) (declared BEFORE the field it aliases) and a newFoo/new_foo
//     pair (second name AFTER the first). Rep/Row are bound to a hand-written model (modelgen
//     would emit the Go field twice).
const c14ExtraSchema = `extend type Query { targ(x: Int = 6): T  rep: Rep  ent: Ent }
interface Ent { score(x: Int = 6): Int  related(x: Int = 6): [Row!]! }
type Usr implements Ent { score(x: Int = 6): Int @goField(forceResolver: true)  related(x: Int = 6): [Row!]! @goField(forceResolver: true) }
type Grp implements Ent { score(x: Int = 6): Int @goField(forceResolver: true)  related(x: Int = 6): [Row!]! @goField(forceResolver: true) }
type Row { id: ID! }
type Rep {
  old: [Row!]! @goField(name: "rows")
  rows: [Row!]!
  newFoo: String
  new_foo: String
}
`

const c14Model = `package c14model

type Row struct{ ID string }

type Rep struct {
	Rows   []*Row
	NewFoo *string
}
`

// omitVariant generates the probe with omit_complexity: true and runs a tiny program in it.
// A failure of the variant itself (does not compile, Complexity() reports a value) is returned
// as a violation text, not as a broken check.
func omitVariant(overlay string) (report string, violation string) {
	files := probeFiles()
	files["gqlgen.yml"] = files["gqlgen.yml"] + "omit_complexity: true\n"
	b, err := os.ReadFile(filepath.Join(common.Root, "props", "c14", "omitcheck", "main.go"))
	if err != nil {
		broken("omitcheck source: %v", err)
	}
	files["omitcheck/main.go"] = string(b)
	res, err := probe.Generate(probe.Spec{Name: "c14-omit", Files: files, Stub: "graph/stub.go"})
	if err != nil {
		return "", "" // machinery problem; the main layouts will report it
	}
	if res.ExitCode != 0 {
		return "", fmt.Sprintf("generation with omit_complexity: true failed (exit %d): %s", res.ExitCode, firstLines(res.Output, 5))
	}
	bin := filepath.Join(res.Dir, "omitcheck.bin")
	if out, err := probe.GoBuild(res.Dir, "-tags", "verifharness", "-o", bin, "./omitcheck"); err != nil {
		return "", "code generated with omit_complexity: true does not compile: " + firstLines(out, 5)
	}
	out, err := probe.Run(res.Dir, nil, bin)
	if err != nil {
		return "", "omit_complexity: true variant: " + firstLines(out, 5)
	}
	return strings.TrimSpace(out), ""
}

func firstLines(s string, n int) string {
	l := strings.Split(strings.TrimSpace(s), "\n")
	if len(l) > n {
		l = l[:n]
	}
	return strings.Join(l, " | ")
}

func replay(path string, layouts []layoutSpec, overlay string) {
	b, err := os.ReadFile(path)
	if err != nil {
		broken("replay file: %v", err)
	}
	var doc struct {
		Replay map[string]any `json:"replay"`
	}
	if err := json.Unmarshal(b, &doc); err != nil || doc.Replay == nil {
		broken("replay file has no replay object: %v", err)
	}
	if k, _ := doc.Replay["kind"].(string); k == "omit" {
		out, viol := omitVariant(overlay)
		fmt.Println("omit_complexity: true variant:", out, viol)
		return
	}
	want, _ := doc.Replay["layout"].(string)
	for _, l := range layouts {
		if want != "" && l.name != want {
			continue
		}
		dir, bin := buildHarness(l, overlay, "./harness")
		rb, _ := json.Marshal(doc.Replay)
		rf := filepath.Join(dir, "replay.json")
		os.WriteFile(rf, rb, 0o644)
		out, _ := probe.Run(dir, append(os.Environ(), "GOMAXPROCS=1"), bin, "-layout", l.name, "-replay", rf, "-out", filepath.Join(dir, "unused.json"))
		fmt.Printf("== layout %s ==\n%s", l.name, out)
	}
}

// broken reports a failure of the machinery (exit 2): first failure wins, the scratch
// directory is removed after the message is printed.
var brokenMu sync.Mutex

func broken(format string, a ...any) {
	brokenMu.Lock() // never released: concurrent failures wait here until the process exits
	fmt.Fprintf(os.Stderr, "BROKEN: "+format+"\n", a...)
	probe.Cleanup()
	os.Exit(2)
}

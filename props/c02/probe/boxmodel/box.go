// Package boxmodel is the hand-written model behind the probe's Box type (bound through
// gqlgen.yml `models:`). gqlgen binds each Box field to the method of the same name and
// matches parameters to schema arguments BY NAME; the parameter order below is on purpose
// not the schema order. Every method reports what it received, by parameter name.
package boxmodel

import "context"

// PointIn is the model of the input object PointIn.
type PointIn struct {
	X int  `json:"x"`
	Y *int `json:"y"`
}

type Box struct {
	// Log is set by the harness when the box resolver creates the value.
	Log func(field string, names []string, args ...any)
}

func (bx *Box) log(field string, names []string, args ...any) {
	if bx != nil && bx.Log != nil {
		bx.Log(field, names, args...)
	}
}

// span(from: Int!, to: Int!)
func (bx *Box) Span(to int, from int) string {
	bx.log("span", []string{"to", "from"}, to, from)
	return "ok"
}

// spanDefault(from: Int! = 5, to: Int! = 100)
func (bx *Box) SpanDefault(ctx context.Context, to int, from int) (*string, error) {
	bx.log("spanDefault", []string{"to", "from"}, to, from)
	s := "ok"
	return &s, nil
}

// label(prefix: String, suffix: String = "post")
func (bx *Box) Label(suffix *string, prefix *string) string {
	bx.log("label", []string{"suffix", "prefix"}, suffix, prefix)
	return "ok"
}

// tri(a: Int, b: Int, c: Int = 3): a three-cycle
func (bx *Box) Tri(ctx context.Context, c *int, a *int, b *int) (*string, error) {
	bx.log("tri", []string{"c", "a", "b"}, c, a, b)
	s := "ok"
	return &s, nil
}

// move(from: PointIn, to: PointIn, steps: [Int], scale: Int = 2)
// (only parameters of equal Go type are permuted, so that a generator that passes the
// arguments in the wrong order still produces code that compiles — and is caught here)
func (bx *Box) Move(ctx context.Context, to *PointIn, from *PointIn, steps []*int, scale *int) (*string, error) {
	bx.log("move", []string{"to", "from", "steps", "scale"}, to, from, steps, scale)
	s := "ok"
	return &s, nil
}

// lists(a: [Int!], b: [Int!] = [1])
func (bx *Box) Lists(b []int, a []int) string {
	bx.log("lists", []string{"b", "a"}, b, a)
	return "ok"
}

// ratio(num: Float!, den: Float! = 2.0)
func (bx *Box) Ratio(den float64, num float64) *string {
	bx.log("ratio", []string{"den", "num"}, den, num)
	s := "ok"
	return &s
}

// scale(by: Float!, n: Int!): schema order
func (bx *Box) Scale(by float64, n int) *string {
	bx.log("scale", []string{"by", "n"}, by, n)
	s := "ok"
	return &s
}

package boxmodel

// PPOuter is the hand-written model of the input object PPOuter. `**T` fields: nil = the
// field was omitted, pointer to a nil pointer = explicit null, pointer to pointer = value.
// (gqlgen generates this shape for input-OBJECT-typed fields only; `**int` / `**string`
// make the generated code fail to compile, so scalar fields use the single pointer.)
type PPOuter struct {
	Name       *string     `json:"name"`
	Inner      **PPInner   `json:"inner"`
	Count      *int        `json:"count"`
	Label      *string     `json:"label"`
	Nums       *[]*int     `json:"nums"`
	PlainInner *PPInner    `json:"plainInner"`
	Child      **PPOuter   `json:"child"`
	Inners     []**PPInner `json:"inners"`
}

type PPInner struct {
	Key *string `json:"key"`
	N   *int    `json:"n"`
}

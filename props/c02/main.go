// C02: resolvers receive arguments exactly as GraphQL input coercion defines.
//
// Bounded-exhaustive enumeration: for every position of the `input` probe schema (every
// argument of every Query field and every input-object field / list element reachable
// from it within a step bound) every value of the design's JSON value alphabet is supplied
// as a literal, through a variable and through a variable nested in a literal; each
// request runs through the executor generated at check time from the tree under test (one
// harness binary per generator configuration) and is compared with a reference
// implementation of the specification's input coercion (verif/c02lib).
package main

import (
	"encoding/json"
	"fmt"
	"os"
	"os/exec"
	"path/filepath"
	"runtime"
	"sort"
	"strconv"
	"strings"
	"sync"
	"time"

	"verif/c02lib"
	"verif/common"
	"verif/probe"
)

// config is one generator configuration of the input probe.
type config struct {
	Name   string
	Models string // appended to the models: section
	// NoMap: leave MapIn a generated struct (was needed while return_pointers_in_unmarshalinput
	// with a map-backed input generated code that did not compile; fixed in the tree by
	// 12232e6, so no configuration sets it any more).
	NoMap bool
	Extra string // appended at top level
}

var (
	base = []config{
		{Name: "default"},
		{Name: "nullable-input-omittable", Extra: "nullable_input_omittable: true\n"},
		{Name: "return-pointers-in-unmarshalinput", Extra: "return_pointers_in_unmarshalinput: true\n"},
		{Name: "call-argument-directives-with-null", Extra: "call_argument_directives_with_null: true\n"},
		{Name: "struct-fields-not-pointers", Extra: "struct_fields_always_pointers: false\n"},
	}
	more = []config{
		{Name: "id-as-int", Models: "  ID:\n    model: github.com/99designs/gqlgen/graphql.IntID\n"},
		{Name: "id-as-uint", Models: "  ID:\n    model: github.com/99designs/gqlgen/graphql.UintID\n"},
		{Name: "function-syntax", Extra: "use_function_syntax_for_execution_context: true\n"},
	}
)

func configs(tier string) []config {
	out := append([]config(nil), base...)
	if tier != "thorough" {
		return out
	}
	for i := 1; i < len(base); i++ {
		for j := i + 1; j < len(base); j++ {
			out = append(out, config{Name: base[i].Name + "+" + base[j].Name, Extra: base[i].Extra + base[j].Extra, NoMap: base[i].NoMap || base[j].NoMap})
		}
	}
	return append(out, more...)
}

const mapBinding = "  MapIn:\n    model: \"map[string]interface{}\"\n"

type built struct {
	Cfg config
	Dir string
	Bin string
	Err error
}

func buildAll(cfgs []config) []built {
	tmpl, err := os.ReadFile(filepath.Join(common.Root, "props", "c02", "harness", "main.go.txt"))
	if err != nil {
		common.Broken("harness template: %v", err)
	}
	if _, err := probe.Driver(); err != nil {
		probe.Cleanup()
		common.Broken("%v", err)
	}
	out := make([]built, len(cfgs))
	var wg sync.WaitGroup
	sem := make(chan struct{}, 6)
	for i, cf := range cfgs {
		wg.Add(1)
		go func(i int, cf config) {
			defer wg.Done()
			sem <- struct{}{}
			defer func() { <-sem }()
			files := probe.ReadProbe("input")
			// second schema file + hand-written model whose METHODS receive arguments
			// (props/c02/probe): Box and PointIn are bound through models:
			for rel, dst := range map[string]string{"methods.graphql": "methods.graphql", "defaults.graphql": "defaults.graphql", "ptrptr.graphql": "ptrptr.graphql", "boxmodel/box.go": "boxmodel/box.go", "boxmodel/ptrptr.go": "boxmodel/ptrptr.go"} {
				b, err := os.ReadFile(filepath.Join(common.Root, "props", "c02", "probe", rel))
				if err != nil {
					probe.Cleanup()
					common.Broken("probe extension: %v", err)
				}
				files[dst] = string(b)
			}
			files["gqlgen.yml"] = strings.Replace(files["gqlgen.yml"], "  - schema.graphql\n", "  - schema.graphql\n  - methods.graphql\n  - defaults.graphql\n  - ptrptr.graphql\n", 1) +
				"  Box:\n    model: probe/boxmodel.Box\n  PointIn:\n    model: probe/boxmodel.PointIn\n  PPOuter:\n    model: probe/boxmodel.PPOuter\n  PPInner:\n    model: probe/boxmodel.PPInner\n"
			yml := files["gqlgen.yml"]
			if cf.NoMap {
				yml = strings.Replace(yml, mapBinding, "", 1)
				if yml == files["gqlgen.yml"] {
					probe.Cleanup()
					common.Broken("probe gqlgen.yml has no MapIn binding to remove")
				}
			}
			files["gqlgen.yml"] = yml + cf.Models + cf.Extra
			files["harness/main.go"] = string(tmpl)
			res, err := probe.Generate(probe.Spec{Name: "input-" + cf.Name, Files: files, Stub: "graph/stub.go"})
			b := built{Cfg: cf, Dir: res.Dir}
			switch {
			case err != nil:
				b.Err = err
			case res.ExitCode != 0:
				b.Err = fmt.Errorf("generation failed (exit %d): %s", res.ExitCode, res.Output)
			default:
				b.Bin = filepath.Join(res.Dir, "harness.bin")
				if o, err := probe.GoBuild(res.Dir, "-o", b.Bin, "./harness"); err != nil {
					b.Err = fmt.Errorf("building the harness: %v\n%s", err, o)
				}
			}
			out[i] = b
		}(i, cf)
	}
	wg.Wait()
	return out
}

func runAll(builds []built, tier string, deadline time.Time) []c02lib.Result {
	out := make([]c02lib.Result, len(builds))
	par := min(len(builds), 8)
	workers := max(2, runtime.NumCPU()/par)
	var wg sync.WaitGroup
	sem := make(chan struct{}, par)
	for i, b := range builds {
		wg.Add(1)
		go func(i int, b built) {
			defer wg.Done()
			sem <- struct{}{}
			defer func() { <-sem }()
			cmd := exec.Command(b.Bin, "--tier", tier, "--workers", strconv.Itoa(workers), "--deadline", strconv.FormatInt(deadline.Unix(), 10))
			cmd.Env = append(os.Environ(), "VERIF_CONFIG="+b.Cfg.Name)
			cmd.Stderr = os.Stderr
			o, err := cmd.Output()
			if err != nil {
				probe.Cleanup()
				common.Broken("harness of configuration %s failed: %v", b.Cfg.Name, err)
			}
			if err := json.Unmarshal(o, &out[i]); err != nil {
				probe.Cleanup()
				common.Broken("harness output of %s: %v: %.300s", b.Cfg.Name, err, o)
			}
		}(i, b)
	}
	wg.Wait()
	return out
}

func main() {
	c := common.New("C02", "exploration")
	cfgs := configs(c.Tier)
	budget := 150 * time.Second
	if c.Tier == "thorough" {
		budget = 20 * time.Minute
	}
	c.Budget(budget)
	t0 := time.Now()
	builds := buildAll(cfgs)
	c.Cov["build_s"] = time.Since(t0).Seconds()
	for _, b := range builds {
		if b.Err != nil {
			probe.Cleanup()
			common.Broken("configuration %s: %v", b.Cfg.Name, b.Err)
		}
	}
	if rp := common.ReplayArg(); rp != "" {
		code := replay(builds, rp)
		probe.Cleanup()
		os.Exit(code)
	}
	results := runAll(builds, c.Tier, c.Deadline)

	evaluations, nontrivial := 0, 0
	complete := true
	var per []map[string]any
	type rep struct {
		sig, what string
		data      any
	}
	var violations []rep
	violIdx := map[string]int{}
	quirkSeen := map[string]rep{}
	quirkCount := map[string]int{}
	for _, r := range results {
		evaluations += r.Evaluated
		nontrivial += r.Nontrivial
		if !r.Complete {
			complete = false
		}
		per = append(per, map[string]any{"config": r.Config, "id_binding": r.IDKind, "positions": r.Positions, "requests": r.Cases,
			"evaluated": r.Evaluated, "nontrivial": r.Nontrivial, "spec_coerces": r.ExpectCoerce, "spec_rejects": r.ExpectReject,
			"run_s": r.RunS, "by_mode": r.ByMode, "verdicts": r.Verdicts, "complete": r.Complete})
		for _, f := range r.Findings {
			what := f.What + "\n  request: " + f.Case.Query + "  variables: " + f.Case.Vars + "\n  position: " + f.Case.Pos + " <- " + f.Case.Value + " (" + f.Case.Mode + ")\n  config: " + r.Config
			data := map[string]any{"config": r.Config, "case": f.Case, "observed": f.Obs}
			if f.Quirk {
				quirkCount[f.Sig] += f.Count
				if _, seen := quirkSeen[f.Sig]; !seen {
					quirkSeen[f.Sig] = rep{f.Sig, what, data}
				}
				continue
			}
			if j, seen := violIdx[f.Sig]; seen {
				violations[j].what += ", " + r.Config
				continue
			}
			violIdx[f.Sig] = len(violations)
			violations = append(violations, rep{f.Sig, what, data})
		}
		for _, s := range r.Samples {
			if r.Config == results[0].Config {
				c.Sample(map[string]any{"config": r.Config, "query": s.Case.Query, "variables": s.Case.Vars, "specification": s.Expected,
					"resolver_calls": s.Obs.Calls, "request_errors": s.Obs.Gate, "errors": s.Obs.Errors})
			}
		}
	}
	// named deviations of the reference: one report each (known finding or violation)
	var qs []string
	for q := range quirkSeen {
		qs = append(qs, q)
	}
	sort.Strings(qs)
	for _, q := range qs {
		c.Report(q, quirkSeen[q].what, quirkSeen[q].data)
	}
	// unexplained disagreements: at most 12 are written out, the rest are counted
	sort.Slice(violations, func(i, j int) bool { return violations[i].sig < violations[j].sig })
	for i, v := range violations {
		if i >= 12 {
			fmt.Printf("... and %d more unexplained disagreement classes (not written out)\n", len(violations)-i)
			break
		}
		c.Report(v.sig, v.what, v.data)
	}
	c.Cov["evaluations"] = evaluations
	c.Cov["distinct_nontrivial"] = nontrivial
	c.Cov["exhaustive"] = complete
	c.Cov["per_config"] = per
	c.Cov["deviation_case_counts"] = quirkCount
	c.Cov["unexplained_disagreement_classes"] = len(violations)
	c.Cov["rule"] = "one evaluation = one request (query text + variables JSON, distinct by construction and de-duplicated by text) executed on one generated configuration and compared with the reference; non-trivial = the observation compared is non-empty: the resolver was called with at least one non-null argument, or at least one error was reported"
	steps := 2
	if c.Tier == "thorough" {
		steps = 4
	}
	c.Cov["bounds"] = map[string]any{"tier": c.Tier, "configs": len(cfgs), "max_descent_steps_below_argument": steps,
		"alphabet":              "absent null true 0 -1 1 2147483647 -2147483648 2147483648 -2147483649 9223372036854775807 9223372036854775808 -9223372036854775808 -9223372036854775809 1.0 1.5 1e3 \"1\" \"-1\" \"1.5\" \"abc\" \"\" \"true\" RED red \"RED\" [] [good] [good,good2] [good,null] [null] [each scalar] [[good]] [[]] [good,[good]] {} {required} {required,f:good|null|{}} {required,unknown:1} {unknown:1} {required:null}; numeric positions (Int Float ID IntID UintID and the scalars bound to graphql.Int32/Int64/Uint/Uint32/Uint64/Float, also as list elements) additionally: 4294967295 4294967296 18446744073709551615 18446744073709551616, the strings \"0\" and every 32/64-bit signed/unsigned boundary and its neighbour as a string, \"1e3\" \"1.0\" \"NaN\" \"Infinity\" \"-inf\"",
		"default_literal_forms": "input-field defaults (DefIn/DefInner/NullDef, injected by generated code) and argument defaults (Query.defArgs, applied by gqlparser) in every literal form of the kind: Float as 0 / 2 / -3 / 1e3 / 2.5 / -1.5e-2, Int 0 / negative / max, ID as integer and as string and empty, Boolean, enum, strings empty and with escapes, lists empty / mixed forms [1, 2.5, -3, 1e3] / with null / single value coerced to a list / [[Int]] from 1 and from [1, [2, 3]], nested input-object defaults ({...}, {} picking up inner defaults, a single object for a list), null, custom scalars bound to Int32/Int64/Uint/Uint32/Uint64/IntID/UintID/Float and Lit; variable defaults `$v: T = D` with D over the same forms for every position type, variable not provided (all four carriers) or null; positions under Query.def* use the 6-value small alphabet and one descent step",
		"input_go_shapes":       "generated structs (pointer fields / value fields), graphql.Omittable fields, map[string]any-backed input, and hand-written bound structs with pointer-to-pointer fields (**T for input-object-typed fields, also as list elements []**T and one level down; *[]*int for a list): omitted / explicit null / value are compared as unset / set(null) / set(value)",
		"variables_carrier":     "whenever the variable is not provided: {\"variables\" key / URL parameter absent, null, {}, object holding only another key}; otherwise the object holding the variable",
		"transports":            "every request through handler.Server + transport.POST on an httptest recorder; requests whose variable is absent or null, or whose operation declares a variable default or a non-null variable, and the corpus, additionally through transport.GET",
		"modes":                 "literal; whole argument through a variable; variable nested in a literal object/list; variable with default; non-null variable; nullable variable at a defaulted non-null position"}
	c.Assume = []string{
		"gqlparser's parser is trusted to turn query text into AST; validation and coercion are part of what is checked",
		"Int is Go int (64 bit on this platform): gqlgen documents this binding (docs/content/reference/scalars.md, FIXME in codegen/config/config.go); the probe scalars I32/I64/U/U32/U64/F bound to graphql.Int32/Int64/Uint/Uint32/Uint64/Float have Int (resp. Float) semantics with exactly the range of their Go type: the resolver receives the mathematical value sent or the request is rejected",
		"a JSON number written with fraction/exponent but integral value (1.0, 1e3) for Int/ID may be taken as that integer or rejected (transport number representation); both are accepted, a different integer is not",
		"an integer token beyond 64 bits may be rejected where the specification sets no range (Float, ID, custom scalar)",
		"`[$v]` with $v not provided: element null or rejection are both accepted (the 2021 text does not define it)",
		"request-stage rejections (validation, variable coercion) are not required to carry a response path; execution-stage coercion errors must have a path <field>.<argument>... that agrees with a failing position of the reference (an extra index 0 from list coercion is tolerated)",
		"the probe's custom scalar Lit accepts strings, numbers, booleans and bare names (its definition, probes/input/scalars/lit.go, is part of the schema, not of gqlgen); IntID/UintID follow ID semantics restricted to integers the Go type holds",
		"absent and explicit null are compared where Go can show the difference (Omittable fields, map-backed inputs, pointer-to-pointer fields of hand-written input models); elsewhere both are the zero/nil value. Pointer-to-pointer is used for input-object-typed fields only: `**int` / `**string` fields make the generated code fail to compile (a generation matter, reported to the coordinator)",
		"the @ad directive must see, from next(), the same value the specification gives for its position; how often it is called is not part of the statement",
		"probe schema only; random schemas are not generated (sampling is another technique); a list of a map-backed input type ([MapIn]) is left out because generation panicked on it when the probe was written (reported to C17)",
		"a request whose `variables` carrier is absent, null, {} or holds only undeclared keys provides no variable: CoerceVariableValues still runs (defaults apply, a missing non-null variable is a request error); undeclared keys are ignored",
	}
	probe.Cleanup()
	c.Finish()
}

func replay(builds []built, path string) int {
	b, err := os.ReadFile(path)
	if err != nil {
		probe.Cleanup()
		common.Broken("replay: %v", err)
	}
	var doc struct {
		Replay struct {
			Config string `json:"config"`
		} `json:"replay"`
	}
	json.Unmarshal(b, &doc)
	name := doc.Replay.Config
	for _, bl := range builds {
		if bl.Cfg.Name == name {
			cmd := exec.Command(bl.Bin, "--replay-case", path)
			cmd.Stdout, cmd.Stderr = os.Stdout, os.Stderr
			cmd.Env = append(os.Environ(), "VERIF_CONFIG="+bl.Cfg.Name)
			if err := cmd.Run(); err != nil {
				if ee, ok := err.(*exec.ExitError); ok {
					return ee.ExitCode()
				}
				return 2
			}
			return 0
		}
	}
	probe.Cleanup()
	common.Broken("replay: configuration %q is not built in this tier (known: %s)", name, strings.Join(names(builds), ", "))
	return 2
}

func names(bs []built) []string {
	var out []string
	for _, b := range bs {
		out = append(out, b.Cfg.Name)
	}
	return out
}

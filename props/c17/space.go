package main

import (
	"fmt"
	"path"
	"sort"
	"strings"
)

// Opt is one documented boolean option with the value that deviates from its default.
type Opt struct {
	Key     string // yaml key; "resolver." prefix = key inside the resolver section
	Deviant string // yaml value that is NOT the default
}

// All documented boolean options (docs/content/config.md, docs/content/reference/model-generation.md,
// docs/content/reference/errors.md for omit_panic_handler, README for omit_getters) with their
// non-default value. Defaults are those of config.DefaultConfig().
var allOpts = []Opt{
	{"omit_slice_element_pointers", "true"},
	{"struct_fields_always_pointers", "false"},
	{"resolvers_always_return_pointers", "false"},
	{"return_pointers_in_unmarshalinput", "true"},
	{"nullable_input_omittable", "true"},
	{"call_argument_directives_with_null", "true"},
	{"use_function_syntax_for_execution_context", "true"},
	{"omit_complexity", "true"},
	{"omit_getters", "true"},
	{"omit_interface_checks", "true"},
	{"omit_root_models", "true"},
	{"omit_resolver_fields", "true"},
	{"omit_panic_handler", "true"},
	{"omit_gqlgen_file_notice", "true"},
	{"omit_gqlgen_version_in_file_notice", "true"},
	{"enable_model_json_omitempty_tag", "false"},
	{"enable_model_json_omitzero_tag", "true"},
	{"skip_validation", "true"},
	{"skip_mod_tidy", "true"},
	{"resolver.omit_template_comment", "true"},
	{"resolver.preserve_resolver", "true"},
}

// Layout is the non-boolean part of a configuration.
type Layout struct {
	Exec     string // "single-file" | "follow-schema"
	Resolver string // "single-file" | "follow-schema" | "none"
	Worker   int    // exec.worker_limit: 0 | 2
	Models   string // "generated" | "autobind" (hand-written package probe/hand) | "autobind-self" (autobind names the package that also receives models_gen.go; a few hand-written types live there)
	ModelPkg string // where modelgen writes: "separate" (<exec dir>/model, package model) | "same" (the exec package)
	Dirs     Dirs   // where schema / exec / model / resolver files live relative to each other and to the module root
}

// Dirs is the directory-layout part of a Layout; the zero value is the layout used before this
// dimension existed.
type Dirs struct {
	// Schema: where the schema files are.
	//   ""        an unrelated directory (schema/)
	//   "below"   below the exec directory (<exec dir>/schema/): the only place go:embed reaches
	//   "sibling" a sibling of the exec directory whose NAME HAS THE EXEC DIRECTORY'S NAME AS A PREFIX (graph -> graphql)
	//   "root"    the module root
	//   "parent"  the parent of the exec directory (exec moves to pkg/graph, schema in pkg/)
	Schema string
	// Place: where the generated packages are.
	//   ""     sub-directories (exec in graph/, models in graph/model or graph/, resolvers in resolvers/ or graph/)
	//   "root" the exec package IS the module root package (models there too with ModelPkg "same", in
	//          model/ with "separate"; follow-schema resolvers in the root package as well)
	Place string
	// Nested: the module is a sub-directory (svc/) of a directory that has its own go.mod.
	Nested bool
}

func (d Dirs) String() string {
	var p []string
	if d.Schema != "" {
		p = append(p, "schema="+d.Schema)
	}
	if d.Place != "" {
		p = append(p, "place="+d.Place)
	}
	if d.Nested {
		p = append(p, "nested-module")
	}
	return strings.Join(p, ",")
}

// Valid: a schema directory next to / above the module root only exists inside the project when
// the module is nested.
func (l Layout) Valid() bool {
	if l.Dirs.Place == "root" && !l.Dirs.Nested && (l.Dirs.Schema == "sibling" || l.Dirs.Schema == "parent") {
		return false
	}
	return true
}

// Paths are the concrete locations of a layout, relative to the module directory.
type Paths struct {
	ModDir      string // module directory relative to the project directory ("" or "svc")
	SchemaDir   string
	ExecDir     string
	ExecImport  string
	ExecPkg     string
	ModelDir    string
	ModelImport string
	ModelPkg    string
	Stub        string
}

func (l Layout) Paths() Paths {
	p := Paths{ExecDir: "graph", ExecImport: "probe/graph", ExecPkg: "graph"}
	if l.Dirs.Nested {
		p.ModDir = "svc"
	}
	switch {
	case l.Dirs.Place == "root":
		p.ExecDir, p.ExecImport, p.ExecPkg = ".", "probe", "probe"
	case l.Dirs.Schema == "parent":
		p.ExecDir, p.ExecImport = "pkg/graph", "probe/pkg/graph"
	}
	p.ModelDir, p.ModelImport, p.ModelPkg = p.ExecDir, p.ExecImport, p.ExecPkg
	if l.ModelPkg != "same" {
		p.ModelDir, p.ModelImport, p.ModelPkg = path.Join(p.ExecDir, "model"), p.ExecImport+"/model", "model"
	}
	switch l.Dirs.Schema {
	case "below":
		p.SchemaDir = path.Join(p.ExecDir, "schema")
	case "sibling":
		if p.ExecDir == "." {
			p.SchemaDir = "../svcql" // nested only: sibling of the module directory svc
		} else {
			p.SchemaDir = p.ExecDir + "ql"
		}
	case "root":
		p.SchemaDir = "."
	case "parent":
		p.SchemaDir = path.Dir(p.ExecDir)
		if p.ExecDir == "." {
			p.SchemaDir = ".."
		}
	default:
		p.SchemaDir = "schema"
	}
	p.Stub = path.Join(p.ExecDir, "stub.go")
	return p
}

func (l Layout) String() string {
	s := fmt.Sprintf("exec=%s,resolver=%s,worker_limit=%d,models=%s,modelpkg=%s", l.Exec, l.Resolver, l.Worker, l.Models, l.ModelPkg)
	if d := l.Dirs.String(); d != "" {
		s += "," + d
	}
	return s
}

// baseline layout used by failure minimisation.
var baseLayout = Layout{"single-file", "none", 0, "generated", "separate", Dirs{}}

const layoutDims = 8

// ResetDim resets dimension i (0 models, 1 worker_limit, 2 resolver layout, 3 exec layout, 4 model package) to
// the baseline; ok is false when it already has the baseline value.
func (l Layout) ResetDim(i int) (Layout, bool) {
	t := l
	switch i {
	case 0:
		t.Models = baseLayout.Models
	case 1:
		t.Worker = baseLayout.Worker
	case 2:
		t.Resolver = baseLayout.Resolver
	case 3:
		t.Exec = baseLayout.Exec
	case 4:
		t.ModelPkg = baseLayout.ModelPkg
	case 5:
		t.Dirs.Nested = false
	case 6:
		t.Dirs.Schema = ""
	case 7:
		t.Dirs.Place = ""
	}
	return t, t != l && t.Valid()
}

// NonBaseline names the dimensions that differ from the baseline layout.
func (l Layout) NonBaseline() string {
	var p []string
	if l.Exec != baseLayout.Exec {
		p = append(p, "exec="+l.Exec)
	}
	if l.Resolver != baseLayout.Resolver {
		p = append(p, "resolver="+l.Resolver)
	}
	if l.Worker != baseLayout.Worker {
		p = append(p, fmt.Sprintf("worker_limit=%d", l.Worker))
	}
	if l.Models != baseLayout.Models {
		p = append(p, "models="+l.Models)
	}
	if l.ModelPkg != baseLayout.ModelPkg {
		p = append(p, "modelpkg="+l.ModelPkg)
	}
	if d := l.Dirs.String(); d != "" {
		p = append(p, d)
	}
	if len(p) == 0 {
		return "baseline-layout"
	}
	return strings.Join(p, ",")
}

func allLayouts() []Layout {
	var out []Layout
	for _, e := range []string{"single-file", "follow-schema"} {
		for _, r := range []string{"single-file", "follow-schema", "none"} {
			for _, w := range []int{0, 2} {
				for _, m := range []string{"generated", "autobind", "autobind-self"} {
					for _, p := range []string{"separate", "same"} {
						out = append(out, Layout{e, r, w, m, p, Dirs{}})
					}
				}
			}
		}
	}
	return out
}

// Config = layout + set of deviating options (sorted keys).
type Config struct {
	Layout Layout
	Dev    []string
}

func (c Config) ID() string {
	d := "defaults"
	if len(c.Dev) > 0 {
		d = strings.Join(c.Dev, "+")
	}
	return c.Layout.String() + "|" + d
}

// applicable tells whether the option can be expressed in this layout (resolver.* options need a
// resolver section).
func applicable(o string, l Layout) bool {
	return !(strings.HasPrefix(o, "resolver.") && l.Resolver == "none")
}

// optionSets enumerates every set of at most k deviations over opts applicable to layout l,
// smallest first, in the fixed order of allOpts.
func optionSets(l Layout, k int) [][]string {
	var keys []string
	for _, o := range allOpts {
		if applicable(o.Key, l) {
			keys = append(keys, o.Key)
		}
	}
	out := [][]string{{}}
	if k >= 1 {
		for _, a := range keys {
			out = append(out, []string{a})
		}
	}
	if k >= 2 {
		for i := range keys {
			for j := i + 1; j < len(keys); j++ {
				out = append(out, []string{keys[i], keys[j]})
			}
		}
	}
	return out
}

func deviant(key string) string {
	for _, o := range allOpts {
		if o.Key == key {
			return o.Deviant
		}
	}
	panic("unknown option " + key)
}

// YAML renders gqlgen.yml. Paths: schema/*.graphqls, exec in graph/, models in graph/model (or in
// graph/ itself: the documented one-package layout gqlgen's own test servers use),
// hand-written models (autobind) in probe/hand, resolvers in graph/ (follow-schema, same package
// as exec — the gqlgen init default) or resolvers/ (single-file, separate package).
func (c Config) YAML() string {
	p := c.Layout.Paths()
	join := func(dir, f string) string { return path.Join(dir, f) }
	var b strings.Builder
	b.WriteString("schema:\n  - \"" + join(p.SchemaDir, "*.graphqls") + "\"\n")
	b.WriteString("exec:\n  package: " + p.ExecPkg + "\n")
	if c.Layout.Exec == "single-file" {
		b.WriteString("  layout: single-file\n  filename: " + join(p.ExecDir, "generated.go") + "\n")
	} else {
		b.WriteString("  layout: follow-schema\n  dir: " + p.ExecDir + "\n  filename_template: \"{name}.generated.go\"\n")
	}
	if c.Layout.Worker != 0 {
		fmt.Fprintf(&b, "  worker_limit: %d\n", c.Layout.Worker)
	}
	b.WriteString("model:\n  filename: " + join(p.ModelDir, "models_gen.go") + "\n  package: " + p.ModelPkg + "\n")
	has := map[string]bool{}
	for _, d := range c.Dev {
		has[d] = true
	}
	switch c.Layout.Resolver {
	case "single-file":
		b.WriteString("resolver:\n  layout: single-file\n  filename: resolvers/resolver.go\n  package: resolvers\n")
	case "follow-schema":
		b.WriteString("resolver:\n  layout: follow-schema\n  dir: " + p.ExecDir + "\n  package: " + p.ExecPkg + "\n  filename_template: \"{name}.resolvers.go\"\n")
	}
	if c.Layout.Resolver != "none" {
		for _, d := range c.Dev {
			if strings.HasPrefix(d, "resolver.") {
				fmt.Fprintf(&b, "  %s: %s\n", strings.TrimPrefix(d, "resolver."), deviant(d))
			}
		}
	}
	switch c.Layout.Models {
	case "autobind":
		b.WriteString("autobind:\n  - probe/hand\n")
	case "autobind-self":
		b.WriteString("autobind:\n  - " + p.ModelImport + "\n")
	}
	keys := append([]string(nil), c.Dev...)
	sort.Strings(keys)
	for _, d := range keys {
		if strings.HasPrefix(d, "resolver.") {
			continue
		}
		fmt.Fprintf(&b, "%s: %s\n", d, deviant(d))
	}
	return b.String()
}

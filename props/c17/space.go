package main

import (
	"fmt"
	"sort"
	"strings"
)

// Opt is one documented boolean option with the value that deviates from its default.
type Opt struct {
	Key     string // yaml key; "resolver." prefix = key inside the resolver section
	Deviant string // yaml value that is NOT the default
}

// All documented boolean options (docs/content/config.md, docs/content/reference/model-generation.md,
// docs/content/reference/errors.md for omit_panic_handler, README for omit_getters) with their
// non-default value. Defaults are those of config.DefaultConfig().
var allOpts = []Opt{
	{"omit_slice_element_pointers", "true"},
	{"struct_fields_always_pointers", "false"},
	{"resolvers_always_return_pointers", "false"},
	{"return_pointers_in_unmarshalinput", "true"},
	{"nullable_input_omittable", "true"},
	{"call_argument_directives_with_null", "true"},
	{"use_function_syntax_for_execution_context", "true"},
	{"omit_complexity", "true"},
	{"omit_getters", "true"},
	{"omit_interface_checks", "true"},
	{"omit_root_models", "true"},
	{"omit_resolver_fields", "true"},
	{"omit_panic_handler", "true"},
	{"omit_gqlgen_file_notice", "true"},
	{"omit_gqlgen_version_in_file_notice", "true"},
	{"enable_model_json_omitempty_tag", "false"},
	{"enable_model_json_omitzero_tag", "true"},
	{"skip_validation", "true"},
	{"skip_mod_tidy", "true"},
	{"resolver.omit_template_comment", "true"},
	{"resolver.preserve_resolver", "true"},
}

// Layout is the non-boolean part of a configuration.
type Layout struct {
	Exec     string // "single-file" | "follow-schema"
	Resolver string // "single-file" | "follow-schema" | "none"
	Worker   int    // exec.worker_limit: 0 | 2
	Models   string // "generated" | "autobind" (hand-written package probe/hand) | "autobind-self" (autobind names the package that also receives models_gen.go; a few hand-written types live there)
	ModelPkg string // where modelgen writes: "separate" (graph/model, package model) | "same" (graph/models_gen.go, the exec package)
}

func (l Layout) String() string {
	return fmt.Sprintf("exec=%s,resolver=%s,worker_limit=%d,models=%s,modelpkg=%s", l.Exec, l.Resolver, l.Worker, l.Models, l.ModelPkg)
}

// baseline layout used by failure minimisation.
var baseLayout = Layout{"single-file", "none", 0, "generated", "separate"}

const layoutDims = 5

// ResetDim resets dimension i (0 models, 1 worker_limit, 2 resolver layout, 3 exec layout, 4 model package) to
// the baseline; ok is false when it already has the baseline value.
func (l Layout) ResetDim(i int) (Layout, bool) {
	t := l
	switch i {
	case 0:
		t.Models = baseLayout.Models
	case 1:
		t.Worker = baseLayout.Worker
	case 2:
		t.Resolver = baseLayout.Resolver
	case 3:
		t.Exec = baseLayout.Exec
	case 4:
		t.ModelPkg = baseLayout.ModelPkg
	}
	return t, t != l
}

// NonBaseline names the dimensions that differ from the baseline layout.
func (l Layout) NonBaseline() string {
	var p []string
	if l.Exec != baseLayout.Exec {
		p = append(p, "exec="+l.Exec)
	}
	if l.Resolver != baseLayout.Resolver {
		p = append(p, "resolver="+l.Resolver)
	}
	if l.Worker != baseLayout.Worker {
		p = append(p, fmt.Sprintf("worker_limit=%d", l.Worker))
	}
	if l.Models != baseLayout.Models {
		p = append(p, "models="+l.Models)
	}
	if l.ModelPkg != baseLayout.ModelPkg {
		p = append(p, "modelpkg="+l.ModelPkg)
	}
	if len(p) == 0 {
		return "baseline-layout"
	}
	return strings.Join(p, ",")
}

func allLayouts() []Layout {
	var out []Layout
	for _, e := range []string{"single-file", "follow-schema"} {
		for _, r := range []string{"single-file", "follow-schema", "none"} {
			for _, w := range []int{0, 2} {
				for _, m := range []string{"generated", "autobind", "autobind-self"} {
					for _, p := range []string{"separate", "same"} {
						out = append(out, Layout{e, r, w, m, p})
					}
				}
			}
		}
	}
	return out
}

// Config = layout + set of deviating options (sorted keys).
type Config struct {
	Layout Layout
	Dev    []string
}

func (c Config) ID() string {
	d := "defaults"
	if len(c.Dev) > 0 {
		d = strings.Join(c.Dev, "+")
	}
	return c.Layout.String() + "|" + d
}

// applicable tells whether the option can be expressed in this layout (resolver.* options need a
// resolver section).
func applicable(o string, l Layout) bool {
	return !(strings.HasPrefix(o, "resolver.") && l.Resolver == "none")
}

// optionSets enumerates every set of at most k deviations over opts applicable to layout l,
// smallest first, in the fixed order of allOpts.
func optionSets(l Layout, k int) [][]string {
	var keys []string
	for _, o := range allOpts {
		if applicable(o.Key, l) {
			keys = append(keys, o.Key)
		}
	}
	out := [][]string{{}}
	if k >= 1 {
		for _, a := range keys {
			out = append(out, []string{a})
		}
	}
	if k >= 2 {
		for i := range keys {
			for j := i + 1; j < len(keys); j++ {
				out = append(out, []string{keys[i], keys[j]})
			}
		}
	}
	return out
}

func deviant(key string) string {
	for _, o := range allOpts {
		if o.Key == key {
			return o.Deviant
		}
	}
	panic("unknown option " + key)
}

// YAML renders gqlgen.yml. Paths: schema/*.graphqls, exec in graph/, models in graph/model (or in
// graph/ itself: the documented one-package layout gqlgen's own test servers use),
// hand-written models (autobind) in probe/hand, resolvers in graph/ (follow-schema, same package
// as exec — the gqlgen init default) or resolvers/ (single-file, separate package).
func (c Config) YAML() string {
	var b strings.Builder
	b.WriteString("schema:\n  - schema/*.graphqls\n")
	b.WriteString("exec:\n  package: graph\n")
	if c.Layout.Exec == "single-file" {
		b.WriteString("  layout: single-file\n  filename: graph/generated.go\n")
	} else {
		b.WriteString("  layout: follow-schema\n  dir: graph\n  filename_template: \"{name}.generated.go\"\n")
	}
	if c.Layout.Worker != 0 {
		fmt.Fprintf(&b, "  worker_limit: %d\n", c.Layout.Worker)
	}
	if c.Layout.ModelPkg == "same" {
		b.WriteString("model:\n  filename: graph/models_gen.go\n  package: graph\n")
	} else {
		b.WriteString("model:\n  filename: graph/model/models_gen.go\n  package: model\n")
	}
	has := map[string]bool{}
	for _, d := range c.Dev {
		has[d] = true
	}
	switch c.Layout.Resolver {
	case "single-file":
		b.WriteString("resolver:\n  layout: single-file\n  filename: resolvers/resolver.go\n  package: resolvers\n")
	case "follow-schema":
		b.WriteString("resolver:\n  layout: follow-schema\n  dir: graph\n  package: graph\n  filename_template: \"{name}.resolvers.go\"\n")
	}
	if c.Layout.Resolver != "none" {
		for _, d := range c.Dev {
			if strings.HasPrefix(d, "resolver.") {
				fmt.Fprintf(&b, "  %s: %s\n", strings.TrimPrefix(d, "resolver."), deviant(d))
			}
		}
	}
	switch c.Layout.Models {
	case "autobind":
		b.WriteString("autobind:\n  - probe/hand\n")
	case "autobind-self":
		if c.Layout.ModelPkg == "same" {
			b.WriteString("autobind:\n  - probe/graph\n")
		} else {
			b.WriteString("autobind:\n  - probe/graph/model\n")
		}
	}
	keys := append([]string(nil), c.Dev...)
	sort.Strings(keys)
	for _, d := range keys {
		if strings.HasPrefix(d, "resolver.") {
			continue
		}
		fmt.Fprintf(&b, "%s: %s\n", d, deviant(d))
	}
	return b.String()
}

package main

import (
	"encoding/json"
	"fmt"
	"reflect"
	"sort"
	"strings"
)

// The runtime harness: a small program inside the scratch module that runs the generated server
// once. Resolvers and directive functions are installed through reflection so that the program
// compiles whatever the configuration makes of their Go signatures. Every installed resolver
// answers with the JSON encoding of the arguments it received; the check decodes the response and
// compares it with a reference tree written down here from the schema literals (arguments and
// defaults are a matter of GraphQL semantics, not of gqlgen).
//
// withBounds: the feature schema's boundary-default fields (bounds, numDefault, numUse and the
// @num directive); withCalc: the hand-written probe/hand.Calc behind Query.calc.
func harnessSource(withBounds, withCalc bool, execImport string) string {
	s := strings.Replace(harnessTemplate, "EXECIMPORT", execImport, 1)
	keep := func(tag string, on bool) {
		var out []string
		for _, l := range strings.Split(s, "\n") {
			if strings.Contains(l, "//"+tag) {
				if !on {
					continue
				}
				l = strings.Replace(l, "//"+tag+" ", "", 1)
			}
			out = append(out, l)
		}
		s = strings.Join(out, "\n")
	}
	keep("BOUNDS", withBounds)
	keep("CALC", withCalc)
	return s
}

const harnessTemplate = `package main

import (
	"context"
	"encoding/json"
	"fmt"
	"net/http/httptest"
	"os"
	"reflect"
	"strings"
	"sync"

	"github.com/99designs/gqlgen/graphql"
	"github.com/99designs/gqlgen/graphql/handler"
	"github.com/99designs/gqlgen/graphql/handler/transport"

	graph "EXECIMPORT"
	//CALC "probe/hand"
)

var (
	mu   sync.Mutex
	seen = map[string]string{}
	_    = graphql.GetFieldContext
	_    context.Context
)

func enc(vals []reflect.Value) string {
	out := make([]any, len(vals))
	for i, v := range vals {
		out[i] = v.Interface()
	}
	b, err := json.Marshal(out)
	if err != nil {
		return "ENCODE-ERROR: " + err.Error()
	}
	return string(b)
}

// answer builds the results of a resolver of a String / String! field
func answer(t reflect.Type, s string) []reflect.Value {
	v := reflect.ValueOf(&s)
	if t.Out(0).Kind() != reflect.Ptr {
		v = v.Elem()
	}
	return []reflect.Value{v, reflect.Zero(t.Out(1))}
}

func set(holder any, name string, mk func(t reflect.Type) func([]reflect.Value) []reflect.Value) {
	f := reflect.ValueOf(holder).Elem().FieldByName(name)
	if !f.IsValid() {
		fmt.Println("HARNESS: no field " + name)
		os.Exit(3)
	}
	f.Set(reflect.MakeFunc(f.Type(), mk(f.Type())))
}

func main() {
	stub := &graph.Stub{}
	cfg := graph.Config{Resolvers: stub}
	//BOUNDS set(&stub.QueryResolver, "Bounds", func(t reflect.Type) func([]reflect.Value) []reflect.Value {
	//BOUNDS 	return func(in []reflect.Value) []reflect.Value { return answer(t, enc(in[1:])) }
	//BOUNDS })
	//BOUNDS for _, n := range []string{"NumDefault", "NumUse"} {
	//BOUNDS 	key := strings.ToLower(n[:1]) + n[1:]
	//BOUNDS 	set(&stub.QueryResolver, n, func(t reflect.Type) func([]reflect.Value) []reflect.Value {
	//BOUNDS 		return func(in []reflect.Value) []reflect.Value {
	//BOUNDS 			mu.Lock()
	//BOUNDS 			defer mu.Unlock()
	//BOUNDS 			return answer(t, seen[key])
	//BOUNDS 		}
	//BOUNDS 	})
	//BOUNDS }
	//BOUNDS set(&cfg.Directives, "Num", func(t reflect.Type) func([]reflect.Value) []reflect.Value {
	//BOUNDS 	return func(in []reflect.Value) []reflect.Value {
	//BOUNDS 		if fc := graphql.GetFieldContext(in[0].Interface().(context.Context)); fc != nil {
	//BOUNDS 			mu.Lock()
	//BOUNDS 			seen[fc.Field.Name] = enc(in[3:])
	//BOUNDS 			mu.Unlock()
	//BOUNDS 		}
	//BOUNDS 		return in[2].Call([]reflect.Value{in[0]})
	//BOUNDS 	}
	//BOUNDS })
	//CALC set(&stub.QueryResolver, "Calc", func(t reflect.Type) func([]reflect.Value) []reflect.Value {
	//CALC 	return func([]reflect.Value) []reflect.Value {
	//CALC 		v := reflect.ValueOf(&hand.Calc{})
	//CALC 		if t.Out(0).Kind() != reflect.Ptr {
	//CALC 			v = v.Elem()
	//CALC 		}
	//CALC 		return []reflect.Value{v, reflect.Zero(t.Out(1))}
	//CALC 	}
	//CALC })
	srv := handler.New(graph.NewExecutableSchema(cfg))
	srv.AddTransport(transport.POST{})
	req := httptest.NewRequest("POST", "/", strings.NewReader(os.Args[1]))
	req.Header.Set("Content-Type", "application/json")
	rec := httptest.NewRecorder()
	srv.ServeHTTP(rec, req)
	fmt.Print(rec.Body.String())
}
`

// ---- reference values: the boundary literals of schemas.go, typed in again as Go values ----

type refDefIn2 struct {
	F float64   `json:"f"`
	L []float64 `json:"l"`
	I int       `json:"i"`
	S string    `json:"s"`
	K string    `json:"k"`
}

type refDefIn struct {
	Big    float64      `json:"big"`
	Neg    float64      `json:"neg"`
	Tiny   float64      `json:"tiny"`
	Half   float64      `json:"half"`
	Max    float64      `json:"max"`
	Two64  float64      `json:"two64"`
	Whole  float64      `json:"whole"`
	Imin   int          `json:"imin"`
	Imax   int          `json:"imax"`
	S      string       `json:"s"`
	Block  string       `json:"block"`
	K      string       `json:"k"`
	Ks     []string     `json:"ks"`
	Fl     []float64    `json:"fl"`
	Nested [][]*float64 `json:"nested"`
	Sub    refDefIn2    `json:"sub"`
	Subs   []refDefIn2  `json:"subs"`
	Dir    float64      `json:"dir"`
}

func refSub() refDefIn2 {
	return refDefIn2{F: 1e19, L: []float64{-1e20, 0.5}, I: 2147483647, S: `a"b`, K: "COMMENT"}
}

func refIn() refDefIn {
	big := 1e19
	s1, s2 := refSub(), refSub()
	s1.F = -1e20
	s2.L = []float64{1e-7}
	return refDefIn{Big: 1e19, Neg: -1e20, Tiny: 1e-7, Half: 0.5, Max: 1.7976931348623157e308, Two64: 18446744073709551616.0,
		Whole: 3, Imin: -2147483648, Imax: 2147483647, S: "he said \"hi\"\n\t`tick` \\ é", Block: `block "q" text`,
		K: "POST", Ks: []string{"USER", "COMMENT"}, Fl: []float64{0.5, 1e19, -1e20},
		Nested: [][]*float64{{&big, nil}, {}}, Sub: refSub(), Subs: []refDefIn2{s1, s2}, Dir: 0.25}
}

const boundsQuery = ` bounds numDefault numUse`

// boundsWant: data key -> the arguments (after ctx) the resolver / the @num directive function
// must have received, in declaration order.
func boundsWant() map[string]any {
	o1 := refSub()
	o1.F, o1.L = 18446744073709551616.0, []float64{1e19}
	o2 := refDefIn2{F: -1e20, L: []float64{0.5, 1e19}, I: -2147483648, S: "`", K: "USER"}
	return map[string]any{
		"bounds": []any{1e19, 1e-7, 1.7976931348623157e308, -2147483648, 2147483647, "he said \"hi\"\n`tick`", "POST",
			[]float64{0.5, -1e20}, refIn(), []refDefIn2{refSub()}, 1e19},
		"numDefault": []any{1e19, 1e-7, 0.5, -2147483648, "q\"uote\nnew`tick`\\", "POST", []float64{0.5, -1e20, 1.7976931348623157e308}, o1},
		"numUse":     []any{18446744073709551616.0, 0.5, -1e20, 2147483647, "x\"y`z\n", "USER", []float64{1e19}, o2},
	}
}

// normalise round-trips a value through encoding/json so that reference and observation are
// compared as plain JSON trees.
func normalise(v any) any {
	b, err := json.Marshal(v)
	if err != nil {
		panic(err)
	}
	var out any
	if err := json.Unmarshal(b, &out); err != nil {
		panic(err)
	}
	return out
}

// diffJSON lists the leaf paths at which got differs from want.
func diffJSON(path string, got, want any, out *[]string) {
	if len(*out) >= 8 {
		return
	}
	switch w := want.(type) {
	case map[string]any:
		g, ok := got.(map[string]any)
		if !ok {
			*out = append(*out, fmt.Sprintf("%s: got %s want an object", path, short(got)))
			return
		}
		var ks []string
		for k := range w {
			ks = append(ks, k)
		}
		for k := range g {
			if _, dup := w[k]; !dup {
				ks = append(ks, k)
			}
		}
		sort.Strings(ks)
		for _, k := range ks {
			gv, gok := g[k]
			wv, wok := w[k]
			switch {
			case !gok:
				*out = append(*out, fmt.Sprintf("%s.%s: missing, want %s", path, k, short(wv)))
			case !wok:
				*out = append(*out, fmt.Sprintf("%s.%s: unexpected %s", path, k, short(gv)))
			default:
				diffJSON(path+"."+k, gv, wv, out)
			}
		}
	case []any:
		g, ok := got.([]any)
		if !ok || len(g) != len(w) {
			*out = append(*out, fmt.Sprintf("%s: got %s want %s", path, short(got), short(want)))
			return
		}
		for i := range w {
			diffJSON(fmt.Sprintf("%s[%d]", path, i), g[i], w[i], out)
		}
	default:
		if !reflect.DeepEqual(got, want) {
			*out = append(*out, fmt.Sprintf("%s: got %s want %s", path, short(got), short(want)))
		}
	}
}

func short(v any) string {
	b, _ := json.Marshal(v)
	if len(b) > 80 {
		return string(b[:80]) + "…"
	}
	return string(b)
}

// compareResponse decodes a response body; data keys listed in inner hold a JSON document as a
// string (the echo of a resolver) and are decoded once more before the comparison.
func compareResponse(body string, want map[string]any, inner map[string]bool) string {
	var resp struct {
		Data   map[string]any `json:"data"`
		Errors any            `json:"errors"`
	}
	if err := json.Unmarshal([]byte(body), &resp); err != nil {
		return "response is not JSON: " + short(body)
	}
	if resp.Errors != nil {
		return "response has errors: " + short(resp.Errors)
	}
	got := map[string]any{}
	for k, v := range resp.Data {
		if s, ok := v.(string); ok && inner[k] {
			var dec any
			if err := json.Unmarshal([]byte(s), &dec); err != nil {
				return fmt.Sprintf("data.%s is not the JSON echo of the arguments: %s", k, short(s))
			}
			v = dec
		}
		got[k] = v
	}
	var diffs []string
	diffJSON("data", got, normalise(want), &diffs)
	return strings.Join(diffs, "; ")
}

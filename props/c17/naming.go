package main

import (
	"encoding/json"
	"fmt"
	"os"
	"strings"
)

// The 40 identifier patterns of the design (plus three added later): 25 Go keywords, 4 predeclared identifiers,
// 3 initialism spellings, leading / trailing / embedded underscores, and the spellings that
// normalise to the same Go identifier (X_y / XY / x__y, A_B / AB / a_b, _x / x_).
var goKeywords = []string{
	"break", "default", "func", "interface", "select", "case", "defer", "go", "map", "struct",
	"chan", "else", "goto", "package", "switch", "const", "fallthrough", "if", "range", "type",
	"continue", "for", "import", "return", "var",
}

var otherPatterns = []string{
	"string", "error", "nil", "len", // predeclared
	"id", "url", "Http", // initialisms
	"_x", "x_", "x__y", // leading, trailing, embedded underscores
	"X_y", "XY", // type-name style collision
	"A_B", "AB", "a_b", // enum-value style collision
	"_Hidden", "idCard", "URLThing", // leading underscore before a capital, initialism prefixes (added after the design's 40)
}

func allPatterns() []string {
	return append(append([]string{}, goKeywords...), otherPatterns...)
}

// importNames: the package names the codegen / resolver templates reserve as imports, used as
// argument names (position "arg-selector"). fmt, context and model are left out: the generated
// resolver stubs themselves use those packages in the signature or the not-implemented body, and
// package names are not among the naming patterns of the statement.
var importNames = []string{"time", "io", "sync", "atomic", "bytes", "strconv", "errors", "embed", "gqlparser", "ast", "graphql", "introspection", "semaphore"}

// Positions a name can take. The design's "type name" position is split by type kind because
// every kind goes through different templates.
var memberPositions = []string{"field", "arg", "inputfield", "enumvalue", "dirarg"}
var typePositions = []string{"type-object-resolver", "type-object", "type-input", "type-enum", "type-interface", "type-union", "type-scalar"}

// Atom is one naming obligation: a single pattern at a position, or (two names) a pair of
// names in the same scope that normalise to the same Go identifier (declaration order matters
// for gqlgen's collision registry, so both orders are separate atoms).
type Atom struct {
	Pos   string   `json:"pos"`
	Names []string `json:"names"`
}

func (a Atom) Sig() string {
	if strings.HasPrefix(a.Pos, "cross-") {
		return "naming-cross:" + a.Pos + ":" + strings.Join(a.Names, ",")
	}
	if len(a.Names) == 1 {
		return "naming:" + a.Pos + ":" + a.Names[0]
	}
	return "naming-pair:" + a.Pos + ":" + strings.Join(a.Names, ",")
}

// normKey is the check's own (independent) notion of "normalises to the same Go identifier":
// underscores are dropped and case is ignored. It is only used to keep single patterns from
// sharing a scope by accident, and to enumerate the colliding pairs.
func normKey(s string) string {
	return strings.ToLower(strings.ReplaceAll(s, "_", ""))
}

// groups packs the patterns into as few groups as independence allows: two patterns with the
// same normKey never share a group.
func patternGroups() [][]string {
	var groups [][]string
	for _, p := range allPatterns() {
		placed := false
		for gi := range groups {
			clash := false
			for _, q := range groups[gi] {
				if normKey(q) == normKey(p) {
					clash = true
				}
			}
			if !clash {
				groups[gi] = append(groups[gi], p)
				placed = true
				break
			}
		}
		if !placed {
			groups = append(groups, []string{p})
		}
	}
	return groups
}

// collidingPairs lists every unordered pair of patterns with the same normKey.
func collidingPairs() [][2]string {
	ps := allPatterns()
	var out [][2]string
	for i := range ps {
		for j := i + 1; j < len(ps); j++ {
			if normKey(ps[i]) == normKey(ps[j]) {
				out = append(out, [2]string{ps[i], ps[j]})
			}
		}
	}
	return out
}

// pairRounds packs the unordered pairs into rounds such that no name is used twice in a round
// (needed for the type position where the scope is the whole schema).
func pairRounds() [][][2]string {
	var rounds [][][2]string
	for _, p := range collidingPairs() {
		placed := false
		for ri := range rounds {
			clash := false
			for _, q := range rounds[ri] {
				if normKey(q[0]) == normKey(p[0]) {
					clash = true
				}
			}
			if !clash {
				rounds[ri] = append(rounds[ri], p)
				placed = true
				break
			}
		}
		if !placed {
			rounds = append(rounds, [][2]string{p})
		}
	}
	return rounds
}

// namingSchema builds one schema holding all atoms. Neutral helper names are lower-case
// letter+digit words that no pattern normalises to.
func namingSchema(atoms []Atom) string {
	s, _ := namingSchemaSlots(atoms)
	return s
}

// Slot says which type-position name the root fields q<K> / ql<K> refer to.
type Slot struct {
	K    int
	Pos  string
	Name string
}

func namingSchemaSlots(atoms []Atom) (string, []Slot) {
	var slots []Slot
	var b strings.Builder
	b.WriteString(goDirectives)
	var q []string // Query fields
	n := 0
	next := func() int { n++; return n }
	slot := func(pos, name string) int {
		k := next()
		slots = append(slots, Slot{k, pos, name})
		return k
	}
	byPos := map[string][]Atom{}
	for _, a := range atoms {
		// cross-kind collision atoms are spelled out as ordinary declarations:
		//   cross-const-<kind> [enum, value, type]: an enum whose constant <Enum><Value> normalises
		//     to the name of a type of that kind;
		//   cross-consts [enum1, value1, enum2, value2]: constants of two enums that coincide;
		//   cross-type-<kind1>-<kind2> [name1, name2]: type names of two different kinds that
		//     normalise to one Go identifier.
		switch {
		case strings.HasPrefix(a.Pos, "cross-const-"):
			k := next()
			fmt.Fprintf(&b, "enum %s { %s OTHER }\n", a.Names[0], a.Names[1])
			q = append(q, fmt.Sprintf("qx%d(a: %s): %s", k, a.Names[0], a.Names[0]))
			pos := "type-" + strings.TrimPrefix(a.Pos, "cross-const-")
			byPos[pos] = append(byPos[pos], Atom{pos, []string{a.Names[2]}})
		case a.Pos == "cross-consts":
			for i := 0; i < 4; i += 2 {
				k := next()
				fmt.Fprintf(&b, "enum %s { %s OTHER }\n", a.Names[i], a.Names[i+1])
				q = append(q, fmt.Sprintf("qx%d(a: %s): %s", k, a.Names[i], a.Names[i]))
			}
		case strings.HasPrefix(a.Pos, "cross-type-"):
			ks := strings.SplitN(strings.TrimPrefix(a.Pos, "cross-type-"), "-", 2)
			for i, kind := range ks {
				byPos["type-"+kind] = append(byPos["type-"+kind], Atom{"type-" + kind, []string{a.Names[i]}})
			}
		default:
			byPos[a.Pos] = append(byPos[a.Pos], a)
		}
	}
	names := func(as []Atom) []string {
		var out []string
		for _, a := range as {
			out = append(out, a.Names...)
		}
		return out
	}
	for _, nm := range names(byPos["type-object"]) {
		k := slot("type-object", nm)
		fmt.Fprintf(&b, "type %s { v: String w(a: Int): %s }\n", nm, nm)
		q = append(q, fmt.Sprintf("q%d: %s", k, nm), fmt.Sprintf("ql%d: [%s!]", k, nm))
	}
	// an object type that HAS a resolver field: its name also feeds the <Name>Resolver interface,
	// the ResolverRoot method and the resolver / stub implementation structs
	for _, nm := range names(byPos["type-object-resolver"]) {
		k := slot("type-object-resolver", nm)
		fmt.Fprintf(&b, "type %s { v: String w(a: Int): %s r(a: Int): String @goField(forceResolver: true) }\n", nm, nm)
		q = append(q, fmt.Sprintf("q%d: %s", k, nm), fmt.Sprintf("ql%d: [%s!]", k, nm))
	}
	for _, nm := range names(byPos["type-input"]) {
		k := slot("type-input", nm)
		fmt.Fprintf(&b, "input %s { v: String w: %s }\n", nm, nm)
		q = append(q, fmt.Sprintf("q%d(a: %s, b: [%s!]): String", k, nm, nm))
	}
	for _, nm := range names(byPos["type-enum"]) {
		k := slot("type-enum", nm)
		fmt.Fprintf(&b, "enum %s { V1 V2 }\n", nm)
		q = append(q, fmt.Sprintf("q%d(a: %s = V1, b: [%s!]): %s", k, nm, nm, nm))
	}
	for _, nm := range names(byPos["type-interface"]) {
		k := slot("type-interface", nm)
		fmt.Fprintf(&b, "interface %s { v: String }\ntype Impl%d implements %s { v: String }\n", nm, k, nm)
		q = append(q, fmt.Sprintf("q%d: %s", k, nm), fmt.Sprintf("ql%d: [%s]", k, nm))
	}
	for _, nm := range names(byPos["type-union"]) {
		k := slot("type-union", nm)
		fmt.Fprintf(&b, "union %s = Member%d\ntype Member%d { v: String }\n", nm, k, k)
		q = append(q, fmt.Sprintf("q%d: %s", k, nm), fmt.Sprintf("ql%d: [%s!]!", k, nm))
	}
	for _, nm := range names(byPos["type-scalar"]) {
		k := slot("type-scalar", nm)
		fmt.Fprintf(&b, "scalar %s\n", nm)
		q = append(q, fmt.Sprintf("q%d(a: %s, b: [%s]): %s", k, nm, nm, nm))
	}
	if fs := names(byPos["field"]); len(fs) > 0 {
		var plain, res []string
		for _, nm := range fs {
			plain = append(plain, nm+": String")
			res = append(res, nm+"(a: Int): String @goField(forceResolver: true)")
			q = append(q, nm+": String") // root field
		}
		fmt.Fprintf(&b, "interface FI { %s }\n", strings.Join(plain, " "))
		fmt.Fprintf(&b, "type FO implements FI { %s }\n", strings.Join(plain, " "))
		fmt.Fprintf(&b, "type FR { %s }\n", strings.Join(res, " "))
		q = append(q, "qfi: FI", "qfo: FO", "qfr: FR")
	}
	if as := names(byPos["arg"]); len(as) > 0 {
		var l, l2 []string
		for _, nm := range as {
			l = append(l, nm+": String")
			l2 = append(l2, nm+": Int!")
		}
		fmt.Fprintf(&b, "type AR { f(%s): String @goField(forceResolver: true) g(%s): Int }\n", strings.Join(l, ", "), strings.Join(l2, ", "))
		q = append(q, "qar: AR", fmt.Sprintf("qargs(%s): String", strings.Join(l, ", ")))
	}
	// arguments named like the packages the templates import, typed so that a resolver body can
	// select on them (time.V): the check rewrites the body of Qsel between the two generations
	if as := names(byPos["arg-selector"]); len(as) > 0 {
		var l []string
		for _, nm := range as {
			l = append(l, nm+": SelIn")
		}
		fmt.Fprintf(&b, "input SelIn { v: String }\n")
		q = append(q, fmt.Sprintf("qsel(%s): String", strings.Join(l, ", ")))
	}
	if is := names(byPos["inputfield"]); len(is) > 0 {
		var l []string
		for i, nm := range is {
			if i%2 == 0 {
				l = append(l, nm+": String")
			} else {
				l = append(l, nm+": Int!")
			}
		}
		fmt.Fprintf(&b, "input IN { %s }\n", strings.Join(l, " "))
		q = append(q, "qin(a: IN, b: [IN!]): String")
	}
	var singles []string
	for _, a := range byPos["enumvalue"] {
		if len(a.Names) == 1 {
			singles = append(singles, a.Names[0])
		} else {
			k := next()
			fmt.Fprintf(&b, "enum EV%d { %s }\n", k, strings.Join(a.Names, " "))
			q = append(q, fmt.Sprintf("qev%d(a: EV%d): EV%d", k, k, k))
		}
	}
	if len(singles) > 0 {
		fmt.Fprintf(&b, "enum EV { %s }\n", strings.Join(singles, " "))
		q = append(q, "qev(a: EV): EV")
	}
	if ds := names(byPos["dirarg"]); len(ds) > 0 {
		var decl, declDef, app []string
		for _, nm := range ds {
			decl = append(decl, nm+": String")
			declDef = append(declDef, nm+": String = \"d\"")
			app = append(app, nm+": \"v\"")
		}
		loc := "FIELD_DEFINITION | ARGUMENT_DEFINITION | INPUT_FIELD_DEFINITION | OBJECT | FIELD | QUERY | MUTATION | SUBSCRIPTION"
		fmt.Fprintf(&b, "directive @da(%s) on %s\n", strings.Join(decl, ", "), loc)
		fmt.Fprintf(&b, "directive @dd(%s) on %s\n", strings.Join(declDef, ", "), loc)
		ap := "@da(" + strings.Join(app, ", ") + ")"
		fmt.Fprintf(&b, "type DA %s @dd { f(x: Int %s, y: Int @dd): String %s g: String @dd h: String @da }\n", ap, ap, ap)
		fmt.Fprintf(&b, "input DAI { f: String %s g: String @dd }\n", ap)
		q = append(q, "qda(a: DAI): DA")
	}
	if len(q) == 0 {
		q = append(q, "q0: String")
	}
	fmt.Fprintf(&b, "type Query {\n  %s\n}\n", strings.Join(q, "\n  "))
	return b.String(), slots
}

// NamingProject is a packed set of atoms generated as one project.
type NamingProject struct {
	Name  string
	Atoms []Atom
}

// namingProjects enumerates the packed projects:
//   - per pattern group: one project with the five member positions + object type names, and
//     one project per remaining type kind;
//   - pairs: enum-value pairs (all pairs, both orders, one enum each) in one project; type-name
//     pairs per type kind and per round (both orders are the same schema for types: gqlgen
//     sorts types by name), restricted to the kinds that get a generated Go type.
func namingProjects(full bool) []NamingProject {
	return quarantine(packedNamingProjects(full))
}

// knownAtomPrefixes: signatures (without the stage) of naming atoms that are listed as known
// findings. Such an atom is generated as a project of its own from the start instead of making
// its whole packed project fail and be split on every run; the obligations stay the same.
var knownAtomPrefixes = func() map[string]bool {
	out := map[string]bool{}
	b, err := os.ReadFile("/verif/known_findings/C17.json")
	if err != nil {
		return out
	}
	var fs []struct{ Signature, Status string }
	if json.Unmarshal(b, &fs) != nil {
		return out
	}
	for _, f := range fs {
		if f.Status == "known" && (strings.HasPrefix(f.Signature, "naming:") || strings.HasPrefix(f.Signature, "naming-pair:") || strings.HasPrefix(f.Signature, "naming-cross:")) {
			if i := strings.LastIndex(f.Signature, ":"); i > 0 {
				out[f.Signature[:i]] = true
			}
		}
	}
	return out
}()

func quarantine(ps []NamingProject) []NamingProject {
	var out, single []NamingProject
	seen := map[string]bool{}
	for _, p := range ps {
		var rest []Atom
		for _, a := range p.Atoms {
			if !knownAtomPrefixes[a.Sig()] {
				rest = append(rest, a)
			} else if !seen[a.Sig()] {
				seen[a.Sig()] = true
				single = append(single, NamingProject{"naming-known-" + a.Sig(), []Atom{a}})
			}
		}
		if len(rest) > 0 {
			out = append(out, NamingProject{p.Name, rest})
		}
	}
	return append(out, single...)
}

func packedNamingProjects(full bool) []NamingProject {
	var out []NamingProject
	for gi, g := range patternGroups() {
		var atoms []Atom
		for _, pos := range append([]string{"type-object-resolver"}, memberPositions...) {
			for _, p := range g {
				atoms = append(atoms, Atom{pos, []string{p}})
			}
		}
		if gi == 0 {
			for _, p := range importNames {
				atoms = append(atoms, Atom{"arg-selector", []string{p}})
			}
		}
		out = append(out, NamingProject{fmt.Sprintf("naming-g%d-members+object", gi), atoms})
		if !full {
			continue
		}
		for _, pos := range typePositions[1:] {
			var atoms []Atom
			for _, p := range g {
				atoms = append(atoms, Atom{pos, []string{p}})
			}
			out = append(out, NamingProject{fmt.Sprintf("naming-g%d-%s", gi, pos), atoms})
		}
	}
	var ev []Atom
	for _, p := range collidingPairs() {
		ev = append(ev, Atom{"enumvalue", []string{p[0], p[1]}}, Atom{"enumvalue", []string{p[1], p[0]}})
	}
	out = append(out, NamingProject{"naming-pairs-enumvalue", ev})
	// cross-kind collisions: an enum constant against a type name of every kind, the constants of
	// two different enums, and (thorough) type names of two different kinds
	var cross []Atom
	for i, kind := range []string{"object", "input", "enum", "interface", "union"} {
		cross = append(cross, Atom{"cross-const-" + kind, []string{fmt.Sprintf("Role%d", i), "ADMIN", fmt.Sprintf("Role%dAdmin", i)}})
		cross = append(cross, Atom{"cross-const-" + kind, []string{fmt.Sprintf("Err%d", i), "NOT_FOUND", fmt.Sprintf("Err%dNotFound", i)}})
	}
	cross = append(cross, Atom{"cross-consts", []string{"Foo", "BAR_BAZ", "FooBar", "BAZ"}}, Atom{"cross-consts", []string{"Wx_y", "Z", "Wx", "y_z"}})
	out = append(out, NamingProject{"naming-cross-constants", cross})
	if full {
		tk := []string{"object", "input", "enum", "interface", "union"}
		var ct []Atom
		n := 0
		for i := range tk {
			for j := range tk {
				if i != j {
					n++
					ct = append(ct, Atom{"cross-type-" + tk[i] + "-" + tk[j], []string{fmt.Sprintf("t%d__y", n), fmt.Sprintf("T%d_y", n)}})
				}
			}
		}
		out = append(out, NamingProject{"naming-cross-types", ct})
	}
	kinds := []string{"type-object"}
	if full {
		kinds = []string{"type-object", "type-input", "type-enum", "type-interface", "type-union"}
	}
	for _, pos := range kinds {
		for ri, r := range pairRounds() {
			var atoms []Atom
			for _, p := range r {
				atoms = append(atoms, Atom{pos, []string{p[0], p[1]}})
			}
			out = append(out, NamingProject{fmt.Sprintf("naming-pairs-%s-r%d", pos, ri), atoms})
		}
	}
	return out
}

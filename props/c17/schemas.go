package main

// The feature-rich schema (space (b) of the design): one project, four schema files, every
// documented schema feature at least once. It is hand-written (no random generation) and valid
// GraphQL; everything in it is within gqlgen's documented feature set (docs/content/config.md,
// docs/content/reference/*.md, and the shapes used by codegen/testserver).

const goDirectives = `directive @goModel(model: String, models: [String!], forceGenerate: Boolean) on OBJECT | INPUT_OBJECT | SCALAR | ENUM | INTERFACE | UNION
directive @goField(forceResolver: Boolean, name: String, omittable: Boolean, type: String) on INPUT_FIELD_DEFINITION | FIELD_DEFINITION
directive @goTag(key: String!, value: String) on INPUT_FIELD_DEFINITION | FIELD_DEFINITION
`

// base.graphqls: directive declarations for every location, schema definition, root types.
const featBase = goDirectives + `
"directive on the schema definition"
directive @onSchema(note: String) on SCHEMA
directive @onScalar(note: String) on SCALAR
directive @onObject(level: Int = 1, tags: [String!]) repeatable on OBJECT
directive @onFieldDef(role: Role = USER, limit: Limits) on FIELD_DEFINITION
directive @onArgDef(min: Int, max: Int = 10) on ARGUMENT_DEFINITION
directive @onInterface on INTERFACE
directive @onUnion on UNION
directive @onEnum on ENUM
directive @onEnumValue(weight: Float = 1.5) on ENUM_VALUE
directive @onInputObject on INPUT_OBJECT
directive @onInputField(pattern: String = "a\"b\\c") on INPUT_FIELD_DEFINITION
directive @onQuery(x: Int) on QUERY
directive @onMutation(why: String! = "because") on MUTATION
directive @onSubscription on SUBSCRIPTION
directive @onField(id: ID, roles: [Role!] = [ADMIN]) on FIELD
directive @onFragDef on FRAGMENT_DEFINITION
directive @onFragSpread on FRAGMENT_SPREAD
directive @onInlineFrag on INLINE_FRAGMENT
directive @onVarDef on VARIABLE_DEFINITION
"""
Boundary literals of every scalar kind as directive-argument defaults (and, at the use sites, as
directive-argument values).
"""
directive @num(
  f: Float = 1e19
  g: Float = 1e-7
  h: Float = 0.5
  i: Int = -2147483648
  s: String = "q\"uote\nnew\u0060tick\u0060\\"
  k: Kind = POST
  l: [Float!] = [0.5, -1e20, 1.7976931348623157e308]
  o: DefIn2 = {f: 18446744073709551616.0, l: [1e19]}
) on FIELD_DEFINITION | ARGUMENT_DEFINITION | INPUT_FIELD_DEFINITION
directive @multi(a: [Int!] = [1, 2], b: Limits = {lo: 1, hi: 2}, c: Boolean) on FIELD_DEFINITION | ARGUMENT_DEFINITION | INPUT_FIELD_DEFINITION | OBJECT | FIELD

schema @onSchema(note: "root") {
  query: Query
  mutation: Mutation
  subscription: Subscription
}

"""
The query root.
Second line of the description with "quotes", a ` + "`backtick`" + `, a */ comment end and a \\ backslash.
"""
type Query {
  node(id: ID!): Node
  nodes(ids: [ID!]!): [Node]!
  me: User
  users(filter: UserFilter, limits: Limits = {lo: 1}): [User!]!
  search(text: String!, kinds: [Kind!] = [USER, POST]): [Thing!]!
  thing: Thing
  entity: Entity
  deep: Deep
  named: [Named!]
  one(in: OneOfInput!): String
  time(t: Time, blobs: [Blob]): Time
  calc: Calc
  shape: Shape
  shapes: [Shape2!]
  tagged: [Tagged]
  mapObj(in: MapIn, ins: [MapIn!]): MapObj
  "boundary literals as argument defaults; the harness echoes what the resolver receives"
  bounds(
    big: Float! = 1e19
    tiny: Float = 1e-7
    max: Float = 1.7976931348623157e308
    imin: Int! = -2147483648
    imax: Int = 2147483647
    s: String = "he said \"hi\"\n\u0060tick\u0060"
    k: Kind = POST
    fl: [Float!] = [0.5, -1e20]
    in: DefIn! = {}
    ins: [DefIn2!] = [{}]
    withDir: Float = 1e19 @num(g: 1e19)
  ): String
  numDefault: String @num
  numUse: String @num(f: 18446744073709551616.0, g: 0.5, h: -1e20, i: 2147483647, s: "x\"y\u0060z\n", k: USER, l: [1e19], o: {f: -1e20, l: [0.5, 1e19], i: -2147483648, s: "\u0060", k: USER})
  mapObjs: [MapObj!]
  guarded(x: Int @onArgDef(min: 1, max: 3) @multi): String @onFieldDef @multi(a: [3])
  "field with every kind of default value"
  defaults(
    i: Int = 7
    neg: Int = -3
    f: Float = 1.5e0
    t: Boolean = true
    fa: Boolean = false
    nothing: String = null
    s: String = "he said \"hi\"\n"
    block: String = """block "quoted" text"""
    e: Role = GUEST
    id: ID = "id-1"
    ids: [ID!] = ["a", "b"]
    single: [Int] = 1
    nested: [[Int]] = [[1, null], []]
    obj: Limits = {lo: 3}
    objs: [Order!] = [{by: "name"}, {by: "age", desc: true}]
    filter: UserFilter = {role: ADMIN, tags: ["x"], range: {lo: 0}, any: [{name: "n"}]}
    req: Int! = 1
  ): String
}

type Mutation {
  createUser(input: NewUser!): User!
  rename(id: ID!, name: String = "anon"): User
  bulk(inputs: [NewUser!]!): [User]
}

type Subscription {
  userAdded(role: Role): User!
  ticks(every: Int! = 1): Int!
  things: [Thing!]
}
`

// types.graphqls: scalars, enums, interfaces (incl. interface implements interface), objects,
// unions, nested list / non-null wrappers, built-in directives.
const featTypes = `scalar Time @specifiedBy(url: "https://example.com/time") @onScalar(note: "t")
"a scalar without a model; bound to string by default"
scalar Blob

"Role of a user"
enum Role @onEnum {
  "administrator"
  ADMIN @onEnumValue(weight: 2.0)
  USER
  GUEST @deprecated(reason: "no guests")
}

interface Node @onInterface {
  id: ID!
}

interface Named {
  "the name"
  name: String
}

"interface implementing interfaces"
interface Entity implements Node & Named {
  id: ID!
  name: String
  created: Time
}

interface Deep implements Entity & Node & Named {
  id: ID!
  name: String
  created: Time
  depth: Int!
}

type User implements Node & Named & Entity @onObject(level: 2, tags: ["a", "b"]) @onObject {
  id: ID!
  name: String
  created: Time
  role: Role!
  roles: [Role!]!
  "deprecated field"
  nick: String @deprecated
  friends(
    first: Int = 10 @onArgDef(min: 0)
    after: ID
    filter: UserFilter = {role: ADMIN}
    order: [Order!] = [{by: "name"}]
  ): [User!]! @goField(forceResolver: true)
  matrix: [[Int!]!]!
  sparse: [[String]]
  deepList: [[[User]!]]
  best: Node
  things: [Thing!] @onFieldDef(role: ADMIN, limit: {lo: 1, hi: 5})
  score(scale: Float = 2.5, round: Boolean = true): Float
  blob: Blob
  manager: User
  limits: Limits2
}

"an object used by value in struct fields (struct_fields_always_pointers)"
type Limits2 {
  lo: Int
  hi: Int!
}

type Post implements Node & Deep & Entity & Named {
  id: ID!
  name: String
  created: Time
  depth: Int!
  author: User!
  body: String! @multi
  tags: [String!]
  comments(limit: Int = 3): [Comment!]! @goField(forceResolver: true)
}

type Comment implements Node {
  id: ID!
  text: String!
  on: Post
  replies: [Comment]
}

"""
In the autobind layouts every field of Calc is bound to a Go method whose parameter order
differs from the order of the arguments here (gqlgen matches them by name).
"""
type Calc {
  span(from: Int!, to: Int!): String!
  label(prefix: String!, width: Int!, suffix: String!): String!
  scale(factor: Float!, round: Boolean!): String!
  window(lo: Int, hi: Int = 9): String!
  "bound to a (value, ok) method in the autobind layouts"
  maybe(n: Int!): String
}

"""
Map-backed object, as in gqlgen's own test servers (maps.graphql): nullable scalar, custom scalar
and nested object fields only. Non-null fields of a map-backed OBJECT are outside the documented
feature set (docs/content/reference/changesets.md documents maps for inputs).
"""
type MapObj @goModel(model: "map[string]interface{}") {
  a: String
  b: Int
  c: Time
  nested: Tag
}

"""
Interface hierarchy whose SHARED fields cover every type shape (scalar, non-null, list of scalars,
list of objects, list of interfaces, nullable / non-null object, enum, list of enums, nested list):
Shape2 implements Shape (interface implements interface), Tagged is an unrelated interface that
declares some of the same fields (diamond), the objects implement all of them.
"""
interface Shape {
  sid: ID!
  label: String
  tags: [String!]!
  opt: [Int]
  kids: [ShapeItem!]
  peers: [Shape!]
  owner: ShapeItem
  main: ShapeItem!
  kind: Kind!
  kinds: [Kind!]
  matrix: [[Float!]]
}

interface Shape2 implements Shape {
  sid: ID!
  label: String
  tags: [String!]!
  opt: [Int]
  kids: [ShapeItem!]
  peers: [Shape!]
  owner: ShapeItem
  main: ShapeItem!
  kind: Kind!
  kinds: [Kind!]
  matrix: [[Float!]]
  extra: Int
}

interface Tagged {
  tags: [String!]!
  kids: [ShapeItem!]
  owner: ShapeItem
  kind: Kind!
  kinds: [Kind!]
  label: String
}

type ShapeItem implements Shape2 & Shape & Tagged {
  sid: ID!
  label: String
  tags: [String!]!
  opt: [Int]
  kids: [ShapeItem!]
  peers: [Shape!]
  owner: ShapeItem
  main: ShapeItem!
  kind: Kind!
  kinds: [Kind!]
  matrix: [[Float!]]
  extra: Int
}

type ShapeOther implements Shape & Tagged {
  sid: ID!
  label: String
  tags: [String!]!
  opt: [Int]
  kids: [ShapeItem!]
  peers: [Shape!]
  owner: ShapeItem
  main: ShapeItem!
  kind: Kind!
  kinds: [Kind!]
  matrix: [[Float!]]
  own: String
}

union Thing @onUnion = User | Post | Comment

union Single = Comment
`

// inputs.graphqls: input objects (recursive, nested, with defaults), @oneOf, @deprecated on
// input fields, directives on input fields.
const featInputs = `input Limits {
  lo: Int = 0
  hi: Int
}

input UserFilter @onInputObject {
  role: Role = USER
  tags: [String!] = []
  range: Limits = {lo: 1, hi: 2}
  name: String @onInputField(pattern: "^a")
  not: UserFilter
  any: [UserFilter!]
  since: Time
  ids: [[ID!]]
  old: String @deprecated(reason: "x")
  checked: String @multi(c: true)
}

"map-backed input (documented: changesets)"
input MapIn @goModel(model: "map[string]interface{}") {
  a: String!
  b: Int
  c: Time
  limits: Limits
  tags: [String!]
}

"boundary literals as input-field defaults"
input DefIn2 {
  f: Float! = 1e19
  l: [Float!]! = [-1e20, 0.5]
  i: Int! = 2147483647
  s: String! = "a\"b"
  k: Kind! = COMMENT
}

input DefIn {
  big: Float! = 1e19
  neg: Float! = -1e20
  tiny: Float = 1e-7
  half: Float = 0.5
  max: Float! = 1.7976931348623157e308
  two64: Float! = 18446744073709551616.0
  whole: Float! = 3.0
  imin: Int! = -2147483648
  imax: Int = 2147483647
  s: String! = "he said \"hi\"\n\t\u0060tick\u0060 \\ \u00e9"
  block: String = """block "q" text"""
  k: Kind! = POST
  ks: [Kind!]! = [USER, COMMENT]
  fl: [Float!]! = [0.5, 1e19, -1e20]
  nested: [[Float]] = [[1e19, null], []]
  sub: DefIn2! = {}
  subs: [DefIn2!] = [{f: -1e20}, {l: [1e-7]}]
  dir: Float = 0.25 @num(f: 2e19, l: [1e19])
}

input Order {
  by: String!
  desc: Boolean = false
}

input OneOfInput @oneOf {
  a: String
  b: Int
  c: Limits
}

input NewUser {
  name: String!
  role: Role! = USER
  nick: String = "nick"
  friends: [ID!]! = []
  limits: Limits!
  blob: Blob
  matrix: [[Int!]!]
}
`

// ext.graphqls: type extensions living in another file than the type they extend.
const featExt = `extend type Query {
  extra: String
  kinds: [Kind!]!
  tag(label: String!): Tag
}

extend type User {
  posts(limit: Int = 5): [Post!]! @goField(forceResolver: true)
  tagsOf: [Tag!]
}

extend type Mutation {
  deletePost(id: ID!): Boolean!
}

extend type Subscription {
  postAdded: Post
}

enum Kind {
  USER
  POST
  COMMENT
}

extend enum Role {
  ROBOT
}

extend union Thing = Tag

extend input Limits {
  step: Int = 1
}

type Tag {
  label: String!
}
`

func featureFiles() map[string]string {
	return map[string]string{
		"schema/base.graphqls":   featBase,
		"schema/types.graphqls":  featTypes,
		"schema/inputs.graphqls": featInputs,
		"schema/ext.graphqls":    featExt,
	}
}

// Small extra feature schemas (one feature each that cannot live in the big schema).
func smallFeatureSchemas() map[string]map[string]string {
	return map[string]map[string]string{
		// custom root operation type names
		"customroots": {"schema/s.graphqls": `schema { query: RootQ mutation: RootM subscription: RootS }
type RootQ { a: String b(x: Int): Item }
type RootM { set(x: Int!): Item! }
type RootS { watch: Item }
type Item { x: Int! }
`},
		// query only, no mutation / subscription, no directives, no inputs
		"queryonly": {"schema/s.graphqls": `type Query { a: String }
`},
		// autobind to methods whose parameters all have the SAME type but another order than the
		// schema arguments: only running the generated server can tell whether values are swapped
		"methodorder": {"schema/s.graphqls": `type Query { calc: Calc }
type Calc {
  span(from: Int!, to: Int!): String!
  join(a: String!, b: String!, c: String!): String!
  window(lo: Int, hi: Int = 9): String!
}
`, "hand/models.go": methodOrderModels},
		// schema split over files, one of which holds ONLY directive definitions (follow-schema
		// generates one Go file per schema file)
		"directivesfile": {"schema/directives.graphqls": `directive @auth(role: String = "user") on FIELD_DEFINITION | OBJECT
directive @onQ(x: Int) on QUERY | MUTATION | SUBSCRIPTION
directive @onF(id: ID) on FIELD | FRAGMENT_SPREAD | INLINE_FRAGMENT
directive @onArg(min: Int) on ARGUMENT_DEFINITION | INPUT_FIELD_DEFINITION
`, "schema/types.graphqls": `type Query { me(limit: Int @onArg(min: 1)): User @auth(role: "admin") }
type Mutation { set(in: In): User }
type Subscription { tick: Int! }
type User @auth { id: ID! name: String @auth }
input In { n: Int @onArg(min: 0) }
`},
		// the documented inline-config directives (docs/content/config.md, recipes/extra_fields.md)
		"godirectives": {"schema/s.graphqls": goDirectives + `directive @goExtraField(name: String, type: String!, overrideTags: String, description: String) repeatable on OBJECT | INPUT_OBJECT
scalar Big @goModel(model: "github.com/99designs/gqlgen/graphql.Int64")
scalar AnyMap @goModel(model: "github.com/99designs/gqlgen/graphql.Map")
scalar Anything @goModel(model: "github.com/99designs/gqlgen/graphql.Any")
input Changes @goModel(model: "map[string]interface{}") { a: Int b: Int }
type T
  @goExtraField(name: "Secret", type: "string", overrideTags: "xml:\"secret\"", description: "not exposed")
  @goExtraField(name: "Activated", type: "bool")
  @goExtraField(type: "time.Time", description: "embedded") {
  id: ID! @goTag(key: "db", value: "id") @goTag(key: "yaml")
  renamed: String @goField(name: "OtherName")
  forced: Int @goField(forceResolver: true)
  big: Big
  m: AnyMap
  any: Anything
}
input TI @goExtraField(name: "Trace", type: "string") {
  x: Int @goTag(key: "validate", value: "min=1")
  opt: String @goField(omittable: true)
}
type Query { t(c: Changes, i: TI, any: Anything, m: AnyMap, big: Big): T }
`},
		// same-name-different-case fields renamed through @goField(name:) as the testserver does
		"gofieldrename": {"schema/s.graphqls": goDirectives + `type Query { v: V w(in: VI): String }
type V {
  differentCase: String!
  different_case: String! @goField(name: "DifferentCaseOld")
  _: String @goField(name: "Underscore")
}
input VI {
  someValue: String
  some_value: String @goField(name: "SomeValueOld")
  _: String @goField(name: "Underscore")
}
`},
	}
}

package main

// Hand-written model package `probe/hand` used by the autobind layouts. It covers most of the
// feature schema's types; Kind, OneOfInput, Limits2, the union Single and the root types are
// deliberately left to modelgen, so the generated model package refers to hand-written types
// (OneOfInput.c -> hand.Limits) and hand-written types implement a generated interface
// (Comment -> model.Single). User.limits has no Go field: gqlgen turns it into a resolver.
// User.score is bound to a method with context and arguments, Post.author is a value field,
// User.tagsOf a slice of values, NewUser.limits a value.
const handModels = `package hand

import (
	"context"
	"fmt"
	"io"
	"strconv"
	"time"
)

type Node interface {
	IsNode()
	GetID() string
}

type Named interface {
	IsNamed()
	GetName() *string
}

type Entity interface {
	Node
	Named
	IsEntity()
	GetCreated() *time.Time
}

type Deep interface {
	Entity
	IsDeep()
	GetDepth() int
}

type Thing interface {
	IsThing()
}

type Role string

const (
	RoleAdmin Role = "ADMIN"
	RoleUser  Role = "USER"
	RoleGuest Role = "GUEST"
	RoleRobot Role = "ROBOT"
)

func (e Role) MarshalGQL(w io.Writer) { fmt.Fprint(w, strconv.Quote(string(e))) }

func (e *Role) UnmarshalGQL(v any) error {
	s, ok := v.(string)
	if !ok {
		return fmt.Errorf("enums must be strings")
	}
	*e = Role(s)
	return nil
}

type User struct {
	ID       string
	Name     *string
	Created  *time.Time
	Role     Role
	Roles    []Role
	Nick     *string
	Matrix   [][]int
	Sparse   [][]*string
	DeepList [][][]*User
	Best     Node
	Things   []Thing
	Blob     *string
	Manager  *User
	TagsOf   []Tag
}

// parameters in another order than the schema's score(scale, round)
func (u *User) Score(ctx context.Context, round *bool, scale *float64) (*float64, error) {
	return nil, nil
}

func (User) IsNode()                     {}
func (u User) GetID() string             { return u.ID }
func (User) IsNamed()                    {}
func (u User) GetName() *string          { return u.Name }
func (User) IsEntity()                   {}
func (u User) GetCreated() *time.Time    { return u.Created }
func (User) IsThing()                    {}

type Post struct {
	ID      string
	Name    *string
	Created *time.Time
	Depth   int
	Author  User
	Body    string
	Tags    []string
}

func (Post) IsNode()                  {}
func (p Post) GetID() string          { return p.ID }
func (Post) IsNamed()                 {}
func (p Post) GetName() *string       { return p.Name }
func (Post) IsEntity()                {}
func (p Post) GetCreated() *time.Time { return p.Created }
func (Post) IsDeep()                  {}
func (p Post) GetDepth() int          { return p.Depth }
func (Post) IsThing()                 {}

type Comment struct {
	ID      string
	Text    string
	On      *Post
	Replies []*Comment
}

func (Comment) IsNode()         {}
func (c Comment) GetID() string { return c.ID }
func (Comment) IsThing()        {}
func (Comment) IsSingle()       {}

type Tag struct {
	Label string
}

// Calc: every field is a method, none declares its parameters in the order of the schema
// arguments. Each result spells out which value arrived under which name.
type Calc struct{}

// no context, two parameters of the same type, swapped: span(from, to)
func (Calc) Span(to int, from int) string { return fmt.Sprintf("from=%d to=%d", from, to) }

// context, three parameters (two of the same type), reversed: label(prefix, width, suffix)
func (c *Calc) Label(ctx context.Context, suffix string, width int, prefix string) (string, error) {
	return fmt.Sprintf("prefix=%s width=%d suffix=%s", prefix, width, suffix), nil
}

// no context, two parameters of different types, swapped: scale(factor, round)
func (c *Calc) Scale(round bool, factor float64) (string, error) {
	return fmt.Sprintf("factor=%v round=%v", factor, round), nil
}

// (value, ok) method: null when ok is false
func (Calc) Maybe(n int) (string, bool) { return fmt.Sprintf("n=%d", n), n != 0 }

// context, two nullable parameters of the same type, swapped: window(lo, hi = 9)
func (Calc) Window(ctx context.Context, hi *int, lo *int) string {
	f := func(p *int) string {
		if p == nil {
			return "null"
		}
		return strconv.Itoa(*p)
	}
	return "lo=" + f(lo) + " hi=" + f(hi)
}

func (Tag) IsThing() {}

type Limits struct {
	Lo   *int
	Hi   *int
	Step *int
}

type UserFilter struct {
	Role    *Role
	Tags    []string
	Range   *Limits
	Name    *string
	Not     *UserFilter
	Any     []*UserFilter
	Since   *time.Time
	Ids     [][]string
	Old     *string
	Checked *string
}

type Order struct {
	By   string
	Desc *bool
}

type NewUser struct {
	Name    string
	Role    Role
	Nick    *string
	Friends []string
	Limits  Limits
	Blob    *string
	Matrix  [][]int
}
`

// calcQuery / calcWant: the one selection over the method-bound fields of hand.Calc and what the
// GraphQL semantics say the answer is (arguments are matched by NAME; defaults apply to omitted
// arguments; a (value, false) method result is null).
const calcQuery = ` calc { span(from: 1, to: 5) label(prefix: \"a\", width: 3, suffix: \"z\") scale(factor: 1.5, round: true) window(lo: 2) w2: window(hi: 4, lo: 7) maybe(n: 1) m0: maybe(n: 0) }`

func calcWant() map[string]any {
	return map[string]any{"span": "from=1 to=5", "label": "prefix=a width=3 suffix=z", "scale": "factor=1.5 round=true",
		"window": "lo=2 hi=9", "w2": "lo=7 hi=4", "maybe": "n=1", "m0": nil}
}

// handSelf: the few hand-written types of the "autobind-self" layouts. They live in the package
// that also receives models_gen.go, and autobind names that package (the layout of gqlgen's own
// api/testdata/default).
func handSelf(pkg string) string {
	return "package " + pkg + `

type Tag struct {
	Label string
}

func (Tag) IsThing() {}

type Limits2 struct {
	Lo *int
	Hi int
}

type Order struct {
	By   string
	Desc *bool
}
`
}

// harnessSpec: request body, reference data tree and the data keys that hold a JSON echo.
func harnessSpec(kind string) (string, map[string]any, map[string]bool) {
	inner := map[string]bool{"bounds": true, "numDefault": true, "numUse": true}
	switch kind {
	case "bounds":
		return `{"query":"{` + boundsQuery + ` }"}`, boundsWant(), inner
	case "bounds+calc":
		w := boundsWant()
		w["calc"] = calcWant()
		return `{"query":"{` + boundsQuery + calcQuery + ` }"}`, w, inner
	case "methodorder":
		return methodOrderRequest, map[string]any{"calc": map[string]any{"span": "from=1 to=5", "join": "a=x b=y c=z", "window": "lo=2 hi=9", "w2": "lo=7 hi=4"}}, nil
	}
	panic("unknown harness kind " + kind)
}

func handFiles() map[string]string {
	return map[string]string{"hand/models.go": handModels}
}

// methodorder small project: equal-typed parameters only.
const methodOrderModels = `package hand

import (
	"context"
	"fmt"
	"strconv"
)

type Calc struct{}

func (Calc) Span(to int, from int) string { return fmt.Sprintf("from=%d to=%d", from, to) }

func (k *Calc) Join(ctx context.Context, c string, a string, b string) (string, error) {
	return "a=" + a + " b=" + b + " c=" + c, nil
}

func (Calc) Window(hi *int, lo *int) string {
	f := func(p *int) string {
		if p == nil {
			return "null"
		}
		return strconv.Itoa(*p)
	}
	return "lo=" + f(lo) + " hi=" + f(hi)
}
`

const (
	methodOrderRequest = `{"query":"{ calc { span(from: 1, to: 5) join(a: \"x\", b: \"y\", c: \"z\") window(lo: 2) w2: window(hi: 4, lo: 7) } }"}`
)

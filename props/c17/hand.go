package main

// Hand-written model package `probe/hand` used by the autobind layouts. It covers most of the
// feature schema's types; Kind, OneOfInput, Limits2, the union Single and the root types are
// deliberately left to modelgen, so the generated model package refers to hand-written types
// (OneOfInput.c -> hand.Limits) and hand-written types implement a generated interface
// (Comment -> model.Single). User.limits has no Go field: gqlgen turns it into a resolver.
// User.score is bound to a method with context and arguments, Post.author is a value field,
// User.tagsOf a slice of values, NewUser.limits a value.
const handModels = `package hand

import (
	"context"
	"fmt"
	"io"
	"strconv"
	"time"
)

type Node interface {
	IsNode()
	GetID() string
}

type Named interface {
	IsNamed()
	GetName() *string
}

type Entity interface {
	Node
	Named
	IsEntity()
	GetCreated() *time.Time
}

type Deep interface {
	Entity
	IsDeep()
	GetDepth() int
}

type Thing interface {
	IsThing()
}

type Role string

const (
	RoleAdmin Role = "ADMIN"
	RoleUser  Role = "USER"
	RoleGuest Role = "GUEST"
	RoleRobot Role = "ROBOT"
)

func (e Role) MarshalGQL(w io.Writer) { fmt.Fprint(w, strconv.Quote(string(e))) }

func (e *Role) UnmarshalGQL(v any) error {
	s, ok := v.(string)
	if !ok {
		return fmt.Errorf("enums must be strings")
	}
	*e = Role(s)
	return nil
}

type User struct {
	ID       string
	Name     *string
	Created  *time.Time
	Role     Role
	Roles    []Role
	Nick     *string
	Matrix   [][]int
	Sparse   [][]*string
	DeepList [][][]*User
	Best     Node
	Things   []Thing
	Blob     *string
	Manager  *User
	TagsOf   []Tag
}

func (u *User) Score(ctx context.Context, scale *float64, round *bool) (*float64, error) {
	return nil, nil
}

func (User) IsNode()                     {}
func (u User) GetID() string             { return u.ID }
func (User) IsNamed()                    {}
func (u User) GetName() *string          { return u.Name }
func (User) IsEntity()                   {}
func (u User) GetCreated() *time.Time    { return u.Created }
func (User) IsThing()                    {}

type Post struct {
	ID      string
	Name    *string
	Created *time.Time
	Depth   int
	Author  User
	Body    string
	Tags    []string
}

func (Post) IsNode()                  {}
func (p Post) GetID() string          { return p.ID }
func (Post) IsNamed()                 {}
func (p Post) GetName() *string       { return p.Name }
func (Post) IsEntity()                {}
func (p Post) GetCreated() *time.Time { return p.Created }
func (Post) IsDeep()                  {}
func (p Post) GetDepth() int          { return p.Depth }
func (Post) IsThing()                 {}

type Comment struct {
	ID      string
	Text    string
	On      *Post
	Replies []*Comment
}

func (Comment) IsNode()         {}
func (c Comment) GetID() string { return c.ID }
func (Comment) IsThing()        {}
func (Comment) IsSingle()       {}

type Tag struct {
	Label string
}

func (Tag) IsThing() {}

type Limits struct {
	Lo   *int
	Hi   *int
	Step *int
}

type UserFilter struct {
	Role    *Role
	Tags    []string
	Range   *Limits
	Name    *string
	Not     *UserFilter
	Any     []*UserFilter
	Since   *time.Time
	Ids     [][]string
	Old     *string
	Checked *string
}

type Order struct {
	By   string
	Desc *bool
}

type NewUser struct {
	Name    string
	Role    Role
	Nick    *string
	Friends []string
	Limits  Limits
	Blob    *string
	Matrix  [][]int
}
`

func handFiles() map[string]string { return map[string]string{"hand/models.go": handModels} }

// C17 — code generation succeeds and compiles for every supported schema and config.
//
// Bounded-exhaustive enumeration of three finite spaces (naming patterns x positions, schema
// features, configuration option sets x layouts); every element is a scratch Go project on
// which the generator of the tree under test is run and whose complete output is type-checked
// with `go build ./...`. Oracle: generator exit code 0 (no error, no panic) and the build
// succeeds. Nothing is sampled.
package main

import (
	"crypto/sha256"
	"encoding/hex"
	"encoding/json"
	"fmt"
	"os"
	"path"
	"path/filepath"
	"regexp"
	"runtime"
	"sort"
	"strings"
	"sync"
	"time"

	"verif/common"
	"verif/probe"
)

// Case is one generator project.
type Case struct {
	ID     string            `json:"id"`
	Kind   string            `json:"kind"`   // feature | small | naming
	Schema string            `json:"schema"` // schema id
	Config Config            `json:"config"`
	Files  map[string]string `json:"files"` // schema files + hand-written Go files (gqlgen.yml is derived)
	Atoms  []Atom            `json:"atoms,omitempty"`
	// projects with a cmd/harness program: which request / reference tree (see harnessSpec)
	Harness string `json:"harness,omitempty"`
}

// Result is what the oracle sees.
type Result struct {
	Case      *Case
	GenExit   int
	GenOut    string
	BuildOK   bool
	BuildOut  string
	Resolvers int
	Collision string // non-empty: two GraphQL types of a naming project are bound to one Go type
	Step      int    // 1 = generation on the clean tree, 2 = second generation over the first one's output; GenExit..BuildOut belong to the last step run
	Runtime   string // non-empty: the generated server answered the harness request wrongly (autobind projects)
	GenS      float64
	BuildS    float64
}

func (r Result) OK() bool {
	return r.GenExit == 0 && r.BuildOK && r.Collision == "" && r.Runtime == ""
}

// Stage names the failing step; failures of the second generation carry the prefix "regen:".
func (r Result) Stage() string {
	st := r.stage1()
	if r.Step == 2 && (r.GenExit != 0 || !r.BuildOK) {
		return "regen:" + st
	}
	return st
}

func (r Result) stage1() string {
	switch {
	case r.GenExit == 4:
		return "generate-panic"
	case r.GenExit != 0 && strings.Contains(r.GenOut, "GENERATE ERROR: validation failed: packages.Load"):
		return "does-not-compile" // found by the generator's own final validation pass
	case r.GenExit != 0:
		return "generate-error"
	case !r.BuildOK:
		return "does-not-compile"
	case r.Collision != "":
		return "go-type-collision"
	case r.Runtime != "":
		return "wrong-runtime-answer"
	}
	return "ok"
}

var (
	reDiag     = regexp.MustCompile(`\.go:\d+:\d+: (.*)$`)
	reInnerPos = regexp.MustCompile(`[\w./\-!]+\.go:\d+(:\d+)?`)
	reScratch  = regexp.MustCompile(`/var/tmp/[\w./\-]*`)
)

// ErrKey is a short, position-free digest of the failure: the message of the first compiler
// diagnostic (file:line:col: message) plus a digest of the other distinct diagnostics when there
// are any, else the first non-empty output line.
func (r Result) ErrKey() string {
	out := r.GenOut
	if r.GenExit == 0 {
		out = r.BuildOut
	}
	if r.GenExit == 0 && r.BuildOK {
		if r.Collision != "" {
			return r.Collision
		}
		return r.Runtime
	}
	first := ""
	var diags []string
	seen := map[string]bool{}
	for _, l := range strings.Split(out, "\n") {
		l = strings.TrimSpace(l)
		if l == "" || strings.HasPrefix(l, "#") || strings.HasPrefix(l, "goroutine ") {
			continue
		}
		if m := reDiag.FindStringSubmatch(l); m != nil {
			msg := reInnerPos.ReplaceAllString(m[1], "<pos>") // "… already declared at file.go:12:3"
			if !seen[msg] {
				seen[msg] = true
				diags = append(diags, msg)
			}
			continue
		}
		if first == "" {
			first = reScratch.ReplaceAllString(l, "")
		}
	}
	if len(diags) == 0 {
		return first
	}
	if len(diags) == 1 {
		return diags[0]
	}
	// the other diagnostics take part in the key (as a digest) so that a second defect in the
	// same project is not masked by a known one
	rest := append([]string{}, diags[1:]...)
	sort.Strings(rest)
	return fmt.Sprintf("%s [+%d more: %s]", diags[0], len(rest), hash(strings.Join(rest, "\n"))[:8])
}

func hash(s string) string {
	h := sha256.Sum256([]byte(s))
	return hex.EncodeToString(h[:8])
}

func filesHash(m map[string]string) string {
	var ks []string
	for k := range m {
		ks = append(ks, k)
	}
	sort.Strings(ks)
	var b strings.Builder
	for _, k := range ks {
		b.WriteString(k + "\x00" + m[k] + "\x00")
	}
	return hash(b.String())
}

var reStubField = regexp.MustCompile(`(?m)^\t\t\w+\s+func\(ctx context\.Context`)

var reSlotField = regexp.MustCompile(`(?m)^\t\tQ(\d+)\s+func\(ctx context\.Context(?:, a (\S+?))?(?:, b \S+)?\) \((\S+), error\)`)

// typeCollision is the "collision-free" half of the oracle for type-name positions: the root
// field q<K> of a naming project returns (or, for inputs, takes) the K-th type; two different
// GraphQL types must not end up bound to the same Go type. Scalars are exempt (all of them are
// bound to string by default).
func typeCollision(atoms []Atom, stub string) string {
	_, slots := namingSchemaSlots(atoms)
	goType := map[int]string{}
	for _, m := range reSlotField.FindAllStringSubmatch(stub, -1) {
		k := 0
		fmt.Sscanf(m[1], "%d", &k)
		goType[k] = strings.TrimLeft(m[3], "*[]")
		if m[2] != "" {
			goType[k] += " <- " + strings.TrimLeft(m[2], "*[]")
		}
	}
	owner := map[string]Slot{}
	var msgs []string
	for _, s := range slots {
		if s.Pos == "type-scalar" {
			continue
		}
		t, ok := goType[s.K]
		if !ok {
			return fmt.Sprintf("stub.go has no resolver Q%d for GraphQL type %s", s.K, s.Name)
		}
		key := t
		if s.Pos == "type-input" {
			key = t[strings.Index(t, " <- ")+4:]
		} else if i := strings.Index(t, " <- "); i >= 0 {
			key = t[:i]
		}
		if o, dup := owner[key]; dup {
			msgs = append(msgs, fmt.Sprintf("GraphQL types %s and %s are both bound to Go type %s", o.Name, s.Name, key))
			continue
		}
		owner[key] = s
	}
	return strings.Join(msgs, "; ")
}

var projSeq struct {
	sync.Mutex
	n int
}

// envFlake recognises a failure of the shared Go build cache (an export file of a standard
// library package vanished while another process trimmed or rebuilt the cache). It says nothing
// about generated code; the project is re-run, and a persistent flake is reported as broken
// machinery (exit 2), never as a violation.
func envFlake(out string) bool {
	return strings.Contains(out, "could not import") && strings.Contains(out, "no such file or directory")
}

// runCase generates and builds one project (re-run up to twice on a build-cache flake).
func runCase(c *Case, keep bool) Result {
	var r Result
	for attempt := 0; attempt < 3; attempt++ {
		r = runCaseOnce(c, keep)
		if !envFlake(r.GenOut) && !envFlake(r.BuildOut) {
			return r
		}
	}
	probe.Cleanup()
	common.Broken("Go build cache failure persists for %s:\n%s\n%s", c.ID, r.GenOut, r.BuildOut)
	return r
}

func runCaseOnce(c *Case, keep bool) Result {
	projSeq.Lock()
	projSeq.n++
	name := fmt.Sprintf("p%05d", projSeq.n)
	projSeq.Unlock()
	files, modDir := materialise(c)
	paths := c.Config.Layout.Paths()
	res := Result{Case: c, Step: 1}
	t0 := time.Now()
	projDir, err := probe.WriteProject(probe.Spec{Name: name, Files: files})
	if err != nil {
		common.Broken("cannot write the project for %s: %v", c.ID, err)
	}
	dir := filepath.Join(projDir, modDir) // the module directory: generator and builds run here
	gr, err := probe.RunGenerator(dir, dir, paths.Stub)
	if err != nil {
		common.Broken("cannot run the generator for %s: %v", c.ID, err)
	}
	// a 2-step history: generate on the clean tree, build; generate again (fresh process) over
	// the result, build again. Both generations and both builds must succeed.
	for {
		res.GenS += time.Since(t0).Seconds()
		res.GenExit, res.GenOut = gr.ExitCode, gr.Output
		if gr.ExitCode != 0 && gr.ExitCode != 3 && gr.ExitCode != 4 {
			common.Broken("gendriver failed with unexpected exit code %d for %s:\n%s", gr.ExitCode, c.ID, gr.Output)
		}
		if gr.ExitCode != 0 {
			break
		}
		t1 := time.Now()
		out, err := probe.GoBuild(dir, "./...")
		res.BuildS += time.Since(t1).Seconds()
		res.BuildOK, res.BuildOut = err == nil, out
		if !res.BuildOK || res.Step == 2 {
			break
		}
		if err := implementQsel(dir, c); err != "" {
			res.BuildOK, res.BuildOut = false, err
			break
		}
		res.Step = 2
		t0 = time.Now()
		gr, err = probe.RunGenerator(dir, dir, paths.Stub)
		if err != nil {
			common.Broken("cannot run the generator again for %s: %v", c.ID, err)
		}
	}
	if res.GenExit == 0 && res.BuildOK {
		if b, err := os.ReadFile(filepath.Join(dir, paths.Stub)); err == nil {
			res.Resolvers = len(reStubField.FindAllIndex(b, -1))
			if c.Kind == "naming" {
				res.Collision = typeCollision(c.Atoms, string(b))
			}
		}
		if c.Harness != "" && res.Collision == "" {
			var flake string
			if res.Runtime, flake = runHarness(dir, c); flake != "" {
				res.BuildOK, res.BuildOut = false, flake // re-run by runCase
			}
		}
	}
	if !keep {
		os.RemoveAll(projDir)
	} else {
		fmt.Printf("kept %s in %s\n", c.ID, projDir)
	}
	return res
}

var reQselBody = regexp.MustCompile(`(func \(r \*queryResolver\) Qsel\([^\n]*\{\n)\tpanic\([^\n]*\n`)

// implementQsel plays the user between the two generations of a naming project that has
// "arg-selector" atoms: the body of the Qsel resolver is replaced by one that selects a field on
// every parameter (time.V, io.V, ...), and the project is built again. The second generation must
// carry that body over and still produce files that compile (unused-import pruning has to tell
// the parameter `time` from the package `time`).
func implementQsel(dir string, c *Case) string {
	var sel []string
	for _, a := range c.Atoms {
		if a.Pos == "arg-selector" {
			sel = append(sel, a.Names[0]+".V")
		}
	}
	if len(sel) == 0 || c.Config.Layout.Resolver == "none" {
		return ""
	}
	file := filepath.Join(dir, "resolvers/resolver.go")
	if c.Config.Layout.Resolver == "follow-schema" {
		file = filepath.Join(dir, c.Config.Layout.Paths().ExecDir, "naming.resolvers.go")
	}
	b, err := os.ReadFile(file)
	if err != nil || !reQselBody.Match(b) {
		probe.Cleanup()
		common.Broken("cannot find the generated Qsel resolver of %s in %s (%v)", c.ID, file, err)
	}
	body := "${1}\t_ = []any{" + strings.Join(sel, ", ") + "}\n\treturn nil, nil\n"
	if err := os.WriteFile(file, reQselBody.ReplaceAll(b, []byte(body)), 0o644); err != nil {
		common.Broken("cannot write %s: %v", file, err)
	}
	if out, err := probe.GoBuild(dir, "./..."); err != nil {
		if envFlake(out) {
			return out
		}
		return "the project does not compile after implementing the Qsel resolver by hand (harness or generated signature problem):\n" + out
	}
	return ""
}

// runHarness builds and runs the project's harness program once and compares the response body
// with what GraphQL semantics prescribe. Building it is part of `go build ./...` already; a
// harness that cannot be built or does not answer is broken machinery, not a violation.
func runHarness(dir string, c *Case) (runtime string, flake string) {
	id := c.ID
	bin := filepath.Join(dir, "harness.bin")
	if out, err := probe.GoBuild(dir, "-o", bin, "./cmd/harness"); err != nil {
		if envFlake(out) {
			return "", out
		}
		probe.Cleanup()
		common.Broken("cannot link the harness of %s: %v\n%s", id, err, out)
	}
	req, want, inner := harnessSpec(c.Harness)
	out, _ := probe.Run(dir, nil, bin, req)
	if strings.HasPrefix(out, "HARNESS:") {
		probe.Cleanup()
		common.Broken("harness of %s failed:\n%s", id, out)
	}
	if d := compareResponse(out, want, inner); d != "" {
		return "generated server: " + d, ""
	}
	return "", ""
}

// memo caches results by case id so that minimisation never re-runs a project.
var memo struct {
	sync.Mutex
	m map[string]*memoEntry
	n int // projects actually run
}

// runSem bounds the number of projects in flight, whoever asks for them.
var runSem = make(chan struct{}, runtime.NumCPU())

type memoEntry struct {
	once sync.Once
	res  *Result
}

func runMemo(cs *Case, keep bool) *Result {
	memo.Lock()
	if memo.m == nil {
		memo.m = map[string]*memoEntry{}
	}
	e := memo.m[cs.ID]
	if e == nil {
		e = &memoEntry{}
		memo.m[cs.ID] = e
	}
	memo.Unlock()
	e.once.Do(func() {
		runSem <- struct{}{}
		defer func() { <-runSem }()
		r := runCase(cs, keep)
		e.res = &r
		memo.Lock()
		memo.n++
		memo.Unlock()
	})
	return e.res
}

var prog struct {
	sync.Mutex
	n int
	t time.Time
}

func progress(total int) {
	prog.Lock()
	defer prog.Unlock()
	prog.n++
	if prog.t.IsZero() {
		prog.t = time.Now()
	}
	if prog.n%100 == 0 {
		fmt.Fprintf(os.Stderr, "c17: %d projects done (batch of %d), %.0fs\n", prog.n, total, time.Since(prog.t).Seconds())
	}
}

// runAll evaluates cases on a worker pool, results in case order. Stops handing out work when
// the budget expires (returned results are nil for cases not run).
func runAll(c *common.Check, cases []*Case, keep bool, grace bool) []*Result {
	out := make([]*Result, len(cases))
	var wg sync.WaitGroup
	idx := make(chan int)
	workers := runtime.NumCPU()
	if workers > len(cases) {
		workers = len(cases)
	}
	for w := 0; w < workers; w++ {
		wg.Add(1)
		go func() {
			defer wg.Done()
			for i := range idx {
				out[i] = runMemo(cases[i], keep)
				progress(len(cases))
			}
		}()
	}
	for i := range cases {
		if (!grace && c.Expired()) || (grace && time.Now().After(graceDeadline(c))) {
			break
		}
		idx <- i
	}
	close(idx)
	wg.Wait()
	return out
}

func featureCase(cfg Config) *Case {
	files := featureFiles()
	cs := &Case{ID: "feature|" + cfg.ID(), Kind: "feature", Schema: "feature", Config: cfg, Files: files, Harness: "bounds"}
	if cfg.Layout.Models == "autobind" {
		for k, v := range handFiles() {
			files[k] = v
		}
		cs.Harness = "bounds+calc"
	}
	return cs
}

// materialise lays a case out on disk (paths relative to the project directory): the schema
// files of the case go where the layout wants them, gqlgen.yml and go.mod / go.sum into the
// module directory, plus what the layout implies (the harness program, the hand-written types of
// the autobind-self layouts, a doc.go that names the root package, the outer go.mod of a nested
// module).
func materialise(c *Case) (files map[string]string, modDir string) {
	p := c.Config.Layout.Paths()
	in := func(rel string) string { return path.Join(p.ModDir, rel) }
	files = map[string]string{in("gqlgen.yml"): c.Config.YAML()}
	for k, v := range c.Files {
		if strings.HasPrefix(k, "schema/") {
			files[in(path.Join(p.SchemaDir, strings.TrimPrefix(k, "schema/")))] = v
		} else {
			files[in(k)] = v
		}
	}
	if c.Harness != "" {
		files[in("cmd/harness/main.go")] = harnessSource(strings.HasPrefix(c.Harness, "bounds"), strings.Contains(c.Harness, "calc") || c.Harness == "methodorder", p.ExecImport)
	}
	if c.Config.Layout.Models == "autobind-self" {
		files[in(path.Join(p.ModelDir, "hand_models.go"))] = handSelf(p.ModelPkg)
	}
	if p.ExecDir == "." {
		files[in("doc.go")] = "// Package probe is the module root package.\npackage probe\n"
	}
	if p.ModDir != "" {
		files["go.mod"] = "module outer\n\ngo 1.23.8\n"
		files[in("go.mod")] = fmt.Sprintf("module probe\n\ngo 1.23.8\n\nrequire github.com/99designs/gqlgen v0.0.0\nrequire verif v0.0.0\n\nreplace github.com/99designs/gqlgen => %s\nreplace verif => %s\n", common.RepoDir(), common.Root)
		if sum, err := os.ReadFile(filepath.Join(common.RepoDir(), "go.sum")); err == nil {
			files[in("go.sum")] = string(sum)
		}
	}
	return files, p.ModDir
}

func namingCase(p NamingProject, l Layout) *Case {
	cfg := Config{Layout: l}
	return &Case{ID: p.Name + "|" + cfg.ID(), Kind: "naming", Schema: p.Name, Config: cfg,
		Files: map[string]string{"schema/naming.graphqls": namingSchema(p.Atoms)}, Atoms: p.Atoms}
}

func smallCase(name string, files map[string]string, l Layout) *Case {
	cfg := Config{Layout: l}
	cs := &Case{ID: "small-" + name + "|" + cfg.ID(), Kind: "small", Schema: "small-" + name, Config: cfg, Files: files}
	if name == "methodorder" {
		cs.Harness = "methodorder"
	}
	return cs
}

// layouts for a small schema: those that bring their own hand-written package need autobind.
func smallLayouts(files map[string]string) []Layout {
	if _, ok := files["hand/models.go"]; ok {
		return []Layout{mainF, mainB, {"single-file", "none", 2, "autobind", "same", Dirs{}}}
	}
	return []Layout{mainA, mainC, mainD}
}

var (
	mainA = Layout{"single-file", "single-file", 0, "generated", "separate", Dirs{}}
	mainB = Layout{"follow-schema", "follow-schema", 2, "autobind", "same", Dirs{}}
	mainC = Layout{"follow-schema", "follow-schema", 0, "generated", "same", Dirs{}}
	mainD = Layout{"single-file", "none", 2, "generated", "separate", Dirs{}}
	mainE = Layout{"follow-schema", "single-file", 2, "generated", "same", Dirs{}}
	mainF = Layout{"single-file", "single-file", 0, "autobind", "separate", Dirs{}}
)

// quickCases: the most fault-revealing combinations, one wave on 16 cores.
func quickCases() []*Case {
	var cs []*Case
	// every value of every layout dimension, the directory dimension included, is on at least one
	// of these projects
	at := func(l Layout, d Dirs) Layout { l.Dirs = d; return l }
	cs = append(cs,
		featureCase(Config{Layout: mainA}),
		featureCase(Config{Layout: at(mainB, Dirs{Schema: "below"})}),
		featureCase(Config{Layout: at(mainC, Dirs{Schema: "sibling"}), Dev: []string{"omit_slice_element_pointers", "struct_fields_always_pointers"}}),
		featureCase(Config{Layout: at(mainA, Dirs{Place: "root"}), Dev: []string{"resolvers_always_return_pointers", "return_pointers_in_unmarshalinput"}}),
		featureCase(Config{Layout: at(mainC, Dirs{Schema: "root"}), Dev: []string{"use_function_syntax_for_execution_context", "call_argument_directives_with_null"}}),
		featureCase(Config{Layout: Layout{"single-file", "follow-schema", 2, "generated", "same", Dirs{Schema: "sibling", Place: "root", Nested: true}}, Dev: []string{"use_function_syntax_for_execution_context", "return_pointers_in_unmarshalinput"}}),
		featureCase(Config{Layout: Layout{"follow-schema", "single-file", 2, "generated", "separate", Dirs{Schema: "parent"}}, Dev: []string{"nullable_input_omittable", "omit_complexity"}}),
		featureCase(Config{Layout: at(mainB, Dirs{Nested: true}), Dev: []string{"omit_slice_element_pointers", "resolvers_always_return_pointers"}}),
		featureCase(Config{Layout: at(mainD, Dirs{Schema: "below", Place: "root"}), Dev: []string{"omit_getters", "omit_root_models"}}),
		featureCase(Config{Layout: Layout{"single-file", "follow-schema", 2, "generated", "separate", Dirs{}}, Dev: []string{"omit_resolver_fields", "omit_panic_handler"}}),
		featureCase(Config{Layout: Layout{"single-file", "follow-schema", 2, "autobind", "separate", Dirs{}}, Dev: []string{"use_function_syntax_for_execution_context", "struct_fields_always_pointers"}}),
		featureCase(Config{Layout: Layout{"follow-schema", "none", 0, "autobind", "same", Dirs{}}, Dev: []string{"nullable_input_omittable", "return_pointers_in_unmarshalinput"}}),
	)
	// the cache-lifecycle options on the one-package layouts, and the equal-typed method-order project
	cs = append(cs,
		featureCase(Config{Layout: Layout{"single-file", "follow-schema", 0, "generated", "same", Dirs{}}, Dev: []string{"skip_mod_tidy"}}),
		featureCase(Config{Layout: mainB, Dev: []string{"skip_mod_tidy", "resolver.preserve_resolver"}}),
		smallCase("methodorder", smallFeatureSchemas()["methodorder"], mainF),
		smallCase("directivesfile", smallFeatureSchemas()["directivesfile"], mainC),
		// autobind names the package that also receives models_gen.go (api/testdata/default's layout)
		featureCase(Config{Layout: Layout{"single-file", "single-file", 0, "autobind-self", "separate", Dirs{Place: "root"}}}),
		featureCase(Config{Layout: Layout{"follow-schema", "follow-schema", 2, "autobind-self", "same", Dirs{Schema: "parent", Place: "root", Nested: true}}, Dev: []string{"skip_mod_tidy"}}),
	)
	for _, p := range namingProjects(false) {
		l := mainA
		if strings.Contains(p.Name, "-g0-") {
			l = mainC
		}
		cs = append(cs, namingCase(p, l))
	}
	return cs
}

// layoutValues are the values of the eight layout dimensions, in the order of a Layout.
func layoutValues(l Layout) [8]string {
	return [8]string{l.Exec, l.Resolver, fmt.Sprint(l.Worker), l.Models, l.ModelPkg, "schema=" + l.Dirs.Schema, "place=" + l.Dirs.Place, fmt.Sprint(l.Dirs.Nested)}
}

// fullLayouts: every valid combination of all eight dimensions, in a fixed order.
func fullLayouts() []Layout {
	var out []Layout
	for _, l := range allLayouts() {
		for _, sc := range []string{"", "below", "sibling", "root", "parent"} {
			for _, pl := range []string{"", "root"} {
				for _, n := range []bool{false, true} {
					t := l
					t.Dirs = Dirs{sc, pl, n}
					if t.Valid() {
						out = append(out, t)
					}
				}
			}
		}
	}
	return out
}

// coveringLayouts: a pairwise covering array over the eight layout dimensions, built greedily and
// deterministically: every pair of values of two different dimensions that can occur together in
// a valid layout occurs in at least one row. The first rows cover the most pairs.
func coveringLayouts() []Layout {
	all := fullLayouts()
	pairsOf := func(l Layout) []string {
		v := layoutValues(l)
		var ps []string
		for i := 0; i < len(v); i++ {
			for j := i + 1; j < len(v); j++ {
				ps = append(ps, fmt.Sprintf("%d=%s&%d=%s", i, v[i], j, v[j]))
			}
		}
		return ps
	}
	uncovered := map[string]bool{}
	for _, l := range all {
		for _, p := range pairsOf(l) {
			uncovered[p] = true
		}
	}
	var out []Layout
	for len(uncovered) > 0 {
		best, bestN := -1, 0
		for i, l := range all {
			n := 0
			for _, p := range pairsOf(l) {
				if uncovered[p] {
					n++
				}
			}
			if n > bestN {
				best, bestN = i, n
			}
		}
		out = append(out, all[best])
		for _, p := range pairsOf(all[best]) {
			delete(uncovered, p)
		}
	}
	return out
}

// thoroughCases: (A) every layout with the default options, and every single deviation under
// the 12 covering layouts; (B) every option set
// with exactly 2 deviations under two main layouts; (C) small feature schemas and all naming
// projects under the main layouts.
func thoroughCases() []*Case {
	var cs []*Case
	seen := map[string]bool{}
	add := func(c *Case) {
		if !seen[c.ID] {
			seen[c.ID] = true
			cs = append(cs, c)
		}
	}
	for _, c := range quickCases() {
		add(c)
	}
	small := smallFeatureSchemas()
	var names []string
	for k := range small {
		names = append(names, k)
	}
	sort.Strings(names)
	for _, n := range names {
		for _, l := range smallLayouts(small[n]) {
			add(smallCase(n, small[n], l))
		}
	}
	for _, p := range namingProjects(true) {
		for _, l := range []Layout{mainA, mainC} {
			add(namingCase(p, l))
		}
	}
	for _, l := range allLayouts() {
		add(featureCase(Config{Layout: l}))
	}
	cov := coveringLayouts()
	for _, l := range cov {
		add(featureCase(Config{Layout: l}))
	}
	for _, l := range cov[:12] {
		for _, d := range optionSets(l, 1) {
			add(featureCase(Config{Layout: l, Dev: d}))
		}
	}
	for _, l := range []Layout{mainA, mainB} {
		for _, d := range optionSets(l, 2) {
			add(featureCase(Config{Layout: l, Dev: d}))
		}
	}
	return cs
}

func main() {
	c := common.New("C17", "exploration")
	keep := false
	only := ""
	list := false
	from := 0
	for i, a := range os.Args {
		switch a {
		case "--keep":
			keep = true
		case "--list":
			list = true
		case "--only":
			if i+1 < len(os.Args) {
				only = os.Args[i+1]
			}
		case "--from": // debugging aid: skip the first N planned projects
			if i+1 < len(os.Args) {
				fmt.Sscanf(os.Args[i+1], "%d", &from)
			}
		}
	}
	if rp := common.ReplayArg(); rp != "" {
		replay(rp, keep)
		return
	}
	if c.Tier == "thorough" {
		c.Budget(20 * time.Minute)
	} else {
		c.Budget(150 * time.Second)
	}
	cases := quickCases()
	if c.Tier == "thorough" {
		cases = thoroughCases()
	}
	if only != "" {
		var f []*Case
		for _, cs := range cases {
			if strings.Contains(cs.ID, only) {
				f = append(f, cs)
			}
		}
		cases = f
	}
	if from > 0 && from < len(cases) {
		cases = cases[from:]
	}
	if list {
		for _, cs := range cases {
			fmt.Println(cs.ID)
		}
		return
	}
	if _, err := probe.Driver(); err != nil {
		probe.Cleanup()
		common.Broken("%v", err)
	}
	results := runAll(c, cases, keep, false)
	evaluate(c, cases, results, keep)
	if !keep {
		probe.Cleanup()
	}
	c.Finish()
}

// evaluate applies the oracle, isolates failing packed naming projects, attributes failing
// configurations to their minimal failing option subset, reports, and fills the evidence.
func evaluate(c *common.Check, cases []*Case, results []*Result, keep bool) {
	evals, completed := 0, 0
	nontrivial := map[string]bool{}
	byID := map[string]*Result{}
	var genS, buildS float64
	stages := map[string]int{}
	for _, r := range results {
		if r == nil {
			continue
		}
		completed++
		evals++
		byID[r.Case.ID] = r
		genS += r.GenS
		buildS += r.BuildS
		stages[r.Stage()]++
		if r.OK() && r.Resolvers >= 1 {
			nontrivial[filesHash(r.Case.Files)+"/"+hash(r.Case.Config.YAML())] = true
		}
	}
	// Isolation of failing packed naming projects, breadth first: a failing project with several
	// positions is re-run one position per project, a failing single-position project one atom
	// per project. Leaves (one atom) are reported with the atom's signature; a project whose
	// parts all pass is reported itself (an interaction between atoms).
	var frontier []*Result
	for _, r := range results {
		if r != nil && !r.OK() && r.Case.Kind == "naming" {
			frontier = append(frontier, r)
		}
	}
	isoSeen := map[string]bool{}
	for len(frontier) > 0 && time.Now().Before(graceDeadline(c)) {
		var kids []*Case
		parent := map[string]*Result{}
		for _, r := range frontier {
			parts := splitAtoms(r.Case.Atoms)
			if parts == nil {
				report(c, r.Case.Atoms[0].Sig()+":"+r.Stage(), r)
				continue
			}
			for _, p := range parts {
				kc := namingCase(p, r.Case.Config.Layout)
				if isoSeen[kc.ID] {
					continue
				}
				isoSeen[kc.ID] = true
				parent[kc.ID] = r
				kids = append(kids, kc)
			}
		}
		frontier = nil
		kidsOf := map[*Result][]*Result{}
		var parents []*Result
		for i, kr := range runAll(c, kids, keep, true) {
			if kr == nil {
				continue
			}
			stages["iso-"+kr.Stage()]++
			if kr.OK() && kr.Resolvers >= 1 {
				nontrivial[filesHash(kr.Case.Files)+"/"+hash(kr.Case.Config.YAML())] = true
			}
			pr := parent[kids[i].ID]
			if _, ok := kidsOf[pr]; !ok {
				parents = append(parents, pr)
			}
			kidsOf[pr] = append(kidsOf[pr], kr)
		}
		for _, pr := range parents {
			// failing parts grouped by (stage, diagnostics): a group of two or more parts that fail
			// in exactly the same way has a cause that is not one particular name; it is reported
			// once and not split further. Parts that fail in their own way are split / reported.
			var order []string
			groups := map[string][]*Result{}
			for _, kr := range kidsOf[pr] {
				if kr.OK() {
					continue
				}
				k := kr.Stage() + ":" + kr.ErrKey()
				if _, ok := groups[k]; !ok {
					order = append(order, k)
				}
				groups[k] = append(groups[k], kr)
			}
			if len(order) == 0 {
				// every part passes on its own: an interaction between atoms
				report(c, "naming-packed:"+pr.Case.Schema+":"+pr.Stage()+":"+pr.ErrKey(), pr)
			}
			for _, k := range order {
				if g := groups[k]; len(g) >= 2 {
					report(c, "naming-packed:"+pr.Case.Schema+":"+k, g[0])
				} else {
					frontier = append(frontier, g[0])
				}
			}
		}
	}
	for _, r := range frontier { // grace deadline hit: report what is left without isolating it
		if len(r.Case.Atoms) == 1 {
			report(c, r.Case.Atoms[0].Sig()+":"+r.Stage(), r)
		} else {
			report(c, "naming-packed:"+r.Case.Schema+":"+r.Stage()+":"+r.ErrKey(), r)
		}
	}
	for _, r := range results {
		if r != nil && !r.OK() && r.Case.Kind == "small" {
			report(c, r.Case.Schema+":"+r.Stage()+":"+r.ErrKey(), r)
		}
	}
	// Failing feature configurations are minimised (greedy, fixed order): drop each deviation,
	// then reset each layout dimension to its baseline, keeping a step when the project still
	// fails with the same diagnostic. The signature names the minimal configuration.
	var failing []*Result
	for _, r := range results {
		if r != nil && !r.OK() && r.Case.Kind == "feature" {
			failing = append(failing, r)
		}
	}
	minimal := make([]Config, len(failing))
	var wg sync.WaitGroup
	for i, r := range failing {
		wg.Add(1)
		go func(i int, r *Result) {
			defer wg.Done()
			minimal[i] = minimise(c, r, keep)
		}(i, r)
	}
	wg.Wait()
	for i, r := range failing {
		m := minimal[i]
		d := "defaults"
		if len(m.Dev) > 0 {
			d = strings.Join(m.Dev, "+")
		}
		report(c, "config:"+d+"|"+m.Layout.NonBaseline()+":"+r.Stage()+":"+r.ErrKey(), r)
	}
	memo.Lock()
	evals = memo.n
	memo.Unlock()
	sampled := map[string]int{}
	for _, r := range results {
		if r == nil || sampled[r.Case.Kind] >= 2 {
			continue
		}
		sampled[r.Case.Kind]++
		var files []string
		for f := range r.Case.Files {
			files = append(files, f)
		}
		sort.Strings(files)
		smp := map[string]any{"id": r.Case.ID, "files": files, "gqlgen.yml": r.Case.Config.YAML(), "outcome": r.Stage(), "resolvers_in_stub": r.Resolvers}
		if r.Case.Kind == "naming" {
			sch := r.Case.Files["schema/naming.graphqls"]
			if len(sch) > 600 {
				sch = sch[:600] + "…"
			}
			smp["schema_head"] = sch
		}
		c.Sample(smp)
	}
	c.Cov["evaluations"] = evals
	c.Cov["distinct_nontrivial"] = len(nontrivial)
	c.Cov["rule"] = "one evaluation = one scratch project taken through a 2-step history: generator of the tree under test run on (schema files, gqlgen.yml, optional hand-written models) + `go build ./...` of everything generated (exec, models, resolver stubs, stubgen file), then the generator again (fresh process) over that output + `go build ./...` again; projects with a hand-written model package additionally run the generated server once through a small harness program and compare the response with the one GraphQL prescribes (arguments of method-bound fields matched by name). Projects are enumerated, not sampled: naming patterns x positions packed into projects (failing packed projects are re-run one atom per project), schema-feature projects, and configuration option sets x layouts. distinct_nontrivial = number of distinct (sha256 of schema+hand-written files, sha256 of gqlgen.yml) projects for which generation exited 0, the stubgen file lists >= 1 resolver function, and the build succeeded."
	c.Cov["planned_projects"] = len(cases)
	c.Cov["completed_projects"] = completed
	c.Cov["exhaustive"] = completed == len(cases)
	c.Cov["stages"] = stages
	c.Cov["generate_wall_sum_s"] = int(genS)
	c.Cov["build_wall_sum_s"] = int(buildS)
	c.Cov["bounds"] = bounds(c.Tier, cases)
	c.Assume = assumptions
}

// splitAtoms splits a packed atom list: by position when it spans several positions, else by
// atom; nil when it is a single atom.
func splitAtoms(atoms []Atom) []NamingProject {
	if len(atoms) <= 1 {
		return nil
	}
	var order []string
	byPos := map[string][]Atom{}
	for _, a := range atoms {
		if _, ok := byPos[a.Pos]; !ok {
			order = append(order, a.Pos)
		}
		byPos[a.Pos] = append(byPos[a.Pos], a)
	}
	var out []NamingProject
	if len(order) > 1 {
		for _, pos := range order {
			out = append(out, NamingProject{Name: "iso-" + pos + "-" + hash(fmt.Sprint(byPos[pos])), Atoms: byPos[pos]})
		}
		return out
	}
	for _, a := range atoms {
		out = append(out, NamingProject{Name: "iso-" + a.Sig(), Atoms: []Atom{a}})
	}
	return out
}

// graceDeadline: enumeration stops at the budget; isolation and minimisation of failures that
// were already found may use five more minutes so that signatures stay minimal.
func graceDeadline(c *common.Check) time.Time {
	if c.Deadline.IsZero() {
		return time.Now().Add(time.Hour)
	}
	return c.Deadline.Add(5 * time.Minute)
}

// minimise returns a minimal failing configuration below r's (same stage and diagnostics):
// first the smallest subset of the deviations that still fails under the same layout, then every
// layout dimension that can be reset to the baseline. Candidates of one step run in parallel.
func minimise(c *common.Check, r *Result, keep bool) Config {
	same := func(cfgs []Config) []bool {
		out := make([]bool, len(cfgs))
		var wg sync.WaitGroup
		for i, cfg := range cfgs {
			if time.Now().After(graceDeadline(c)) {
				break
			}
			wg.Add(1)
			go func(i int, cfg Config) {
				defer wg.Done()
				x := runMemo(featureCase(cfg), keep)
				out[i] = !x.OK() && x.Stage() == r.Stage() && x.ErrKey() == r.ErrKey()
			}(i, cfg)
		}
		wg.Wait()
		return out
	}
	cur := r.Case.Config
	// 1. deviations: proper subsets, smallest first
	var subs []Config
	if len(cur.Dev) > 0 {
		subs = append(subs, Config{Layout: cur.Layout})
	}
	if len(cur.Dev) == 2 {
		subs = append(subs, Config{Layout: cur.Layout, Dev: []string{cur.Dev[0]}}, Config{Layout: cur.Layout, Dev: []string{cur.Dev[1]}})
	}
	for i, ok := range same(subs) {
		if ok {
			cur = subs[i]
			break
		}
	}
	// 2. layout dimensions
	var cands []Config
	var dims []int
	for dim := 0; dim < layoutDims; dim++ {
		l, changed := cur.Layout.ResetDim(dim)
		ok := changed
		for _, d := range cur.Dev {
			ok = ok && applicable(d, l)
		}
		if ok {
			cands = append(cands, Config{Layout: l, Dev: cur.Dev})
			dims = append(dims, dim)
		}
	}
	var good []int
	for i, ok := range same(cands) {
		if ok {
			good = append(good, dims[i])
		}
	}
	if len(good) == 1 {
		cur.Layout, _ = cur.Layout.ResetDim(good[0])
	} else if len(good) > 1 {
		all := cur.Layout
		for _, d := range good {
			all, _ = all.ResetDim(d)
		}
		if same([]Config{{Layout: all, Dev: cur.Dev}})[0] {
			cur.Layout = all
		} else { // resets interact: fall back to one at a time
			for _, d := range good {
				l, _ := cur.Layout.ResetDim(d)
				if same([]Config{{Layout: l, Dev: cur.Dev}})[0] {
					cur.Layout = l
				}
			}
		}
	}
	return cur
}

func report(c *common.Check, sig string, r *Result) {
	out := r.GenOut
	if r.GenExit == 0 {
		out = r.BuildOut
	}
	if r.Collision != "" {
		out = r.Collision
	}
	if len(out) > 3000 {
		out = out[:3000] + "…"
	}
	what := fmt.Sprintf("%s failed at %s (generator exit %d): %s", r.Case.ID, r.Stage(), r.GenExit, r.ErrKey())
	c.Report(sig, what, map[string]any{"case": r.Case, "gqlgen.yml": r.Case.Config.YAML(), "stage": r.Stage(), "output": out})
}

func bounds(tier string, cases []*Case) map[string]any {
	kinds := map[string]int{}
	schemas := map[string]bool{}
	cfgs := map[string]bool{}
	for _, cs := range cases {
		kinds[cs.Kind]++
		schemas[cs.Schema] = true
		cfgs[cs.Config.ID()] = true
	}
	return map[string]any{
		"tier":             tier,
		"patterns":         len(allPatterns()),
		"positions":        append(append([]string{}, typePositions...), memberPositions...),
		"pattern_groups":   len(patternGroups()),
		"colliding_pairs":  len(collidingPairs()),
		"boolean_options":  len(allOpts),
		"layouts":          len(allLayouts()),
		"projects_by_kind": kinds,
		"distinct_schemas": len(schemas),
		"distinct_configs": len(cfgs),
		"max_deviations":   2,
		"thorough_product": "all 72 layouts (exec x resolver x worker_limit x models{generated, autobind hand package, autobind the model package itself} x model package) x defaults + 12 pairwise-covering layouts x (exactly 1 deviation) + 2 main layouts x (exactly 2 deviations) + small feature schemas x 3 layouts + naming projects x 2 layouts",
		"quick_selection":  "16 feature-schema configurations (0 to 2 deviations; every value of every layout dimension incl. models in the exec package) + the equal-typed method-order project + packed naming projects",
		"feature_schema":   "4 files: objects, interfaces incl. interface-implements-interface, unions, enums, inputs (recursive, @oneOf), nested list/non-null wrappers, defaults of every kind, custom directives on all 19 locations, built-in directives, subscription, extend type/enum/union/input across files, descriptions with quotes/backticks/comment terminators",
	}
}

var assumptions = []string{
	"only valid schemas inside gqlgen's documented feature set are generated; colliding field / argument / input-field names inside one scope are outside the statement (gqlgen's documented answer is @goField(name:), covered by the gofieldrename schema) and are not enumerated",
	"type-checking is `go build ./...` with the pinned Go 1.23.8 toolchain against the runtime packages of the tree under test (replace directive); go vet is not run",
	"map-backed models: inputs (documented, changesets) with any fields, and objects with nullable scalar / custom-scalar / nested-object fields only, exactly what gqlgen's own test server (maps.graphql) binds; a NON-NULL field on a map-backed OBJECT makes generation fail (field.gotpl: nil pointer evaluating *config.TypeReference.GO) but is outside the documented feature set and therefore not enumerated",
	"the runtime harness only exercises fields bound to hand-written model methods (Calc) through one fixed request; everything else about execution semantics belongs to C01/C02",
	"the gendriver (cmd/gendriver) calls api.Generate exactly like `gqlgen generate` plus the stubgen plugin; exit 3 = error, 4 = panic",
	"federation is not part of this property's configuration space (C20 covers the federation plugin)",
	"colliding-pair obligations are enumerated for type names and enum values only (the two scopes for which gqlgen documents a collision registry, docs/content/reference/name-collision.md); for type names the oracle additionally requires the two GraphQL types to be bound to different Go types",
	"a compiler message saying that an export file of an imported package vanished (`could not import … no such file or directory`, a shared Go build cache being trimmed by another process) is not attributed to gqlgen: the project is re-run up to twice and a persistent failure ends the check with exit 2",
	"while a known finding makes a project fail, other defects in the same project are only visible through the digest of the remaining compiler diagnostics (the compiler prints at most 10)",
}

func replay(path string, keep bool) {
	b, err := os.ReadFile(path)
	if err != nil {
		common.Broken("cannot read replay file: %v", err)
	}
	var doc struct {
		Signature string `json:"signature"`
		Replay    struct {
			Case Case `json:"case"`
		} `json:"replay"`
	}
	if err := json.Unmarshal(b, &doc); err != nil {
		common.Broken("cannot parse replay file: %v", err)
	}
	if _, err := probe.Driver(); err != nil {
		probe.Cleanup()
		common.Broken("%v", err)
	}
	r := runCase(&doc.Replay.Case, keep)
	fmt.Printf("case: %s\nsignature: %s\ngqlgen.yml:\n%s\n", doc.Replay.Case.ID, doc.Signature, doc.Replay.Case.Config.YAML())
	fmt.Printf("generator exit code: %d\n%s\n", r.GenExit, r.GenOut)
	if r.GenExit == 0 {
		fmt.Printf("go build ./... ok=%v\n%s\n", r.BuildOK, r.BuildOut)
	}
	fmt.Printf("oracle: stage=%s ok=%v resolvers=%d\n", r.Stage(), r.OK(), r.Resolvers)
	if !keep {
		probe.Cleanup()
	}
	if r.OK() {
		os.Exit(0)
	}
	os.Exit(1)
}

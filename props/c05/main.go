// C05: operations terminate and leave nothing running, even when cancelled mid-flight.
// Model checking: cancellation of the request context is an environment event enabled at
// every scheduling point; deadlock (the request never returns) and leaked goroutines
// (threads alive after the request ended and its context was cancelled) are final states
// of the controlled runtime, found exactly.
package main

import "verif/exech/driver"

func main() {
	q := []driver.ProbeConfig{driver.CfgDefault, driver.CfgWorker1, driver.CfgWorker2}
	t := []driver.ProbeConfig{driver.CfgDefault, driver.CfgWorker1, driver.CfgWorker2, driver.CfgWorker8, driver.CfgFollowSchema}
	sq := []driver.ProbeConfig{driver.CfgWorker2}
	st := []driver.ProbeConfig{driver.CfgDefault, driver.CfgWorker1, driver.CfgWorker2}
	driver.SchedCheck2("C05", q, t, sq, st, map[string]int{"quick": 2, "thorough": 3}, []string{
		"resolvers return promptly and return ctx.Err() once they observe cancellation (the property's premise)",
		"\"bounded time\" is decided as \"no schedule in which the request waits forever\"",
		"net/http is replaced by a recording ResponseWriter; the harness cancels the request context after the handler returns, as net/http does",
	})
}

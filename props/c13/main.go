// C13: @defer changes delivery, not content: merged payloads equal the plain result.
// Model checking over enumerated inputs: every query (<= N nodes, >= 1 fragment) x every
// non-empty subset of its fragments marked @defer (plain / labelled / if:false / if:true
// variants) x outcome plans, explored under the controlled scheduler for all completion
// orders of the groups within a preemption bound; each schedule's payload sequence is
// folded and compared with the undeferred reference execution.
package main

import "verif/exech/driver"

func main() {
	q := []driver.ProbeConfig{driver.CfgDefault, driver.CfgFollowSchema}
	t := []driver.ProbeConfig{driver.CfgDefault, driver.CfgFollowSchema, driver.CfgWorker2}
	sq := []driver.ProbeConfig{driver.CfgDefault}
	st := []driver.ProbeConfig{driver.CfgDefault, driver.CfgWorker2}
	driver.SchedCheck2("C13", q, t, sq, st, map[string]int{"quick": 2, "thorough": 2}, []string{
		"payloads are taken from the response function directly (the multipart/mixed framing of the same payloads is C12's subject)",
		"the exception clause (null propagation stops at the group's object) is applied where a delivered group's data is null",
		"labels: unlabelled groups carry the empty label",
	})
}

package main

import (
	"bytes"
	"context"
	"encoding/json"
	"fmt"
	"math"
	"reflect"
	"time"

	"github.com/99designs/gqlgen/graphql"
	"github.com/vektah/gqlparser/v2/ast"
	"github.com/vektah/gqlparser/v2/gqlerror"

	"verif/common"
)

// tnode is a composition: a leaf of a grid, an array of <= 2 children, or an object whose names
// come from a key-set grid. It is its own replay format.
type tnode struct {
	K    string   `json:"k"` // leaf | array | object
	Leaf int      `json:"leaf,omitempty"`
	Keys []string `json:"keys_hex,omitempty"`
	Kids []*tnode `json:"kids,omitempty"`
}

func (n *tnode) containers() int {
	if n.K == "leaf" {
		return 0
	}
	c := 1
	for _, k := range n.Kids {
		c += k.containers()
	}
	return c
}

func (n *tnode) String() string {
	b, _ := json.Marshal(n)
	return string(b)
}

// level builds all compositions of depth exactly <= d+1 from the list of compositions of depth <= d:
// the leaves, arrays of 0..2 elements of prev, objects over each key set with elements of prev.
func shapes(nLeaves int, keySets [][]string, prev []*tnode) []*tnode {
	var out []*tnode
	for i := 0; i < nLeaves; i++ {
		out = append(out, &tnode{K: "leaf", Leaf: i})
	}
	if prev == nil {
		return out
	}
	out = append(out, &tnode{K: "array"})
	for _, a := range prev {
		out = append(out, &tnode{K: "array", Kids: []*tnode{a}})
	}
	for _, a := range prev {
		for _, b := range prev {
			out = append(out, &tnode{K: "array", Kids: []*tnode{a, b}})
		}
	}
	for _, ks := range keySets {
		hk := make([]string, len(ks))
		for i, k := range ks {
			hk[i] = hx(k)
		}
		switch len(ks) {
		case 0:
			out = append(out, &tnode{K: "object"})
		case 1:
			for _, a := range prev {
				out = append(out, &tnode{K: "object", Keys: hk, Kids: []*tnode{a}})
			}
		case 2:
			for _, a := range prev {
				for _, b := range prev {
					out = append(out, &tnode{K: "object", Keys: hk, Kids: []*tnode{a, b}})
				}
			}
		}
	}
	return out
}

// depth3Jobs enumerates every composition of depth <= 3 without materialising the last level:
// one job per (container kind, key set, first child).
func depth3Jobs(nLeaves int, keySets [][]string, eval func(r *jobResult, n *tnode)) (jobs []job, total int) {
	l1 := shapes(nLeaves, keySets, nil)
	l2 := shapes(nLeaves, keySets, l1)
	// depth <= 2 trees and the small depth-3 ones in one job
	jobs = append(jobs, func(r *jobResult) {
		for _, n := range l2 { // includes the leaves
			eval(r, n)
		}
		// depth-3 containers whose children come from l2 but that are not already in l2
		// (i.e. at least one child is itself a container): arity 0 is in l2 already
		for _, a := range l2 {
			if a.K != "leaf" {
				eval(r, &tnode{K: "array", Kids: []*tnode{a}})
			}
		}
		for _, ks := range keySets {
			if len(ks) == 1 {
				for _, a := range l2 {
					if a.K != "leaf" {
						eval(r, &tnode{K: "object", Keys: []string{hx(ks[0])}, Kids: []*tnode{a}})
					}
				}
			}
		}
	})
	for _, a := range l2 {
		a := a
		jobs = append(jobs, func(r *jobResult) {
			for _, b := range l2 {
				if a.K == "leaf" && b.K == "leaf" {
					continue // depth 2, already in l2
				}
				eval(r, &tnode{K: "array", Kids: []*tnode{a, b}})
				for _, ks := range keySets {
					if len(ks) == 2 {
						eval(r, &tnode{K: "object", Keys: []string{hx(ks[0]), hx(ks[1])}, Kids: []*tnode{a, b}})
					}
				}
			}
		})
	}
	return jobs, len(l2)
}

// ---- compositions of gqlgen marshalers: Array, FieldSet and scalar leaves -----------------------

type mleaf struct {
	name       string
	mk         func() graphql.Marshaler
	expected   any
	hasInvalid bool // gqlgen's own string writer is handed ill-formed UTF-8
}

var sampleTime = time.Date(2024, 2, 29, 12, 34, 56, 500000000, time.FixedZone("IST", 5*3600+1800))

func marshalerLeaves() []mleaf {
	return []mleaf{
		{"Null", func() graphql.Marshaler { return graphql.Null }, nil, false},
		{"True", func() graphql.Marshaler { return graphql.True }, true, false},
		{"MarshalInt64(min)", func() graphql.Marshaler { return graphql.MarshalInt64(math.MinInt64) }, int64(math.MinInt64), false},
		{"MarshalString(specials)", func() graphql.Marshaler { return graphql.MarshalString("a\"\\\n\x1f/é") }, "a\"\\\n\x1f/é", false},
		{"FloatContext(1e21)", func() graphql.Marshaler {
			return graphql.WrapContextMarshaler(context.Background(), graphql.MarshalFloatContext(1e21))
		}, 1e21, false},
		{"MarshalMap", func() graphql.Marshaler { return graphql.MarshalMap(map[string]any{"k": []any{1.5, "<"}}) }, map[string]any{"k": []any{1.5, "<"}}, false},
		{"MarshalString(ill-formed)", func() graphql.Marshaler { return graphql.MarshalString("é\xff") }, "é\xff", true},
		{"MarshalTime", func() graphql.Marshaler { return graphql.MarshalTime(sampleTime) }, "2024-02-29T12:34:56.5+05:30", false},
		{"MarshalUintID(max)", func() graphql.Marshaler { return graphql.MarshalUintID(math.MaxUint64) }, "18446744073709551615", false},
		{"Omittable[string]", func() graphql.Marshaler { return graphql.OmittableOf("x\xffy") }, "x\xffy", false},
	}
}

func nestKeySets(thorough bool) [][]string {
	ks := [][]string{{}, {"a"}, {"\"\n"}, {"a", ""}, {"\xC0"}}
	if thorough {
		ks = append(ks, []string{"é"}, []string{""}, []string{"\xC0", "a"}, []string{"é", "\\\x00"})
	}
	return ks
}

func buildMarshaler(n *tnode, leaves []mleaf) (m graphql.Marshaler, expected any, hasInvalid bool) {
	switch n.K {
	case "leaf":
		l := leaves[n.Leaf]
		return l.mk(), l.expected, l.hasInvalid
	case "array":
		arr := graphql.Array{}
		exp := []any{}
		for _, k := range n.Kids {
			km, ke, ki := buildMarshaler(k, leaves)
			arr = append(arr, km)
			exp = append(exp, ke)
			hasInvalid = hasInvalid || ki
		}
		return arr, exp, hasInvalid
	default:
		exp := map[string]any{}
		var aliases []string
		var vals []graphql.Marshaler
		for i, k := range n.Kids {
			km, ke, ki := buildMarshaler(k, leaves)
			key := unhx(n.Keys[i])
			aliases = append(aliases, key)
			vals = append(vals, km)
			exp[key] = ke
			hasInvalid = hasInvalid || ki || sanitize(key) != key
		}
		return fieldSet(aliases, vals), exp, hasInvalid
	}
}

func checkMarshalerTree(n *tnode, leaves []mleaf) (sig, what string) {
	m, expected, hasInvalid := buildMarshaler(n, leaves)
	out, pan := marshalToBytes(m)
	_, class, w := checkWire(out, pan, expected, hasInvalid)
	if class != "" {
		return "composition(Array/FieldSet):" + class, w
	}
	return "", ""
}

func runNestDomain(thorough bool) {
	leaves := marshalerLeaves()
	nl := 7
	if thorough {
		nl = len(leaves)
	}
	keySets := nestKeySets(thorough)
	eval := func(r *jobResult, n *tnode) {
		r.evals++
		if n.containers() > 0 {
			r.nontriv("mtree:" + n.String())
		}
		if sig, what := checkMarshalerTree(n, leaves); sig != "" {
			r.fail(sig, what, map[string]any{"domain": "marshaler-tree", "tree": n})
		}
		if n.K == "object" && len(n.Kids) == 2 && n.Kids[0].K == "array" && len(n.Kids[0].Kids) == 1 && n.Kids[0].Kids[0].Leaf == 3 && n.Kids[1].Leaf == 2 && n.Kids[1].K == "leaf" && n.Kids[0].Kids[0].K == "leaf" {
			r.samples = append(r.samples, map[string]any{"domain": "marshaler-tree", "tree": n})
		}
	}
	jobs, l2 := depth3Jobs(nl, keySets, eval)
	runDomain("marshaler-compositions", fmt.Sprintf("every composition of depth <= 3 of graphql.Array (0..2 elements) and graphql.FieldSet (%d alias sets) over %d scalar leaves; %d compositions of depth <= 2", len(keySets), nl, l2), jobs)
}

// ---- compositions of Go values through MarshalAny / MarshalMap / Omittable[any] -----------------

type aleaf struct {
	v               any
	unrepresentable bool
}

func anyLeaves() []aleaf {
	return []aleaf{
		{nil, false}, {true, false}, {"a\"\\\n<é", false}, {int64(math.MinInt64), false}, {1.5, false}, {"\xff\xed\xa0\x80", false},
		{math.NaN(), true},
		// a json.Number (what variables decoded with UseNumber carry) that is not a number literal
		{json.Number("1,\"admin\":true"), true},
		{uint64(math.MaxUint64), false}, {1e21, false}, {math.Copysign(0, -1), false}, {json.Number("12345678901234567890123"), false},
		{float32(0.1), false}, {int8(-128), false}, {math.Inf(-1), true}, {json.Number(""), true},
	}
}

// buildAny returns the Go value, the value its JSON must decode to (anyValue where a leaf is not
// representable), and whether it contains such a leaf.
func buildAny(n *tnode, leaves []aleaf) (v any, expected any, unrep bool) {
	switch n.K {
	case "leaf":
		l := leaves[n.Leaf]
		if l.unrepresentable {
			return l.v, anyValue{}, true
		}
		return l.v, l.v, false
	case "array":
		arr := []any{}
		exp := []any{}
		for _, k := range n.Kids {
			kv, ke, ku := buildAny(k, leaves)
			arr = append(arr, kv)
			exp = append(exp, ke)
			unrep = unrep || ku
		}
		return arr, exp, unrep
	default:
		m := map[string]any{}
		exp := map[string]any{}
		for i, k := range n.Kids {
			kv, ke, ku := buildAny(k, leaves)
			m[unhx(n.Keys[i])] = kv
			exp[unhx(n.Keys[i])] = ke
			unrep = unrep || ku
		}
		return m, exp, unrep
	}
}

var anyPaths = []string{"MarshalAny", "MarshalMap", "Omittable[any].MarshalGQL", "Omittable[any].MarshalJSON",
	"FieldSet{MarshalAny}", "Array{MarshalAny}"}

func checkAnyTree(path string, n *tnode, leaves []aleaf) (sig, what string, applicable bool) {
	v, expected, unrep := buildAny(n, leaves)
	return checkAnyValue(path, v, expected, unrep)
}

// checkAnyValue: the Go value v through one path; expected is what the bytes must decode to.
// A value JSON cannot represent (unrep: NaN, Inf, an invalid json.Number / RawMessage, a failing
// MarshalJSON, an unsupported kind ...) must be REPORTED - an error, or a panic carrying an error
// (gqlgen recovers it into an error response and discards the buffer) - or be written as valid
// JSON with exactly one value in its place. It must never put an invalid token in the output.
func checkAnyValue(path string, v, expected any, unrep bool) (sig, what string, applicable bool) {
	return checkAnyValueTagged(path, v, expected, unrep, "")
}

// utf8Tag, when set, names the class used if the only thing wrong with the output is ill-formed
// UTF-8 that the value itself carried in bytes it declared to be JSON already.
func checkAnyValueTagged(path string, v, expected any, unrep bool, utf8Tag string) (sig, what string, applicable bool) {
	var out []byte
	var pan any
	var err error
	inContainer := false
	switch path {
	case "MarshalAny":
		out, pan = marshalToBytes(graphql.MarshalAny(v))
	case "MarshalMap":
		mv, ok := v.(map[string]any)
		if !ok {
			return "", "", false
		}
		out, pan = marshalToBytes(graphql.MarshalMap(mv))
	case "Omittable[any].MarshalGQL":
		out, pan = marshalToBytes(graphql.OmittableOf[any](v))
	case "Omittable[any].MarshalJSON":
		out, err = json.Marshal(graphql.OmittableOf[any](v))
	case "FieldSet{MarshalAny}":
		inContainer = true
		out, pan = marshalToBytes(fieldSet([]string{"value", "next"}, []graphql.Marshaler{graphql.MarshalAny(v), graphql.True}))
		expected = map[string]any{"value": expected, "next": true}
	case "Array{MarshalAny}":
		inContainer = true
		out, pan = marshalToBytes(graphql.Array{graphql.MarshalAny(v), graphql.Null})
		expected = []any{expected, nil}
	default:
		common.Broken("unknown any path %q", path)
	}
	if unrep {
		reported := err != nil
		if e, isErr := pan.(error); pan != nil && isErr && e != nil {
			reported = true
		}
		switch {
		case reported && (len(out) == 0 || inContainer):
			// inside a FieldSet/Array the container has already written its opening bytes; the
			// panic unwinds the whole response and the buffer is discarded
			return "", "", true
		case reported:
			return path + ":unrepresentable-value-partial-output", fmt.Sprintf("%s(%#v) reported an error but wrote %s", path, v, show(out)), true
		case pan != nil:
			return path + ":panic", fmt.Sprintf("%s(%#v) panicked with a non-error: %v", path, v, pan), true
		}
		if _, class, w := checkWire(out, nil, expected, false); class != "" {
			if class == "invalid-json:invalid-utf8" && utf8Tag != "" {
				if rep := sanitizeBytes(out); validateJSON(rep) == nil {
					if d, err := decodeJSON(rep); err == nil && jsonEqual(expected, d) {
						return path + ":" + utf8Tag, fmt.Sprintf("%s(%#v) reported nothing and wrote %s, which is not UTF-8", path, v, show(out)), true
					}
				}
			}
			if class == "decoded-differs" {
				return path + ":unrepresentable-value-changes-structure-no-error", fmt.Sprintf("%s(%#v) reported nothing: %s", path, v, w), true
			}
			return path + ":unrepresentable-value-invalid-output-no-error", fmt.Sprintf("%s(%#v) reported nothing and wrote %s, which is not a JSON text (%s)", path, v, show(out), class), true
		}
		return "", "", true
	}
	if err != nil {
		return path + ":marshal-error", fmt.Sprintf("%s(%#v) returned %v", path, v, err), true
	}
	d, class, w := checkWire(out, pan, expected, false)
	if class != "" {
		return path + ":" + class, fmt.Sprintf("%s(%#v): %s", path, v, w), true
	}
	if d == nil {
		return "", "", true // null is handled by the nullable wrapper, never handed to Unmarshal*
	}
	switch path {
	case "MarshalAny":
		if r, err := graphql.UnmarshalAny(d); err != nil || !reflect.DeepEqual(r, d) {
			return "UnmarshalAny:round-trip-differs", fmt.Sprintf("UnmarshalAny(%#v) = %#v, %v", d, r, err), true
		}
	case "MarshalMap":
		if r, err := graphql.UnmarshalMap(d); err != nil || !reflect.DeepEqual(any(r), d) {
			return "UnmarshalMap:round-trip-differs", fmt.Sprintf("UnmarshalMap(%#v) = %#v, %v", d, r, err), true
		}
	}
	return "", "", true
}

func runAnyDomain(thorough bool) {
	leaves := anyLeaves()
	nl := 8
	if thorough {
		nl = len(leaves)
	}
	keySets := [][]string{{}, {"a"}, {"\"\n<"}, {"a", ""}, {"\xC0"}}
	if thorough {
		keySets = append(keySets, []string{"é"}, []string{"\xC0", "a"})
	}
	eval := func(r *jobResult, n *tnode) {
		if n.containers() > 0 {
			r.nontriv("atree:" + n.String())
		}
		for _, p := range anyPaths {
			sig, what, ok := checkAnyTree(p, n, leaves)
			if !ok {
				continue
			}
			r.evals++
			if sig != "" {
				r.fail(sig, what, map[string]any{"domain": "any-tree", "path": p, "tree": n})
			}
		}
		if n.K == "object" && len(n.Kids) == 2 && n.Kids[0].K == "array" && len(n.Kids[0].Kids) == 2 && n.Kids[0].Kids[0].K == "leaf" && n.Kids[0].Kids[0].Leaf == 3 &&
			n.Kids[0].Kids[1].K == "leaf" && n.Kids[0].Kids[1].Leaf == 5 && n.Kids[1].K == "leaf" && n.Kids[1].Leaf == 2 {
			r.samples = append(r.samples, map[string]any{"domain": "any-tree", "tree": n})
		}
	}
	jobs, l2 := depth3Jobs(nl, keySets, eval)
	runDomain("any-map-compositions", fmt.Sprintf("every Go value of depth <= 3 built from []any (0..2 elements) and map[string]any (%d key sets) over %d leaves (incl. ill-formed strings, NaN, invalid json.Number) through %d paths; %d values of depth <= 2", len(keySets), nl, len(anyPaths), l2), jobs)
}

// ---- Omittable[T] for concrete T ---------------------------------------------------------------

type omitCase struct {
	name string
	run  func() [][2]string // every (signature, description) that failed
}

// omit checks one Omittable[T]: the three marshal methods give strict JSON denoting expected
// (or report/avoid invalid output for an unrepresentable value), and the unmarshal methods give
// the value back.
func omit[T any](desc string, o graphql.Omittable[T], expected any, unrep bool, roundTrip bool) omitCase {
	return omitJ(desc, o, expected, unrep, roundTrip, true)
}

// omitJ: withJSON=false for T that encoding/json cannot encode at all (function-typed marshalers).
func omitJ[T any](desc string, o graphql.Omittable[T], expected any, unrep bool, roundTrip bool, withJSON bool) omitCase {
	return omitCase{desc, func() (fails [][2]string) {
		type res struct {
			method string
			out    []byte
			pan    any
			err    error
		}
		var rs []res
		out, pan := marshalToBytes(o)
		rs = append(rs, res{"MarshalGQL", out, pan, nil})
		func() {
			var buf bytes.Buffer
			var pan any
			func() {
				defer func() { pan = recover() }()
				o.MarshalGQLContext(responseCtx(), &buf)
			}()
			rs = append(rs, res{"MarshalGQLContext", buf.Bytes(), pan, nil})
		}()
		if withJSON {
			jb, jerr := json.Marshal(o)
			rs = append(rs, res{"MarshalJSON", jb, nil, jerr})
		}
		for _, r := range rs {
			name := "Omittable." + r.method
			if unrep {
				reported := r.err != nil
				if e, ok := r.pan.(error); ok && e != nil {
					reported = true
				}
				if reported && len(r.out) == 0 {
					continue
				}
				if r.pan == nil && r.err == nil && validateJSON(r.out) == nil {
					continue
				}
				fails = append(fails, [2]string{name + ":unrepresentable-value-invalid-output-no-error",
					fmt.Sprintf("%s of %s wrote %s (error %v, panic %v): a value JSON cannot represent was neither reported nor written as valid JSON", name, desc, show(r.out), r.err, r.pan)})
				continue
			}
			if r.err != nil {
				fails = append(fails, [2]string{name + ":marshal-error", fmt.Sprintf("%s of %s returned %v", name, desc, r.err)})
				continue
			}
			if _, class, w := checkWire(r.out, r.pan, expected, false); class != "" {
				fails = append(fails, [2]string{name + ":" + class, fmt.Sprintf("%s of %s: %s", name, desc, w)})
				continue
			}
			if !roundTrip {
				continue
			}
			for _, un := range []string{"UnmarshalGQL", "UnmarshalGQLContext", "UnmarshalJSON"} {
				var back graphql.Omittable[T]
				var err error
				switch un {
				case "UnmarshalGQL":
					err = back.UnmarshalGQL(r.out)
				case "UnmarshalGQLContext":
					err = back.UnmarshalGQLContext(context.Background(), r.out)
				default:
					err = json.Unmarshal(r.out, &back)
				}
				// compare through the wire model (strings come back with U+FFFD for ill-formed bytes)
				gb, _ := json.Marshal(back.Value())
				gd, derr := decodeJSON(gb)
				if err != nil || derr != nil || !back.IsSet() || !jsonEqual(expected, gd) {
					fails = append(fails, [2]string{"Omittable." + un + ":round-trip-differs", fmt.Sprintf("%s of %s wrote %s; %s gave %#v (set=%v, err=%v)", name, desc, show(r.out), un, back.Value(), back.IsSet(), err)})
				}
			}
		}
		return fails
	}}
}

func omittableCases() []omitCase {
	str := "p\"\xff"
	var cs []omitCase
	for _, v := range []int{0, -1, math.MaxInt64, math.MinInt64} {
		cs = append(cs, omit(fmt.Sprintf("OmittableOf[int](%d)", v), graphql.OmittableOf(v), v, false, true))
	}
	for _, v := range []uint64{0, math.MaxUint64} {
		cs = append(cs, omit(fmt.Sprintf("OmittableOf[uint64](%d)", v), graphql.OmittableOf(v), v, false, true))
	}
	for _, v := range []float64{0, 1.5, -1e21, 5e-324, math.MaxFloat64, math.Copysign(0, -1)} {
		cs = append(cs, omit(fmt.Sprintf("OmittableOf[float64](%v)", v), graphql.OmittableOf(v), v, false, true))
	}
	for _, v := range []float64{math.NaN(), math.Inf(1), math.Inf(-1)} {
		cs = append(cs, omit(fmt.Sprintf("OmittableOf[float64](%v)", v), graphql.OmittableOf(v), nil, true, false))
		v := v
		cs = append(cs, omit(fmt.Sprintf("OmittableOf[*float64](&%v)", v), graphql.OmittableOf(&v), nil, true, false))
		cs = append(cs, omitJ(fmt.Sprintf("OmittableOf[ContextMarshaler](MarshalFloatContext(%v))", v), graphql.OmittableOf(graphql.MarshalFloatContext(v)), nil, true, false, false))
	}
	for _, v := range []bool{false, true} {
		cs = append(cs, omit(fmt.Sprintf("OmittableOf[bool](%v)", v), graphql.OmittableOf(v), v, false, true))
	}
	for _, v := range []string{"", "a", "\"\\\n\x00", str, "é <"} {
		cs = append(cs, omit(fmt.Sprintf("OmittableOf[string](%q)", v), graphql.OmittableOf(v), v, false, true))
		v := v
		cs = append(cs, omit(fmt.Sprintf("OmittableOf[*string](&%q)", v), graphql.OmittableOf(&v), v, false, true))
		cs = append(cs, omit(fmt.Sprintf("OmittableOf[[]string]({%q,\"\"})", v), graphql.OmittableOf([]string{v, ""}), []any{v, ""}, false, true))
		cs = append(cs, omit(fmt.Sprintf("OmittableOf[map[string]string]({%q:%q})", v, v), graphql.OmittableOf(map[string]string{v: v}), map[string]any{v: v}, false, true))
		cs = append(cs, omitJ(fmt.Sprintf("OmittableOf[Marshaler](MarshalAny(%q))", v), graphql.OmittableOf(graphql.MarshalAny(v)), v, false, false, false))
	}
	cs = append(cs, omit("OmittableOf[*string](nil)", graphql.OmittableOf[*string](nil), nil, false, true))
	cs = append(cs, omitJ("OmittableOf[Marshaler](MarshalInt(-1))", graphql.OmittableOf(graphql.MarshalInt(-1)), -1, false, false, false))
	cs = append(cs, omitJ("OmittableOf[ContextMarshaler](MarshalFloatContext(1.5))", graphql.OmittableOf(graphql.MarshalFloatContext(1.5)), 1.5, false, false, false))
	// not set: the zero value is written
	cs = append(cs, omit("Omittable[int]{} (not set)", graphql.Omittable[int]{}, 0, false, true))
	cs = append(cs, omit("Omittable[string]{} (not set)", graphql.Omittable[string]{}, "", false, true))
	cs = append(cs, omit("Omittable[*string]{} (not set)", graphql.Omittable[*string]{}, nil, false, true))
	cs = append(cs, omit("Omittable[[]string]{} (not set)", graphql.Omittable[[]string]{}, nil, false, true))
	cs = append(cs, omit("Omittable[float64]{} (not set)", graphql.Omittable[float64]{}, 0.0, false, true))
	return cs
}

func runOmittableDomain() {
	cs := omittableCases()
	runDomain("omittable", fmt.Sprintf("%d Omittable[T] values (T = int, uint64, float64 incl. non-finite, bool, string, *string, []string, map, Marshaler, ContextMarshaler; set and not set) x 3 marshal x 3 unmarshal methods", len(cs)), []job{func(r *jobResult) {
		for i, oc := range cs {
			r.evals++
			r.nontriv("omittable:" + oc.name)
			for _, f := range oc.run() {
				r.fail(f[0], f[1], map[string]any{"domain": "omittable", "index": i, "case": oc.name})
			}
		}
		r.samples = append(r.samples, map[string]any{"domain": "omittable", "case": cs[len(cs)/2].name})
	}})
}

// ---- graphql.Response ---------------------------------------------------------------------------

type respCase struct {
	Data, Err, Label, Path, HasNext, Ext int
}

type respData struct {
	raw        func() json.RawMessage
	expected   any
	hasInvalid bool
}

func respDatas() []respData {
	fs := func(alias string, m graphql.Marshaler) func() json.RawMessage {
		return func() json.RawMessage {
			var buf bytes.Buffer
			fieldSet([]string{alias}, []graphql.Marshaler{m}).MarshalGQL(&buf)
			return buf.Bytes()
		}
	}
	return []respData{
		{func() json.RawMessage { return nil }, nil, false},
		{func() json.RawMessage { return json.RawMessage("null") }, nil, false},
		{fs("a", graphql.MarshalInt(1)), map[string]any{"a": 1}, false},
		{fs("k\"\n", graphql.MarshalString("é< \x00")), map[string]any{"k\"\n": "é< \x00"}, false},
		{fs("m", graphql.MarshalMap(map[string]any{"x": nil})), map[string]any{"m": map[string]any{"x": nil}}, false},
		{fs("s", graphql.MarshalString("\xff")), map[string]any{"s": "\xff"}, true},
	}
}

func buildResponse(rc respCase) (*graphql.Response, any, bool) {
	ds := respDatas()
	resp := &graphql.Response{Data: ds[rc.Data].raw()}
	exp := map[string]any{"data": ds[rc.Data].expected}
	switch rc.Err {
	case 1:
		resp.Errors = gqlerror.List{{Message: "m\"\n\xff<", Path: ast.Path{ast.PathName("a\xfe"), ast.PathIndex(1)}, Extensions: map[string]any{"code": "X"}}}
		exp["errors"] = []any{map[string]any{"message": "m\"\n\xff<", "path": []any{"a\xfe", 1}, "extensions": map[string]any{"code": "X"}}}
	case 2:
		resp.Errors = gqlerror.List{{Message: ""}, {Message: "second", Locations: []gqlerror.Location{{Line: 1, Column: 2}}}}
		exp["errors"] = []any{map[string]any{"message": ""}, map[string]any{"message": "second", "locations": []any{map[string]any{"line": 1, "column": 2}}}}
	}
	labels := []string{"", "l\"\\\x00", "\xffé"}
	if l := labels[rc.Label]; l != "" {
		resp.Label = l
		exp["label"] = l
	}
	if rc.Path == 1 {
		resp.Path = ast.Path{ast.PathName("p\"\x80"), ast.PathIndex(0)}
		exp["path"] = []any{"p\"\x80", 0}
	}
	switch rc.HasNext {
	case 1, 2:
		b := rc.HasNext == 1
		resp.HasNext = &b
		exp["hasNext"] = b
	}
	switch rc.Ext {
	case 1:
		resp.Extensions = map[string]any{"k\xff": "v\xff"}
		exp["extensions"] = map[string]any{"k\xff": "v\xff"}
	case 2:
		resp.Extensions = map[string]any{"n": 1.5, "z": nil, "big": uint64(math.MaxUint64)}
		exp["extensions"] = map[string]any{"n": 1.5, "z": nil, "big": uint64(math.MaxUint64)}
	}
	return resp, exp, ds[rc.Data].hasInvalid
}

func checkResponse(rc respCase) (sig, what string) {
	resp, exp, hasInvalid := buildResponse(rc)
	out, err := json.Marshal(resp)
	if err != nil {
		if hasInvalid {
			return "Response:data-with-ill-formed-utf8-rejected", fmt.Sprintf("json.Marshal(Response%+v) returned %v", rc, err)
		}
		return "Response:marshal-error", fmt.Sprintf("json.Marshal(Response%+v) returned %v", rc, err)
	}
	if _, class, w := checkWire(out, nil, exp, hasInvalid); class != "" {
		return "Response:" + class, fmt.Sprintf("json.Marshal(Response%+v): %s", rc, w)
	}
	return "", ""
}

func runResponseDomain() {
	nd := len(respDatas())
	var cases []respCase
	for d := 0; d < nd; d++ {
		for e := 0; e < 3; e++ {
			for l := 0; l < 3; l++ {
				for p := 0; p < 2; p++ {
					for h := 0; h < 3; h++ {
						for x := 0; x < 3; x++ {
							cases = append(cases, respCase{d, e, l, p, h, x})
						}
					}
				}
			}
		}
	}
	runDomain("response", fmt.Sprintf("graphql.Response JSON encoding: %d data payloads (written by FieldSet) x 3 error lists x 3 labels x 2 paths x 3 hasNext x 3 extensions", nd), []job{func(r *jobResult) {
		for _, rc := range cases {
			r.evals++
			if rc != (respCase{}) {
				r.nontriv(fmt.Sprintf("response:%+v", rc))
			}
			if sig, what := checkResponse(rc); sig != "" {
				r.fail(sig, what, map[string]any{"domain": "response", "case": rc})
			}
		}
		r.samples = append(r.samples, map[string]any{"domain": "response", "case": cases[len(cases)/3]})
	}})
}

var _ = common.Root

package main

import (
	"bytes"
	"context"
	"encoding/hex"
	"encoding/json"
	"fmt"
	"math"
	"math/big"
	"strconv"
	"strings"
	"time"

	"github.com/99designs/gqlgen/graphql"
	"github.com/google/uuid"
)

// ---- Float ---------------------------------------------------------------------------------

var mantissas = []uint64{
	0, 1, 2, 0xFFFFFFFFFFFFF, 0xFFFFFFFFFFFFE, 0x8000000000000, 0x8000000000001,
	0x5555555555555, 0xAAAAAAAAAAAAA, 0x0000000FFFFFF, 0xFFFFFFF000000, 0x999999999999A,
}

var floatLiterals = []float64{0.1, 0.2, 0.3, 1e-4, 1e-5, 9.5e-5, 1e20, 1e21, 1e22, 123456789, 1e6, 1e7, 0.000001, 1.5, -2.5,
	9007199254740993, 4.9406564584124654e-324, 2.2250738585072014e-308, 1.7976931348623157e308, 3.141592653589793, 100, 1e100}

func responseCtx() context.Context {
	return graphql.WithResponseContext(context.Background(), graphql.DefaultErrorPresenter, graphql.DefaultRecover)
}

// checkFloat is the oracle for one float64 through one marshal path.
// fn: MarshalFloat | MarshalFloatContext | WrapContextMarshaler(MarshalFloatContext)
func checkFloat(fn string, f float64) (sig, what string) {
	finite := !math.IsInf(f, 0) && !math.IsNaN(f)
	var out []byte
	var pan any
	switch fn {
	case "MarshalFloat":
		if !finite {
			return "", "" // outside the statement: not the default binding
		}
		out, pan = marshalToBytes(graphql.MarshalFloat(f))
	case "MarshalFloatContext":
		var buf bytes.Buffer
		var err error
		func() {
			defer func() {
				if r := recover(); r != nil {
					pan = r
				}
			}()
			err = graphql.MarshalFloatContext(f).MarshalGQLContext(context.Background(), &buf)
		}()
		out = buf.Bytes()
		if pan == nil && !finite {
			if err == nil {
				return fn + ":non-finite-no-error", fmt.Sprintf("%s(%v) returned no error and wrote %s", fn, f, show(out))
			}
			if len(out) != 0 {
				return fn + ":non-finite-token-emitted", fmt.Sprintf("%s(%v) returned an error but wrote %s", fn, f, show(out))
			}
			return "", ""
		}
		if pan == nil && err != nil {
			return fn + ":finite-rejected", fmt.Sprintf("%s(%v) returned error %v", fn, f, err)
		}
	case "WrapContextMarshaler(MarshalFloatContext)":
		ctx := responseCtx()
		out, pan = marshalToBytes(graphql.WrapContextMarshaler(ctx, graphql.MarshalFloatContext(f)))
		if pan == nil && !finite {
			errs := graphql.GetErrors(ctx)
			if string(out) != "null" || len(errs) != 1 {
				return fn + ":non-finite-not-null-plus-error", fmt.Sprintf("%s(%v) wrote %s with %d errors", fn, f, show(out), len(errs))
			}
			// the enclosing list / object stays well formed
			return checkNested(fn, func() graphql.Marshaler {
				return graphql.WrapContextMarshaler(responseCtx(), graphql.MarshalFloatContext(f))
			}, nil)
		}
		if pan == nil && len(graphql.GetErrors(ctx)) != 0 {
			return fn + ":finite-rejected", fmt.Sprintf("%s(%v) recorded an error", fn, f)
		}
	}
	d, class, w := checkWire(out, pan, f, false)
	if class != "" {
		return fn + ":" + class, fmt.Sprintf("%s(%b = %v): %s", fn, f, f, w)
	}
	switch fn {
	case "MarshalFloat":
		if sig, what := checkNested(fn, func() graphql.Marshaler { return graphql.MarshalFloat(f) }, d); sig != "" {
			return sig, fmt.Sprintf("%s(%v): %s", fn, f, what)
		}
	case "WrapContextMarshaler(MarshalFloatContext)":
		if sig, what := checkNested(fn, func() graphql.Marshaler {
			return graphql.WrapContextMarshaler(responseCtx(), graphql.MarshalFloatContext(f))
		}, d); sig != "" {
			return sig, fmt.Sprintf("%s(%v): %s", fn, f, what)
		}
	}
	n := d.(json.Number)
	var plain any
	if err := json.Unmarshal(out, &plain); err != nil {
		return fn + ":decoded-differs", fmt.Sprintf("plain decode of %s failed: %v", show(out), err)
	}
	for _, in := range []struct {
		cname string
		x     any
	}{{"json.Number", n}, {"float64", plain}, {"string", string(n)}} {
		for _, un := range []string{"UnmarshalFloat", "UnmarshalFloatContext"} {
			res, err, upan := callTarget(findTarget(un), in.x)
			if upan != nil {
				return un + ":panic-on-own-wire-form", fmt.Sprintf("%s(%#v) panicked: %v", un, in.x, upan)
			}
			if err != nil {
				return un + ":rejects-own-wire-form", fmt.Sprintf("%s(%v) wrote %s; %s(%s %#v) returned error %v", fn, f, show(out), un, in.cname, in.x, err)
			}
			if math.Float64bits(res.(float64)) != math.Float64bits(f) {
				return un + ":round-trip-differs", fmt.Sprintf("%s(%v) wrote %s; %s(%s %#v) = %v", fn, f, show(out), un, in.cname, in.x, res)
			}
		}
	}
	return "", ""
}

var floatFns = []string{"MarshalFloat", "MarshalFloatContext", "WrapContextMarshaler(MarshalFloatContext)"}

func runFloatDomain() {
	var jobs []job
	for e := uint64(0); e < 2048; e += 64 {
		e0 := e
		jobs = append(jobs, func(r *jobResult) {
			for e := e0; e < e0+64; e++ {
				for sign := uint64(0); sign < 2; sign++ {
					for _, m := range mantissas {
						bits := sign<<63 | e<<52 | m
						f := math.Float64frombits(bits)
						for _, fn := range floatFns {
							r.evals++
							if sig, what := checkFloat(fn, f); sig != "" {
								r.fail(sig, what, map[string]any{"domain": "float", "fn": fn, "bits": fmt.Sprintf("%016x", bits)})
							}
						}
						if bits != 0 {
							r.nontriv(fmt.Sprintf("float:%016x", bits))
						}
						if bits == 0x7ff0000000000000 || bits == 0x0000000000000001 {
							r.samples = append(r.samples, map[string]any{"domain": "float", "bits": fmt.Sprintf("%016x", bits), "value": fmt.Sprint(f)})
						}
					}
				}
			}
		})
	}
	jobs = append(jobs, func(r *jobResult) {
		for _, f := range floatLiterals {
			for _, g := range []float64{f, -f} {
				for _, fn := range floatFns {
					r.evals++
					if sig, what := checkFloat(fn, g); sig != "" {
						r.fail(sig, what, map[string]any{"domain": "float", "fn": fn, "bits": fmt.Sprintf("%016x", math.Float64bits(g))})
					}
				}
				r.nontriv(fmt.Sprintf("float:%016x", math.Float64bits(g)))
			}
		}
	})
	runDomain("floats", fmt.Sprintf("2 signs x all 2048 exponent fields x %d mantissa patterns + %d literals, x 3 marshal paths", len(mantissas), 2*len(floatLiterals)), jobs)
}

// ---- Boolean -------------------------------------------------------------------------------

func checkBool(b bool) (sig, what string) {
	out, pan := marshalToBytes(graphql.MarshalBoolean(b))
	d, class, w := checkWire(out, pan, b, false)
	if class != "" {
		return "MarshalBoolean:" + class, w
	}
	res, err := graphql.UnmarshalBoolean(d)
	if err != nil || res != b {
		return "UnmarshalBoolean:round-trip-differs", fmt.Sprintf("MarshalBoolean(%v) wrote %s; UnmarshalBoolean = %v, %v", b, show(out), res, err)
	}
	return "", ""
}

func runBoolDomain() {
	runDomain("booleans", "true, false", []job{func(r *jobResult) {
		for _, b := range []bool{false, true} {
			r.evals++
			r.nontriv(fmt.Sprint("bool:", b))
			if sig, what := checkBool(b); sig != "" {
				r.fail(sig, what, map[string]any{"domain": "bool", "value": b})
			}
		}
	}})
}

// ---- Time ----------------------------------------------------------------------------------

// rfc3339Fields is an independent strict reader of the RFC 3339 date-time production.
func rfc3339Fields(s string) (y, mo, d, h, mi, sec, ns, off int, ok bool) {
	num := func(a, b int) int {
		if b > len(s) {
			ok = false
			return 0
		}
		n := 0
		for _, c := range []byte(s[a:b]) {
			if !isDigit(c) {
				ok = false
				return 0
			}
			n = n*10 + int(c-'0')
		}
		return n
	}
	ok = true
	if len(s) < 20 || s[4] != '-' || s[7] != '-' || s[10] != 'T' || s[13] != ':' || s[16] != ':' {
		return 0, 0, 0, 0, 0, 0, 0, 0, false
	}
	y, mo, d, h, mi, sec = num(0, 4), num(5, 7), num(8, 10), num(11, 13), num(14, 16), num(17, 19)
	i := 19
	if s[i] == '.' {
		i++
		st := i
		for i < len(s) && isDigit(s[i]) {
			i++
		}
		if i == st || i-st > 9 {
			return 0, 0, 0, 0, 0, 0, 0, 0, false
		}
		ns = num(st, i)
		for k := i - st; k < 9; k++ {
			ns *= 10
		}
	}
	switch {
	case i < len(s) && s[i] == 'Z' && i+1 == len(s):
		off = 0
	case i+6 == len(s) && (s[i] == '+' || s[i] == '-') && s[i+3] == ':':
		off = num(i+1, i+3)*3600 + num(i+4, i+6)*60
		if s[i] == '-' {
			off = -off
		}
	default:
		ok = false
	}
	return
}

type timeCase struct {
	Y, Mo, D, H, Mi, S, Ns int
	ZoneName             string
	ZoneOff              int // seconds; -1<<31 = time.Local, 1<<31-1 = time.UTC
}

const (
	zLocal = -1 << 31
	zUTC   = 1<<31 - 1
)

func (tc timeCase) time() time.Time {
	var loc *time.Location
	switch tc.ZoneOff {
	case zLocal:
		loc = time.Local
	case zUTC:
		loc = time.UTC
	default:
		loc = time.FixedZone(tc.ZoneName, tc.ZoneOff)
	}
	return time.Date(tc.Y, time.Month(tc.Mo), tc.D, tc.H, tc.Mi, tc.S, tc.Ns, loc)
}

// timeRepresentable: RFC 3339 can express the value (displayed year 0..9999, zone offset in whole
// minutes and below 24h). Only then do the "denotes the original" and round-trip clauses apply;
// the validity clauses apply to EVERY time.Time.
func timeRepresentable(t time.Time) bool {
	_, off := t.Zone()
	if off < 0 {
		off = -off
	}
	return t.Year() >= 0 && t.Year() <= 9999 && off%60 == 0 && off < 24*3600
}

// checkNested: a scalar marshaler whose bare output decoded to d must keep its container well
// formed: inside an Array and inside a FieldSet the text is strict JSON decoding to [d,null] / {"k":d}.
func checkNested(fn string, mk func() graphql.Marshaler, d any) (sig, what string) {
	out, pan := marshalToBytes(graphql.Array{mk(), graphql.Null})
	if _, class, w := checkWire(out, pan, []any{d, nil}, false); class != "" {
		return fn + "(in Array):" + class, w
	}
	out, pan = marshalToBytes(fieldSet([]string{"k"}, []graphql.Marshaler{mk()}))
	if _, class, w := checkWire(out, pan, map[string]any{"k": d}, false); class != "" {
		return fn + "(in FieldSet):" + class, w
	}
	return "", ""
}

func checkTime(tc timeCase) (sig, what string) {
	t := tc.time()
	mk := func() graphql.Marshaler { return graphql.MarshalTime(t) }
	out, pan := marshalToBytes(mk())
	if t.IsZero() {
		if pan != nil || string(out) != "null" {
			return "MarshalTime:zero-not-null", fmt.Sprintf("MarshalTime(zero) wrote %s (panic %v)", show(out), pan)
		}
		return checkNested("MarshalTime", mk, nil)
	}
	if pan != nil {
		return "MarshalTime:panic", fmt.Sprintf("MarshalTime(%v) panicked: %v", t, pan)
	}
	// clause 1, for every time.Time: the bytes are a strict JSON text, a string, bare and nested
	if e := validateJSON(out); e != nil {
		return "MarshalTime:invalid-json:" + e.Kind, fmt.Sprintf("MarshalTime(%v) wrote %s: %s at %d", t, show(out), e.Kind, e.Off)
	}
	d, err := decodeJSON(out)
	s, isStr := d.(string)
	if err != nil || !isStr {
		return "MarshalTime:decoded-differs", fmt.Sprintf("MarshalTime(%v) wrote %s which is not a JSON string", t, show(out))
	}
	if sig, what := checkNested("MarshalTime", mk, s); sig != "" {
		return sig, fmt.Sprintf("MarshalTime(%v): %s", t, what)
	}
	if !timeRepresentable(t) {
		// RFC 3339 cannot express this value; UnmarshalTime may reject the string or (sub-minute
		// zone offsets) shift the instant. It must not panic.
		if _, _, upan := callTarget(&target{call: func(v any) (any, error) { return graphql.UnmarshalTime(v) }}, s); upan != nil {
			return "UnmarshalTime:panic", fmt.Sprintf("UnmarshalTime(%q) panicked: %v", s, upan)
		}
		return "", ""
	}
	// clause 2, representable values: same calendar fields, nanoseconds and offset
	y, mo, dd, h, mi, sec, ns, off, ok := rfc3339Fields(s)
	_, wantOff := t.Zone()
	if !ok || y != t.Year() || mo != int(t.Month()) || dd != t.Day() || h != t.Hour() || mi != t.Minute() || sec != t.Second() ||
		ns != t.Nanosecond() || off != wantOff {
		return "MarshalTime:decoded-differs", fmt.Sprintf("MarshalTime(%s, offset %ds) wrote %s which does not denote that time", t.Format("2006-01-02T15:04:05.999999999"), wantOff, show(out))
	}
	// clause 3, representable values: UnmarshalTime gives the original back
	back, err := graphql.UnmarshalTime(s)
	if err != nil {
		return "UnmarshalTime:rejects-own-wire-form", fmt.Sprintf("MarshalTime wrote %s; UnmarshalTime returned %v", show(out), err)
	}
	_, gotOff := back.Zone()
	if !back.Equal(t) || gotOff != wantOff {
		return "UnmarshalTime:round-trip-differs", fmt.Sprintf("MarshalTime wrote %s; UnmarshalTime gave %v (offset %d), original %v (offset %d)", show(out), back, gotOff, t, wantOff)
	}
	return "", ""
}

func timeGrid() []timeCase {
	type zone struct {
		name string
		off  int
	}
	zones := []zone{{"UTC", zUTC}, {"JST", 9 * 3600}, {"X", 0}, {"A", 3600}, {"B", -5 * 3600}, {"IST", 5*3600 + 1800}, {"NPT", 5*3600 + 2700},
		{"P14", 14 * 3600}, {"M12", -12 * 3600}, {"P2359", 23*3600 + 59*60}, {"M2359", -(23*3600 + 59*60)}, {"M0001", -60},
		// beyond RFC 3339 (validity clauses only): 24h and more, sub-minute offsets
		{"P24", 24 * 3600}, {"M24", -24 * 3600}, {"P25", 25 * 3600}, {"M99", -99 * 3600}, {"LMT", 19*60 + 32}, {"M1s", -1}, {"P235959", 24*3600 - 1}}
	dates := [][3]int{{0, 1, 1}, {0, 2, 29}, {0, 12, 31}, {1, 1, 1}, {1, 1, 2}, {999, 12, 31}, {1000, 1, 1}, {1582, 10, 10}, {1900, 2, 28}, {1969, 12, 31}, {1970, 1, 1},
		{2000, 2, 29}, {2024, 2, 29}, {2038, 1, 19}, {2262, 4, 11}, {2262, 4, 12}, {9999, 1, 1}, {9999, 12, 31},
		// beyond RFC 3339 (validity clauses only)
		{-1, 12, 31}, {-1, 1, 1}, {-1000, 6, 15}, {10000, 1, 1}, {36812, 2, 20}, {99999, 12, 31}, {-292277022399, 1, 1}, {292277026596, 12, 4}}
	clocks := [][3]int{{0, 0, 0}, {0, 0, 1}, {12, 34, 56}, {23, 59, 59}, {3, 14, 7}}
	nanos := []int{0, 1, 10, 100, 999, 1000, 999999, 1000000, 100000000, 120000000, 123456789, 500000000, 999999999, 999999990, 900000000}
	var out []timeCase
	for _, d := range dates {
		for _, cl := range clocks {
			for _, ns := range nanos {
				for _, z := range zones {
					out = append(out, timeCase{d[0], d[1], d[2], cl[0], cl[1], cl[2], ns, z.name, z.off})
				}
			}
		}
	}
	return out
}

func runTimeDomain() {
	grid := timeGrid()
	const chunk = 512
	var jobs []job
	for a := 0; a < len(grid); a += chunk {
		part := grid[a:min(a+chunk, len(grid))]
		first := a == 0
		jobs = append(jobs, func(r *jobResult) {
			for i, tc := range part {
				r.evals += 3 // bare, in an Array, in a FieldSet
				if !tc.time().IsZero() {
					r.nontriv(fmt.Sprintf("time:%+v", tc))
				}
				if sig, what := checkTime(tc); sig != "" {
					r.fail(sig, what, map[string]any{"domain": "time", "case": tc})
				}
				if first && i == 37 {
					r.samples = append(r.samples, map[string]any{"domain": "time", "case": tc})
				}
			}
		})
	}
	runDomain("times", "26 dates (years 0,1,999,1000,1582,1900,1969,1970,2000,2024,2038,2262,9999 and, for the validity clauses only, -292277022399,-1000,-1,10000,36812,99999,292277026596) x 5 clocks x 15 nanosecond patterns x 19 zones (UTC, fixed offsets -23:59..+23:59 and, validity only, +-24h, +25h, -99h, +00:19:32, -00:00:01, +23:59:59); each bare, in an Array and in a FieldSet", jobs)
}

// ---- Duration ------------------------------------------------------------------------------

// isoDurationNs is an independent reader of ISO 8601 durations "[-]PnYnMnWnDTnHnMnS" with
// decimal fractions, evaluated exactly with the unit conventions named in the assumptions.
func isoDurationNs(s string) (*big.Rat, bool) {
	neg := false
	if len(s) > 0 && s[0] == '-' {
		neg = true
		s = s[1:]
	}
	if len(s) < 2 || s[0] != 'P' {
		return nil, false
	}
	s = s[1:]
	hour := new(big.Rat).SetInt64(3600e9)
	units := map[byte]*big.Rat{}
	mul := func(r *big.Rat, k int64) *big.Rat { return new(big.Rat).Mul(r, new(big.Rat).SetInt64(k)) }
	dateUnits := map[byte]*big.Rat{'Y': mul(hour, 24*365), 'M': mul(hour, 24*365/12), 'W': mul(hour, 24*7), 'D': mul(hour, 24)}
	timeUnits := map[byte]*big.Rat{'H': hour, 'M': new(big.Rat).SetInt64(60e9), 'S': new(big.Rat).SetInt64(1e9)}
	order := "YMWD"
	units = dateUnits
	total := new(big.Rat)
	pos := 0 // position in order: designators must appear in order, each at most once
	seenAny := false
	for len(s) > 0 {
		if s[0] == 'T' {
			if order == "HMS" {
				return nil, false
			}
			order, units, pos = "HMS", timeUnits, 0
			s = s[1:]
			if len(s) == 0 {
				return nil, false
			}
			continue
		}
		i := 0
		dots := 0
		for i < len(s) && (isDigit(s[i]) || s[i] == '.') {
			if s[i] == '.' {
				dots++
			}
			i++
		}
		if i == 0 || i >= len(s) || dots > 1 || s[0] == '.' || s[i-1] == '.' {
			return nil, false
		}
		u := s[i]
		k := -1
		for j := pos; j < len(order); j++ {
			if order[j] == u {
				k = j
			}
		}
		if k < 0 {
			return nil, false
		}
		pos = k + 1
		n, ok := new(big.Rat).SetString(s[:i])
		if !ok {
			return nil, false
		}
		total.Add(total, new(big.Rat).Mul(n, units[u]))
		seenAny = true
		s = s[i+1:]
	}
	if !seenAny {
		return nil, false
	}
	if neg {
		total.Neg(total)
	}
	return total, true
}

func checkDuration(dv time.Duration) (sig, what string) {
	out, pan := marshalToBytes(graphql.MarshalDuration(dv))
	if pan != nil {
		return "MarshalDuration:panic", fmt.Sprintf("MarshalDuration(%d) panicked: %v", int64(dv), pan)
	}
	if e := validateJSON(out); e != nil {
		return "MarshalDuration:invalid-json:" + e.Kind, fmt.Sprintf("MarshalDuration(%d) wrote %s", int64(dv), show(out))
	}
	d, err := decodeJSON(out)
	s, isStr := d.(string)
	if err != nil || !isStr {
		return "MarshalDuration:decoded-differs", fmt.Sprintf("MarshalDuration(%d) wrote %s which is not a JSON string", int64(dv), show(out))
	}
	if sig, what := checkNested("MarshalDuration", func() graphql.Marshaler { return graphql.MarshalDuration(dv) }, s); sig != "" {
		return sig, fmt.Sprintf("MarshalDuration(%dns): %s", int64(dv), what)
	}
	ns, ok := isoDurationNs(s)
	if !ok {
		class := "not-iso8601"
		switch {
		case dv == math.MinInt64:
			class = "min-int64-not-iso8601"
		case strings.HasSuffix(s, "T-0.000000001S"):
			class = "1ns-below-month-multiple-negative-seconds-component"
		}
		return "MarshalDuration:" + class, fmt.Sprintf("MarshalDuration(%dns) wrote %s which is not an ISO 8601 duration", int64(dv), show(out))
	}
	if ns.Cmp(new(big.Rat).SetInt64(int64(dv))) != 0 {
		return "MarshalDuration:decoded-differs", fmt.Sprintf("MarshalDuration(%dns) wrote %s which denotes %sns", int64(dv), show(out), ns.FloatString(3))
	}
	back, err := graphql.UnmarshalDuration(s)
	if err != nil {
		return "UnmarshalDuration:rejects-own-wire-form", fmt.Sprintf("MarshalDuration(%dns) wrote %s; UnmarshalDuration returned %v", int64(dv), show(out), err)
	}
	if back != dv {
		return "UnmarshalDuration:round-trip-differs", fmt.Sprintf("MarshalDuration(%dns) wrote %s; UnmarshalDuration gave %dns", int64(dv), show(out), int64(back))
	}
	return "", ""
}

func durationGrid() []time.Duration {
	const (
		day   = 24 * time.Hour
		week  = 7 * day
		year  = 365 * day
		month = year / 12
	)
	units := []time.Duration{1, 999, time.Microsecond, time.Millisecond, 500 * time.Millisecond, time.Second, 59 * time.Second,
		time.Minute, 59 * time.Minute, time.Hour, 23 * time.Hour, day, 6 * day, week, 3 * week, month, 11 * month, year, 100 * year, 292 * year}
	set := map[time.Duration]bool{0: true, math.MaxInt64: true, math.MaxInt64 - 1: true, math.MinInt64: true, math.MinInt64 + 1: true}
	// every single unit ±1ns, and every sum of two units ±1ns
	for i, a := range units {
		for _, e := range []time.Duration{-1, 0, 1} {
			set[a+e] = true
		}
		for _, b := range units[i:] {
			if a > math.MaxInt64/2 && b > math.MaxInt64/2 {
				continue
			}
			for _, e := range []time.Duration{-1, 0, 1} {
				set[a+b+e] = true
			}
		}
	}
	// every subset of the "one of each" units
	one := []time.Duration{1, time.Microsecond, time.Millisecond, time.Second, time.Minute, time.Hour, day, week, month, year}
	for m := 0; m < 1<<len(one); m++ {
		var s time.Duration
		for i, u := range one {
			if m&(1<<i) != 0 {
				s += u
			}
		}
		set[s] = true
	}
	var out []time.Duration
	for d := range set {
		out = append(out, d)
		if d != math.MinInt64 && d != 0 {
			out = append(out, -d)
		}
	}
	// sort: simplest (smallest magnitude) first, de-duplicate
	seen := map[time.Duration]bool{}
	var ded []time.Duration
	for _, d := range out {
		if !seen[d] {
			seen[d] = true
			ded = append(ded, d)
		}
	}
	abs := func(d time.Duration) uint64 {
		if d < 0 {
			return uint64(-(d + 1)) + 1
		}
		return uint64(d)
	}
	sortSlice(ded, func(a, b time.Duration) bool {
		if abs(a) != abs(b) {
			return abs(a) < abs(b)
		}
		return a > b
	})
	return ded
}

func runDurationDomain() {
	grid := durationGrid()
	const chunk = 256
	var jobs []job
	for a := 0; a < len(grid); a += chunk {
		part := grid[a:min(a+chunk, len(grid))]
		jobs = append(jobs, func(r *jobResult) {
			for _, d := range part {
				r.evals += 3 // bare, in an Array, in a FieldSet
				if d != 0 {
					r.nontriv("duration:" + strconv.FormatInt(int64(d), 10))
				}
				if sig, what := checkDuration(d); sig != "" {
					r.fail(sig, what, map[string]any{"domain": "duration", "ns": strconv.FormatInt(int64(d), 10)})
				}
				if d == time.Hour+time.Minute-1 {
					r.samples = append(r.samples, map[string]any{"domain": "duration", "ns": int64(d)})
				}
			}
		})
	}
	runDomain("durations", fmt.Sprintf("%d durations: 0, min/max int64 (+-1), 20 unit values and all pair sums each -1/0/+1 ns, all subsets of {1ns,1us,1ms,1s,1m,1h,1d,1w,1mo,1y}, both signs", len(grid)), jobs)
}

// ---- UUID ----------------------------------------------------------------------------------

func uuidGrid() []uuid.UUID {
	var out []uuid.UUID
	add := func(u uuid.UUID) { out = append(out, u) }
	add(uuid.Nil)
	var max uuid.UUID
	for i := range max {
		max[i] = 0xFF
	}
	add(max)
	for bit := 0; bit < 128; bit++ { // every single bit set / cleared
		var u uuid.UUID
		u[bit/8] = 1 << (bit % 8)
		add(u)
		v := max
		v[bit/8] &^= 1 << (bit % 8)
		add(v)
	}
	for n := 0; n < 16; n++ { // every nibble value in every position
		var u uuid.UUID
		for i := range u {
			u[i] = byte(n<<4 | n)
		}
		add(u)
	}
	base := uuid.UUID{0x01, 0x23, 0x45, 0x67, 0x89, 0xab, 0xcd, 0xef, 0xfe, 0xdc, 0xba, 0x98, 0x76, 0x54, 0x32, 0x10}
	for ver := 0; ver < 16; ver++ { // every version nibble x every variant nibble
		for vr := 0; vr < 16; vr++ {
			u := base
			u[6] = byte(ver<<4) | u[6]&0x0F
			u[8] = byte(vr<<4) | u[8]&0x0F
			add(u)
		}
	}
	return out
}

func checkUUID(id uuid.UUID) (sig, what string) {
	mk := func() graphql.Marshaler { return graphql.MarshalUUID(id) }
	out, pan := marshalToBytes(mk())
	if id == uuid.Nil {
		if pan != nil || string(out) != "null" {
			return "MarshalUUID:nil-not-null", fmt.Sprintf("MarshalUUID(Nil) wrote %s", show(out))
		}
		return checkNested("MarshalUUID", mk, nil)
	}
	h := hex.EncodeToString(id[:])
	canon := h[0:8] + "-" + h[8:12] + "-" + h[12:16] + "-" + h[16:20] + "-" + h[20:32]
	d, class, w := checkWire(out, pan, canon, false)
	if class != "" {
		return "MarshalUUID:" + class, fmt.Sprintf("MarshalUUID(%s): %s", h, w)
	}
	if sig, what := checkNested("MarshalUUID", mk, d); sig != "" {
		return sig, fmt.Sprintf("MarshalUUID(%s): %s", h, what)
	}
	for _, x := range []any{d, []byte(d.(string))} {
		back, err := graphql.UnmarshalUUID(x)
		if err != nil {
			return "UnmarshalUUID:rejects-own-wire-form", fmt.Sprintf("MarshalUUID(%s) wrote %s; UnmarshalUUID(%T) returned %v", h, show(out), x, err)
		}
		if back != id {
			return "UnmarshalUUID:round-trip-differs", fmt.Sprintf("MarshalUUID(%s) wrote %s; UnmarshalUUID(%T) gave %s", h, show(out), x, back)
		}
	}
	return "", ""
}

func runUUIDDomain() {
	grid := uuidGrid()
	runDomain("uuids", fmt.Sprintf("%d UUIDs: nil, max, every single bit set/cleared, every repeated nibble, 16 versions x 16 variant nibbles", len(grid)), []job{func(r *jobResult) {
		for i, id := range grid {
			r.evals += 3 // bare, in an Array, in a FieldSet
			if id != uuid.Nil {
				r.nontriv("uuid:" + hex.EncodeToString(id[:]))
			}
			if sig, what := checkUUID(id); sig != "" {
				r.fail(sig, what, map[string]any{"domain": "uuid", "hex": hex.EncodeToString(id[:])})
			}
			if i == 5 {
				r.samples = append(r.samples, map[string]any{"domain": "uuid", "hex": hex.EncodeToString(id[:])})
			}
		}
	}})
}

package main

import (
	"context"
	"encoding/json"
	"fmt"
	"math"
	"math/big"
	"sort"

	"github.com/99designs/gqlgen/graphql"
)

// ---- the integer boundary grid -------------------------------------------------------------

func pow2(k uint) *big.Int { return new(big.Int).Lsh(big.NewInt(1), k) }

// intGrid: for every width boundary (signed and unsigned 8/16/32/64) the values
// {min-1, min, min+1, max-1, max, max+1}, plus -1, 0, 1, plus ±2^k and ±2^k±1 for every k ≤ 64,
// plus 10^k and 10^k±1. Sorted, de-duplicated.
func intGrid() []*big.Int {
	set := map[string]*big.Int{}
	add := func(v *big.Int) { set[v.String()] = new(big.Int).Set(v) }
	add3 := func(v *big.Int) {
		add(new(big.Int).Sub(v, big.NewInt(1)))
		add(v)
		add(new(big.Int).Add(v, big.NewInt(1)))
	}
	for _, bits := range []uint{8, 16, 32, 64} {
		add3(new(big.Int).Neg(pow2(bits - 1)))                    // signed min
		add3(new(big.Int).Sub(pow2(bits-1), big.NewInt(1)))       // signed max
		add3(new(big.Int).Sub(pow2(bits), big.NewInt(1)))         // unsigned max
		add3(new(big.Int).Neg(new(big.Int).Sub(pow2(bits), big.NewInt(1)))) // -(unsigned max)
	}
	add3(big.NewInt(0))
	for k := uint(0); k <= 64; k++ {
		add3(pow2(k))
		add3(new(big.Int).Neg(pow2(k)))
	}
	ten := big.NewInt(1)
	for k := 0; k <= 19; k++ {
		add3(ten)
		ten = new(big.Int).Mul(ten, big.NewInt(10))
	}
	var out []*big.Int
	for _, v := range set {
		out = append(out, v)
	}
	sort.Slice(out, func(i, j int) bool {
		// simplest first: by absolute value, then positive before negative
		if c := out[i].CmpAbs(out[j]); c != 0 {
			return c < 0
		}
		return out[i].Sign() > out[j].Sign()
	})
	return out
}

func nearBoundary(v *big.Int) bool {
	for _, bits := range []uint{7, 8, 15, 16, 31, 32, 63, 64} {
		for _, b := range []*big.Int{pow2(bits), new(big.Int).Neg(pow2(bits))} {
			d := new(big.Int).Sub(v, b)
			if d.CmpAbs(big.NewInt(2)) <= 0 {
				return true
			}
		}
	}
	return false
}

// ---- carriers: every Go type an Unmarshal* function may be handed ---------------------------

type carrier struct {
	name string
	mk   func(v *big.Int) (any, bool) // false when the type cannot hold v exactly
}

func inRange(v *big.Int, lo, hi *big.Int) bool { return v.Cmp(lo) >= 0 && v.Cmp(hi) <= 0 }

func sRange(bits uint) (lo, hi *big.Int) {
	return new(big.Int).Neg(pow2(bits - 1)), new(big.Int).Sub(pow2(bits-1), big.NewInt(1))
}
func uRange(bits uint) (lo, hi *big.Int) {
	return big.NewInt(0), new(big.Int).Sub(pow2(bits), big.NewInt(1))
}

func carriers() []carrier {
	s := func(bits uint, conv func(int64) any) func(*big.Int) (any, bool) {
		lo, hi := sRange(bits)
		return func(v *big.Int) (any, bool) {
			if !inRange(v, lo, hi) {
				return nil, false
			}
			return conv(v.Int64()), true
		}
	}
	u := func(bits uint, conv func(uint64) any) func(*big.Int) (any, bool) {
		lo, hi := uRange(bits)
		return func(v *big.Int) (any, bool) {
			if !inRange(v, lo, hi) {
				return nil, false
			}
			return conv(v.Uint64()), true
		}
	}
	return []carrier{
		{"int", s(64, func(i int64) any { return int(i) })},
		{"int8", s(8, func(i int64) any { return int8(i) })},
		{"int16", s(16, func(i int64) any { return int16(i) })},
		{"int32", s(32, func(i int64) any { return int32(i) })},
		{"int64", s(64, func(i int64) any { return i })},
		{"uint", u(64, func(i uint64) any { return uint(i) })},
		{"uint8", u(8, func(i uint64) any { return uint8(i) })},
		{"uint16", u(16, func(i uint64) any { return uint16(i) })},
		{"uint32", u(32, func(i uint64) any { return uint32(i) })},
		{"uint64", u(64, func(i uint64) any { return i })},
		{"float32", func(v *big.Int) (any, bool) {
			f, acc := new(big.Float).SetInt(v).Float32()
			return f, acc == big.Exact && !math.IsInf(float64(f), 0)
		}},
		{"float64", func(v *big.Int) (any, bool) {
			f, acc := new(big.Float).SetInt(v).Float64()
			return f, acc == big.Exact && !math.IsInf(f, 0)
		}},
		{"json.Number", func(v *big.Int) (any, bool) { return json.Number(v.String()), true }},
		{"string", func(v *big.Int) (any, bool) { return v.String(), true }},
	}
}

// carrierValue is the exact number a carrier value holds (numeric strings included).
func carrierValue(x any) *big.Rat {
	if s, ok := x.(string); ok {
		return ratFromText(s)
	}
	return ratOfGo(x)
}

// ---- unmarshal targets ------------------------------------------------------------------------

type target struct {
	name   string
	kind   string // int | float | string | other
	signed bool
	bits   uint
	call   func(v any) (any, error)
}

func targets() []target {
	w := func(f any) func(any) (any, error) {
		switch f := f.(type) {
		case func(any) (int, error):
			return func(v any) (any, error) { return f(v) }
		case func(any) (int32, error):
			return func(v any) (any, error) { return f(v) }
		case func(any) (int64, error):
			return func(v any) (any, error) { return f(v) }
		case func(any) (uint, error):
			return func(v any) (any, error) { return f(v) }
		case func(any) (uint32, error):
			return func(v any) (any, error) { return f(v) }
		case func(any) (uint64, error):
			return func(v any) (any, error) { return f(v) }
		case func(any) (float64, error):
			return func(v any) (any, error) { return f(v) }
		case func(any) (string, error):
			return func(v any) (any, error) { return f(v) }
		case func(any) (bool, error):
			return func(v any) (any, error) { return f(v) }
		}
		panic("unsupported")
	}
	return []target{
		{"UnmarshalInt", "int", true, 64, w(graphql.UnmarshalInt)},
		{"UnmarshalInt32", "int", true, 32, w(graphql.UnmarshalInt32)},
		{"UnmarshalInt64", "int", true, 64, w(graphql.UnmarshalInt64)},
		{"UnmarshalUint", "int", false, 64, w(graphql.UnmarshalUint)},
		{"UnmarshalUint32", "int", false, 32, w(graphql.UnmarshalUint32)},
		{"UnmarshalUint64", "int", false, 64, w(graphql.UnmarshalUint64)},
		{"UnmarshalIntID", "int", true, 64, w(graphql.UnmarshalIntID)},
		{"UnmarshalUintID", "int", false, 64, w(graphql.UnmarshalUintID)},
		{"UnmarshalFloat", "float", true, 64, w(graphql.UnmarshalFloat)},
		{"UnmarshalFloatContext", "float", true, 64, func(v any) (any, error) {
			return graphql.UnmarshalFloatContext(context.Background(), v)
		}},
		{"UnmarshalString", "string", true, 0, w(graphql.UnmarshalString)},
		{"UnmarshalID", "string", true, 0, w(graphql.UnmarshalID)},
		{"UnmarshalBoolean", "other", true, 0, w(graphql.UnmarshalBoolean)},
	}
}

var allTargets = targets()

func findTarget(name string) *target {
	for i := range allTargets {
		if allTargets[i].name == name {
			return &allTargets[i]
		}
	}
	return nil
}

// callTarget runs the real unmarshaler, turning a panic into a value.
func callTarget(t *target, x any) (res any, err error, pan any) {
	defer func() {
		if r := recover(); r != nil {
			pan = r
		}
	}()
	res, err = t.call(x)
	return
}

// checkCarrier is the oracle for one (unmarshal function, carrier value) pair: the number must
// be kept exactly (to the nearest float64 for a Float target) or an error must be returned.
func checkCarrier(t *target, cname string, x any) (sig, what string) {
	res, err, pan := callTarget(t, x)
	if pan != nil {
		return t.name + ":panic-on-" + cname, fmt.Sprintf("%s(%s %#v) panicked: %v", t.name, cname, x, pan)
	}
	in := carrierValue(x)
	if err != nil || in == nil || t.kind == "other" {
		return "", "" // rejected, or not a numeric input, or not a numeric target
	}
	switch t.kind {
	case "int":
		out := ratOfGo(res)
		if out.Cmp(in) == 0 {
			return "", ""
		}
		class := cname + "-value-changed"
		lo, hi := uRange(t.bits)
		if t.signed {
			lo, hi = sRange(t.bits)
		}
		switch {
		case !in.IsInt():
			class = "fractional-" + cname + "-truncated"
		case in.Sign() < 0 && !t.signed:
			class = "negative-" + cname + "-wraps"
		case !inRange(in.Num(), lo, hi):
			class = "out-of-range-" + cname + "-wraps"
		}
		return t.name + ":" + class, fmt.Sprintf("%s(%s %#v) = %v with no error; the input number is %s", t.name, cname, x, res, in.RatString())
	case "float":
		want, _ := in.Float64()
		got := res.(float64)
		if got == want {
			return "", ""
		}
		return t.name + ":" + cname + "-not-nearest-float", fmt.Sprintf("%s(%s %#v) = %v, nearest float64 of %s is %v", t.name, cname, x, got, in.RatString(), want)
	case "string":
		out, ok := new(big.Rat).SetString(res.(string))
		if ok && out.Cmp(in) == 0 {
			return "", ""
		}
		// a float carrier is written with the shortest digits that identify it: the text must
		// denote that same float (it need not be the float's exact decimal expansion)
		if ok {
			switch f := x.(type) {
			case float64:
				if g, _ := out.Float64(); g == f {
					return "", ""
				}
			case float32:
				if g, _ := out.Float32(); g == f {
					return "", ""
				}
			}
		}
		return t.name + ":" + cname + "-value-changed", fmt.Sprintf("%s(%s %#v) = %q which does not denote %s", t.name, cname, x, res, in.RatString())
	}
	return "", ""
}

// ---- marshal/unmarshal pairs ------------------------------------------------------------------

type intPair struct {
	name    string // Marshal function
	un      string // its Unmarshal partner
	wireStr bool   // wire form is a JSON string (ID forms)
	mk      func(v *big.Int) (m graphql.Marshaler, orig any, ok bool)
}

func intPairs() []intPair {
	fit := func(v *big.Int, signed bool, bits uint) bool {
		lo, hi := uRange(bits)
		if signed {
			lo, hi = sRange(bits)
		}
		return inRange(v, lo, hi)
	}
	return []intPair{
		{"MarshalInt", "UnmarshalInt", false, func(v *big.Int) (graphql.Marshaler, any, bool) {
			if !fit(v, true, 64) {
				return nil, nil, false
			}
			return graphql.MarshalInt(int(v.Int64())), int(v.Int64()), true
		}},
		{"MarshalInt32", "UnmarshalInt32", false, func(v *big.Int) (graphql.Marshaler, any, bool) {
			if !fit(v, true, 32) {
				return nil, nil, false
			}
			return graphql.MarshalInt32(int32(v.Int64())), int32(v.Int64()), true
		}},
		{"MarshalInt64", "UnmarshalInt64", false, func(v *big.Int) (graphql.Marshaler, any, bool) {
			if !fit(v, true, 64) {
				return nil, nil, false
			}
			return graphql.MarshalInt64(v.Int64()), v.Int64(), true
		}},
		{"MarshalUint", "UnmarshalUint", false, func(v *big.Int) (graphql.Marshaler, any, bool) {
			if !fit(v, false, 64) {
				return nil, nil, false
			}
			return graphql.MarshalUint(uint(v.Uint64())), uint(v.Uint64()), true
		}},
		{"MarshalUint32", "UnmarshalUint32", false, func(v *big.Int) (graphql.Marshaler, any, bool) {
			if !fit(v, false, 32) {
				return nil, nil, false
			}
			return graphql.MarshalUint32(uint32(v.Uint64())), uint32(v.Uint64()), true
		}},
		{"MarshalUint64", "UnmarshalUint64", false, func(v *big.Int) (graphql.Marshaler, any, bool) {
			if !fit(v, false, 64) {
				return nil, nil, false
			}
			return graphql.MarshalUint64(v.Uint64()), v.Uint64(), true
		}},
		{"MarshalIntID", "UnmarshalIntID", true, func(v *big.Int) (graphql.Marshaler, any, bool) {
			if !fit(v, true, 64) {
				return nil, nil, false
			}
			return graphql.MarshalIntID(int(v.Int64())), int(v.Int64()), true
		}},
		{"MarshalUintID", "UnmarshalUintID", true, func(v *big.Int) (graphql.Marshaler, any, bool) {
			if !fit(v, false, 64) {
				return nil, nil, false
			}
			return graphql.MarshalUintID(uint(v.Uint64())), uint(v.Uint64()), true
		}},
	}
}

// checkIntPair: Marshal*(v) must be strict JSON denoting v (a number, or for the ID forms a
// string holding the decimal), and the partner Unmarshal* must give v back. It returns the
// decoded wire value for the cross-product step.
func checkIntPair(p *intPair, v *big.Int) (dec any, sig, what string) {
	m, orig, _ := p.mk(v)
	out, pan := marshalToBytes(m)
	var expected any = v
	if p.wireStr {
		expected = v.String()
	}
	d, class, w := checkWire(out, pan, expected, false)
	if class != "" {
		return nil, p.name + ":" + class, fmt.Sprintf("%s(%s): %s", p.name, v, w)
	}
	t := findTarget(p.un)
	res, err, upan := callTarget(t, d)
	switch {
	case upan != nil:
		return d, p.un + ":panic-on-own-wire-form", fmt.Sprintf("%s(%#v) panicked: %v", p.un, d, upan)
	case err != nil:
		return d, p.un + ":rejects-own-wire-form", fmt.Sprintf("%s(%s) wrote %s; %s(%#v) returned error %v", p.name, v, show(out), p.un, d, err)
	case res != orig:
		return d, p.un + ":round-trip-differs", fmt.Sprintf("%s(%s) wrote %s; %s(%#v) = %v", p.name, v, show(out), p.un, d, res)
	}
	return d, "", ""
}

func runIntDomain() {
	grid := intGrid()
	cs := carriers()
	ts := targets()
	ps := intPairs()
	var jobs []job
	// one job per grid value: pairs, cross product of wire forms, native carriers
	for _, v := range grid {
		v := v
		jobs = append(jobs, func(r *jobResult) {
			nt := func(desc string, cond bool) {
				if cond {
					r.nontriv(desc)
				}
			}
			for i := range ps {
				p := &ps[i]
				if _, _, ok := p.mk(v); !ok {
					continue
				}
				r.evals++
				nt("int:"+p.name+":"+v.String(), v.Sign() != 0)
				d, sig, what := checkIntPair(p, v)
				if sig != "" {
					r.fail(sig, what, map[string]any{"domain": "intpair", "marshal": p.name, "value": v.String()})
				}
				if d == nil {
					continue
				}
				// cross product: the wire form of every Marshal* into every Unmarshal*
				cname := "json.Number"
				if p.wireStr {
					cname = "string"
				}
				for j := range ts {
					t := &ts[j]
					r.evals++
					nt("int:"+p.name+"->"+t.name+":"+v.String(), v.Sign() != 0 && t.name != p.un)
					if sig, what := checkCarrier(t, cname, d); sig != "" {
						r.fail(sig, what+fmt.Sprintf(" (input is the wire form of %s(%s))", p.name, v),
							map[string]any{"domain": "intcarrier", "unmarshal": t.name, "carrier": cname, "value": v.String()})
					}
				}
			}
			for _, cr := range cs {
				x, ok := cr.mk(v)
				if !ok {
					continue
				}
				for j := range ts {
					t := &ts[j]
					r.evals++
					nt("int:"+cr.name+"->"+t.name+":"+v.String(), v.Sign() != 0 || nearBoundary(v))
					if sig, what := checkCarrier(t, cr.name, x); sig != "" {
						r.fail(sig, what, map[string]any{"domain": "intcarrier", "unmarshal": t.name, "carrier": cr.name, "value": v.String()})
					}
				}
			}
			if v.Cmp(big.NewInt(-1)) == 0 {
				r.samples = append(r.samples, map[string]any{"domain": "int", "value": "-1", "through": "8 Marshal*/Unmarshal* pairs, 13 Unmarshal* functions x 14 carrier types"})
			}
		})
	}
	// carriers that hold no number: must not panic
	jobs = append(jobs, func(r *jobResult) {
		for _, x := range []any{nil, true, false, []byte("1"), struct{}{}, []any{1}, map[string]any{"a": 1}, "", "abc", json.Number("")} {
			for j := range ts {
				t := &ts[j]
				r.evals++
				if _, _, pan := callTarget(t, x); pan != nil {
					r.fail(t.name+":panic-on-non-number", fmt.Sprintf("%s(%#v) panicked: %v", t.name, x, pan),
						map[string]any{"domain": "nonnumber", "unmarshal": t.name, "value": fmt.Sprintf("%#v", x)})
				}
			}
		}
	})
	runDomain("integers", fmt.Sprintf("%d grid values in [-2^64-1, 2^64+1] x 8 Marshal*/Unmarshal* pairs x 13 Unmarshal* x 14 carrier types", len(grid)), jobs)
}

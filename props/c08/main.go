// Check for property C08: everything gqlgen serialises is valid JSON that round-trips.
//
// Bounded-exhaustive value grids are pushed through the real Marshal*/Unmarshal* functions of
// the tree under test (package graphql). The oracle is independent: a strict RFC 8259 + UTF-8
// validator (strictjson.go), encoding/json for decoding, and exact rational arithmetic
// (math/big) for "the same number".
package main

import (
	"fmt"
	"os"
	"slices"
	"runtime"
	"sync"
	"time"

	"verif/common"
)

var c *common.Check

// finding is one disagreement between the real code and the oracle.
type finding struct {
	sig    string
	what   string
	replay map[string]any
}

// jobResult is what one independent job of a domain returns. Jobs never print or report;
// the main goroutine merges results in job order so that output is deterministic.
type jobResult struct {
	evals      int64
	nontrivial int64            // evaluations that were non-trivial by the domain's rule
	ntHashes   []uint64         // hash of every non-trivial *input* (for distinct counting)
	finds      []finding        // first finding per signature, in order of occurrence
	seen       map[string]int64 // signature -> number of occurrences in this job
	samples    []any
	skipped    int64 // inputs skipped because another grid already covers them
}

func (r *jobResult) fail(sig, what string, replay map[string]any) {
	if r.seen == nil {
		r.seen = map[string]int64{}
	}
	if r.seen[sig] == 0 {
		r.finds = append(r.finds, finding{sig, what, replay})
	}
	r.seen[sig]++
}

func (r *jobResult) nontriv(input string) {
	r.nontrivial++
	h := uint64(14695981039346656037) // FNV-1a 64
	for i := 0; i < len(input); i++ {
		h = (h ^ uint64(input[i])) * 1099511628211
	}
	r.ntHashes = append(r.ntHashes, h)
}

type job func(r *jobResult)

type domainStat struct {
	Name        string `json:"name"`
	Evaluations int64  `json:"evaluations"`
	Nontrivial  int64  `json:"nontrivial_evaluations"`
	DistinctNT  int    `json:"distinct_nontrivial_inputs"`
	Skipped     int64  `json:"skipped_covered_elsewhere,omitempty"`
	Jobs        int    `json:"jobs"`
	JobsDone    int    `json:"jobs_done"`
	Complete    bool   `json:"complete"`
	Bounds      string `json:"bounds"`
}

var (
	domains      []domainStat
	sigCounts    = map[string]int64{}
	allNT        []uint64
	allExhausted = true
)

// runDomain runs the jobs of one domain on all cores and merges the results in job order.
func runDomain(name, bounds string, jobs []job) {
	t0 := time.Now()
	defer func() {
		if os.Getenv("VERIF_DEBUG") != "" {
			fmt.Fprintf(os.Stderr, "debug: domain %s took %.1fs\n", name, time.Since(t0).Seconds())
		}
	}()
	res := make([]*jobResult, len(jobs))
	var wg sync.WaitGroup
	ch := make(chan int)
	nw := runtime.NumCPU()
	if nw > len(jobs) {
		nw = len(jobs)
	}
	for w := 0; w < nw; w++ {
		wg.Add(1)
		go func() {
			defer wg.Done()
			for i := range ch {
				if c.Expired() {
					continue // budget over: leave res[i] nil
				}
				r := &jobResult{}
				jobs[i](r)
				res[i] = r
			}
		}()
	}
	for i := range jobs {
		ch <- i
	}
	close(ch)
	wg.Wait()

	st := domainStat{Name: name, Jobs: len(jobs), Bounds: bounds}
	var nt []uint64
	for _, r := range res {
		if r == nil {
			continue
		}
		st.JobsDone++
		st.Evaluations += r.evals
		st.Nontrivial += r.nontrivial
		st.Skipped += r.skipped
		nt = append(nt, r.ntHashes...)
		for _, f := range r.finds {
			c.Report(f.sig, f.what, f.replay)
		}
		for s, n := range r.seen {
			sigCounts[s] += n
		}
		for _, s := range r.samples {
			c.Sample(s)
		}
	}
	st.DistinctNT = countDistinct(nt)
	st.Complete = st.JobsDone == st.Jobs
	if !st.Complete {
		allExhausted = false
	}
	allNT = append(allNT, nt...)
	domains = append(domains, st)
	fmt.Printf("domain %-22s evaluations=%-10d nontrivial=%-10d distinct_nontrivial_inputs=%-9d jobs=%d/%d\n",
		name, st.Evaluations, st.Nontrivial, st.DistinctNT, st.JobsDone, st.Jobs)
}

func countDistinct(h []uint64) int {
	if len(h) == 0 {
		return 0
	}
	s := append([]uint64(nil), h...)
	slices.Sort(s)
	n := 1
	for i := 1; i < len(s); i++ {
		if s[i] != s[i-1] {
			n++
		}
	}
	return n
}

func main() {
	c = common.New("C08", "exploration")
	c.MaxSamp = 12
	if p := common.ReplayArg(); p != "" {
		replay(p)
		return
	}
	thorough := c.Tier == "thorough"
	if thorough {
		c.Budget(20 * time.Minute)
	} else {
		c.Budget(150 * time.Second)
	}

	selfTest()

	runIntDomain()
	runFloatDomain()
	runBoolDomain()
	runTimeDomain()
	runDurationDomain()
	runUUIDDomain()
	runOmittableDomain()
	runResponseDomain()
	runNestDomain(thorough)
	runAnyDomain(thorough)
	runKindsDomain()
	// the two large sweeps last: if the internal budget runs out, they are what is cut short
	runStringGrid(thorough)
	runCodePoints(thorough)

	var evals int64
	for _, d := range domains {
		evals += d.Evaluations
	}
	c.Cov["evaluations"] = int(evals)
	c.Cov["distinct_nontrivial"] = countDistinct(allNT)
	c.Cov["rule"] = "every element of each finite grid listed in 'domains' is pushed through the real Marshal*/Unmarshal* " +
		"functions; evaluations counts (function, input) pairs. A case is non-trivial when the correct output is not a " +
		"plain copy of the input: strings containing a byte outside printable ASCII or a quote/backslash; integer cases " +
		"(value, carrier type or Marshal* function, Unmarshal* function) whose value is non-zero; floats other than +0; " +
		"non-zero times/durations/UUIDs; compositions with at least one container; every Omittable/Response case but the empty one. " +
		"distinct_nontrivial counts distinct 64-bit FNV-1a hashes of the canonical description of those cases; for strings, floats, " +
		"times, durations, UUIDs and compositions the description is the input alone, so an input fed to several functions counts once."
	c.Cov["exhaustive"] = allExhausted
	c.Cov["domains"] = domains
	c.Cov["disagreements_by_signature"] = sigCounts
	c.Cov["bounds"] = map[string]any{
		"string_alphabet_hex": fmt.Sprintf("% x", alphabet),
		"string_max_len":      map[bool]int{false: 4, true: 5}[thorough],
		"code_points":         "every code point 0..0x10FFFF (surrogates as raw 3-byte encodings), 0x110000..0x1100FF as raw 4-byte encodings, every overlong 2/3/4-byte encoding",
		"code_point_contexts": fmt.Sprintf("%d (all string paths on the bare encoding; the 3 paths that use gqlgen's own string writer in every context)", len(cpContexts(thorough))),
		"nest_depth":          3,
	}
	c.Assume = []string{
		"'decoded value' means encoding/json decoding with UseNumber, which is how gqlgen's own transports decode (transport.jsonDecode); encoding/json is trusted as decoder, not as validator",
		"int is 64-bit (GOARCH amd64)",
		"Time: the validity clauses (strict JSON text, a string or null, bare and inside Array/FieldSet) are checked for EVERY time.Time of the grid, including years < 0 and > 9999 and zone offsets >= 24h or with seconds; the 'denotes the original' and UnmarshalTime round-trip clauses apply only to what RFC 3339 can express (displayed year 0..9999, zone offset in whole minutes below 24h) - outside it UnmarshalTime rejects the string or shifts the instant, observed on the unchanged tree and not reported",
		"the zero time and the nil UUID marshal to null by design and are not unmarshalled back",
		"Time, Duration, UUID and Float marshalers are additionally checked inside graphql.Array and graphql.FieldSet for every grid value",
		"Duration designators use the conventions documented by github.com/sosodev/duration: Y=365d, M=Y/12, W=7d, D=24h",
		"an Omittable that is not set marshals its zero value by design; only Value() is compared after the round trip",
		"numeric carriers fed to Unmarshal* are integer-valued (the integer boundary grid); a Float target may round to the nearest float64, every other target must keep the exact number or return an error",
		"Any/Map: a value JSON cannot represent (NaN/Inf, invalid json.Number or RawMessage, failing or invalid MarshalJSON, out-of-range time, unsupported kind, cycle) must be reported - an error, or a panic carrying an error, which gqlgen recovers into an error response discarding the buffer - or written as valid JSON with exactly one value (or null for an enclosing subtree) in its place; an empty json.Number is written as 0 by encoding/json and accepted",
		"MarshalFloat (not the default binding) is only given finite values; non-finite values go through MarshalFloatContext, the default Float binding",
	}
	c.Finish()
}

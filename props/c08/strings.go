package main

import (
	"fmt"

	"github.com/99designs/gqlgen/graphql"
	"github.com/vektah/gqlparser/v2/ast"

	"verif/common"
)

// The 24-byte class alphabet of the design, simplest first: printable, JSON specials, control
// characters, DEL, then every UTF-8 lead / continuation / illegal class. Surrogate, overlong,
// truncated and out-of-range encodings arise by combination.
var alphabet = []byte{'a', ' ', '/', '"', '\\', '\n', '\t', '\r', 0x00, 0x1F, 0x7F,
	0xC2, 0x80, 0xBF, 0xA0, 0x90, 0xE0, 0xED, 0xEF, 0xF0, 0xF4, 0xC0, 0xFE, 0xFF}

var inAlphabet = func() (t [256]bool) {
	for _, b := range alphabet {
		t[b] = true
	}
	return
}()

// string paths: every place where gqlgen writes a Go string into the response.
// The first three use gqlgen's own writer (writeQuotedString); the others delegate to encoding/json.
var stringPaths = []string{"MarshalString", "MarshalID", "FieldSet.alias", "MarshalAny(string)", "MarshalMap(key,value)", "Omittable[string]"}

const ownWriterPaths = 3

func fieldSet(aliases []string, vals []graphql.Marshaler) *graphql.FieldSet {
	fields := make([]graphql.CollectedField, len(aliases))
	for i, a := range aliases {
		fields[i] = graphql.CollectedField{Field: &ast.Field{Alias: a, Name: "f"}}
	}
	fs := graphql.NewFieldSet(fields)
	copy(fs.Values, vals)
	return fs
}

func stringTrivial(s string) bool {
	for i := 0; i < len(s); i++ {
		if s[i] < 0x20 || s[i] > 0x7E || s[i] == '"' || s[i] == '\\' {
			return false
		}
	}
	return true
}

// checkString is the oracle for one Go string through one path.
func checkString(path string, s string) (sig, what string) {
	return checkStringSan(path, s, sanitize(s))
}

func checkStringSan(path string, s, san string) (sig, what string) {
	hasInvalid := san != s
	var m graphql.Marshaler
	var expected any = s
	switch path {
	case "MarshalString":
		m = graphql.MarshalString(s)
	case "MarshalID":
		m = graphql.MarshalID(s)
	case "FieldSet.alias":
		m = fieldSet([]string{s}, []graphql.Marshaler{graphql.Null})
		expected = map[string]any{s: nil}
	case "MarshalAny(string)":
		m = graphql.MarshalAny(s)
	case "MarshalMap(key,value)":
		m = graphql.MarshalMap(map[string]any{s: s})
		expected = map[string]any{s: s}
	case "Omittable[string]":
		m = graphql.OmittableOf(s)
	default:
		common.Broken("unknown string path %q", path)
	}
	out, pan := marshalToBytes(m)
	d, class, w := checkWire(out, pan, expected, hasInvalid)
	if class != "" {
		return path + ":" + class, fmt.Sprintf("%s(%q): %s", path, s, w)
	}
	// unmarshalling the decoded value gives it back
	switch path {
	case "MarshalString":
		if r, err := graphql.UnmarshalString(d); err != nil || r != san {
			return "UnmarshalString:round-trip-differs", fmt.Sprintf("UnmarshalString(%q) = %q, %v", d, r, err)
		}
	case "MarshalID":
		if r, err := graphql.UnmarshalID(d); err != nil || r != san {
			return "UnmarshalID:round-trip-differs", fmt.Sprintf("UnmarshalID(%q) = %q, %v", d, r, err)
		}
	case "MarshalAny(string)":
		if r, err := graphql.UnmarshalAny(d); err != nil || r != any(san) {
			return "UnmarshalAny:round-trip-differs", fmt.Sprintf("UnmarshalAny(%q) = %q, %v", d, r, err)
		}
	case "MarshalMap(key,value)":
		if r, err := graphql.UnmarshalMap(d); err != nil || len(r) != 1 || r[san] != any(san) {
			return "UnmarshalMap:round-trip-differs", fmt.Sprintf("UnmarshalMap(%#v) = %#v, %v", d, r, err)
		}
	case "Omittable[string]":
		var o graphql.Omittable[string]
		if err := o.UnmarshalGQL(out); err != nil || !o.IsSet() || o.Value() != san {
			return "Omittable.UnmarshalGQL:round-trip-differs", fmt.Sprintf("Omittable[string].UnmarshalGQL(%s) = %q, set=%v, %v", show(out), o.Value(), o.IsSet(), err)
		}
	}
	return "", ""
}

func evalString(r *jobResult, s string, domain string) {
	evalStringPaths(r, s, domain, stringPaths)
}

func evalStringPaths(r *jobResult, s string, domain string, paths []string) {
	if !stringTrivial(s) {
		r.nontriv("str:" + s)
	}
	san := sanitize(s)
	if san != string([]rune(s)) { // the reference must agree with Go's own rune decoding
		common.Broken("reference sanitize(%q) = %q disagrees with Go's rune decoding %q", s, san, string([]rune(s)))
	}
	for _, p := range paths {
		r.evals++
		if sig, what := checkStringSan(p, s, san); sig != "" {
			r.fail(sig, what, map[string]any{"domain": "string", "path": p, "hex": hx(s), "from": domain})
		}
	}
}

// runStringGrid: all byte strings of length <= maxLen over the alphabet.
func runStringGrid(thorough bool) {
	maxLen := 4
	if thorough {
		maxLen = 5
	}
	var jobs []job
	jobs = append(jobs, func(r *jobResult) { // lengths 0 and 1
		evalString(r, "", "grid")
		for _, a := range alphabet {
			evalString(r, string([]byte{a}), "grid")
		}
	})
	for _, a := range alphabet {
		for _, b := range alphabet {
			prefix := []byte{a, b}
			jobs = append(jobs, func(r *jobResult) {
				buf := make([]byte, 0, maxLen)
				buf = append(buf, prefix...)
				var rec func()
				rec = func() {
					evalString(r, string(buf), "grid")
					if len(buf) == maxLen {
						return
					}
					for _, x := range alphabet {
						buf = append(buf, x)
						rec()
						buf = buf[:len(buf)-1]
					}
				}
				rec()
				if prefix[0] == '"' && prefix[1] == 0xC2 {
					r.samples = append(r.samples, map[string]any{"domain": "string", "hex": hx(string(prefix) + "\x80\xff"), "paths": stringPaths})
				}
			})
		}
	}
	runDomain("string-grid", fmt.Sprintf("all byte strings of length <= %d over the 24-byte class alphabet x %d string paths", maxLen, len(stringPaths)), jobs)
}

// rawEncode writes cp with the n-byte UTF-8 bit layout regardless of validity (so surrogates,
// overlong forms and values above 0x10FFFF come out as the ill-formed byte sequences they are).
func rawEncode(cp uint32, n int) []byte {
	switch n {
	case 1:
		return []byte{byte(cp)}
	case 2:
		return []byte{0xC0 | byte(cp>>6), 0x80 | byte(cp&0x3F)}
	case 3:
		return []byte{0xE0 | byte(cp>>12), 0x80 | byte(cp>>6&0x3F), 0x80 | byte(cp&0x3F)}
	default:
		return []byte{0xF0 | byte(cp>>18), 0x80 | byte(cp>>12&0x3F), 0x80 | byte(cp>>6&0x3F), 0x80 | byte(cp&0x3F)}
	}
}

func naturalLen(cp uint32) int {
	switch {
	case cp < 0x80:
		return 1
	case cp < 0x800:
		return 2
	case cp < 0x10000:
		return 3
	}
	return 4
}

// cpContexts: what surrounds a code point's encoding. Every context byte is in the alphabet.
func cpContexts(thorough bool) [][2]string {
	if !thorough {
		return [][2]string{{"", ""}, {"a", "a"}, {"\"", ""}, {"", "\\"}}
	}
	return [][2]string{{"", ""}, {"a", "a"}, {"\"", ""}, {"", "\\"}, {"\n", ""}, {"", "\x00"}, {"\x80", ""}, {"", "\xBF"}, {"\xE0", ""}, {"", "\xC2"},
		{"\xF0\x90", ""}, {"\\", "\""}}
}

// runCodePoints: every code point's encoding (and every ill-formed encoding shape) in each context.
func runCodePoints(thorough bool) {
	ctxs := cpContexts(thorough)
	maxLen := 4
	if thorough {
		maxLen = 5
	}
	eval := func(r *jobResult, enc []byte) {
		for _, cx := range ctxs {
			s := cx[0] + string(enc) + cx[1]
			if len(s) <= maxLen {
				all := true
				for i := 0; i < len(s); i++ {
					all = all && inAlphabet[s[i]]
				}
				if all {
					r.skipped++ // already an element of the string grid
					continue
				}
			}
			if cx[0] == "" && cx[1] == "" {
				evalString(r, s, "codepoint")
			} else {
				evalStringPaths(r, s, "codepoint", stringPaths[:ownWriterPaths])
			}
		}
	}
	var jobs []job
	const chunk = 0x1000
	for lo := uint32(0); lo < 0x110100; lo += chunk {
		lo := lo
		jobs = append(jobs, func(r *jobResult) {
			for cp := lo; cp < lo+chunk && cp < 0x110100; cp++ {
				eval(r, rawEncode(cp, naturalLen(cp))) // surrogates D800..DFFF and >10FFFF come out ill-formed
			}
			if lo == 0xD000 {
				r.samples = append(r.samples, map[string]any{"domain": "codepoint", "cp": "U+D800", "hex": hx(string(rawEncode(0xD800, 3))), "contexts": len(ctxs)})
			}
		})
	}
	// overlong forms: 2-byte for < 0x80, 3-byte for < 0x800, 4-byte for < 0x10000
	jobs = append(jobs, func(r *jobResult) {
		for cp := uint32(0); cp < 0x80; cp++ {
			eval(r, rawEncode(cp, 2))
		}
		for cp := uint32(0); cp < 0x800; cp++ {
			eval(r, rawEncode(cp, 3))
		}
	})
	for lo := uint32(0); lo < 0x10000; lo += chunk {
		lo := lo
		jobs = append(jobs, func(r *jobResult) {
			for cp := lo; cp < lo+chunk; cp++ {
				eval(r, rawEncode(cp, 4))
			}
		})
	}
	// lone bytes, truncated forms (a lead with fewer continuation bytes than it needs), 5/6-byte forms
	jobs = append(jobs, func(r *jobResult) {
		for b := 0x80; b <= 0xFF; b++ {
			eval(r, []byte{byte(b)})
		}
		for lead := 0xE0; lead <= 0xFF; lead++ {
			for _, c1 := range []byte{0x80, 0x8F, 0x90, 0x9F, 0xA0, 0xBF} {
				eval(r, []byte{byte(lead), c1})
				if lead >= 0xF0 {
					for _, c2 := range []byte{0x80, 0xBF} {
						eval(r, []byte{byte(lead), c1, c2})
					}
				}
			}
			if lead >= 0xF8 {
				eval(r, []byte{byte(lead), 0x88, 0x80, 0x80, 0x80})
				eval(r, []byte{byte(lead), 0x84, 0x80, 0x80, 0x80, 0x80})
			}
		}
	})
	runDomain("code-points", fmt.Sprintf("every code point 0..0x10FFFF as raw UTF-8 bytes (surrogates ill-formed), 0x110000..0x1100FF, all overlong 2/3/4-byte forms, truncated forms; each bare through %d string paths and in %d further contexts through the %d paths that use gqlgen's own string writer", len(stringPaths), len(ctxs)-1, ownWriterPaths), jobs)
}

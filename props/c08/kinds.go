package main

// The value-kind alphabet of the Any and Map scalars: every kind of Go value a resolver can hand
// to MarshalAny / MarshalMap, in particular everything gqlgen's own decoding produces (variables
// are decoded with UseNumber, so numbers arrive as json.Number - valid or not once user code has
// touched them) plus what encoding/json treats specially (RawMessage, Marshaler, TextMarshaler,
// []byte, time.Time, typed nils, unsupported kinds, cycles). Each leaf is placed bare and at depth
// 1..3 inside []any / map[string]any and sent through every Any path.

import (
	"encoding/base64"
	"encoding/json"
	"errors"
	"fmt"
	"math"
	"time"

	"github.com/99designs/gqlgen/graphql"
	"github.com/google/uuid"
)

// rawJSONer returns fixed bytes (or an error) from MarshalJSON.
type rawJSONer struct {
	out string
	err error
}

func (r rawJSONer) MarshalJSON() ([]byte, error) { return []byte(r.out), r.err }

// texter returns fixed bytes from MarshalText.
type texter struct{ out string }

func (t texter) MarshalText() ([]byte, error) { return []byte(t.out), nil }

type tagged struct {
	A int            `json:"a"`
	B string         `json:"b,omitempty"`
	C *float64       `json:"c"`
	N json.Number    `json:"n"`
	M map[string]any `json:"m,omitempty"`
	x int
}

type cyc struct {
	Next *cyc `json:"next"`
}

type kindLeaf struct {
	name     string
	v        any
	expected any // what the JSON must decode to; ignored when unrep
	unrep    bool
	utf8Tag  string // see checkAnyValueTagged
}

func kindLeaves() []kindLeaf {
	var ls []kindLeaf
	ok := func(name string, v, expected any) { ls = append(ls, kindLeaf{name, v, expected, false, ""}) }
	bad := func(name string, v any) { ls = append(ls, kindLeaf{name, v, nil, true, ""}) }

	// json.Number: valid literals
	for _, n := range []string{"0", "-0", "7", "-12.5", "1.5e+3", "1E400", "12345678901234567890123", "0.000000000000000000001", "-1e-7"} {
		ok("json.Number("+n+")", json.Number(n), json.Number(n))
	}
	// json.Number: not a JSON number literal
	for _, n := range []string{"", "1,000", "NaN", "+1", "0x10", "1e", "-", "01", ".5", "1.", "Infinity", "-Inf", "1_000", "1 2", "1\n", " 1", "1 ",
		"1\"", "1,2", "1,\"admin\":true", "1}", "1]", "null", "true", "\"1\"", "１", "1\x00", "1\xff", "--1", "1e+", "1.e1", "0b1", "1f"} {
		bad(fmt.Sprintf("json.Number(%q) [invalid]", n), json.Number(n))
	}
	bad("[]json.Number{\"1,2\"}", []json.Number{"1,2"})
	bad("map[string]json.Number{k:\"+1\"}", map[string]json.Number{"k": "+1"})
	badNum := json.Number("1,\"x\":2")
	bad("*json.Number invalid", &badNum)
	goodNum := json.Number("42")
	ok("*json.Number valid", &goodNum, 42)

	// integers and floats of every width
	ok("int8", int8(-128), -128)
	ok("int16", int16(math.MinInt16), math.MinInt16)
	ok("int32", int32(math.MaxInt32), math.MaxInt32)
	ok("int64 min", int64(math.MinInt64), int64(math.MinInt64))
	ok("int", int(math.MaxInt64), int64(math.MaxInt64))
	ok("uint8", uint8(255), 255)
	ok("uint16", uint16(65535), 65535)
	ok("uint32", uint32(math.MaxUint32), uint32(math.MaxUint32))
	ok("uint64 max", uint64(math.MaxUint64), uint64(math.MaxUint64))
	ok("uintptr", uintptr(7), 7)
	ok("float32", float32(0.1), float32(0.1))
	ok("float64 -0", math.Copysign(0, -1), math.Copysign(0, -1))
	ok("float64 max", math.MaxFloat64, math.MaxFloat64)
	ok("float64 5e-324", 5e-324, 5e-324)
	ok("float64 1e21", 1e21, 1e21)
	ok("float64 2^64", 18446744073709551616.0, 18446744073709551616.0)
	ok("time.Duration", 90*time.Minute, int64(90*time.Minute))
	for _, f := range []float64{math.NaN(), math.Inf(1), math.Inf(-1)} {
		f := f
		bad(fmt.Sprintf("float64 %v", f), f)
		bad(fmt.Sprintf("float32 %v", f), float32(f))
		bad(fmt.Sprintf("*float64 %v", f), &f)
		bad(fmt.Sprintf("[]float64{%v}", f), []float64{1, f})
		bad(fmt.Sprintf("map[string]float64{%v}", f), map[string]float64{"k": f})
	}

	// strings, bools, nil
	ok("nil", nil, nil)
	ok("true", true, true)
	ok("false", false, false)
	ok("string specials", "a\"\\\n\x00<>&\u2028é", "a\"\\\n\x00<>&\u2028é")
	ok("string ill-formed", "\xff\xed\xa0\x80\xc2", "\xff\xed\xa0\x80\xc2")
	str := "p"
	ok("*string", &str, "p")
	pp := &str
	ok("**string", &pp, "p")

	// typed nils
	ok("(*int)(nil)", (*int)(nil), nil)
	ok("(*string)(nil)", (*string)(nil), nil)
	ok("[]any(nil)", []any(nil), nil)
	ok("map[string]any(nil)", map[string]any(nil), nil)
	ok("[]byte(nil)", []byte(nil), nil)
	ok("(*time.Time)(nil)", (*time.Time)(nil), nil)
	ok("(*tagged)(nil)", (*tagged)(nil), nil)
	ok("json.RawMessage(nil)", json.RawMessage(nil), nil)
	ok("(*rawJSONer)(nil)", (*rawJSONer)(nil), nil)
	ok("(*json.Number)(nil)", (*json.Number)(nil), nil)
	ok("[]string(nil)", []string(nil), nil)
	ok("error(nil) in any", error(nil), nil)

	// json.RawMessage
	ok("RawMessage object", json.RawMessage(`{"a":[1,2.5,"x"],"b":null}`), map[string]any{"a": []any{1, 2.5, "x"}, "b": nil})
	ok("RawMessage padded", json.RawMessage(" \n[ 1 , 2 ]\t"), []any{1, 2})
	ok("RawMessage string", json.RawMessage(`"x\u00e9\/"`), "xé/")
	ok("RawMessage number", json.RawMessage(`-0.0e-0`), json.Number("-0.0e-0"))
	for _, r := range []string{"", " ", "{", "}", "[1,", "1,2", "1 2", "nul", "tru", "NaN", "+1", "01", "{\"a\":}", "{\"a\" 1}", "{a:1}", "'x'", "\"x", "\"\\x\"",
		"\"\n\"", "1,\"admin\":true", "null}", "[]]", "\"a\"b"} {
		bad(fmt.Sprintf("RawMessage(%q) [invalid]", r), json.RawMessage(r))
	}
	bad("[]json.RawMessage{invalid}", []json.RawMessage{json.RawMessage("1"), json.RawMessage("1,2")})

	// values with a MarshalJSON method
	ok("MarshalJSON valid object", rawJSONer{out: `{"x":[true]}`}, map[string]any{"x": []any{true}})
	ok("MarshalJSON valid padded", rawJSONer{out: " 3 "}, 3)
	ok("*MarshalJSON valid", &rawJSONer{out: `"s"`}, "s")
	for _, r := range []string{"", "{\"a\":}", "1 2", "1,2", "NaN", "nul", "{", "]", "\"x", "1,\"admin\":true", "+1", "01", "\"\x01\""} {
		bad(fmt.Sprintf("MarshalJSON returns %q [invalid]", r), rawJSONer{out: r})
	}
	bad("MarshalJSON returns error", rawJSONer{out: `1`, err: errors.New("refused")})
	bad("MarshalJSON returns error and garbage", rawJSONer{out: `{`, err: errors.New("refused")})
	ok("graphql.Omittable[int] inside Any", graphql.OmittableOf(5), 5)
	bad("graphql.Omittable[float64](NaN) inside Any", graphql.OmittableOf(math.NaN()))

	// TextMarshaler, []byte, time, uuid
	ok("TextMarshaler", texter{"t\"\n<"}, "t\"\n<")
	ok("TextMarshaler ill-formed", texter{"a\xffb"}, "a\xffb")
	ok("[]byte", []byte("\x00\xff hello"), base64.StdEncoding.EncodeToString([]byte("\x00\xff hello")))
	ok("[]byte empty", []byte{}, "")
	ok("[3]byte", [3]byte{1, 2, 3}, []any{1, 2, 3})
	ok("time.Time", sampleTime, sampleTime.Format(time.RFC3339Nano))
	ok("*time.Time", &sampleTime, sampleTime.Format(time.RFC3339Nano))
	bad("time.Time year 10000", time.Date(10000, 1, 1, 0, 0, 0, 0, time.UTC))
	bad("time.Time year -1", time.Date(-1, 1, 1, 0, 0, 0, 0, time.UTC))
	bad("time.Time zone +25h", time.Date(2024, 1, 1, 0, 0, 0, 0, time.FixedZone("x", 25*3600)))
	id := uuid.UUID{0x01, 0x23, 0x45, 0x67, 0x89, 0xab, 0xcd, 0xef, 0xfe, 0xdc, 0xba, 0x98, 0x76, 0x54, 0x32, 0x10}
	ok("uuid.UUID", id, "01234567-89ab-cdef-fedc-ba9876543210")

	// typed containers and structs
	ok("[]string", []string{"a", "\xff"}, []any{"a", "\xff"})
	ok("[]int", []int{-1, 0}, []any{-1, 0})
	ok("[2]bool", [2]bool{true, false}, []any{true, false})
	ok("map[string]string", map[string]string{"k\"": "v\n"}, map[string]any{"k\"": "v\n"})
	ok("map[int]bool", map[int]bool{-3: true}, map[string]any{"-3": true})
	ok("[]any mixed", []any{nil, json.Number("1e2"), []byte("x")}, []any{nil, json.Number("1e2"), "eA=="})
	half := 0.5
	ok("struct with tags", tagged{A: 1, C: &half, N: "9", x: 3}, map[string]any{"a": 1, "c": 0.5, "n": 9})
	ok("struct empty Number", tagged{}, map[string]any{"a": 0, "c": nil, "n": 0})
	ok("*struct", &tagged{A: -1, B: "b", N: "1", M: map[string]any{"z": nil}}, map[string]any{"a": -1, "b": "b", "c": nil, "n": 1, "m": map[string]any{"z": nil}})
	bad("struct with invalid Number", tagged{N: "1,2"})
	ok("struct{}", struct{}{}, map[string]any{})

	// kinds encoding/json does not support, and cycles
	bad("chan", make(chan int))
	bad("func", func() {})
	bad("complex128", complex(1, 2))
	bad("map[bool]int", map[bool]int{true: 1})
	bad("[]any{func}", []any{1, func() {}})
	c1 := &cyc{}
	c1.Next = c1
	bad("pointer cycle", c1)
	// ill-formed UTF-8 handed over as "already JSON"
	const tag = "raw-json-ill-formed-utf8-passed-through"
	ls = append(ls, kindLeaf{"RawMessage ill-formed UTF-8", json.RawMessage("\"\xff\""), nil, true, tag})
	ls = append(ls, kindLeaf{"MarshalJSON returns ill-formed UTF-8", rawJSONer{out: "\"a\xffb\""}, nil, true, tag})
	return ls
}

// kindContexts: where the leaf sits. exp is built in parallel.
var kindContexts = []struct {
	name string
	wrap func(v any) any
}{
	{"bare", func(v any) any { return v }},
	{"[]any{x}", func(v any) any { return []any{v} }},
	{"map{k:x}", func(v any) any { return map[string]any{"k": v} }},
	{"[]any{a,x,null}", func(v any) any { return []any{"a", v, nil} }},
	{"map{a:x,b:[x]}", func(v any) any { return map[string]any{"a": v, "b": []any{v}} }},
	{"[a,{k:[x,null]}]", func(v any) any { return []any{"a", map[string]any{"k": []any{v, nil}}} }},
	{"{k:{k:{k:x}}}", func(v any) any { return map[string]any{"k": map[string]any{"k": map[string]any{"k": v}}} }},
}

func checkKind(li, ci int, path string) (sig, what string, applicable bool) {
	l := kindLeaves()[li]
	return checkKindLeaf(l, ci, path)
}

func checkKindLeaf(l kindLeaf, ci int, path string) (sig, what string, applicable bool) {
	cx := kindContexts[ci]
	var expected any = l.expected
	if l.unrep {
		expected = anyValue{}
	}
	sig, what, applicable = checkAnyValueTagged(path, cx.wrap(l.v), cx.wrap(expected), l.unrep, l.utf8Tag)
	if sig != "" {
		what = fmt.Sprintf("leaf %s in %s: %s", l.name, cx.name, what)
	}
	return
}

func runKindsDomain() {
	leaves := kindLeaves()
	var jobs []job
	for li := range leaves {
		li := li
		jobs = append(jobs, func(r *jobResult) {
			l := kindLeaves()[li] // fresh values per job (cycles, pointers)
			for ci := range kindContexts {
				r.nontriv(fmt.Sprintf("kind:%s:%d", l.name, ci))
				for _, p := range anyPaths {
					sig, what, ok := checkKindLeaf(l, ci, p)
					if !ok {
						continue
					}
					r.evals++
					if sig != "" {
						r.fail(sig, what, map[string]any{"domain": "any-kind", "leaf": l.name, "index": li, "context": ci, "path": p})
					}
				}
			}
			if l.name == "json.Number(\"1,000\") [invalid]" {
				r.samples = append(r.samples, map[string]any{"domain": "any-kind", "leaf": l.name, "contexts": len(kindContexts), "paths": anyPaths})
			}
		})
	}
	nbad := 0
	for _, l := range leaves {
		if l.unrep {
			nbad++
		}
	}
	runDomain("any-value-kinds", fmt.Sprintf("%d Go value kinds for Any/Map (%d representable, %d not: invalid json.Number/RawMessage/MarshalJSON output, NaN/Inf, out-of-range time, unsupported kinds, cycles) x %d positions (bare .. depth 3 in []any/map[string]any) x %d paths",
		len(leaves), len(leaves)-nbad, nbad, len(kindContexts), len(anyPaths)), jobs)
}

package main

import (
	"encoding/hex"
	"encoding/json"
	"fmt"
	"math"
	"math/big"
	"os"
	"sort"
	"strconv"
	"time"

	"github.com/google/uuid"

	"verif/common"
)

func sortSlice[T any](s []T, less func(a, b T) bool) {
	sort.Slice(s, func(i, j int) bool { return less(s[i], s[j]) })
}

// replay re-runs the single case stored in a replay file and prints what the oracle sees.
func replay(path string) {
	b, err := os.ReadFile(path)
	if err != nil {
		common.Broken("cannot read replay file: %v", err)
	}
	var file struct {
		Signature string          `json:"signature"`
		What      string          `json:"what"`
		Replay    json.RawMessage `json:"replay"`
	}
	if err := json.Unmarshal(b, &file); err != nil {
		common.Broken("replay file does not parse: %v", err)
	}
	var r struct {
		Domain    string          `json:"domain"`
		Path      string          `json:"path"`
		Hex       string          `json:"hex"`
		Marshal   string          `json:"marshal"`
		Unmarshal string          `json:"unmarshal"`
		Carrier   string          `json:"carrier"`
		Value     json.RawMessage `json:"value"`
		Fn        string          `json:"fn"`
		Bits      string          `json:"bits"`
		Ns        string          `json:"ns"`
		Index     int             `json:"index"`
		Context   int             `json:"context"`
		Tree      *tnode          `json:"tree"`
		Case      json.RawMessage `json:"case"`
	}
	if err := json.Unmarshal(file.Replay, &r); err != nil {
		common.Broken("replay data does not parse: %v", err)
	}
	strVal := func() string {
		var s string
		json.Unmarshal(r.Value, &s)
		return s
	}
	var sig, what string
	switch r.Domain {
	case "string":
		sig, what = checkString(r.Path, unhx(r.Hex))
	case "intpair":
		v, _ := new(big.Int).SetString(strVal(), 10)
		for _, p := range intPairs() {
			if p.name == r.Marshal {
				_, sig, what = checkIntPair(&p, v)
			}
		}
	case "intcarrier":
		v, _ := new(big.Int).SetString(strVal(), 10)
		for _, cr := range carriers() {
			if cr.name == r.Carrier {
				if x, ok := cr.mk(v); ok {
					sig, what = checkCarrier(findTarget(r.Unmarshal), cr.name, x)
				}
			}
		}
	case "float":
		bits, _ := strconv.ParseUint(r.Bits, 16, 64)
		sig, what = checkFloat(r.Fn, math.Float64frombits(bits))
	case "bool":
		var v bool
		json.Unmarshal(r.Value, &v)
		sig, what = checkBool(v)
	case "time":
		var tc timeCase
		json.Unmarshal(r.Case, &tc)
		sig, what = checkTime(tc)
	case "duration":
		n, _ := strconv.ParseInt(r.Ns, 10, 64)
		sig, what = checkDuration(time.Duration(n))
	case "uuid":
		var id uuid.UUID
		raw, _ := hex.DecodeString(r.Hex)
		copy(id[:], raw)
		sig, what = checkUUID(id)
	case "marshaler-tree":
		sig, what = checkMarshalerTree(r.Tree, marshalerLeaves())
	case "any-tree":
		sig, what, _ = checkAnyTree(r.Path, r.Tree, anyLeaves())
	case "any-kind":
		sig, what, _ = checkKind(r.Index, r.Context, r.Path)
	case "omittable":
		for _, f := range omittableCases()[r.Index].run() {
			if sig == "" || f[0] == file.Signature {
				sig, what = f[0], f[1]
			}
		}
	case "response":
		var rc respCase
		json.Unmarshal(r.Case, &rc)
		sig, what = checkResponse(rc)
	default:
		common.Broken("replay: unknown domain %q", r.Domain)
	}
	fmt.Printf("replay of %s\n  recorded signature: %s\n", path, file.Signature)
	if sig == "" {
		fmt.Println("  oracle now: no disagreement")
		os.Exit(0)
	}
	fmt.Printf("  oracle now: %s\n  %s\n", sig, what)
	os.Exit(1)
}

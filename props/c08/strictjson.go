package main

// An independent strict validator for RFC 8259 JSON texts encoded in well-formed UTF-8
// (RFC 3629 / Unicode table 3-7), plus the reference "replace each offending byte by U+FFFD"
// function the property statement refers to. Nothing here calls encoding/json or unicode/utf8.

// jerr describes why a byte sequence is not a strict JSON text.
type jerr struct {
	Kind string // class of the problem, used in signatures
	Off  int    // byte offset
}

const maxDepth = 64

// utf8SeqLen returns the length (1..4) of the well-formed UTF-8 sequence starting at b[i],
// or 0 if the bytes at i do not start a well-formed sequence.
func utf8SeqLen(b []byte, i int) int {
	n := len(b) - i
	if n <= 0 {
		return 0
	}
	c0 := b[i]
	cont := func(k int, lo, hi byte) bool { return k < n && b[i+k] >= lo && b[i+k] <= hi }
	switch {
	case c0 <= 0x7F:
		return 1
	case c0 >= 0xC2 && c0 <= 0xDF:
		if cont(1, 0x80, 0xBF) {
			return 2
		}
	case c0 == 0xE0:
		if cont(1, 0xA0, 0xBF) && cont(2, 0x80, 0xBF) {
			return 3
		}
	case (c0 >= 0xE1 && c0 <= 0xEC) || c0 == 0xEE || c0 == 0xEF:
		if cont(1, 0x80, 0xBF) && cont(2, 0x80, 0xBF) {
			return 3
		}
	case c0 == 0xED:
		if cont(1, 0x80, 0x9F) && cont(2, 0x80, 0xBF) {
			return 3
		}
	case c0 == 0xF0:
		if cont(1, 0x90, 0xBF) && cont(2, 0x80, 0xBF) && cont(3, 0x80, 0xBF) {
			return 4
		}
	case c0 >= 0xF1 && c0 <= 0xF3:
		if cont(1, 0x80, 0xBF) && cont(2, 0x80, 0xBF) && cont(3, 0x80, 0xBF) {
			return 4
		}
	case c0 == 0xF4:
		if cont(1, 0x80, 0x8F) && cont(2, 0x80, 0xBF) && cont(3, 0x80, 0xBF) {
			return 4
		}
	}
	return 0
}

// wellFormedUTF8 tells whether all of b is well-formed UTF-8.
func wellFormedUTF8(b []byte) bool {
	for i := 0; i < len(b); {
		n := utf8SeqLen(b, i)
		if n == 0 {
			return false
		}
		i += n
	}
	return true
}

// sanitize is the reference of the statement: every byte that does not start a well-formed
// sequence is an offending byte and is replaced by U+FFFD (EF BF BD); decoding resumes at the
// next byte (this is exactly how Go decodes a string rune by rune).
func sanitize(s string) string {
	b := []byte(s)
	if wellFormedUTF8(b) {
		return s
	}
	return string(sanitizeBytes(b))
}

func sanitizeBytes(b []byte) []byte {
	out := make([]byte, 0, len(b)+8)
	for i := 0; i < len(b); {
		n := utf8SeqLen(b, i)
		if n == 0 {
			out = append(out, 0xEF, 0xBF, 0xBD)
			i++
			continue
		}
		out = append(out, b[i:i+n]...)
		i += n
	}
	return out
}

type vparser struct {
	b []byte
	i int
}

// validateJSON returns nil iff b is exactly one JSON text (ws value ws) per RFC 8259 in
// well-formed UTF-8. Duplicate object names are allowed (the RFC says SHOULD be unique).
func validateJSON(b []byte) *jerr {
	p := &vparser{b: b}
	p.ws()
	if p.i >= len(b) {
		return &jerr{"empty", p.i}
	}
	if e := p.value(0); e != nil {
		return e
	}
	p.ws()
	if p.i != len(b) {
		return &jerr{"trailing-data", p.i}
	}
	return nil
}

func (p *vparser) ws() {
	for p.i < len(p.b) {
		switch p.b[p.i] {
		case ' ', '\t', '\n', '\r':
			p.i++
		default:
			return
		}
	}
}

func (p *vparser) lit(s string) *jerr {
	if len(p.b)-p.i < len(s) || string(p.b[p.i:p.i+len(s)]) != s {
		return &jerr{"bad-token", p.i}
	}
	p.i += len(s)
	return nil
}

func (p *vparser) value(depth int) *jerr {
	if depth > maxDepth {
		return &jerr{"too-deep", p.i}
	}
	if p.i >= len(p.b) {
		return &jerr{"missing-value", p.i}
	}
	switch c := p.b[p.i]; {
	case c == 'n':
		return p.lit("null")
	case c == 't':
		return p.lit("true")
	case c == 'f':
		return p.lit("false")
	case c == '"':
		return p.str()
	case c == '-' || (c >= '0' && c <= '9'):
		return p.num()
	case c == '[':
		p.i++
		p.ws()
		if p.i < len(p.b) && p.b[p.i] == ']' {
			p.i++
			return nil
		}
		for {
			p.ws()
			if e := p.value(depth + 1); e != nil {
				return e
			}
			p.ws()
			if p.i >= len(p.b) {
				return &jerr{"unterminated-array", p.i}
			}
			if p.b[p.i] == ',' {
				p.i++
				continue
			}
			if p.b[p.i] == ']' {
				p.i++
				return nil
			}
			return &jerr{"bad-array", p.i}
		}
	case c == '{':
		p.i++
		p.ws()
		if p.i < len(p.b) && p.b[p.i] == '}' {
			p.i++
			return nil
		}
		for {
			p.ws()
			if p.i >= len(p.b) || p.b[p.i] != '"' {
				return &jerr{"bad-object-name", p.i}
			}
			if e := p.str(); e != nil {
				return e
			}
			p.ws()
			if p.i >= len(p.b) || p.b[p.i] != ':' {
				return &jerr{"bad-object-colon", p.i}
			}
			p.i++
			p.ws()
			if e := p.value(depth + 1); e != nil {
				return e
			}
			p.ws()
			if p.i >= len(p.b) {
				return &jerr{"unterminated-object", p.i}
			}
			if p.b[p.i] == ',' {
				p.i++
				continue
			}
			if p.b[p.i] == '}' {
				p.i++
				return nil
			}
			return &jerr{"bad-object", p.i}
		}
	default:
		if c == ',' || c == ']' || c == '}' || c == ':' {
			return &jerr{"missing-value", p.i}
		}
		return &jerr{"bad-token", p.i}
	}
}

func isDigit(c byte) bool { return c >= '0' && c <= '9' }
func isHex(c byte) bool {
	return isDigit(c) || (c >= 'a' && c <= 'f') || (c >= 'A' && c <= 'F')
}

// number = [ minus ] int [ frac ] [ exp ]
func (p *vparser) num() *jerr {
	start := p.i
	if p.b[p.i] == '-' {
		p.i++
	}
	if p.i >= len(p.b) || !isDigit(p.b[p.i]) {
		return &jerr{"bad-number", start}
	}
	if p.b[p.i] == '0' {
		p.i++
	} else {
		for p.i < len(p.b) && isDigit(p.b[p.i]) {
			p.i++
		}
	}
	if p.i < len(p.b) && p.b[p.i] == '.' {
		p.i++
		if p.i >= len(p.b) || !isDigit(p.b[p.i]) {
			return &jerr{"bad-number", start}
		}
		for p.i < len(p.b) && isDigit(p.b[p.i]) {
			p.i++
		}
	}
	if p.i < len(p.b) && (p.b[p.i] == 'e' || p.b[p.i] == 'E') {
		p.i++
		if p.i < len(p.b) && (p.b[p.i] == '+' || p.b[p.i] == '-') {
			p.i++
		}
		if p.i >= len(p.b) || !isDigit(p.b[p.i]) {
			return &jerr{"bad-number", start}
		}
		for p.i < len(p.b) && isDigit(p.b[p.i]) {
			p.i++
		}
	}
	// a number must be followed by a structural character, whitespace or the end
	if p.i < len(p.b) {
		switch p.b[p.i] {
		case ',', ']', '}', ' ', '\t', '\n', '\r':
		default:
			return &jerr{"bad-number", start}
		}
	}
	return nil
}

func (p *vparser) str() *jerr {
	p.i++ // opening quote
	for {
		if p.i >= len(p.b) {
			return &jerr{"unterminated-string", p.i}
		}
		c := p.b[p.i]
		switch {
		case c == '"':
			p.i++
			return nil
		case c < 0x20:
			return &jerr{"control-char-in-string", p.i}
		case c == '\\':
			if p.i+1 >= len(p.b) {
				return &jerr{"unterminated-string", p.i}
			}
			switch p.b[p.i+1] {
			case '"', '\\', '/', 'b', 'f', 'n', 'r', 't':
				p.i += 2
			case 'u':
				if p.i+6 > len(p.b) || !isHex(p.b[p.i+2]) || !isHex(p.b[p.i+3]) || !isHex(p.b[p.i+4]) || !isHex(p.b[p.i+5]) {
					return &jerr{"bad-escape", p.i}
				}
				p.i += 6
			default:
				return &jerr{"bad-escape", p.i}
			}
		case c < 0x80:
			p.i++
		default:
			n := utf8SeqLen(p.b, p.i)
			if n == 0 {
				return &jerr{"invalid-utf8", p.i}
			}
			p.i += n
		}
	}
}

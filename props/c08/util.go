package main

import (
	"bytes"
	"encoding/hex"
	"encoding/json"
	"fmt"
	"math"
	"math/big"

	"github.com/99designs/gqlgen/graphql"

	"verif/common"
)

// marshalToBytes runs the real marshaler; a panic is returned, not propagated.
// Whatever was written before the panic is still returned.
func marshalToBytes(m graphql.Marshaler) (out []byte, pan any) {
	var buf bytes.Buffer
	defer func() {
		if r := recover(); r != nil {
			pan = r
		}
		out = buf.Bytes()
	}()
	m.MarshalGQL(&buf)
	return nil, nil
}

// decodeJSON decodes the way gqlgen's transports do (UseNumber).
func decodeJSON(b []byte) (any, error) {
	hasDigit := false
	for _, ch := range b {
		if ch >= '0' && ch <= '9' {
			hasDigit = true
			break
		}
	}
	if !hasDigit { // no number token possible: UseNumber cannot matter, skip the Decoder's buffer
		var v any
		err := json.Unmarshal(b, &v)
		return v, err
	}
	dec := json.NewDecoder(bytes.NewReader(b))
	dec.UseNumber()
	var v any
	err := dec.Decode(&v)
	return v, err
}

// ratFromText gives the exact value of a JSON number token (nil if s is not one).
func ratFromText(s string) *big.Rat {
	if s == "" || !(s[0] == '-' || isDigit(s[0])) || validateJSON([]byte(s)) != nil {
		return nil
	}
	r, ok := new(big.Rat).SetString(s)
	if !ok {
		return nil
	}
	return r
}

// ratOfGo gives the exact value of a Go numeric value (integers, finite floats, json.Number).
func ratOfGo(v any) *big.Rat {
	switch v := v.(type) {
	case int:
		return new(big.Rat).SetInt64(int64(v))
	case int8:
		return new(big.Rat).SetInt64(int64(v))
	case int16:
		return new(big.Rat).SetInt64(int64(v))
	case int32:
		return new(big.Rat).SetInt64(int64(v))
	case int64:
		return new(big.Rat).SetInt64(v)
	case uint:
		return new(big.Rat).SetInt(new(big.Int).SetUint64(uint64(v)))
	case uint8:
		return new(big.Rat).SetInt64(int64(v))
	case uint16:
		return new(big.Rat).SetInt64(int64(v))
	case uint32:
		return new(big.Rat).SetInt64(int64(v))
	case uint64:
		return new(big.Rat).SetInt(new(big.Int).SetUint64(v))
	case float32:
		if math.IsInf(float64(v), 0) || math.IsNaN(float64(v)) {
			return nil
		}
		return new(big.Rat).SetFloat64(float64(v))
	case float64:
		if math.IsInf(v, 0) || math.IsNaN(v) {
			return nil
		}
		return new(big.Rat).SetFloat64(v)
	case json.Number:
		return ratFromText(string(v))
	case *big.Int:
		return new(big.Rat).SetInt(v)
	case *big.Rat:
		return v
	}
	return nil
}

// floatTextDenotes tells whether the JSON number text denotes float f: the exact decimal value
// rounds (to nearest even) to f; for zero the sign must match.
func floatTextDenotes(text string, f float64) bool {
	r := ratFromText(text)
	if r == nil {
		return false
	}
	g, _ := r.Float64()
	if f == 0 {
		return g == 0 && (text[0] == '-') == math.Signbit(f)
	}
	return g == f
}

// anyValue in an expected value matches any single decoded JSON value. It stands where the
// original holds something JSON cannot represent: if the marshaler chooses to write a value
// there instead of reporting an error, it must still be exactly one value in that position.
type anyValue struct{}

func containsAnyValue(exp any) bool {
	switch e := exp.(type) {
	case anyValue:
		return true
	case []any:
		for _, x := range e {
			if containsAnyValue(x) {
				return true
			}
		}
	case map[string]any:
		for _, x := range e {
			if containsAnyValue(x) {
				return true
			}
		}
	}
	return false
}

// jsonEqual compares an expected Go value with a value decoded by decodeJSON.
// Strings (and object names) are compared after the reference U+FFFD replacement.
func jsonEqual(exp, dec any) bool {
	switch e := exp.(type) {
	case anyValue:
		return true
	case nil:
		return dec == nil
	case bool:
		d, ok := dec.(bool)
		return ok && d == e
	case string:
		d, ok := dec.(string)
		return ok && d == sanitize(e)
	case float64:
		d, ok := dec.(json.Number)
		return ok && floatTextDenotes(string(d), e)
	case float32:
		// encoding/json writes the shortest text that round-trips as float32
		d, ok := dec.(json.Number)
		if !ok {
			return false
		}
		r := ratFromText(string(d))
		if r == nil {
			return false
		}
		g, _ := r.Float32()
		return g == e
	case []any:
		if dec == nil && containsAnyValue(e) {
			return true // the whole subtree holding an unrepresentable value was written as null
		}
		d, ok := dec.([]any)
		if !ok || len(d) != len(e) {
			return false
		}
		for i := range e {
			if !jsonEqual(e[i], d[i]) {
				return false
			}
		}
		return true
	case map[string]any:
		if dec == nil && containsAnyValue(e) {
			return true
		}
		d, ok := dec.(map[string]any)
		if !ok || len(d) != len(e) {
			return false
		}
		for k, ev := range e {
			dv, ok := d[sanitize(k)]
			if !ok || !jsonEqual(ev, dv) {
				return false
			}
		}
		return true
	default:
		er := ratOfGo(exp)
		if er == nil {
			common.Broken("jsonEqual: unsupported expected value %T", exp)
		}
		d, ok := dec.(json.Number)
		if !ok {
			return false
		}
		dr := ratFromText(string(d))
		return dr != nil && dr.Cmp(er) == 0
	}
}

// checkWire applies the three wire-level clauses of the statement to the bytes produced for one
// value: strict validity, and decoded value == expected. hasInvalid tells whether a string that
// gqlgen itself had to write contained ill-formed UTF-8 (needed to name the D4 class precisely).
// It returns the decoded value, or a signature class and a description.
func checkWire(out []byte, pan any, expected any, hasInvalid bool) (dec any, class, what string) {
	if pan != nil {
		return nil, "panic", fmt.Sprintf("marshal panicked: %v", pan)
	}
	if e := validateJSON(out); e != nil {
		if e.Kind == "invalid-utf8" && hasInvalid {
			rep := sanitizeBytes(out)
			if validateJSON(rep) == nil {
				if d, err := decodeJSON(rep); err == nil && jsonEqual(expected, d) {
					return nil, "invalid-utf8-byte-copied",
						fmt.Sprintf("output %s is not UTF-8: ill-formed input byte copied verbatim at offset %d (would be correct with U+FFFD there)", show(out), e.Off)
				}
			}
		}
		return nil, "invalid-json:" + e.Kind, fmt.Sprintf("output %s is not a strict JSON text: %s at offset %d", show(out), e.Kind, e.Off)
	}
	d, err := decodeJSON(out)
	if err != nil {
		common.Broken("strict validator accepted %s but encoding/json cannot decode it: %v", show(out), err)
	}
	if !jsonEqual(expected, d) {
		return d, "decoded-differs", fmt.Sprintf("output %s decodes to %#v, expected %s", show(out), d, showVal(expected))
	}
	return d, "", ""
}

// show renders bytes readably and exactly.
func show(b []byte) string {
	if len(b) > 200 {
		return fmt.Sprintf("%q…(%d bytes)", b[:200], len(b))
	}
	return fmt.Sprintf("%q", b)
}

func showVal(v any) string {
	switch v := v.(type) {
	case string:
		return fmt.Sprintf("%q (after U+FFFD replacement %q)", v, sanitize(v))
	case *big.Rat:
		return v.RatString()
	case *big.Int:
		return v.String()
	}
	return fmt.Sprintf("%#v", v)
}

func hx(s string) string { return hex.EncodeToString([]byte(s)) }

func unhx(s string) string {
	b, err := hex.DecodeString(s)
	if err != nil {
		common.Broken("bad hex in replay: %v", err)
	}
	return string(b)
}

// selfTest checks the oracle's own pieces against each other on fixed vectors (exit 2 on failure).
func selfTest() {
	good := []string{`null`, ` true `, `false`, `0`, `-0`, `1e+21`, `-1.5E-3`, `""`, `"é\n\/"`, `[]`, `[1,"a",{}]`,
		`{"a":[null]}` + "\n", "\"\xc3\xa9\"", "\"\xf4\x8f\xbf\xbf\"", `{"a":1,"a":2}`, "\"\x7f\""}
	bad := []string{``, ` `, `nul`, `01`, `1.`, `.5`, `-`, `1e`, `+1`, `NaN`, `"`, `"\x"`, `"\u12"`, "\"\x1f\"", "\"\n\"",
		"\"\x80\"", "\"\xc0\x80\"", "\"\xed\xa0\x80\"", "\"\xf4\x90\x80\x80\"", "\"\xe2\x82\"", `[1,]`, `{"a"}`, `{a:1}`, `[1 2]`, `1 2`, `{"a":}`,
		`-Inf`, `tru`, `"a"b`, `[`, `{`, `{"a":1`, "\"\xff\""}
	for _, s := range good {
		if e := validateJSON([]byte(s)); e != nil {
			common.Broken("self-test: validator rejects %q (%s)", s, e.Kind)
		}
	}
	for _, s := range bad {
		if validateJSON([]byte(s)) == nil {
			common.Broken("self-test: validator accepts %q", s)
		}
	}
	if sanitize("a\xffb\xed\xa0\x80\xe2\x82") != "a�b�����" {
		common.Broken("self-test: sanitize")
	}
	if r := ratFromText("1e+21"); r == nil || r.Cmp(new(big.Rat).SetFloat64(1e21)) != 0 {
		common.Broken("self-test: ratFromText")
	}
	if !floatTextDenotes("-0", math.Copysign(0, -1)) || floatTextDenotes("0", math.Copysign(0, -1)) || !floatTextDenotes("5e-324", 5e-324) {
		common.Broken("self-test: floatTextDenotes")
	}
}

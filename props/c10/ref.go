package main

// The reference: small spec functions, independent of gqlgen, that say what outcome
// class a request must have. They use only the standard library.

import (
	"bytes"
	"encoding/json"
	"net/url"
	"strconv"
	"strings"
)

// firstJSON decodes the first complete JSON value of b (stream semantics of
// encoding/json: bytes after that value are not looked at). trailing reports whether
// anything but white space follows.
func firstJSON(b []byte) (v any, trailing bool, err error) {
	dec := json.NewDecoder(bytes.NewReader(b))
	dec.UseNumber()
	if err = dec.Decode(&v); err != nil {
		return nil, false, err
	}
	off := int(dec.InputOffset())
	if off > len(b) {
		off = len(b)
	}
	return v, len(bytes.TrimSpace(b[off:])) > 0, nil
}

func jsonKind(v any) string {
	switch v.(type) {
	case nil:
		return "null"
	case bool:
		return "bool"
	case json.Number:
		return "number"
	case string:
		return "string"
	case []any:
		return "array"
	case map[string]any:
		return "object"
	}
	return "?"
}

// refParams applies the GraphQL-over-HTTP request shape to a decoded JSON object:
// query/operationName are strings, variables/extensions are objects, headers maps names to
// string lists; null counts as absent. Keys are matched case-insensitively (encoding/json
// does, and the bounded spaces cannot contain a differently-cased key anyway).
type refReq struct {
	Query, OpName string
	Vars          map[string]any
	HasVars       bool
}

func refParams(obj map[string]any) (refReq, bool) {
	var r refReq
	for k, v := range obj {
		switch strings.ToLower(k) {
		case "query":
			switch x := v.(type) {
			case nil:
			case string:
				r.Query = x
			default:
				return r, false
			}
		case "operationname":
			switch x := v.(type) {
			case nil:
			case string:
				r.OpName = x
			default:
				return r, false
			}
		case "variables":
			switch x := v.(type) {
			case nil:
			case map[string]any:
				r.Vars, r.HasVars = x, true
			default:
				return r, false
			}
		case "extensions":
			switch v.(type) {
			case nil, map[string]any:
			default:
				return r, false
			}
		case "headers":
			switch x := v.(type) {
			case nil:
			case map[string]any:
				for _, hv := range x {
					switch l := hv.(type) {
					case nil:
					case []any:
						for _, e := range l {
							if _, ok := e.(string); !ok && e != nil {
								return r, false
							}
						}
					default:
						return r, false
					}
				}
			default:
				return r, false
			}
		}
	}
	return r, true
}

// ---- GraphQL documents against handschema ---------------------------------------------

const docQ = "query Q($x:Int){b(x:$x)}"

// refQuery says whether doc (with operation name and variables) is a well-formed request
// against handschema and, if so, the exact data. It knows the literal documents the
// enumerators use plus the complete language of shorthand queries over field `a`
// (optionally aliased), which is every valid document expressible in the bounded raw-byte
// alphabets (no letters other than 'a', no parentheses, '@', '$' or '_').
func refQuery(doc, opName string, vars map[string]any) (bool, string) {
	switch doc {
	case docQ:
		if opName != "" && opName != "Q" {
			return false, ""
		}
		if x, ok := vars["x"]; ok && x != nil {
			n, ok := x.(json.Number)
			if !ok {
				return false, ""
			}
			i, err := strconv.ParseInt(string(n), 10, 32)
			if err != nil {
				return false, ""
			}
			return true, `{"b":` + strconv.FormatInt(i*2, 10) + `}`
		}
		return true, `{"b":null}`
	case "mutation{m2}":
		if opName != "" {
			return false, ""
		}
		return true, `{"m2":"M2"}`
	}
	if opName != "" {
		return false, "" // shorthand queries are anonymous
	}
	return refShorthand(doc)
}

// refShorthand recognises `{` (name | alias `:` name)+ `}` with every field named "a".
// Ignored between tokens: space, tab, CR, LF, comma, BOM-less. '#' comments are honoured.
// Anything else makes the document invalid.
func refShorthand(doc string) (bool, string) {
	type tok struct{ kind, text string }
	var toks []tok
	i := 0
	isNameStart := func(c byte) bool { return c == '_' || c >= 'a' && c <= 'z' || c >= 'A' && c <= 'Z' }
	isNameCont := func(c byte) bool { return isNameStart(c) || c >= '0' && c <= '9' }
	for i < len(doc) {
		c := doc[i]
		switch {
		case c == ' ' || c == '\t' || c == '\n' || c == '\r' || c == ',':
			i++
		case c == '#':
			for i < len(doc) && doc[i] != '\n' && doc[i] != '\r' {
				i++
			}
		case c == '{' || c == '}' || c == ':':
			toks = append(toks, tok{string(c), string(c)})
			i++
		case isNameStart(c):
			j := i
			for j < len(doc) && isNameCont(doc[j]) {
				j++
			}
			toks = append(toks, tok{"name", doc[i:j]})
			i = j
		default:
			return false, ""
		}
	}
	if len(toks) < 3 || toks[0].kind != "{" || toks[len(toks)-1].kind != "}" {
		return false, ""
	}
	body := toks[1 : len(toks)-1]
	var keys []string
	seen := map[string]bool{}
	for k := 0; k < len(body); {
		if body[k].kind != "name" {
			return false, ""
		}
		key, field := body[k].text, body[k].text
		k++
		if k < len(body) && body[k].kind == ":" {
			if k+1 >= len(body) || body[k+1].kind != "name" {
				return false, ""
			}
			field = body[k+1].text
			k += 2
		}
		if field != "a" {
			return false, "" // the only field spellable here; others are validation errors
		}
		if strings.HasPrefix(key, "__") {
			return false, ""
		}
		if !seen[key] {
			seen[key] = true
			keys = append(keys, key)
		}
	}
	var sb strings.Builder
	sb.WriteByte('{')
	for n, k := range keys {
		if n > 0 {
			sb.WriteByte(',')
		}
		kb, _ := json.Marshal(k)
		sb.Write(kb)
		sb.WriteString(`:"A"`)
	}
	sb.WriteByte('}')
	return true, sb.String()
}

// expectFromJSONBody: the reference outcome for a JSON request body (POST, SSE,
// multipart/mixed, urlencoded-as-JSON, websocket start payload).
func expectFromJSONBody(body []byte) Expect {
	v, trailing, err := firstJSON(body)
	if err != nil {
		return Expect{Kind: "client-error"}
	}
	obj, ok := v.(map[string]any)
	if !ok {
		return Expect{Kind: "client-error", Lenient: trailing}
	}
	req, ok := refParams(obj)
	if !ok {
		return Expect{Kind: "client-error", Lenient: trailing}
	}
	if valid, data := refQuery(req.Query, req.OpName, req.Vars); valid {
		return Expect{Kind: "success", Data: data, Lenient: trailing}
	}
	return Expect{Kind: "client-error", Lenient: trailing}
}

// expectFromJSONMapParam: GET `variables` / `extensions` parameter carried next to the
// valid query {a}.
func expectFromJSONMapParam(raw []byte) Expect {
	if len(raw) == 0 {
		return Expect{Kind: "success", Data: `{"a":"A"}`}
	}
	v, trailing, err := firstJSON(raw)
	if err != nil {
		return Expect{Kind: "client-error"}
	}
	switch v.(type) {
	case nil, map[string]any:
		return Expect{Kind: "success", Data: `{"a":"A"}`, Lenient: trailing}
	}
	return Expect{Kind: "client-error", Lenient: trailing}
}

// expectFromQueryString: a raw URL query string on GET.
func expectFromQueryString(raw string) Expect {
	q, err := url.ParseQuery(raw)
	if err != nil {
		return Expect{Kind: "client-error"}
	}
	lenient := false
	var vars map[string]any
	for _, name := range []string{"variables", "extensions"} {
		if s := q.Get(name); s != "" {
			v, trailing, err := firstJSON([]byte(s))
			if err != nil {
				return Expect{Kind: "client-error"}
			}
			lenient = lenient || trailing
			switch x := v.(type) {
			case nil:
			case map[string]any:
				if name == "variables" {
					vars = x
				}
			default:
				return Expect{Kind: "client-error", Lenient: lenient}
			}
		}
	}
	doc := q.Get("query")
	if doc == "mutation{m2}" {
		return Expect{Kind: "client-error", Lenient: lenient} // GET never mutates
	}
	if valid, data := refQuery(doc, q.Get("operationName"), vars); valid {
		return Expect{Kind: "success", Data: data, Lenient: lenient}
	}
	return Expect{Kind: "client-error", Lenient: lenient}
}

// expectFromDocBody: application/graphql and urlencoded bodies carry the document itself,
// optionally prefixed with "query=" and optionally percent-encoded. The reference does not
// decide which reading a server must take: if no reading is a valid document the client
// must get an error; if every reading is valid (and agrees) it must succeed; otherwise
// either consistent outcome is accepted.
func expectFromDocBody(body []byte) Expect {
	s := string(body)
	if strings.Contains(s, `"query":`) { // JSON-looking body: defined by the JSON rules
		e := expectFromJSONBody(body)
		if e.Kind == "success" {
			return e
		}
		// as a bare document it cannot be valid either (it contains a string token)
		return Expect{Kind: "client-error", Lenient: e.Lenient}
	}
	readings := []string{s, strings.TrimPrefix(s, "query=")}
	for _, r := range []string{s, strings.TrimPrefix(s, "query=")} {
		if u, err := url.QueryUnescape(r); err == nil {
			readings = append(readings, u, strings.TrimPrefix(u, "query="))
		}
	}
	nValid, data := 0, ""
	agree := true
	for _, r := range readings {
		if ok, d := refQuery(r, "", nil); ok {
			if nValid > 0 && d != data {
				agree = false
			}
			nValid++
			data = d
		}
	}
	switch {
	case nValid == 0:
		return Expect{Kind: "client-error"}
	case nValid == len(readings) && agree:
		return Expect{Kind: "success", Data: data}
	case agree:
		return Expect{Kind: "error-or-success", Data: data}
	}
	return Expect{Kind: "any"}
}

// ---- multipart map paths ----------------------------------------------------------------

type uploadMark struct{ file int }

// refWalk follows the graphql-multipart-request-spec object path through the operations
// variables. It returns "" and the container slot when the path addresses a slot, otherwise
// the reason the path is malformed.
func refWalk(hasVars bool, vars any, path string, set func(container any, key string, idx int)) string {
	segs := strings.Split(path, ".")
	if segs[0] != "variables" || len(segs) < 2 {
		return "no-variables-prefix"
	}
	if !hasVars || vars == nil {
		return "variables-missing"
	}
	var cur any = vars
	for i, s := range segs[1:] {
		last := i == len(segs)-2
		idx, numErr := strconv.Atoi(s)
		switch c := cur.(type) {
		case map[string]any:
			if numErr == nil {
				return "index-on-object"
			}
			if last {
				set(c, s, 0)
				return ""
			}
			next, ok := c[s]
			if !ok || next == nil {
				return "path-through-null"
			}
			cur = next
		case []any:
			if numErr != nil {
				return "key-on-list"
			}
			if idx < 0 {
				return "negative-index"
			}
			if idx >= len(c) {
				return "index-out-of-range"
			}
			if last {
				set(c, "", idx)
				return ""
			}
			if c[idx] == nil {
				return "path-through-null"
			}
			cur = c[idx]
		case nil:
			return "path-through-null"
		case uploadMark:
			return "path-through-upload"
		default:
			return "path-through-scalar"
		}
	}
	return "no-variables-prefix"
}

package main

// Websocket case spaces: (a) the JSON shapes as `start`/`subscribe` payloads, (d) all frame
// sequences up to a length over the frame alphabet, explored as a tree that is not
// extended below a sequence after which the server has closed (no further frame can be
// delivered, so every extension is observationally the prefix).

import (
	"encoding/json"
	"fmt"
)

var subprotocols = []string{"graphql-ws", "graphql-transport-ws"}

func startType(sub string) string {
	if sub == "graphql-ws" {
		return "start"
	}
	return "subscribe"
}

func wsText(typ, id, payload string) []byte {
	s := `{"type":"` + typ + `"`
	if id != "" {
		s += `,"id":"` + id + `"`
	}
	if payload != "" {
		s += `,"payload":` + payload
	}
	return []byte(s + "}")
}

var payloadKinds = []struct{ name, text string }{
	{"absent", ""}, {"json-null", "null"}, {"json-empty-object", "{}"}, {"json-array", "[]"},
	{"json-number", "5"}, {"json-string", `"s"`}, {"valid", "VALID"},
}

// wsAlphabet is the (d) alphabet of one subprotocol, simplest first.
func wsAlphabet(sub string) []WSFrame {
	var al []WSFrame
	add := func(class, must string, op byte, data []byte, exp string) {
		al = append(al, WSFrame{Op: op, Data: data, Class: class, Must: must, Data2: exp})
	}
	msg := func(typ, id string, valid string, classify func(pk string) (string, string, string)) {
		for _, pk := range payloadKinds {
			p := pk.text
			if p == "VALID" {
				p = valid
			}
			class, must, exp := classify(pk.name)
			add(class, must, opText, wsText(typ, id, p), exp)
		}
	}
	msg("connection_init", "", `{"Authorization":"x"}`, func(pk string) (string, string, string) {
		switch pk {
		case "json-array", "json-number", "json-string":
			return "ws-init:non-object-payload", "error-or-close", ""
		}
		return "ws-init:payload-" + pk, "", ""
	})
	msg(startType(sub), "1", `{"query":"{a}"}`, func(pk string) (string, string, string) {
		switch pk {
		case "valid":
			return "ws-start:valid", "data", `{"a":"A"}`
		case "json-empty-object":
			return "ws-start:no-query", "error-or-close", ""
		}
		return "ws-start:payload-" + pk, "error-or-close", ""
	})
	plain := func(name string) func(pk string) (string, string, string) {
		return func(pk string) (string, string, string) { return "ws-" + name + ":payload-" + pk, "", "" }
	}
	bad := func(name string) func(pk string) (string, string, string) {
		return func(pk string) (string, string, string) { return "ws:" + name, "error-or-close", "" }
	}
	if sub == "graphql-ws" {
		msg("stop", "1", `{"k":1}`, plain("stop"))
		msg("connection_terminate", "", `{"k":1}`, plain("terminate"))
		msg("data", "1", `{"k":1}`, bad("server-only-type"))
	} else {
		msg("complete", "1", `{"k":1}`, plain("complete"))
		msg("ping", "", `{"k":1}`, plain("ping"))
		msg("pong", "", `{"k":1}`, plain("pong"))
		msg("next", "1", `{"k":1}`, bad("server-only-type"))
	}
	msg("bogus", "1", `{"k":1}`, bad("unknown-type"))
	add("ws:missing-type", "error-or-close", opText, []byte(`{"id":"1"}`), "")
	add("ws:json-non-object", "error-or-close", opText, []byte(`null`), "")
	add("ws:json-non-object", "error-or-close", opText, []byte(`[]`), "")
	add("ws:non-json-text", "error-or-close", opText, []byte(`not json`), "")
	add("ws:non-json-text", "error-or-close", opText, []byte(``), "")
	add("ws:binary-garbage", "error-or-close", opBinary, []byte{0x00, 0xff}, "")
	add("ws:binary-json", "", opBinary, wsText("connection_init", "", ""), "")
	add("ws:control-ping", "", opPing, []byte("p"), "")
	add("ws:client-close", "error-or-close", opClose, []byte{0x03, 0xe8}, "")
	return al
}

// wsJSONShapeCases: part (a) on the websocket transport.
func wsJSONShapeCases(tier string, each func(c *WSCase)) {
	subs := subprotocols
	for _, sub := range subs {
		sub := sub
		jsonBodies(func(class, body string) {
			if !json.Valid([]byte(body)) {
				return // cannot be embedded as a payload; covered as raw frames in (d)
			}
			exp := expectFromJSONBody([]byte(body))
			f := WSFrame{Op: opText, Data: wsText(startType(sub), "1", body), Class: "ws-start:payload-" + class[len("body-"):]}
			if exp.Kind == "success" {
				f.Must, f.Data2 = "data", exp.Data
			} else {
				f.Must = "error-or-close"
			}
			each(&WSCase{Part: "a", Subprotocol: sub, Frames: []WSFrame{
				{Op: opText, Data: wsText("connection_init", "", ""), Class: "ws-init:payload-absent"}, f}})
		})
	}
}

func wsKey(c *WSCase) string {
	s := c.Part + "|" + c.Subprotocol
	for _, f := range c.Frames {
		s += fmt.Sprintf("|%d:%s", f.Op, f.Data)
	}
	return s
}

package main

// Websocket case spaces: (a) the JSON shapes as `start`/`subscribe` payloads, (d) all frame
// sequences up to a length over the frame alphabet, explored as a tree that is not
// extended below a sequence after which the server has closed (no further frame can be
// delivered, so every extension is observationally the prefix).

import (
	"encoding/json"
	"fmt"
)

var subprotocols = []string{"graphql-ws", "graphql-transport-ws"}

func startType(sub string) string {
	if sub == "graphql-ws" {
		return "start"
	}
	return "subscribe"
}

func wsText(typ, id, payload string) []byte {
	s := `{"type":"` + typ + `"`
	if id != "" {
		s += `,"id":"` + id + `"`
	}
	if payload != "" {
		s += `,"payload":` + payload
	}
	return []byte(s + "}")
}

var payloadKinds = []struct{ name, text string }{
	{"absent", ""}, {"json-null", "null"}, {"json-empty-object", "{}"}, {"json-array", "[]"},
	{"json-number", "5"}, {"json-string", `"s"`}, {"valid", "VALID"},
}

// wsAlphabet is the (d) alphabet of one subprotocol, simplest first.
func wsAlphabet(sub string) []WSFrame {
	var al []WSFrame
	add := func(class, must string, op byte, data []byte, exp string) {
		al = append(al, WSFrame{Op: op, Data: data, Class: class, Must: must, Data2: exp})
	}
	msg := func(typ, id string, valid string, classify func(pk string) (string, string, string)) {
		for _, pk := range payloadKinds {
			p := pk.text
			if p == "VALID" {
				p = valid
			}
			class, must, exp := classify(pk.name)
			add(class, must, opText, wsText(typ, id, p), exp)
		}
	}
	msg("connection_init", "", `{"Authorization":"x"}`, func(pk string) (string, string, string) {
		switch pk {
		case "json-array", "json-number", "json-string":
			return "ws-init:non-object-payload", "error-or-close", ""
		}
		return "ws-init:payload-" + pk, "", ""
	})
	msg(startType(sub), "1", `{"query":"{a}"}`, func(pk string) (string, string, string) {
		switch pk {
		case "valid":
			return "ws-start:valid", "data", `{"a":"A"}`
		case "json-empty-object":
			return "ws-start:no-query", "error-or-close", ""
		}
		return "ws-start:payload-" + pk, "error-or-close", ""
	})
	plain := func(name string) func(pk string) (string, string, string) {
		return func(pk string) (string, string, string) { return "ws-" + name + ":payload-" + pk, "", "" }
	}
	bad := func(name string) func(pk string) (string, string, string) {
		return func(pk string) (string, string, string) { return "ws:" + name, "error-or-close", "" }
	}
	if sub == "graphql-ws" {
		msg("stop", "1", `{"k":1}`, plain("stop"))
		msg("connection_terminate", "", `{"k":1}`, plain("terminate"))
		msg("data", "1", `{"k":1}`, bad("server-only-type"))
	} else {
		msg("complete", "1", `{"k":1}`, plain("complete"))
		msg("ping", "", `{"k":1}`, plain("ping"))
		msg("pong", "", `{"k":1}`, plain("pong"))
		msg("next", "1", `{"k":1}`, bad("server-only-type"))
	}
	msg("bogus", "1", `{"k":1}`, bad("unknown-type"))
	add("ws:missing-type", "error-or-close", opText, []byte(`{"id":"1"}`), "")
	add("ws:json-non-object", "error-or-close", opText, []byte(`null`), "")
	add("ws:json-non-object", "error-or-close", opText, []byte(`[]`), "")
	add("ws:non-json-text", "error-or-close", opText, []byte(`not json`), "")
	add("ws:non-json-text", "error-or-close", opText, []byte(``), "")
	add("ws:binary-garbage", "error-or-close", opBinary, []byte{0x00, 0xff}, "")
	add("ws:binary-json", "", opBinary, wsText("connection_init", "", ""), "")
	add("ws:control-ping", "", opPing, []byte("p"), "")
	add("ws:client-close", "error-or-close", opClose, []byte{0x03, 0xe8}, "")
	return al
}

// wsJSONShapeCases: part (a) on the websocket transport.
func wsJSONShapeCases(tier string, each func(c *WSCase)) {
	subs := subprotocols
	for _, sub := range subs {
		sub := sub
		jsonBodies(func(class, body string) {
			if !json.Valid([]byte(body)) {
				return // cannot be embedded as a payload; covered as raw frames in (d)
			}
			exp := expectFromJSONBody([]byte(body))
			f := WSFrame{Op: opText, Data: wsText(startType(sub), "1", body), Class: "ws-start:payload-" + class[len("body-"):]}
			if exp.Kind == "success" {
				f.Must, f.Data2 = "data", exp.Data
			} else {
				f.Must = "error-or-close"
			}
			each(&WSCase{Part: "a", Subprotocol: sub, Frames: []WSFrame{
				{Op: opText, Data: wsText("connection_init", "", ""), Class: "ws-init:payload-absent"}, f}})
		})
	}
}

func wsKey(c *WSCase) string {
	s := c.Part + "|" + c.Subprotocol + "|" + c.Mode
	for _, f := range c.Frames {
		s += fmt.Sprintf("|%d:%s", f.Op, f.Data)
	}
	return s
}

// ---- (e) frames while an operation is active and producing results ---------------------------

func subFrame(sub, id string, n int) WSFrame {
	return WSFrame{Op: opText, Class: "ws-start:subscription", Data: wsText(startType(sub), id,
		fmt.Sprintf(`{"query":"subscription{s(n:%d)}"}`, n))}
}

// activeAlphabet: text frames that may arrive while operation 1 is streaming. Control
// frames are left out on purpose: gorilla answers them through WriteControl, which waits for
// the write lock against a wall-clock deadline.
func activeAlphabet(sub string) []WSFrame {
	var al []WSFrame
	add := func(class string, data []byte) { al = append(al, WSFrame{Op: opText, Class: class, Data: data}) }
	if sub == "graphql-transport-ws" {
		for _, typ := range []string{"ping", "pong"} {
			for _, pk := range payloadKinds {
				p := pk.text
				if p == "VALID" {
					p = `{"k":1}`
				}
				add("ws-"+typ+":payload-"+pk.name, wsText(typ, "", p))
			}
		}
		add("ws-complete", wsText("complete", "1", ""))
	} else {
		add("ws-stop", wsText("stop", "1", ""))
		add("ws-terminate", wsText("connection_terminate", "", ""))
		add("ws:server-only-type", wsText("data", "1", ""))
	}
	f := subFrame(sub, "2", 2)
	f.Class = "ws-start:second-subscription"
	al = append(al, f)
	add("ws:unknown-type", wsText("bogus", "1", ""))
	add("ws:non-json-text", []byte("not json"))
	return al
}

// neutral: the frame neither ends operation 1 nor closes the connection.
func neutralActive(f WSFrame) bool {
	c := f.Class
	return len(c) >= 7 && (c[:7] == "ws-ping" || c[:7] == "ws-pong") || c == "ws-start:second-subscription"
}

func pingPayload(f WSFrame) (string, bool) {
	if len(f.Class) < 7 || f.Class[:7] != "ws-ping" {
		return "", false
	}
	var m struct {
		Payload json.RawMessage `json:"payload"`
	}
	json.Unmarshal(f.Data, &m)
	return string(m.Payload), true
}

func activeCase(sub, mode string, n int, group []WSFrame, rep int) *WSCase {
	c := &WSCase{Part: "e", Subprotocol: sub, Mode: mode, Active: 1, Rep: rep, Frames: []WSFrame{
		{Op: opText, Data: wsText("connection_init", "", ""), Class: "ws-init:payload-absent"}, subFrame(sub, "1", n)}}
	c.Frames = append(c.Frames, group...)
	allNeutral := true
	for _, g := range group {
		if !neutralActive(g) {
			allNeutral = false
		}
		if p, ok := pingPayload(g); ok {
			c.ExpPongs = append(c.ExpPongs, p)
		}
	}
	if allNeutral {
		c.ExpNext = n
		c.CheckPongs = sub == "graphql-transport-ws"
	}
	return c
}

// wsActiveCases enumerates part (e).
func wsActiveCases(tier string, each func(c *WSCase)) {
	for _, sub := range subprotocols {
		al := activeAlphabet(sub)
		// stall: every single frame (thorough: every ordered pair) delivered while the first
		// result of operation 1 is stuck in its socket write
		for _, x := range al {
			each(activeCase(sub, "stall", 3, []WSFrame{x}, 0))
		}
		if tier == "thorough" {
			for _, x := range al {
				for _, y := range al {
					each(activeCase(sub, "stall", 3, []WSFrame{x, y}, 0))
				}
			}
		}
		// burst: free-running repetitions
		reps := 5
		if tier == "thorough" {
			reps = 25
		}
		var bursts [][]WSFrame
		second := subFrame(sub, "2", 5)
		second.Class = "ws-start:second-subscription"
		if sub == "graphql-transport-ws" {
			ping := func(p string) WSFrame {
				return WSFrame{Op: opText, Class: "ws-ping:burst", Data: wsText("ping", "", p)}
			}
			pong := WSFrame{Op: opText, Class: "ws-pong:burst", Data: wsText("pong", "", "")}
			bursts = append(bursts,
				[]WSFrame{ping(""), ping(`{"k":1}`), pong, ping(`"s"`), ping("5")},
				[]WSFrame{second, ping(""), ping(`[]`), ping("null"), pong, ping(`{}`)})
		} else {
			bursts = append(bursts, []WSFrame{second})
		}
		for _, b := range bursts {
			for r := 0; r < reps; r++ {
				each(activeCase(sub, "burst", 5, b, r))
			}
		}
	}
}

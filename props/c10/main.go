// C10 — malformed client input gets a client error, never gqlgen's own panic path.
//
// Bounded exhaustive enumeration against the real handler.Server (all transports, counting
// recover hook, resolvers that never panic):
//
//	(a) JSON request bodies of every shape on POST / SSE / multipart-mixed / urlencoded /
//	    websocket start payload,
//	(b) raw byte strings as POST body, GET parameters, raw query string, urlencoded and
//	    application/graphql bodies,
//	(c) multipart upload forms: variable shapes x map paths, size limits, part orders,
//	    operations/map JSON shapes, truncated bodies,
//	(d) websocket frame sequences of both subprotocols.
//
// The orchestrator starts one worker *process* per CPU (TMPDIR is process-global and the
// websocket quiescence test inspects the process's goroutines); each worker runs its share
// of the cases sequentially and reports counts and disagreements as JSON.
package main

import (
	"bytes"
	"encoding/json"
	"fmt"
	"hash/fnv"
	"io"
	"log"
	"os"
	"os/exec"
	"path/filepath"
	"runtime"
	"sort"
	"strconv"
	"strings"
	"sync"
	"time"

	"verif/common"
	"verif/probe"
)

type Finding struct {
	Sig    string `json:"sig"`
	What   string `json:"what"`
	Order  string `json:"order"` // smallest wins when several workers saw the signature
	Replay any    `json:"replay"`
}

type Result struct {
	Shard       int                 `json:"shard"`
	Evals       map[string]int      `json:"evals"`      // per part:endpoint
	Nontrivial  int                 `json:"nontrivial"` // distinct, reached gqlgen, non-empty input
	Duplicates  int                 `json:"duplicates"`
	Unreachable int                 `json:"unreachable"`
	Lenient     int                 `json:"lenient"`
	ExpKinds    map[string]int      `json:"exp_kinds"`
	Outcomes    map[string]int      `json:"outcomes"` // endpoint/status
	WSExecuted  int                 `json:"ws_executed"`
	WSPruned    int                 `json:"ws_pruned"`
	WSFrames    int                 `json:"ws_frames_sent"`
	UploadsOK   int                 `json:"uploads_delivered_exact"`
	SpillFiles  int                 `json:"spill_cases"`
	StallForced int                 `json:"stall_forced"` // part (e): a server goroutine really was stuck in its socket write while the frames arrived
	Repetitions int                 `json:"repetitions"`
	SeqRequests int                 `json:"seq_requests"` // part (f): requests sent inside sequences
	Findings    map[string]*Finding `json:"findings"`
	Samples     []any               `json:"samples"`
	Incomplete  []string            `json:"incomplete"`
	Seq         int                 `json:"-"`
}

func fnv64(s string) uint64 {
	h := fnv.New64a()
	h.Write([]byte(s))
	return h.Sum64()
}

type worker struct {
	shard, of int
	tier      string
	rig       *rig
	res       *Result
	seen      map[uint64]struct{}
	deadline  time.Time
	expired   bool
	n         int
}

func (w *worker) isExpired() bool {
	if w.expired {
		return true
	}
	w.n++
	if w.n%256 == 0 && !w.deadline.IsZero() && time.Now().After(w.deadline) {
		w.expired = true
	}
	return w.expired
}

func (w *worker) finding(sig, what, order string, replay any) {
	if f, ok := w.res.Findings[sig]; ok && f.Order <= order {
		return
	}
	w.res.Findings[sig] = &Finding{Sig: sig, What: what, Order: order, Replay: replay}
}

func signature(c *HTTPCase, kind string) string {
	if strings.HasPrefix(c.Class, "AddUpload:") {
		return c.Class + ":" + kind
	}
	return strings.TrimSuffix(c.Endpoint, "-grjson") + ":" + c.Class + ":" + kind
}

func (w *worker) httpCase(c *HTTPCase) {
	if w.isExpired() {
		return
	}
	k := c.key()
	h := fnv64(k)
	if int(h%uint64(w.of)) != w.shard {
		return
	}
	if _, dup := w.seen[h]; dup {
		w.res.Duplicates++
		return
	}
	w.seen[h] = struct{}{}
	w.res.Seq++
	o := w.rig.run(c, c.Part == "c")
	w.res.Evals[c.Part+":"+c.Endpoint]++
	if o.Unreachable {
		w.res.Unreachable++
		return
	}
	w.res.ExpKinds[c.Exp.Kind]++
	if c.Exp.Lenient {
		w.res.Lenient++
	}
	w.res.Outcomes[c.Endpoint+"/"+strconv.Itoa(o.Status)]++
	if len(c.Body)+len(c.RawReq)+len(c.Target) > 0 {
		w.res.Nontrivial++
	}
	if c.Up && c.MaxMem != 0 && int64(len(c.Body)) >= c.MaxMem {
		w.res.SpillFiles++
	}
	fails := judge(c, &o)
	if len(fails) == 0 && c.Exp.Kind == "success" && c.Up {
		w.res.UploadsOK += len(c.Exp.Uploads)
	}
	for _, f := range fails {
		w.finding(signature(c, f.Kind), f.What, fmt.Sprintf("%s|%06d|%s", c.Part, len(k), k), map[string]any{"kind": "http", "case": c, "observed": o})
	}
	if len(w.res.Samples) < 40 && w.res.Seq%997 == 1 {
		w.res.Samples = append(w.res.Samples, map[string]any{"part": c.Part, "endpoint": c.Endpoint, "class": c.Class, "input": clip(string(c.Body)+string(c.RawReq)+c.Target, 120),
			"note": c.Note, "expect": c.Exp.Kind, "status": o.Status, "body": clip(o.Body, 120)})
	}
}

func (w *worker) wsCase(c *WSCase, report bool) WSObs {
	o := w.rig.runWS(c)
	if !report {
		return o
	}
	w.res.Seq++
	w.res.Evals[c.Part+":WS/"+c.Subprotocol]++
	w.res.WSExecuted++
	w.res.WSFrames += o.FramesSent
	if o.FramesSent > 0 {
		w.res.Nontrivial++
	}
	k := wsKey(c)
	for _, f := range judgeWS(c, &o) {
		w.finding(f.Class+":"+f.Kind, f.What, fmt.Sprintf("%s|%06d|%s", c.Part, len(k), k), map[string]any{"kind": "ws", "case": c, "observed": o})
	}
	if len(w.res.Samples) < 40 && w.res.Seq%997 == 1 {
		var fr []string
		for _, f := range c.Frames {
			fr = append(fr, fmt.Sprintf("op%d %s", f.Op, clip(string(f.Data), 60)))
		}
		w.res.Samples = append(w.res.Samples, map[string]any{"part": c.Part, "endpoint": "WS/" + c.Subprotocol, "frames": fr, "end_state": o.EndState, "frames_sent": o.FramesSent})
	}
	return o
}

func powSum(a, k int) int { // a + a^2 + ... + a^k
	s, p := 0, 1
	for i := 0; i < k; i++ {
		p *= a
		s += p
	}
	return s
}

// wsTree explores all sequences of length <= maxLen over al. Sequences are partitioned
// over workers by their first two symbols.
func (w *worker) wsTree(sub string, al []WSFrame, maxLen int) {
	A := len(al)
	mk := func(idx []int) *WSCase {
		c := &WSCase{Part: "d", Subprotocol: sub}
		for _, i := range idx {
			c.Frames = append(c.Frames, al[i])
		}
		return c
	}
	var deeper func(idx []int)
	deeper = func(idx []int) { // idx already executed and alive; extend
		if len(idx) == maxLen {
			return
		}
		for i := 0; i < A; i++ {
			if w.isExpired() {
				return
			}
			next := append(idx[:len(idx):len(idx)], i)
			o := w.wsCase(mk(next), true)
			if o.Alive {
				deeper(next)
			} else {
				w.res.WSPruned += powSum(A, maxLen-len(next))
			}
		}
	}
	for i1 := 0; i1 < A; i1++ {
		if w.isExpired() {
			return
		}
		mine := i1%w.of == w.shard
		o := w.wsCase(mk([]int{i1}), mine)
		if !o.Alive {
			if mine {
				w.res.WSPruned += powSum(A, maxLen-1)
			}
			continue
		}
		if maxLen < 2 {
			continue
		}
		for i2 := 0; i2 < A; i2++ {
			if (i1*A+i2)%w.of != w.shard {
				continue
			}
			idx := []int{i1, i2}
			o2 := w.wsCase(mk(idx), true)
			if o2.Alive {
				deeper(idx)
			} else {
				w.res.WSPruned += powSum(A, maxLen-2)
			}
		}
	}
}

func wsDepth(tier string) int {
	if tier == "thorough" {
		return 4
	}
	return 3
}

func runWorker(shard, of int, tier string) {
	log.SetOutput(io.Discard)
	w := &worker{shard: shard, of: of, tier: tier, rig: newRig(), seen: map[uint64]struct{}{},
		res: &Result{Shard: shard, Evals: map[string]int{}, ExpKinds: map[string]int{}, Outcomes: map[string]int{}, Findings: map[string]*Finding{}}}
	if d, err := strconv.ParseInt(os.Getenv("C10_DEADLINE"), 10, 64); err == nil && d > 0 {
		w.deadline = time.Unix(d, 0)
	}
	if left := tmpListing(); len(left) > 0 {
		common.Broken("worker TMPDIR %s is not empty at start: %v", os.TempDir(), left)
	}
	part := func(name string, f func()) {
		if w.expired {
			w.res.Incomplete = append(w.res.Incomplete, name+" (not started)")
			return
		}
		f()
		if w.expired {
			w.res.Incomplete = append(w.res.Incomplete, name+" (cut short)")
		}
		if left := tmpListing(); len(left) > 0 {
			w.finding("TMPDIR:left-after-part-"+name, fmt.Sprintf("TMPDIR not empty after part %s: %v", name, left), name, map[string]any{"kind": "tmp", "left": left})
			for _, n := range left {
				os.RemoveAll(filepath.Join(os.TempDir(), n))
			}
		}
	}
	// cheapest and most defect-dense first
	part("c", func() { enumC(tier, w.httpCase) })
	part("a", func() { enumA(tier, w.httpCase) })
	part("a-ws", func() {
		wsJSONShapeCases(tier, func(c *WSCase) {
			if w.isExpired() || int(fnv64(wsKey(c))%uint64(of)) != shard {
				return
			}
			w.wsCase(c, true)
		})
	})
	part("d", func() {
		enumHandshake(w.httpCase)
		for _, sub := range subprotocols {
			w.wsTree(sub, wsAlphabet(sub), wsDepth(tier))
		}
	})
	part("e", func() {
		wsActiveCases(tier, func(c *WSCase) {
			if w.isExpired() || int(fnv64(fmt.Sprintf("%s#%d", wsKey(c), c.Rep))%uint64(of)) != shard {
				return
			}
			o := w.wsCase(c, true)
			if c.Mode == "stall" && o.StalledWriters > 0 {
				w.res.StallForced++
			}
			if c.Rep > 0 {
				w.res.Nontrivial-- // a repetition of the same input is not a distinct case
				w.res.Repetitions++
			}
		})
	})
	part("g", func() { enumG(tier, w.httpCase) })
	part("f", func() {
		enumSeq(tier, func(sc *SeqCase) {
			k := sc.key()
			if w.isExpired() || int(fnv64(k)%uint64(of)) != shard {
				return
			}
			w.res.Seq++
			obs, fails := w.rig.runSeq(sc)
			w.res.Evals["f:"+sc.Server+"/"+sc.Pattern]++
			w.res.SeqRequests += len(sc.Steps)
			w.res.Nontrivial++
			for _, st := range sc.Steps {
				w.res.ExpKinds[st.Exp.Kind]++
			}
			for _, f := range fails {
				w.finding("seq("+sc.Server+"):"+f.Class+":"+f.Kind, f.What, fmt.Sprintf("f|%06d|%s", len(k), k), map[string]any{"kind": "seq", "case": sc, "observed": obs})
			}
			if len(w.res.Samples) < 40 && w.res.Seq%997 == 1 {
				var steps []string
				for _, st := range sc.Steps {
					steps = append(steps, st.Transport+" "+st.Class.Name+" -> "+st.Exp.Kind)
				}
				w.res.Samples = append(w.res.Samples, map[string]any{"part": "f", "server": sc.Server, "pattern": sc.Pattern, "steps": steps})
			}
		})
	})
	part("b", func() { enumB(tier, w.httpCase) })
	out, _ := json.Marshal(w.res)
	os.Stdout.Write(out)
}

func replay(path string) {
	log.SetOutput(io.Discard)
	b, err := os.ReadFile(path)
	if err != nil {
		common.Broken("cannot read replay file: %v", err)
	}
	var doc struct {
		Signature string `json:"signature"`
		Replay    struct {
			Kind string          `json:"kind"`
			Case json.RawMessage `json:"case"`
		} `json:"replay"`
	}
	if err := json.Unmarshal(b, &doc); err != nil {
		common.Broken("replay file does not parse: %v", err)
	}
	tmp := filepath.Join(probe.ScratchRoot(), "tmp")
	os.MkdirAll(tmp, 0o755)
	os.Setenv("TMPDIR", tmp)
	defer probe.Cleanup()
	r := newRig()
	fmt.Printf("replaying %s (%s)\n", doc.Signature, doc.Replay.Kind)
	switch doc.Replay.Kind {
	case "http":
		var c HTTPCase
		if err := json.Unmarshal(doc.Replay.Case, &c); err != nil {
			common.Broken("bad case: %v", err)
		}
		o := r.run(&c, true)
		ob, _ := json.MarshalIndent(o, "", " ")
		fmt.Printf("input: endpoint=%s ctype=%q accept=%q target=%q note=%q\nbody=%q raw=%q\nexpectation: %+v\nobserved: %s\n", c.Endpoint, c.CType, c.Accept, c.Target, c.Note, c.Body, c.RawReq, c.Exp, ob)
		for _, f := range judge(&c, &o) {
			fmt.Printf("ORACLE: %s: %s\n", signature(&c, f.Kind), f.What)
		}
	case "ws":
		var c WSCase
		if err := json.Unmarshal(doc.Replay.Case, &c); err != nil {
			common.Broken("bad case: %v", err)
		}
		o := r.runWS(&c)
		ob, _ := json.MarshalIndent(o, "", " ")
		for i, f := range c.Frames {
			fmt.Printf("frame %d: op=%d class=%s must=%q data=%q\n", i, f.Op, f.Class, f.Must, f.Data)
		}
		fmt.Printf("observed: %s\n", ob)
		for _, f := range judgeWS(&c, &o) {
			fmt.Printf("ORACLE: %s:%s: %s\n", f.Class, f.Kind, f.What)
		}
	case "seq":
		var sc SeqCase
		if err := json.Unmarshal(doc.Replay.Case, &sc); err != nil {
			common.Broken("bad case: %v", err)
		}
		obs, fails := r.runSeq(&sc)
		for i, st := range sc.Steps {
			fmt.Printf("step %d: %s %s body=%s expect=%s\n", i+1, st.Transport, st.Class.Name, clip(st.Class.jsonBody(), 200), st.Exp.Kind)
		}
		ob, _ := json.MarshalIndent(obs, "", " ")
		fmt.Printf("server: %s pattern: %s\nobserved: %s\n", sc.Server, sc.Pattern, ob)
		for _, f := range fails {
			fmt.Printf("ORACLE: seq(%s):%s:%s: %s\n", sc.Server, f.Class, f.Kind, f.What)
		}
	default:
		fmt.Println("nothing to re-run for this kind of finding")
	}
	probe.Cleanup()
}

func main() {
	for i, a := range os.Args {
		if a == "--worker" && i+2 < len(os.Args) {
			s, _ := strconv.Atoi(os.Args[i+1])
			n, _ := strconv.Atoi(os.Args[i+2])
			runWorker(s, n, common.TierFromArgs())
			return
		}
	}
	if p := common.ReplayArg(); p != "" {
		replay(p)
		return
	}
	c := common.New("C10", "exploration")
	budget := 150 * time.Second
	if c.Tier == "thorough" {
		budget = 20 * time.Minute
	}
	c.Budget(budget)
	nw := runtime.NumCPU()
	if nw > 16 {
		nw = 16
	}
	exe, err := os.Executable()
	if err != nil {
		common.Broken("os.Executable: %v", err)
	}
	scratch := probe.ScratchRoot()
	results := make([]*Result, nw)
	errs := make([]string, nw)
	var wg sync.WaitGroup
	for i := 0; i < nw; i++ {
		wg.Add(1)
		go func(i int) {
			defer wg.Done()
			tmp := filepath.Join(scratch, fmt.Sprintf("w%02d", i))
			if err := os.MkdirAll(tmp, 0o755); err != nil {
				errs[i] = err.Error()
				return
			}
			cmd := exec.Command(exe, "--worker", strconv.Itoa(i), strconv.Itoa(nw), "--tier", c.Tier)
			cmd.Env = append(os.Environ(), "TMPDIR="+tmp, "GOMAXPROCS=2", "C10_DEADLINE="+strconv.FormatInt(c.Deadline.Unix(), 10))
			var stdout, stderr bytes.Buffer
			cmd.Stdout, cmd.Stderr = &stdout, &stderr
			if err := cmd.Run(); err != nil {
				errs[i] = fmt.Sprintf("worker %d: %v\n%s", i, err, clip(stderr.String(), 4000))
				return
			}
			var r Result
			if err := json.Unmarshal(stdout.Bytes(), &r); err != nil {
				errs[i] = fmt.Sprintf("worker %d: unparsable result: %v\n%s", i, err, clip(stderr.String(), 2000))
				return
			}
			results[i] = &r
		}(i)
	}
	wg.Wait()
	for _, e := range errs {
		if e != "" {
			probe.Cleanup()
			common.Broken("%s", e)
		}
	}
	// ---- merge ----
	evals := map[string]int{}
	expKinds := map[string]int{}
	outcomes := map[string]int{}
	findings := map[string]*Finding{}
	var total, nontrivial, dup, unreachable, lenient, wsExec, wsPruned, wsFrames, upOK, spill, stallForced, reps, seqReqs int
	incomplete := map[string]bool{}
	var samples []any
	for _, r := range results {
		for k, v := range r.Evals {
			evals[k] += v
			total += v
		}
		for k, v := range r.ExpKinds {
			expKinds[k] += v
		}
		for k, v := range r.Outcomes {
			outcomes[k] += v
		}
		nontrivial += r.Nontrivial
		dup += r.Duplicates
		unreachable += r.Unreachable
		lenient += r.Lenient
		wsExec += r.WSExecuted
		wsPruned += r.WSPruned
		wsFrames += r.WSFrames
		upOK += r.UploadsOK
		spill += r.SpillFiles
		stallForced += r.StallForced
		reps += r.Repetitions
		seqReqs += r.SeqRequests
		for _, s := range r.Incomplete {
			incomplete[s] = true
		}
		for sig, f := range r.Findings {
			if g, ok := findings[sig]; !ok || f.Order < g.Order {
				findings[sig] = f
			}
		}
		if r.Shard == 0 {
			samples = r.Samples
		}
	}
	var sigs []string
	for s := range findings {
		sigs = append(sigs, s)
	}
	sort.Strings(sigs)
	ignoreKnown := false
	for _, a := range os.Args {
		if a == "--ignore-known" { // demonstration aid: report known findings as violations too
			ignoreKnown = true
		}
	}
	for _, s := range sigs {
		sig := s
		if ignoreKnown {
			sig += " (known-findings file ignored)"
		}
		c.Report(sig, findings[s].What, findings[s].Replay)
	}
	// internal consistency of the (d) tree: executed + pruned == size of the sequence space
	exhaustive := len(incomplete) == 0
	depth := wsDepth(c.Tier)
	wantD := 0
	for _, sub := range subprotocols {
		wantD += powSum(len(wsAlphabet(sub)), depth)
	}
	gotD := wsPruned
	for k, v := range evals {
		if strings.HasPrefix(k, "d:WS/") {
			gotD += v
		}
	}
	if exhaustive && gotD != wantD {
		probe.Cleanup()
		common.Broken("websocket tree accounting: executed+pruned = %d, sequence space = %d", gotD, wantD)
	}
	if len(samples) > 8 {
		step := len(samples) / 8
		var s2 []any
		for i := 0; i < len(samples) && len(s2) < 8; i += step {
			s2 = append(s2, samples[i])
		}
		samples = s2
	}
	c.Cov["samples"] = samples
	c.Cov["evaluations"] = total
	c.Cov["distinct_nontrivial"] = nontrivial
	c.Cov["rule"] = "every case is a distinct (transport, configuration, input bytes / frame sequence) tuple (de-duplicated by a 64-bit hash of the tuple inside the worker that owns the hash class); it counts as non-trivial when its input is non-empty, net/http itself accepts the request text (otherwise gqlgen is never reached: 'unreachable'), and the real Server.ServeHTTP answered it so that the oracle parsed the complete response (status, JSON/SSE/multipart-mixed/websocket framing, resolver log, TMPDIR listing)"
	c.Cov["exhaustive"] = exhaustive
	if !exhaustive {
		var inc []string
		for s := range incomplete {
			inc = append(inc, s)
		}
		sort.Strings(inc)
		c.Cov["incomplete_parts"] = inc
	}
	segs, parts, structLen := 3, 4, 4
	if c.Tier == "thorough" {
		segs, parts, structLen = 4, 5, 5
	}
	c.Cov["bounds"] = map[string]any{
		"a_json_shapes": "every top-level JSON kind x 6 trailers, and all 7^5 objects assigning query/operationName/variables/extensions/headers one of absent,null,string,number,bool,array,object; transports POST, SSE, multipart-mixed, urlencoded (thorough also POST with Accept graphql-response+json) and websocket start/subscribe payload on both subprotocols",
		"b_raw_bytes":   fmt.Sprintf("all byte strings of length <= 2 and all strings of length <= %d over %q, plus %d hand-picked mutated requests; as POST body, GET variables, GET extensions, raw GET query string, urlencoded body, application/graphql body", structLen, structAlphabet, len(extras)),
		"c_multipart":   fmt.Sprintf("8 variable shapes x all map paths of <= %d segments over %q x {in-memory, spill-file}; 8 multi-file uploads x MaxUploadSize{default,L-1,L,L+1} x MaxMemory{default,1,L-1,L,L+1} x content-length{known,unknown}; all part sequences of length <= %d over {operations,map,file0,file1,unknown field,bad operations,bad map}; 11 operations x 17 map JSON shapes; every proper prefix of a valid body; 4 content-type variants", segs, pathSegs, parts),
		"d_websocket":   fmt.Sprintf("all frame sequences of length <= %d over the %d/%d-symbol alphabets of graphql-ws / graphql-transport-ws (each client, server-only and unknown message type x payload absent,null,{},[],5,\"s\",valid; missing type; JSON non-object; non-JSON and empty text; binary garbage; binary JSON; ping control frame; close frame); sequences are not extended after the server closed", depth, len(wsAlphabet("graphql-ws")), len(wsAlphabet("graphql-transport-ws"))),
		"workers":       nw,
	}
	c.Cov["evaluations_by_part"] = evals
	c.Cov["expectation_kinds"] = expKinds
	c.Cov["http_outcomes"] = outcomes
	c.Cov["duplicates_skipped"] = dup
	c.Cov["unreachable_rejected_by_net_http"] = unreachable
	c.Cov["lenient_trailing_data_inputs"] = lenient
	c.Cov["ws_sequences_executed"] = wsExec
	c.Cov["ws_sequences_pruned_as_equivalent_to_closed_prefix"] = wsPruned
	c.Cov["ws_frames_sent"] = wsFrames
	c.Cov["uploads_delivered_exact"] = upOK
	c.Cov["spill_file_cases"] = spill
	c.Cov["ws_active_operation_cases_with_writer_stalled_in_socket_write"] = stallForced
	c.Cov["ws_burst_repetitions_not_counted_as_distinct"] = reps
	c.Cov["sequence_requests_sent"] = seqReqs
	c.Assume = []string{
		"JSON inputs follow encoding/json stream semantics: only the first complete JSON value of a body/parameter is the input; trailing bytes are counted (lenient_trailing_data_inputs) but not required to be rejected",
		"a body over MaxUploadSize must be refused with a well-formed error and no resolver call; the statement defines no status for it (gqlgen's own test pins 200), so none is asserted there; every other malformed HTTP input must get 4xx (or an in-stream error once an event stream has started)",
		"for application/graphql and urlencoded bodies the reference accepts any of the readings raw / 'query='-stripped / percent-decoded; an error is demanded only when no reading is a valid document",
		"raw GET query strings are fed through http.ReadRequest; texts net/http rejects never reach gqlgen and are counted as unreachable",
		"websocket well-formed frames (stop, ping, pong, terminate, duplicate init, start before init) carry no requirement here beyond no panic / well-formed frames / connection closed at the end; session semantics belong to C11",
		"hang guard: a websocket session that does not quiesce within 10 s ends the run with exit 2 (broken), never with a verdict",
	}
	probe.Cleanup()
	c.Finish()
}

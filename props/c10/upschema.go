package main

// A tiny hand-written graphql.ExecutableSchema with an Upload scalar, used by part (c)
// (multipart uploads). The resolver never panics: it walks the coerced argument value,
// and for every graphql.Upload it finds it records where it found it, its filename,
// content type, declared size and the bytes it could read - using an interleaved read
// pattern so that two readers sharing one offset are detected.

import (
	"context"
	"encoding/json"
	"fmt"
	"io"
	"sort"
	"strconv"
	"sync"

	"github.com/vektah/gqlparser/v2"
	"github.com/vektah/gqlparser/v2/ast"

	"github.com/99designs/gqlgen/graphql"
)

const upSDL = `
scalar Upload
input Req { file: Upload, files: [Upload], x: String }
type Query { a: String! }
type Mutation {
  upload(file: Upload!): String!
  uploads(files: [Upload]!): String!
  matrix(files: [[Upload]]): String!
  nested(req: Req): String!
}
`

// SeenUpload is what a resolver observed for one Upload value.
type SeenUpload struct {
	ArgPath     string `json:"arg_path"` // e.g. "files.1", "req.file"
	Filename    string `json:"filename"`
	ContentType string `json:"content_type"`
	Size        int64  `json:"size"`
	First       []byte `json:"first"`  // bytes from the interleaved first pass
	Second      []byte `json:"second"` // bytes after Seek(0) in the second pass
	Err         string `json:"err,omitempty"`
}

type upSchema struct {
	schema *ast.Schema
	mu     sync.Mutex
	Calls  []string     // "Mutation.upload" ...
	Seen   []SeenUpload // in arg-path order
}

func newUpSchema() *upSchema {
	return &upSchema{schema: gqlparser.MustLoadSchema(&ast.Source{Name: "up.graphql", Input: upSDL})}
}

func (s *upSchema) Reset() {
	s.mu.Lock()
	s.Calls, s.Seen = nil, nil
	s.mu.Unlock()
}

func (s *upSchema) Schema() *ast.Schema { return s.schema }
func (s *upSchema) Complexity(ctx context.Context, typeName, field string, child int, args map[string]any) (int, bool) {
	return 0, false
}

type foundUpload struct {
	path string
	up   graphql.Upload
}

func collectUploads(prefix string, v any, out *[]foundUpload) {
	switch x := v.(type) {
	case graphql.Upload:
		*out = append(*out, foundUpload{prefix, x})
	case *graphql.Upload:
		if x != nil {
			*out = append(*out, foundUpload{prefix, *x})
		}
	case map[string]any:
		keys := make([]string, 0, len(x))
		for k := range x {
			keys = append(keys, k)
		}
		sort.Strings(keys)
		for _, k := range keys {
			collectUploads(join(prefix, k), x[k], out)
		}
	case []any:
		for i, e := range x {
			collectUploads(join(prefix, strconv.Itoa(i)), e, out)
		}
	}
}

func join(a, b string) string {
	if a == "" {
		return b
	}
	return a + "." + b
}

func readN(r io.Reader, n int) ([]byte, error) {
	buf := make([]byte, n)
	got := 0
	for got < n {
		k, err := r.Read(buf[got:])
		got += k
		if err == io.EOF {
			return buf[:got], nil
		}
		if err != nil {
			return buf[:got], err
		}
		if k == 0 {
			return buf[:got], fmt.Errorf("reader made no progress")
		}
	}
	return buf[:got], nil
}

// inspect reads all uploads with an interleaved pattern:
// pass 1a: 3 bytes from each (in order); pass 1b: the rest from each (reverse order);
// pass 2a: Seek(0) + 2 bytes from each (in order); pass 2b: the rest (reverse order).
// Independent readers yield the full content twice; readers sharing an offset do not.
func (s *upSchema) inspect(found []foundUpload) {
	seen := make([]SeenUpload, len(found))
	fail := func(i int, err error) {
		if err != nil && seen[i].Err == "" {
			seen[i].Err = err.Error()
		}
	}
	for i, f := range found {
		seen[i] = SeenUpload{ArgPath: f.path, Filename: f.up.Filename, ContentType: f.up.ContentType, Size: f.up.Size}
		if f.up.File == nil {
			seen[i].Err = "nil File"
		}
	}
	for i, f := range found {
		if f.up.File == nil {
			continue
		}
		b, err := readN(f.up.File, 3)
		seen[i].First = append(seen[i].First, b...)
		fail(i, err)
	}
	for i := len(found) - 1; i >= 0; i-- {
		if found[i].up.File == nil {
			continue
		}
		b, err := io.ReadAll(found[i].up.File)
		seen[i].First = append(seen[i].First, b...)
		fail(i, err)
	}
	for i, f := range found {
		if f.up.File == nil {
			continue
		}
		_, err := f.up.File.Seek(0, io.SeekStart)
		fail(i, err)
		b, err := readN(f.up.File, 2)
		seen[i].Second = append(seen[i].Second, b...)
		fail(i, err)
	}
	for i := len(found) - 1; i >= 0; i-- {
		if found[i].up.File == nil {
			continue
		}
		b, err := io.ReadAll(found[i].up.File)
		seen[i].Second = append(seen[i].Second, b...)
		fail(i, err)
	}
	s.mu.Lock()
	s.Seen = append(s.Seen, seen...)
	s.mu.Unlock()
}

func (s *upSchema) Exec(ctx context.Context) graphql.ResponseHandler {
	opCtx := graphql.GetOperationContext(ctx)
	obj := "Query"
	switch opCtx.Operation.Operation {
	case ast.Mutation:
		obj = "Mutation"
	case ast.Subscription:
		return graphql.OneShot(graphql.ErrorResponse(ctx, "no subscriptions"))
	}
	done := false
	return func(ctx context.Context) *graphql.Response {
		if done {
			return nil
		}
		done = true
		fields := graphql.CollectFields(opCtx, opCtx.Operation.SelectionSet, []string{obj})
		out := []byte{'{'}
		for i, f := range fields {
			if i > 0 {
				out = append(out, ',')
			}
			kb, _ := json.Marshal(f.Alias)
			out = append(out, kb...)
			out = append(out, ':')
			args := f.ArgumentMap(opCtx.Variables)
			s.mu.Lock()
			s.Calls = append(s.Calls, obj+"."+f.Name)
			s.mu.Unlock()
			val := "A"
			if obj == "Mutation" {
				var found []foundUpload
				collectUploads("", args, &found)
				s.inspect(found)
				val = fmt.Sprintf("%s:%d", f.Name, len(found))
			}
			vb, _ := json.Marshal(val)
			out = append(out, vb...)
		}
		out = append(out, '}')
		return &graphql.Response{Data: out}
	}
}

var _ graphql.ExecutableSchema = (*upSchema)(nil)

package main

// A tiny hand-written graphql.ExecutableSchema with an Upload scalar, used by part (c)
// (multipart uploads). The resolver never panics: it walks the coerced argument value,
// and for every graphql.Upload it finds it records where it found it, its filename,
// content type, declared size and the bytes it could read - using an interleaved read
// pattern so that two readers sharing one offset are detected.

import (
	"context"
	"encoding/json"
	"fmt"
	"io"
	"sort"
	"strconv"
	"sync"

	"github.com/vektah/gqlparser/v2"
	"github.com/vektah/gqlparser/v2/ast"

	"github.com/99designs/gqlgen/graphql"
)

const upSDL = `
scalar Upload
input Req { file: Upload, files: [Upload], x: String }
type Query { a: String! }
type Mutation {
  upload(file: Upload!): String!
  uploads(files: [Upload]!): String!
  matrix(files: [[Upload]]): String!
  nested(req: Req): String!
}
`

// SeenUpload is what a resolver observed for one Upload value.
type SeenUpload struct {
	ArgPath     string     `json:"arg_path"` // e.g. "files.1", "req.file"
	Filename    string     `json:"filename"`
	ContentType string     `json:"content_type"`
	Size        int64      `json:"size"`
	First       []byte     `json:"first"`  // bytes from the interleaved first pass
	Second      []byte     `json:"second"` // bytes after Seek(0) in the second pass
	Err         string     `json:"err,omitempty"`
	Trace       []OpResult `json:"trace,omitempty"` // scripted reader operations (part g)
}

// ROp is one reader operation of the part (g) alphabet.
type ROp struct {
	Kind   string `json:"kind"` // read | seek | readall
	N      int    `json:"n,omitempty"`
	Off    int64  `json:"off,omitempty"`
	Whence int    `json:"whence,omitempty"`
}

func (o ROp) String() string {
	switch o.Kind {
	case "read":
		return fmt.Sprintf("Read(%d)", o.N)
	case "seek":
		return fmt.Sprintf("Seek(%d,%s)", o.Off, [...]string{"Start", "Current", "End"}[o.Whence])
	}
	return "ReadAll"
}

// OpResult is what one operation returned: n (Read/ReadAll) or the new position (Seek),
// the error class (nil / EOF / error) and the bytes obtained.
type OpResult struct {
	N    int64  `json:"n"`
	Err  string `json:"err"`
	Data []byte `json:"data,omitempty"`
}

func errClass(err error) string {
	switch err {
	case nil:
		return "nil"
	case io.EOF:
		return "EOF"
	}
	return "error"
}

// applyOp runs one operation on any io.ReadSeeker (the delivered upload or the reference).
func applyOp(r io.ReadSeeker, op ROp) OpResult {
	switch op.Kind {
	case "read":
		buf := make([]byte, op.N)
		n, err := r.Read(buf)
		if n < 0 || n > len(buf) {
			return OpResult{N: int64(n), Err: "error"}
		}
		return OpResult{N: int64(n), Err: errClass(err), Data: buf[:n]}
	case "seek":
		pos, err := r.Seek(op.Off, op.Whence)
		return OpResult{N: pos, Err: errClass(err)}
	default:
		b, err := io.ReadAll(r)
		return OpResult{N: int64(len(b)), Err: errClass(err), Data: b}
	}
}

// opsFor: reader j runs the script rotated by j, so two readers of one file are driven
// through different positions while their operations interleave.
func opsFor(ops []ROp, j int) []ROp {
	out := make([]ROp, len(ops))
	for k := range ops {
		out[k] = ops[(k+j)%len(ops)]
	}
	return out
}

// runOps applies the script to every delivered upload, interleaved step by step. A panic
// inside a reader is not caught here - a resolver would not catch it either.
func (s *upSchema) runOps(found []foundUpload) {
	seen := make([]SeenUpload, len(found))
	scripts := make([][]ROp, len(found))
	for i, f := range found {
		seen[i] = SeenUpload{ArgPath: f.path, Filename: f.up.Filename, ContentType: f.up.ContentType, Size: f.up.Size}
		scripts[i] = opsFor(s.Ops, i)
	}
	record := func() {
		s.mu.Lock()
		s.Seen = append([]SeenUpload(nil), seen...)
		s.mu.Unlock()
	}
	defer record() // keep the partial trace when a reader panics
	for k := range s.Ops {
		for i, f := range found {
			if f.up.File == nil {
				seen[i].Err = "nil File"
				continue
			}
			seen[i].Trace = append(seen[i].Trace, applyOp(f.up.File, scripts[i][k]))
		}
	}
}

type upSchema struct {
	schema *ast.Schema
	mu     sync.Mutex
	Ops    []ROp        // when set, resolvers run this reader script instead of the fixed inspection
	Calls  []string     // "Mutation.upload" ...
	Seen   []SeenUpload // in arg-path order
}

func newUpSchema() *upSchema {
	return &upSchema{schema: gqlparser.MustLoadSchema(&ast.Source{Name: "up.graphql", Input: upSDL})}
}

func (s *upSchema) Reset() {
	s.mu.Lock()
	s.Calls, s.Seen = nil, nil
	s.mu.Unlock()
}

func (s *upSchema) Schema() *ast.Schema { return s.schema }
func (s *upSchema) Complexity(ctx context.Context, typeName, field string, child int, args map[string]any) (int, bool) {
	return 0, false
}

type foundUpload struct {
	path string
	up   graphql.Upload
}

func collectUploads(prefix string, v any, out *[]foundUpload) {
	switch x := v.(type) {
	case graphql.Upload:
		*out = append(*out, foundUpload{prefix, x})
	case *graphql.Upload:
		if x != nil {
			*out = append(*out, foundUpload{prefix, *x})
		}
	case map[string]any:
		keys := make([]string, 0, len(x))
		for k := range x {
			keys = append(keys, k)
		}
		sort.Strings(keys)
		for _, k := range keys {
			collectUploads(join(prefix, k), x[k], out)
		}
	case []any:
		for i, e := range x {
			collectUploads(join(prefix, strconv.Itoa(i)), e, out)
		}
	}
}

func join(a, b string) string {
	if a == "" {
		return b
	}
	return a + "." + b
}

func readN(r io.Reader, n int) ([]byte, error) {
	buf := make([]byte, n)
	got := 0
	for got < n {
		k, err := r.Read(buf[got:])
		got += k
		if err == io.EOF {
			return buf[:got], nil
		}
		if err != nil {
			return buf[:got], err
		}
		if k == 0 {
			return buf[:got], fmt.Errorf("reader made no progress")
		}
	}
	return buf[:got], nil
}

// inspect reads all uploads with an interleaved pattern:
// pass 1a: 3 bytes from each (in order); pass 1b: the rest from each (reverse order);
// pass 2a: Seek(0) + 2 bytes from each (in order); pass 2b: the rest (reverse order).
// Independent readers yield the full content twice; readers sharing an offset do not.
func (s *upSchema) inspect(found []foundUpload) {
	seen := make([]SeenUpload, len(found))
	fail := func(i int, err error) {
		if err != nil && seen[i].Err == "" {
			seen[i].Err = err.Error()
		}
	}
	for i, f := range found {
		seen[i] = SeenUpload{ArgPath: f.path, Filename: f.up.Filename, ContentType: f.up.ContentType, Size: f.up.Size}
		if f.up.File == nil {
			seen[i].Err = "nil File"
		}
	}
	for i, f := range found {
		if f.up.File == nil {
			continue
		}
		b, err := readN(f.up.File, 3)
		seen[i].First = append(seen[i].First, b...)
		fail(i, err)
	}
	for i := len(found) - 1; i >= 0; i-- {
		if found[i].up.File == nil {
			continue
		}
		b, err := io.ReadAll(found[i].up.File)
		seen[i].First = append(seen[i].First, b...)
		fail(i, err)
	}
	for i, f := range found {
		if f.up.File == nil {
			continue
		}
		_, err := f.up.File.Seek(0, io.SeekStart)
		fail(i, err)
		b, err := readN(f.up.File, 2)
		seen[i].Second = append(seen[i].Second, b...)
		fail(i, err)
	}
	for i := len(found) - 1; i >= 0; i-- {
		if found[i].up.File == nil {
			continue
		}
		b, err := io.ReadAll(found[i].up.File)
		seen[i].Second = append(seen[i].Second, b...)
		fail(i, err)
	}
	s.mu.Lock()
	s.Seen = append(s.Seen, seen...)
	s.mu.Unlock()
}

func (s *upSchema) Exec(ctx context.Context) graphql.ResponseHandler {
	opCtx := graphql.GetOperationContext(ctx)
	obj := "Query"
	switch opCtx.Operation.Operation {
	case ast.Mutation:
		obj = "Mutation"
	case ast.Subscription:
		return graphql.OneShot(graphql.ErrorResponse(ctx, "no subscriptions"))
	}
	done := false
	return func(ctx context.Context) *graphql.Response {
		if done {
			return nil
		}
		done = true
		fields := graphql.CollectFields(opCtx, opCtx.Operation.SelectionSet, []string{obj})
		out := []byte{'{'}
		for i, f := range fields {
			if i > 0 {
				out = append(out, ',')
			}
			kb, _ := json.Marshal(f.Alias)
			out = append(out, kb...)
			out = append(out, ':')
			args := f.ArgumentMap(opCtx.Variables)
			s.mu.Lock()
			s.Calls = append(s.Calls, obj+"."+f.Name)
			s.mu.Unlock()
			val := "A"
			if obj == "Mutation" {
				var found []foundUpload
				collectUploads("", args, &found)
				if s.Ops != nil {
					s.runOps(found)
				} else {
					s.inspect(found)
				}
				val = fmt.Sprintf("%s:%d", f.Name, len(found))
			}
			vb, _ := json.Marshal(val)
			out = append(out, vb...)
		}
		out = append(out, '}')
		return &graphql.Response{Data: out}
	}
}

var _ graphql.ExecutableSchema = (*upSchema)(nil)

package main

// HTTP rig: the real handler.Server with every transport, a counting recover hook, and
// the oracle that judges one request/response pair against the reference expectation.

import (
	"bufio"
	"bytes"
	"context"
	"encoding/json"
	"fmt"
	"io"
	"mime"
	"mime/multipart"
	"net/http"
	"net/http/httptest"
	"net/url"
	"os"
	"sort"
	"strings"
	"sync"
	"unicode/utf8"

	"github.com/vektah/gqlparser/v2/gqlerror"

	"github.com/99designs/gqlgen/graphql"
	"github.com/99designs/gqlgen/graphql/handler"
	"github.com/99designs/gqlgen/graphql/handler/transport"

	"verif/handschema"
)

// ---- recover hook -------------------------------------------------------------------

type hookState struct {
	mu    sync.Mutex
	count int
	last  string
}

func (h *hookState) fn(ctx context.Context, err any) error {
	h.mu.Lock()
	h.count++
	h.last = fmt.Sprint(err)
	h.mu.Unlock()
	return gqlerror.Errorf("internal system error")
}

func (h *hookState) take() (int, string) {
	h.mu.Lock()
	defer h.mu.Unlock()
	n, l := h.count, h.last
	h.count, h.last = 0, ""
	return n, l
}

// panicKind classifies a recovered panic value (for signatures).
func panicKind(msg string) string {
	switch {
	case strings.Contains(msg, "nil pointer dereference"):
		return "nil-deref"
	case strings.Contains(msg, "index out of range"):
		return "index-panic"
	case strings.Contains(msg, "interface conversion"):
		return "type-assertion-panic"
	case strings.Contains(msg, "assignment to entry in nil map"):
		return "nil-map-write-panic"
	case strings.HasPrefix(msg, "unknown field "):
		return "unknown-field-panic"
	case strings.Contains(msg, "concurrent write to websocket connection"):
		return "concurrent-write-panic"
	case strings.Contains(msg, "reflect: call of"):
		return "reflect-panic"
	case strings.Contains(msg, "slice bounds out of range"):
		return "slice-bounds-panic"
	}
	return "panic"
}

// ---- servers ------------------------------------------------------------------------

type rig struct {
	hook *hookState
	hs   *handschema.Schema
	srv  *handler.Server // handschema, all transports
	up   *upSchema
	ups  map[[2]int64]*handler.Server // upload schema servers by (MaxUploadSize, MaxMemory)
	// override, when set, is the server every request goes to (part f builds a fresh,
	// stateful server per request sequence)
	override *handler.Server
}

func addTransports(srv *handler.Server, maxUpload, maxMem int64) {
	srv.AddTransport(transport.Websocket{})
	srv.AddTransport(transport.SSE{})
	srv.AddTransport(transport.MultipartMixed{})
	srv.AddTransport(transport.POST{})
	srv.AddTransport(transport.GET{})
	srv.AddTransport(transport.UrlEncodedForm{})
	srv.AddTransport(transport.GRAPHQL{})
	srv.AddTransport(transport.MultipartForm{MaxUploadSize: maxUpload, MaxMemory: maxMem})
}

func newRig() *rig {
	r := &rig{hook: &hookState{}, ups: map[[2]int64]*handler.Server{}}
	r.hs = handschema.New(nil)
	// subscription s(n: N) emits 0..N-1 and ends; it never panics and ignores cancellation
	r.hs.Sub = func(ctx context.Context, field string, args map[string]any, call int) handschema.SubStep {
		n := 0
		switch x := args["n"].(type) {
		case int64:
			n = int(x)
		case int:
			n = x
		case json.Number:
			i, _ := x.Int64()
			n = int(i)
		}
		if field == "s" && call < n {
			return handschema.SubStep{Kind: "emit", Val: call}
		}
		return handschema.SubStep{Kind: "end"}
	}
	r.srv = handler.New(r.hs)
	addTransports(r.srv, 0, 0)
	r.srv.SetRecoverFunc(r.hook.fn)
	r.up = newUpSchema()
	return r
}

func (r *rig) upServer(maxUpload, maxMem int64) *handler.Server {
	k := [2]int64{maxUpload, maxMem}
	if s, ok := r.ups[k]; ok {
		return s
	}
	s := handler.New(r.up)
	addTransports(s, maxUpload, maxMem)
	s.SetRecoverFunc(r.hook.fn)
	r.ups[k] = s
	return s
}

// ---- cases --------------------------------------------------------------------------

// ExpUpload: the reference's expectation for one delivered upload.
type ExpUpload struct {
	ArgPath     string `json:"arg_path"`
	Filename    string `json:"filename"`
	ContentType string `json:"content_type"`
	Content     []byte `json:"content"`
}

// Expect is what the reference (written here, independent of gqlgen) demands.
//
//	client-error : the input is malformed; the client must get a well-formed error with a
//	               4xx status (or, once a stream was started, an in-stream error), and no
//	               resolver may run.
//	refused-size : the body exceeds MaxUploadSize; well-formed error, no resolver. (The
//	               statement defines no status for this; gqlgen's own test pins 200.)
//	success      : well-formed request; exact data, and for uploads exact delivery.
//	any          : the reference takes no position beyond "no panic, well-formed response,
//	               nothing left in TMPDIR; whatever reached a resolver is intact".
type Expect struct {
	Kind    string      `json:"kind"`
	Data    string      `json:"data,omitempty"`
	Uploads []ExpUpload `json:"uploads,omitempty"`
	Lenient bool        `json:"lenient,omitempty"` // only the first JSON value is well-formed
}

type HTTPCase struct {
	Part      string `json:"part"`
	Endpoint  string `json:"endpoint"`          // POST SSE MIXED URLENC GRAPHQL GETVARS GETEXT GETRAW MULTIPART
	Class     string `json:"class"`             // input class, used in signatures
	Target    string `json:"target,omitempty"`  // request target for GET endpoints ("/?...")
	RawReq    []byte `json:"raw_req,omitempty"` // GETRAW: full request text for http.ReadRequest
	CType     string `json:"ctype,omitempty"`
	Accept    string `json:"accept,omitempty"`
	Body      []byte `json:"body,omitempty"`
	ChunkedCL bool   `json:"unknown_content_length,omitempty"`
	MaxUpload int64  `json:"max_upload,omitempty"`
	MaxMem    int64  `json:"max_mem,omitempty"`
	Up        bool   `json:"upload_schema,omitempty"`
	Exp       Expect `json:"exp"`
	Note      string `json:"note,omitempty"`
	Ops       []ROp  `json:"reader_ops,omitempty"` // part g: reader script the resolver runs on every upload
}

func (c *HTTPCase) key() string {
	return fmt.Sprintf("%s|%s|%s|%s|%v|%d|%d|%s|%s|%v", c.Endpoint, c.CType, c.Accept, c.Target, c.ChunkedCL, c.MaxUpload, c.MaxMem, c.RawReq, c.Body, c.Ops)
}

// Obs is what the harness observed.
type Obs struct {
	Unreachable bool         `json:"unreachable,omitempty"` // net/http itself rejects the request text
	Status      int          `json:"status"`
	CT          string       `json:"content_type"`
	Body        string       `json:"body"`
	Hook        int          `json:"hook"`
	HookMsg     string       `json:"hook_msg,omitempty"`
	Escaped     string       `json:"escaped,omitempty"`
	Events      []string     `json:"events,omitempty"`
	Seen        []SeenUpload `json:"seen,omitempty"`
	TmpLeft     []string     `json:"tmp_left,omitempty"`
}

type onlyReader struct{ r io.Reader }

func (o onlyReader) Read(p []byte) (int, error) { return o.r.Read(p) }

func (c *HTTPCase) request() (*http.Request, error) {
	if c.RawReq != nil {
		return http.ReadRequest(bufio.NewReader(bytes.NewReader(c.RawReq)))
	}
	method := "POST"
	target := "/"
	if c.Target != "" {
		method, target = "GET", c.Target
	}
	var body io.Reader
	if method == "POST" {
		if c.ChunkedCL {
			body = onlyReader{bytes.NewReader(c.Body)} // ContentLength stays unknown
		} else {
			body = bytes.NewReader(c.Body)
		}
	}
	req := httptest.NewRequest(method, target, body)
	if c.ChunkedCL {
		req.ContentLength = -1
	}
	if c.CType != "" {
		req.Header.Set("Content-Type", c.CType)
	}
	if c.Accept != "" {
		req.Header.Set("Accept", c.Accept)
	}
	return req, nil
}

func tmpListing() []string {
	ents, err := os.ReadDir(os.TempDir())
	if err != nil {
		return []string{"<cannot list TMPDIR: " + err.Error() + ">"}
	}
	var out []string
	for _, e := range ents {
		out = append(out, e.Name())
	}
	sort.Strings(out)
	return out
}

// run executes one case against the real server.
func (r *rig) run(c *HTTPCase, checkTmp bool) Obs {
	var o Obs
	req, err := c.request()
	if err != nil {
		o.Unreachable = true
		return o
	}
	srv := r.srv
	if r.override != nil {
		srv = r.override
	} else if c.Up {
		srv = r.upServer(c.MaxUpload, c.MaxMem)
		r.up.Reset()
		r.up.Ops = c.Ops
	} else {
		r.hs.Log.Reset()
	}
	if r.override != nil {
		r.hs.Log.Reset()
	}
	r.hook.take()
	rec := httptest.NewRecorder()
	func() {
		defer func() {
			if p := recover(); p != nil {
				o.Escaped = fmt.Sprint(p)
			}
		}()
		srv.ServeHTTP(rec, req)
	}()
	o.Hook, o.HookMsg = r.hook.take()
	o.Status = rec.Code
	o.CT = rec.Header().Get("Content-Type")
	o.Body = rec.Body.String()
	if c.Up {
		o.Events = append([]string(nil), r.up.Calls...)
		o.Seen = append([]SeenUpload(nil), r.up.Seen...)
	} else {
		o.Events = r.hs.Log.Snapshot()
	}
	if checkTmp {
		o.TmpLeft = tmpListing()
	}
	return o
}

// ---- response parsing (strict, stdlib only) -------------------------------------------

type gqlResp struct {
	HasErrors bool
	HasData   bool // data present and not null
	Data      string
}

var allowedRespKeys = map[string]bool{"errors": true, "data": true, "extensions": true, "hasNext": true, "label": true, "path": true}

// parseGQLResponse accepts exactly one JSON object shaped like a GraphQL response.
func parseGQLResponse(b []byte) (gqlResp, string) {
	var g gqlResp
	if !utf8.Valid(b) {
		return g, "body is not valid UTF-8"
	}
	var top map[string]json.RawMessage
	if err := json.Unmarshal(b, &top); err != nil {
		return g, "body is not a single JSON object: " + err.Error()
	}
	for k := range top {
		if !allowedRespKeys[k] {
			return g, "unexpected response key " + k
		}
	}
	if e, ok := top["errors"]; ok {
		var errs []map[string]json.RawMessage
		if err := json.Unmarshal(e, &errs); err != nil {
			return g, "errors is not an array of objects"
		}
		if len(errs) == 0 {
			return g, "errors is an empty array"
		}
		for _, x := range errs {
			var msg string
			m, ok := x["message"]
			if !ok || json.Unmarshal(m, &msg) != nil {
				return g, "error entry without string message"
			}
		}
		g.HasErrors = true
	}
	if d, ok := top["data"]; ok && string(bytes.TrimSpace(d)) != "null" {
		g.HasData = true
		g.Data = string(d)
	}
	if !g.HasErrors && !g.HasData {
		return g, "response has neither errors nor data"
	}
	return g, ""
}

// parseSSE: ":\n\n" ("event: next\ndata: <json>\n\n")* "event: complete\n\n"
func parseSSE(body string) ([]string, string) {
	const pre = ":\n\n"
	if !strings.HasPrefix(body, pre) {
		return nil, "event stream does not start with the initial comment"
	}
	rest := body[len(pre):]
	var payloads []string
	for {
		if rest == "event: complete\n\n" {
			return payloads, ""
		}
		const np = "event: next\ndata: "
		if !strings.HasPrefix(rest, np) {
			return nil, "event stream: unexpected text " + clip(rest, 60)
		}
		rest = rest[len(np):]
		i := strings.Index(rest, "\n\n")
		if i < 0 {
			return nil, "event stream: unterminated event"
		}
		p := rest[:i]
		if strings.ContainsAny(p, "\n\r") {
			return nil, "event stream: data spans lines"
		}
		payloads = append(payloads, p)
		rest = rest[i+2:]
	}
}

func parseMixed(ct, body string) ([]string, string) {
	_, params, err := mime.ParseMediaType(ct)
	if err != nil {
		return nil, "bad multipart content type: " + err.Error()
	}
	mr := multipart.NewReader(strings.NewReader(body), params["boundary"])
	var out []string
	for {
		p, err := mr.NextPart()
		if err == io.EOF {
			break
		}
		if err != nil {
			return nil, "multipart/mixed body does not parse: " + err.Error()
		}
		if p.Header.Get("Content-Type") != "application/json" {
			return nil, "multipart/mixed part without application/json content type"
		}
		b, err := io.ReadAll(p)
		if err != nil {
			return nil, "multipart/mixed part unreadable: " + err.Error()
		}
		out = append(out, string(b))
	}
	if len(out) == 0 {
		return nil, "multipart/mixed body without parts"
	}
	if !strings.HasSuffix(body, "--"+params["boundary"]+"--\r\n") {
		return nil, "multipart/mixed body without closing boundary"
	}
	return out, ""
}

func clip(s string, n int) string {
	if len(s) > n {
		return s[:n] + "…"
	}
	return s
}

// ---- oracle ---------------------------------------------------------------------------

type Failure struct {
	Kind string
	What string
}

func resolverRan(c *HTTPCase, o *Obs) bool {
	if c.Up {
		return len(o.Events) > 0
	}
	for _, e := range o.Events {
		if strings.HasPrefix(e, "resolver:") || strings.HasPrefix(e, "exec:") {
			return true
		}
	}
	return false
}

func jsonEqual(a, b string) bool {
	var x, y any
	if json.Unmarshal([]byte(a), &x) != nil || json.Unmarshal([]byte(b), &y) != nil {
		return false
	}
	xb, _ := json.Marshal(x)
	yb, _ := json.Marshal(y)
	return bytes.Equal(xb, yb)
}

// judge evaluates the oracle. It returns every disagreement (possibly several).
func judge(c *HTTPCase, o *Obs) []Failure {
	var fs []Failure
	add := func(kind, format string, a ...any) {
		fs = append(fs, Failure{kind, fmt.Sprintf(format, a...)})
	}
	if o.Escaped != "" {
		add("escaped-panic", "a panic escaped Server.ServeHTTP: %s", clip(o.Escaped, 200))
		return fs
	}
	if len(o.TmpLeft) > 0 {
		add("tmp-left", "TMPDIR not empty after the request: %v", o.TmpLeft)
	}
	if o.Hook > 0 {
		// gqlgen's own panic path: what the client then receives is written by the last-resort
		// recover in Server.ServeHTTP and is not judged further.
		add(panicKind(o.HookMsg), "recover hook ran %d time(s) although no resolver panics: %s", o.Hook, clip(o.HookMsg, 200))
		return fs
	}
	// --- parse the response ---
	var resps []gqlResp
	streamed := false
	mt, _, _ := mime.ParseMediaType(o.CT)
	switch {
	case mt == "text/event-stream":
		streamed = true
		ps, bad := parseSSE(o.Body)
		if bad != "" {
			add("malformed-response", "%s", bad)
			return fs
		}
		for _, p := range ps {
			g, bad := parseGQLResponse([]byte(p))
			if bad != "" {
				add("malformed-response", "SSE event: %s (%s)", bad, clip(p, 120))
				return fs
			}
			resps = append(resps, g)
		}
		if len(resps) == 0 {
			add("malformed-response", "event stream completed without any payload")
			return fs
		}
	case mt == "multipart/mixed":
		streamed = true
		ps, bad := parseMixed(o.CT, o.Body)
		if bad != "" {
			add("malformed-response", "%s", bad)
			return fs
		}
		for _, p := range ps {
			g, bad := parseGQLResponse([]byte(p))
			if bad != "" {
				add("malformed-response", "multipart/mixed part: %s (%s)", bad, clip(p, 120))
				return fs
			}
			resps = append(resps, g)
		}
	default:
		g, bad := parseGQLResponse([]byte(o.Body))
		if bad != "" {
			add("malformed-response", "%s (status %d, body %s)", bad, o.Status, clip(o.Body, 160))
			return fs
		}
		resps = append(resps, g)
	}
	if o.Status >= 500 {
		add("status-5xx", "status %d", o.Status)
	}
	first := resps[0]
	ran := resolverRan(c, o)
	switch c.Exp.Kind {
	case "client-error":
		if !first.HasErrors || first.HasData {
			add("accepted-malformed", "malformed input was answered without an error: %s", clip(o.Body, 160))
		} else if !streamed && (o.Status < 400 || o.Status > 499) {
			add("not-4xx", "malformed input answered with status %d: %s", o.Status, clip(o.Body, 160))
		}
		if ran {
			add("resolver-ran", "malformed input reached execution: %v", o.Events)
		}
	case "error-any-status":
		// a GraphQL-level refusal whose HTTP status the statement does not define (persisted-query
		// protocol errors are answered 200 by design)
		if !first.HasErrors || first.HasData {
			add("accepted-malformed", "invalid request was answered without an error: %s", clip(o.Body, 160))
		}
		if ran {
			add("resolver-ran", "invalid request reached execution: %v", o.Events)
		}
	case "refused-size":
		if !first.HasErrors || first.HasData {
			add("size-limit-not-enforced", "body over MaxUploadSize was answered without an error: %s", clip(o.Body, 160))
		}
		if ran {
			add("size-limit-not-enforced", "body over MaxUploadSize reached execution: %v", o.Events)
		}
	case "success":
		if first.HasErrors || !first.HasData {
			add("rejected-wellformed", "well-formed request was not answered with data: status %d %s", o.Status, clip(o.Body, 200))
			break
		}
		if o.Status != 200 {
			add("rejected-wellformed", "well-formed request answered with status %d", o.Status)
		}
		if !jsonEqual(first.Data, c.Exp.Data) {
			add("wrong-data", "data %s, expected %s", clip(first.Data, 120), c.Exp.Data)
		}
		if c.Up {
			if c.Ops != nil {
				fs = append(fs, compareTraces(c, o.Seen)...)
			} else {
				fs = append(fs, compareUploads(c.Exp.Uploads, o.Seen, true)...)
			}
		}
	case "any":
		if c.Up {
			// whatever reached a resolver must be intact: compare against the request's files
			fs = append(fs, compareUploads(c.Exp.Uploads, o.Seen, false)...)
		}
	default:
		add("harness", "unknown expectation kind %q", c.Exp.Kind)
	}
	return fs
}

// compareUploads: exact => seen must equal exp (same arg paths, in order). Otherwise
// every seen upload must match *some* expected file by name and then be byte-exact.
func compareUploads(exp []ExpUpload, seen []SeenUpload, exact bool) []Failure {
	var fs []Failure
	add := func(format string, a ...any) {
		fs = append(fs, Failure{"upload-mismatch", fmt.Sprintf(format, a...)})
	}
	check := func(e ExpUpload, s SeenUpload) {
		if s.Err != "" {
			add("%s: reader error %s", s.ArgPath, s.Err)
		}
		if s.Filename != e.Filename || s.ContentType != e.ContentType {
			add("%s: filename/content type %q/%q, expected %q/%q", s.ArgPath, s.Filename, s.ContentType, e.Filename, e.ContentType)
		}
		if s.Size != int64(len(e.Content)) {
			add("%s: Size %d, expected %d", s.ArgPath, s.Size, len(e.Content))
		}
		if !bytes.Equal(s.First, e.Content) {
			add("%s: interleaved read gave %q, expected %q (readers not independent or bytes wrong)", s.ArgPath, clip(string(s.First), 40), clip(string(e.Content), 40))
		}
		if !bytes.Equal(s.Second, e.Content) {
			add("%s: read after Seek(0) gave %q, expected %q", s.ArgPath, clip(string(s.Second), 40), clip(string(e.Content), 40))
		}
	}
	if exact {
		if len(exp) != len(seen) {
			add("resolver saw %d uploads, expected %d", len(seen), len(exp))
			return fs
		}
		for i := range exp {
			if exp[i].ArgPath != seen[i].ArgPath {
				add("upload %d at %s, expected at %s", i, seen[i].ArgPath, exp[i].ArgPath)
				continue
			}
			check(exp[i], seen[i])
		}
		return fs
	}
	for _, s := range seen {
		found := false
		for _, e := range exp {
			if e.Filename == s.Filename {
				found = true
				e.ArgPath = s.ArgPath
				check(e, s)
				break
			}
		}
		if !found {
			add("%s: resolver saw an upload named %q that the request does not contain", s.ArgPath, s.Filename)
		}
	}
	return fs
}

var _ = url.QueryEscape
var _ graphql.Upload

// compareTraces: part (g). Every delivered reader must behave like bytes.Reader over the
// file's bytes for the scripted operations: same n / position, same error class, same bytes.
// One leniency, allowed by the io.Reader contract: Read with an empty buffer at or past the
// end may return (0, nil) or (0, io.EOF).
func compareTraces(c *HTTPCase, seen []SeenUpload) []Failure {
	var fs []Failure
	add := func(format string, a ...any) {
		fs = append(fs, Failure{"reader-mismatch", fmt.Sprintf(format, a...)})
	}
	exp := c.Exp.Uploads
	if len(exp) != len(seen) {
		add("resolver saw %d uploads, expected %d", len(seen), len(exp))
		return fs
	}
	for j, e := range exp {
		s := seen[j]
		if s.ArgPath != e.ArgPath || s.Filename != e.Filename || s.ContentType != e.ContentType || s.Size != int64(len(e.Content)) {
			add("upload %d: %s %q %q size %d, expected %s %q %q size %d", j, s.ArgPath, s.Filename, s.ContentType, s.Size, e.ArgPath, e.Filename, e.ContentType, len(e.Content))
			continue
		}
		if s.Err != "" {
			add("%s: %s", s.ArgPath, s.Err)
		}
		ops := opsFor(c.Ops, j)
		if len(s.Trace) != len(ops) {
			add("%s: %d of %d operations recorded", s.ArgPath, len(s.Trace), len(ops))
			continue
		}
		ref := bytes.NewReader(e.Content)
		for k, op := range ops {
			atEnd := ref.Len() == 0
			want := applyOp(ref, op)
			got := s.Trace[k]
			if op.Kind == "read" && op.N == 0 && atEnd && got.N == 0 && (got.Err == "nil" || got.Err == "EOF") {
				continue
			}
			if got.N != want.N || got.Err != want.Err || !bytes.Equal(got.Data, want.Data) {
				var hist []string
				for _, h := range ops[:k+1] {
					hist = append(hist, h.String())
				}
				add("%s (reader %d of %d): after %s got (n=%d, err=%s, %q), bytes.Reader gives (n=%d, err=%s, %q)", s.ArgPath, j+1, len(exp),
					strings.Join(hist, "; "), got.N, got.Err, clip(string(got.Data), 20), want.N, want.Err, clip(string(want.Data), 20))
				break
			}
		}
	}
	return fs
}

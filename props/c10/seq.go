package main

// Part (f): request classes x repetition x server configuration x transport.
//
// Every malformed / invalid request class is sent to a *fresh* server
//   - twice in a row                                  (pattern "twice"),
//   - once after a different, valid request           (pattern "after-valid"),
//   - (thorough) X, valid, X and X, X, X,
//   - on one transport and then on another            (pattern "cross"),
// and every response is judged by the same oracle as a single request. Two server
// configurations are used: the bare handler.New(...) and one configured like
// handler.NewDefaultServer (LRU query cache, automatic persisted queries, introspection),
// both with every transport and the counting recover hook.
//
// The schema is handschema wrapped so that it behaves like gqlgen's *generated* executors in
// one respect: a root field that is not in the schema is a `panic("unknown field ...")`
// (generated code relies on validation having run). That panic is gqlgen's own, not user code.

import (
	"context"
	"crypto/sha256"
	"encoding/hex"
	"encoding/json"
	"fmt"
	"net/url"
	"strconv"
	"strings"

	"github.com/vektah/gqlparser/v2/ast"

	"github.com/99designs/gqlgen/graphql"
	"github.com/99designs/gqlgen/graphql/handler"
	"github.com/99designs/gqlgen/graphql/handler/extension"
	"github.com/99designs/gqlgen/graphql/handler/lru"

	"verif/handschema"
)

// ---- generated-code-like schema ----------------------------------------------------------------

type genLike struct{ hs *handschema.Schema }

func (g genLike) Schema() *ast.Schema { return g.hs.Schema() }
func (g genLike) Complexity(ctx context.Context, typeName, field string, child int, args map[string]any) (int, bool) {
	return g.hs.Complexity(ctx, typeName, field, child, args)
}

func (g genLike) Exec(ctx context.Context) graphql.ResponseHandler {
	opCtx := graphql.GetOperationContext(ctx)
	inner := g.hs.Exec(ctx)
	obj := "Query"
	switch opCtx.Operation.Operation {
	case ast.Mutation:
		obj = "Mutation"
	case ast.Subscription:
		obj = "Subscription"
	}
	return func(ctx context.Context) *graphql.Response {
		def := g.hs.Schema().Types[obj]
		for _, f := range graphql.CollectFields(opCtx, opCtx.Operation.SelectionSet, []string{obj}) {
			if f.Name != "__typename" && (def == nil || def.Fields.ForName(f.Name) == nil) {
				panic("unknown field " + strconv.Quote(f.Name)) // what codegen's object.gotpl does
			}
		}
		return inner(ctx)
	}
}

var serverKinds = []string{"bare", "default-like"}

func (r *rig) freshServer(kind string) *handler.Server {
	srv := handler.New(genLike{hs: r.hs})
	addTransports(srv, 0, 0)
	srv.SetRecoverFunc(r.hook.fn)
	if kind == "default-like" {
		srv.SetQueryCache(lru.New[*ast.QueryDocument](1000))
		srv.Use(extension.Introspection{})
		srv.Use(extension.AutomaticPersistedQuery{Cache: lru.New[string](100)})
	}
	return srv
}

// ---- request classes -------------------------------------------------------------------------------

type ReqClass struct {
	Name   string `json:"name"`
	Raw    string `json:"raw,omitempty"` // raw JSON-body text (transport-level damage); RawSet marks use
	RawSet bool   `json:"raw_set,omitempty"`
	Query  string `json:"query,omitempty"`
	OpName string `json:"op_name,omitempty"`
	Vars   string `json:"vars,omitempty"` // JSON text
	Ext    string `json:"ext,omitempty"`  // JSON text
	// reference outcome without persisted queries
	Kind     string `json:"kind"` // client-error | success | any
	Data     string `json:"data,omitempty"`
	Mutation bool   `json:"mutation,omitempty"`
	// persisted-query classes: the reference needs the APQ model
	APQ *apqReq `json:"apq,omitempty"`
}

type apqReq struct {
	WellFormed bool   `json:"well_formed"` // version 1 and a string hash
	Hash       string `json:"hash"`
}

func sha(q string) string {
	h := sha256.Sum256([]byte(q))
	return hex.EncodeToString(h[:])
}

var validOther = ReqClass{Name: "valid-other", Query: "{name}", Kind: "success", Data: `{"name":"N"}`}

// docOutcome: reference outcome of the few documents persisted-query classes use.
func docOutcome(q string) (string, string) {
	switch q {
	case "{a}":
		return "success", `{"a":"A"}`
	case "{nope}":
		return "client-error", ""
	}
	return "client-error", ""
}

func reqClasses() []ReqClass {
	ok := func(name, q, op, vars, data string) ReqClass {
		return ReqClass{Name: name, Query: q, OpName: op, Vars: vars, Kind: "success", Data: data}
	}
	bad := func(name, q, op, vars string) ReqClass {
		return ReqClass{Name: name, Query: q, OpName: op, Vars: vars, Kind: "client-error"}
	}
	cs := []ReqClass{
		// invalid documents, simplest first
		bad("empty-query", "", "", ""),
		bad("blank-query", " ", "", ""),
		bad("lex-error", `{a\`, "", ""),
		bad("parse-unclosed", "{a", "", ""),
		bad("parse-extra-brace", "{a}}", "", ""),
		bad("parse-unterminated-string", `{echo(s:"x)}`, "", ""),
		bad("parse-type-definition", "type X{a:Int}", "", ""),
		bad("only-fragment", "fragment F on Query{a}", "", ""),
		bad("unknown-field", "{nope}", "", ""),
		bad("unknown-field-aliased", "{a:nope}", "", ""),
		bad("unknown-mutation-field", "mutation{nope}", "", ""),
		bad("unknown-subscription-field", "subscription{nope}", "", ""),
		bad("subselection-on-scalar", "{a{b}}", "", ""),
		bad("unknown-argument", "{b(y:1)}", "", ""),
		bad("wrong-argument-type", `{b(x:"s")}`, "", ""),
		bad("duplicate-argument", "{b(x:1,x:2)}", "", ""),
		bad("unknown-fragment", "{...F}", "", ""),
		bad("unused-fragment", "{a} fragment F on Query{a}", "", ""),
		bad("fragment-cycle", "{...F} fragment F on Query{...F}", "", ""),
		bad("fragment-on-unknown-type", "{...on Nope{a}}", "", ""),
		bad("conflicting-fields", "{x:a x:name}", "", ""),
		bad("unused-variable", "query($v:Int){a}", "", ""),
		bad("undefined-variable", "{b(x:$v)}", "", ""),
		bad("duplicate-variable", "query($x:Int,$x:Int){b(x:$x)}", "", ""),
		bad("unknown-variable-type", "query($v:Nope){a}", "", ""),
		bad("non-input-variable-type", "query($v:Query){a}", "", ""),
		bad("unknown-directive", "{a @nope}", "", ""),
		bad("misplaced-directive", "query @skip(if:true){a}", "", ""),
		bad("duplicate-operation-name", "query Q{a} query Q{a}", "Q", ""),
		bad("two-anonymous-operations", "{a} {name}", "", ""),
		bad("operation-not-found", "query Q{a}", "Zed", ""),
		bad("several-operations-no-name", "query Q{a} query R{a}", "", ""),
		bad("required-variable-missing", "query($x:Int!){b(x:$x)}", "", ""),
		bad("required-variable-null", "query($x:Int!){b(x:$x)}", "", `{"x":null}`),
		bad("variable-wrong-type", "query($x:Int){b(x:$x)}", "", `{"x":"str"}`),
		bad("variable-list-for-scalar", "query($x:Int){b(x:$x)}", "", `{"x":[1]}`),
		// valid requests (a cache hit must keep answering them)
		ok("valid", "{a}", "", "", `{"a":"A"}`),
		ok("valid-aliases", "{x:a name}", "", "", `{"x":"A","name":"N"}`),
		ok("valid-named", "query Q{a} query R{name}", "R", "", `{"name":"N"}`),
		ok("valid-variables", "query Q($x:Int){b(x:$x)}", "", `{"x":2}`, `{"b":4}`),
		ok("valid-typename", "{__typename}", "", "", `{"__typename":"Query"}`),
		ok("valid-fragment", "{...F} fragment F on Query{a}", "", "", `{"a":"A"}`),
		{Name: "valid-mutation", Query: "mutation{m2}", Kind: "success", Data: `{"m2":"M2"}`, Mutation: true},
		{Name: "resolver-error", Query: "{fail}", Kind: "any"},
	}
	// transport-level damage to the JSON carrier
	for _, r := range []struct{ name, raw string }{
		{"raw-null", "null"}, {"raw-array", "[]"}, {"raw-number", "5"}, {"raw-string", `"s"`}, {"raw-empty", ""},
		{"raw-not-json", "not json"}, {"raw-truncated", `{"query":"{a}"`},
		{"raw-query-number", `{"query":5}`}, {"raw-variables-array", `{"query":"{a}","variables":[]}`},
		{"raw-operation-name-number", `{"query":"{a}","operationName":5}`},
		{"raw-extensions-string", `{"query":"{a}","extensions":"s"}`},
	} {
		cs = append(cs, ReqClass{Name: r.name, Raw: r.raw, RawSet: true, Kind: "client-error"})
	}
	// persisted-query extension shapes, with and without the query text
	for _, q := range []string{"", "{a}", "{nope}"} {
		hashFor := q
		if q == "" {
			hashFor = "{a}"
		}
		qn := map[string]string{"": "hash-only", "{a}": "with-valid-query", "{nope}": "with-invalid-query"}[q]
		for _, pq := range []string{"null", "5", `"s"`, "true", "[]", "{}"} {
			c := ReqClass{Name: "apq-" + qn + "-persistedQuery-" + pq, Query: q, Ext: `{"persistedQuery":` + pq + `}`,
				APQ: &apqReq{WellFormed: false}}
			if pq == "null" { // null is absent: an ordinary request
				c.APQ = nil
				c.Kind, c.Data = docOutcome(q)
			}
			cs = append(cs, c)
		}
		versions := []string{"", "null", "1", "2", `"1"`, "1.5", "[]", "{}"}
		hashes := []string{"", "null", `"` + sha(hashFor) + `"`, `"` + sha("other") + `"`, "5", "[]", "{}"}
		for _, v := range versions {
			for _, h := range hashes {
				var parts []string
				if v != "" {
					parts = append(parts, `"version":`+v)
				}
				if h != "" {
					parts = append(parts, `"sha256Hash":`+h)
				}
				c := ReqClass{Name: fmt.Sprintf("apq-%s-version(%s)-hash(%s)", qn, v, clip(h, 12)), Query: q,
					Ext: `{"persistedQuery":{` + strings.Join(parts, ",") + `}}`, APQ: &apqReq{}}
				if v == "1" && strings.HasPrefix(h, `"`) {
					c.APQ.WellFormed = true
					c.APQ.Hash = strings.Trim(h, `"`)
				}
				if v == "1" && (h == "" || h == "null") {
					c.APQ.WellFormed = true // an absent hash is the empty hash: never matches, never found
				}
				cs = append(cs, c)
			}
		}
	}
	return cs
}

// ---- transports ------------------------------------------------------------------------------------

var seqTransports = []string{"POST", "POST-grjson", "SSE", "MIXED", "URLENC", "GRAPHQL", "GET", "MULTIPART", "WS/graphql-ws", "WS/graphql-transport-ws"}

func (c *ReqClass) jsonBody() string {
	if c.RawSet {
		return c.Raw
	}
	q, _ := json.Marshal(c.Query)
	s := `{"query":` + string(q)
	if c.OpName != "" {
		o, _ := json.Marshal(c.OpName)
		s += `,"operationName":` + string(o)
	}
	if c.Vars != "" {
		s += `,"variables":` + c.Vars
	}
	if c.Ext != "" {
		s += `,"extensions":` + c.Ext
	}
	return s + "}"
}

// applicable: can transport t carry class c at all?
func applicable(c *ReqClass, t string) bool {
	switch t {
	case "GRAPHQL":
		return !c.RawSet && c.OpName == "" && c.Vars == "" && c.Ext == ""
	case "GET":
		return !c.RawSet
	case "WS/graphql-ws", "WS/graphql-transport-ws":
		return !c.RawSet || json.Valid([]byte(c.Raw))
	case "URLENC":
		// the urlencoded transport reads a body as JSON only when it contains "query":
		return !c.RawSet || strings.Contains(c.Raw, `"query":`)
	}
	return true
}

// SeqStep is one request of a sequence, with the reference expectation for it.
type SeqStep struct {
	Transport string    `json:"transport"`
	Class     ReqClass  `json:"class"`
	HTTP      *HTTPCase `json:"http,omitempty"`
	Exp       Expect    `json:"exp"`
}

type SeqCase struct {
	Server  string    `json:"server"`
	Pattern string    `json:"pattern"`
	Steps   []SeqStep `json:"steps"`
}

func (s *SeqCase) key() string {
	k := s.Server + "|" + s.Pattern
	for _, st := range s.Steps {
		k += "|" + st.Transport + ":" + st.Class.Name
	}
	return k
}

// expectStep is the reference: the outcome of class c on transport t, given the server
// configuration and the persisted-query registrations made by earlier steps.
func expectStep(server, t string, c *ReqClass, apq map[string]string) Expect {
	kind, data, mutation := c.Kind, c.Data, c.Mutation
	if c.APQ != nil {
		if server == "default-like" {
			switch {
			case !c.APQ.WellFormed:
				return Expect{Kind: "error-any-status"}
			case c.Query == "":
				q, found := apq[c.APQ.Hash]
				if !found {
					return Expect{Kind: "error-any-status"} // PersistedQueryNotFound
				}
				kind, data = docOutcome(q)
			default:
				if sha(c.Query) != c.APQ.Hash {
					return Expect{Kind: "error-any-status"}
				}
				apq[c.APQ.Hash] = c.Query
				kind, data = docOutcome(c.Query)
			}
		} else {
			// no persisted-query support: the extension entry means nothing
			kind, data = docOutcome(c.Query)
		}
	}
	if mutation && t == "GET" && kind == "success" {
		return Expect{Kind: "client-error"} // GET never mutates
	}
	return Expect{Kind: kind, Data: data}
}

func (c *ReqClass) httpCase(t string) *HTTPCase {
	h := &HTTPCase{Part: "f", Endpoint: t, Class: c.Name}
	body := c.jsonBody()
	switch t {
	case "POST":
		h.CType, h.Body = "application/json", []byte(body)
	case "POST-grjson":
		h.CType, h.Accept, h.Body = "application/json", "application/graphql-response+json", []byte(body)
	case "SSE":
		h.CType, h.Accept, h.Body = "application/json", "text/event-stream", []byte(body)
	case "MIXED":
		h.CType, h.Accept, h.Body = "application/json", "multipart/mixed", []byte(body)
	case "URLENC":
		h.CType, h.Body = "application/x-www-form-urlencoded", []byte(body)
	case "GRAPHQL":
		h.CType, h.Body = "application/graphql", []byte(c.Query)
	case "GET":
		v := url.Values{}
		v.Set("query", c.Query)
		if c.OpName != "" {
			v.Set("operationName", c.OpName)
		}
		if c.Vars != "" {
			v.Set("variables", c.Vars)
		}
		if c.Ext != "" {
			v.Set("extensions", c.Ext)
		}
		h.Target = "/?" + v.Encode()
	case "MULTIPART":
		h.CType = mpCType
		h.Body = closeBody(fieldPart("operations", body), fieldPart("map", "{}"))
	}
	return h
}

func buildSeq(server, pattern string, items []struct {
	t string
	c ReqClass
}) *SeqCase {
	s := &SeqCase{Server: server, Pattern: pattern}
	apq := map[string]string{}
	for _, it := range items {
		c := it.c
		st := SeqStep{Transport: it.t, Class: c, Exp: expectStep(server, it.t, &c, apq)}
		if !strings.HasPrefix(it.t, "WS/") {
			st.HTTP = c.httpCase(it.t)
			st.HTTP.Exp = st.Exp
		}
		s.Steps = append(s.Steps, st)
	}
	return s
}

// enumSeq enumerates part (f).
func enumSeq(tier string, each func(s *SeqCase)) {
	type item = struct {
		t string
		c ReqClass
	}
	classes := reqClasses()
	for _, server := range serverKinds {
		for ti, t := range seqTransports {
			for _, c := range classes {
				if !applicable(&c, t) {
					continue
				}
				each(buildSeq(server, "twice", []item{{t, c}, {t, c}}))
				each(buildSeq(server, "after-valid", []item{{t, validOther}, {t, c}}))
				if tier == "thorough" {
					each(buildSeq(server, "x-valid-x", []item{{t, c}, {t, validOther}, {t, c}}))
					each(buildSeq(server, "thrice", []item{{t, c}, {t, c}, {t, c}}))
				}
				// the same class on one transport, then on another
				for tj, t2 := range seqTransports {
					if tj == ti || !applicable(&c, t2) {
						continue
					}
					if tier != "thorough" && tj != (ti+1)%len(seqTransports) && tj != (ti+3)%len(seqTransports) {
						continue // quick: two successor transports per transport
					}
					each(buildSeq(server, "cross", []item{{t, c}, {t2, c}}))
				}
			}
		}
		// persisted-query life cycle across requests (meaningful on the default-like server)
		reg := func(q string) ReqClass {
			return ReqClass{Name: "apq-register(" + q + ")", Query: q, Ext: `{"persistedQuery":{"version":1,"sha256Hash":"` + sha(q) + `"}}`,
				APQ: &apqReq{WellFormed: true, Hash: sha(q)}}
		}
		use := func(q string) ReqClass {
			return ReqClass{Name: "apq-hash-only(" + q + ")", Ext: `{"persistedQuery":{"version":1,"sha256Hash":"` + sha(q) + `"}}`,
				APQ: &apqReq{WellFormed: true, Hash: sha(q)}}
		}
		for _, t := range seqTransports {
			if t == "GRAPHQL" {
				continue
			}
			for _, q := range []string{"{a}", "{nope}"} {
				each(buildSeq(server, "apq-register-use-use", []item{{t, reg(q)}, {t, use(q)}, {t, use(q)}}))
				each(buildSeq(server, "apq-use-register-use", []item{{t, use(q)}, {t, reg(q)}, {t, use(q)}}))
			}
		}
	}
}

// ---- running a sequence -----------------------------------------------------------------------------

type SeqObs struct {
	HTTP []Obs   `json:"http,omitempty"`
	WS   []WSObs `json:"ws,omitempty"`
}

type seqFailure struct {
	Step  int
	Class string
	Kind  string
	What  string
}

// runSeq plays a sequence against one fresh server; consecutive websocket steps of one
// subprotocol share a connection (one start/subscribe per step, distinct ids).
func (r *rig) runSeq(s *SeqCase) (SeqObs, []seqFailure) {
	var obs SeqObs
	var fails []seqFailure
	r.override = r.freshServer(s.Server)
	defer func() { r.override = nil }()
	for i := 0; i < len(s.Steps); {
		st := s.Steps[i]
		if st.HTTP != nil {
			o := r.run(st.HTTP, false)
			obs.HTTP = append(obs.HTTP, o)
			for _, f := range judge(st.HTTP, &o) {
				fails = append(fails, seqFailure{i, st.Class.Name, f.Kind, fmt.Sprintf("step %d (%s on %s, %s server, pattern %s): %s", i+1, st.Class.Name, st.Transport, s.Server, s.Pattern, f.What)})
			}
			i++
			continue
		}
		// websocket: all following steps on the same subprotocol share one connection
		sub := strings.TrimPrefix(st.Transport, "WS/")
		wc := &WSCase{Part: "f", Subprotocol: sub, Frames: []WSFrame{{Op: opText, Data: wsText("connection_init", "", ""), Class: "ws-init:payload-absent"}}}
		first := i
		for i < len(s.Steps) && s.Steps[i].Transport == st.Transport {
			c := s.Steps[i].Class
			f := WSFrame{Op: opText, Data: wsText(startType(sub), strconv.Itoa(i+1), c.jsonBody()), Class: c.Name}
			switch s.Steps[i].Exp.Kind {
			case "success":
				f.Must, f.Data2 = "data", s.Steps[i].Exp.Data
			case "client-error", "error-any-status":
				f.Must = "error-or-close"
			}
			wc.Frames = append(wc.Frames, f)
			i++
		}
		o := r.runWS(wc)
		obs.WS = append(obs.WS, o)
		for _, f := range judgeWS(wc, &o) {
			fails = append(fails, seqFailure{first, f.Class, f.Kind, fmt.Sprintf("websocket %s, %s server, pattern %s, classes from step %d: %s", sub, s.Server, s.Pattern, first+1, f.What)})
		}
	}
	return obs, fails
}

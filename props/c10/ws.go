package main

// Websocket rig: the real transport.Websocket (through Server.ServeHTTP) over an in-memory
// duplex connection with a hijackable ResponseWriter, a small RFC 6455 frame codec for the
// client side, and quiescence detection that uses no clock:
//
//   - the in-memory conn knows when the server goroutine is blocked in Read on an empty
//     buffer;
//   - a goroutine dump tells whether any goroutine created by wsConnection code is alive.
//
// A worker process runs one connection at a time, so every "wsConnection" goroutine in the
// dump belongs to the connection under test.

import (
	"bufio"
	"bytes"
	"encoding/binary"
	"encoding/json"
	"fmt"
	"io"
	"net"
	"net/http"
	"net/http/httptest"
	"runtime"
	"strings"
	"sync"
	"sync/atomic"
	"time"
	"unicode/utf8"

	"verif/common"
)

// ---- in-memory connection ------------------------------------------------------------------

type memConn struct {
	mu          sync.Mutex
	cond        *sync.Cond
	c2s         []byte
	c2sEOF      bool
	s2c         []byte
	closed      bool
	readWaiting bool
}

func newMemConn() *memConn {
	m := &memConn{}
	m.cond = sync.NewCond(&m.mu)
	return m
}

type memAddr struct{}

func (memAddr) Network() string { return "mem" }
func (memAddr) String() string  { return "mem" }

func (m *memConn) Read(p []byte) (int, error) {
	m.mu.Lock()
	defer m.mu.Unlock()
	for len(m.c2s) == 0 && !m.c2sEOF && !m.closed {
		m.readWaiting = true
		m.cond.Wait()
	}
	m.readWaiting = false
	if m.closed {
		return 0, net.ErrClosed
	}
	if len(m.c2s) == 0 {
		return 0, io.EOF // the client went away
	}
	n := copy(p, m.c2s)
	m.c2s = m.c2s[n:]
	return n, nil
}

func (m *memConn) Write(p []byte) (int, error) {
	m.mu.Lock()
	defer m.mu.Unlock()
	if m.closed {
		return 0, net.ErrClosed
	}
	m.s2c = append(m.s2c, p...)
	return len(p), nil
}

func (m *memConn) Close() error {
	m.mu.Lock()
	m.closed = true
	m.cond.Broadcast()
	m.mu.Unlock()
	return nil
}

func (m *memConn) LocalAddr() net.Addr                { return memAddr{} }
func (m *memConn) RemoteAddr() net.Addr               { return memAddr{} }
func (m *memConn) SetDeadline(t time.Time) error      { return nil }
func (m *memConn) SetReadDeadline(t time.Time) error  { return nil }
func (m *memConn) SetWriteDeadline(t time.Time) error { return nil }

func (m *memConn) clientSend(b []byte) {
	m.mu.Lock()
	m.c2s = append(m.c2s, b...)
	m.cond.Broadcast()
	m.mu.Unlock()
}

func (m *memConn) clientEOF() {
	m.mu.Lock()
	m.c2sEOF = true
	m.cond.Broadcast()
	m.mu.Unlock()
}

func (m *memConn) state() (closed, blockedEmpty bool) {
	m.mu.Lock()
	defer m.mu.Unlock()
	return m.closed, m.readWaiting && len(m.c2s) == 0 && !m.c2sEOF
}

func (m *memConn) takeOutput() []byte {
	m.mu.Lock()
	defer m.mu.Unlock()
	b := m.s2c
	m.s2c = nil
	return b
}

// ---- hijackable response writer ---------------------------------------------------------------

type hijackWriter struct {
	rec      *httptest.ResponseRecorder
	conn     *memConn
	hijacked bool
}

func (h *hijackWriter) Header() http.Header { return h.rec.Header() }
func (h *hijackWriter) Write(b []byte) (int, error) {
	if h.hijacked {
		return 0, http.ErrHijacked
	}
	return h.rec.Write(b)
}
func (h *hijackWriter) WriteHeader(code int) {
	if !h.hijacked {
		h.rec.WriteHeader(code)
	}
}
func (h *hijackWriter) Hijack() (net.Conn, *bufio.ReadWriter, error) {
	h.hijacked = true
	return h.conn, bufio.NewReadWriter(bufio.NewReader(h.conn), bufio.NewWriter(h.conn)), nil
}

// ---- frame codec ---------------------------------------------------------------------------------

const (
	opCont   = 0
	opText   = 1
	opBinary = 2
	opClose  = 8
	opPing   = 9
	opPong   = 10
)

// clientFrame builds one masked, final client frame.
func clientFrame(op byte, payload []byte) []byte {
	var b []byte
	b = append(b, 0x80|op)
	n := len(payload)
	switch {
	case n < 126:
		b = append(b, 0x80|byte(n))
	case n < 65536:
		b = append(b, 0x80|126, byte(n>>8), byte(n))
	default:
		b = append(b, 0x80|127)
		var l [8]byte
		binary.BigEndian.PutUint64(l[:], uint64(n))
		b = append(b, l[:]...)
	}
	mask := [4]byte{0x12, 0x34, 0x56, 0x78}
	b = append(b, mask[:]...)
	for i, c := range payload {
		b = append(b, c^mask[i%4])
	}
	return b
}

type srvFrame struct {
	Op      byte
	Payload []byte
}

// parseServerFrames strictly parses complete unmasked server frames (reassembling
// fragmented messages). rest holds an incomplete trailing frame, if any.
func parseServerFrames(b []byte) (frames []srvFrame, rest []byte, bad string) {
	var cur *srvFrame
	for len(b) > 0 {
		if len(b) < 2 {
			return frames, b, ""
		}
		fin := b[0]&0x80 != 0
		if b[0]&0x70 != 0 {
			return frames, nil, "reserved bits set in a server frame"
		}
		op := b[0] & 0x0f
		if b[1]&0x80 != 0 {
			return frames, nil, "server frame is masked"
		}
		n := int(b[1] & 0x7f)
		hdr := 2
		switch n {
		case 126:
			if len(b) < 4 {
				return frames, b, ""
			}
			n = int(binary.BigEndian.Uint16(b[2:4]))
			hdr = 4
		case 127:
			if len(b) < 10 {
				return frames, b, ""
			}
			n = int(binary.BigEndian.Uint64(b[2:10]))
			hdr = 10
		}
		if len(b) < hdr+n {
			return frames, b, ""
		}
		payload := b[hdr : hdr+n]
		b = b[hdr+n:]
		switch op {
		case opText, opBinary:
			if cur != nil {
				return frames, nil, "new data frame inside a fragmented message"
			}
			cur = &srvFrame{Op: op, Payload: append([]byte(nil), payload...)}
		case opCont:
			if cur == nil {
				return frames, nil, "continuation frame without a start"
			}
			cur.Payload = append(cur.Payload, payload...)
		case opClose, opPing, opPong:
			if !fin || n > 125 {
				return frames, nil, "fragmented or oversized control frame"
			}
			frames = append(frames, srvFrame{Op: op, Payload: append([]byte(nil), payload...)})
			continue
		default:
			return frames, nil, fmt.Sprintf("unknown opcode %d", op)
		}
		if fin {
			frames = append(frames, *cur)
			cur = nil
		}
	}
	if cur != nil {
		return frames, nil, "fragmented message never finished"
	}
	return frames, nil, ""
}

// ---- one websocket session --------------------------------------------------------------------

type WSFrame struct {
	Op   byte   `json:"op"`   // opText, opBinary, opClose
	Data []byte `json:"data"` // payload bytes
	// reference classification
	Class string `json:"class"`              // frame class for signatures
	Must  string `json:"must,omitempty"`     // "error-or-close": malformed, the client must get an error frame or a close; "data": expects data frame
	Data2 string `json:"exp_data,omitempty"` // expected payload.data for Must == "data"
}

type WSCase struct {
	Part        string    `json:"part"`
	Subprotocol string    `json:"subprotocol"`
	Frames      []WSFrame `json:"frames"`
}

type WSMsg struct {
	Op      byte   `json:"op"`
	Type    string `json:"type,omitempty"`
	ID      string `json:"id,omitempty"`
	Payload string `json:"payload,omitempty"`
	Close   int    `json:"close_code,omitempty"`
}

type WSStep struct {
	Sent    bool    `json:"sent"`
	Out     []WSMsg `json:"out"`
	State   string  `json:"state"`        // idle | closed | open (Do returned, conn not closed)
	Closed  bool    `json:"closed_after"` // conn closed by the server or close frame seen
	Hook    int     `json:"hook"`
	HookMsg string  `json:"hook_msg,omitempty"`
}

type WSObs struct {
	Handshake   string   `json:"handshake"`
	Steps       []WSStep `json:"steps"`
	Final       []WSMsg  `json:"final"` // frames after the client's EOF
	EndState    string   `json:"end_state"`
	Escaped     string   `json:"escaped,omitempty"`
	Bad         string   `json:"bad,omitempty"` // framing / JSON violation
	LateHook    int      `json:"late_hook,omitempty"`
	LateHookMsg string   `json:"late_hook_msg,omitempty"`
	Alive       bool     `json:"alive"` // every frame was sent and the server still waited for more
	FramesSent  int      `json:"frames_sent"`
}

const hangGuard = 10 * time.Second

func goroutineDump() string {
	buf := make([]byte, 1<<16)
	for {
		n := runtime.Stack(buf, true)
		if n < len(buf) {
			return string(buf[:n])
		}
		buf = make([]byte, 2*len(buf))
	}
}

const wsFn = "graphql/handler/transport.(*wsConnection)"

type wsSession struct {
	conn  *memConn
	done  atomic.Bool
	start time.Time
}

// quiesce spins (yielding, no clock in the decision) until the server side can make no
// further progress on its own. Returns "idle" (server waits for the next frame),
// "closed" (Do returned and the connection was closed) or "open" (Do returned, nothing
// of the connection's goroutines is left, and nobody closed the connection).
func (s *wsSession) quiesce() string {
	for spins := 0; ; spins++ {
		closed, blocked := s.conn.state()
		if s.done.Load() {
			if !strings.Contains(goroutineDump(), wsFn) {
				closed, _ = s.conn.state()
				if closed {
					return "closed"
				}
				return "open"
			}
		} else if blocked && !closed {
			if !strings.Contains(goroutineDump(), "created by github.com/99designs/gqlgen/"+wsFn+".subscribe") {
				// re-check: still blocked on an empty buffer => nothing happened in between
				if _, b2 := s.conn.state(); b2 && !s.done.Load() {
					return "idle"
				}
			}
		}
		if spins%64 == 63 && time.Since(s.start) > hangGuard {
			common.Broken("websocket session did not quiesce within %v (hang guard; not a verdict)\n%s", hangGuard, goroutineDump())
		}
		runtime.Gosched()
	}
}

var serverTypes = map[string]map[string]bool{
	"graphql-ws":           {"connection_ack": true, "connection_error": true, "data": true, "error": true, "complete": true, "ka": true},
	"graphql-transport-ws": {"connection_ack": true, "next": true, "error": true, "complete": true, "ping": true, "pong": true},
}

// decodeOut parses and validates server frames. Every text frame must be one JSON object
// with a server->client "type" of the negotiated subprotocol.
func decodeOut(sub string, frames []srvFrame) ([]WSMsg, string) {
	var out []WSMsg
	for _, f := range frames {
		switch f.Op {
		case opText:
			if !utf8.Valid(f.Payload) {
				return out, "text frame is not UTF-8"
			}
			var m struct {
				Type    *string         `json:"type"`
				ID      string          `json:"id"`
				Payload json.RawMessage `json:"payload"`
			}
			dec := json.NewDecoder(bytes.NewReader(f.Payload))
			if err := dec.Decode(&m); err != nil {
				return out, "text frame is not a JSON object: " + clip(string(f.Payload), 80)
			}
			if dec.More() {
				return out, "text frame has trailing data: " + clip(string(f.Payload), 80)
			}
			if m.Type == nil || !serverTypes[sub][*m.Type] {
				return out, "text frame with a type the server may not send: " + clip(string(f.Payload), 80)
			}
			out = append(out, WSMsg{Op: opText, Type: *m.Type, ID: m.ID, Payload: string(m.Payload)})
		case opClose:
			msg := WSMsg{Op: opClose}
			if len(f.Payload) == 1 {
				return out, "close frame with a 1-byte payload"
			}
			if len(f.Payload) >= 2 {
				msg.Close = int(binary.BigEndian.Uint16(f.Payload))
				if !utf8.Valid(f.Payload[2:]) {
					return out, "close reason is not UTF-8"
				}
				msg.Payload = string(f.Payload[2:])
			}
			out = append(out, msg)
		case opPing, opPong:
			out = append(out, WSMsg{Op: f.Op})
		default:
			return out, "server sent a binary frame"
		}
	}
	return out, ""
}

// runWS plays one frame sequence: after every frame the harness waits for quiescence and
// collects what the server answered. Frames are not sent once the server has closed.
func (r *rig) runWS(c *WSCase) WSObs {
	var o WSObs
	conn := newMemConn()
	w := &hijackWriter{rec: httptest.NewRecorder(), conn: conn}
	req := httptest.NewRequest("GET", "/", nil)
	req.Header.Set("Connection", "Upgrade")
	req.Header.Set("Upgrade", "websocket")
	req.Header.Set("Sec-WebSocket-Version", "13")
	req.Header.Set("Sec-WebSocket-Key", "dGhlIHNhbXBsZSBub25jZQ==")
	if c.Subprotocol != "" {
		req.Header.Set("Sec-WebSocket-Protocol", c.Subprotocol)
	}
	r.hs.Log.Reset()
	r.hook.take()
	s := &wsSession{conn: conn, start: time.Now()}
	var escaped atomic.Value
	go func() {
		defer s.done.Store(true)
		defer func() {
			if p := recover(); p != nil {
				escaped.Store(fmt.Sprint(p))
			}
		}()
		r.srv.ServeHTTP(w, req)
	}()
	var pending []byte
	collect := func() ([]WSMsg, bool) {
		pending = append(pending, conn.takeOutput()...)
		if o.Handshake == "" {
			i := bytes.Index(pending, []byte("\r\n\r\n"))
			if i < 0 {
				return nil, true
			}
			o.Handshake = string(pending[:i])
			pending = pending[i+4:]
		}
		frames, rest, bad := parseServerFrames(pending)
		pending = rest
		if bad != "" {
			o.Bad = bad
			return nil, false
		}
		msgs, bad := decodeOut(c.Subprotocol, frames)
		if bad != "" {
			o.Bad = bad
			return msgs, false
		}
		return msgs, true
	}
	hasClose := func(ms []WSMsg) bool {
		for _, m := range ms {
			if m.Op == opClose {
				return true
			}
		}
		return false
	}
	st := s.quiesce()
	first, _ := collect()
	closedSeen := st != "idle" || hasClose(first)
	if !w.hijacked {
		o.Handshake = fmt.Sprintf("no upgrade: status %d body %s", w.rec.Code, clip(w.rec.Body.String(), 100))
	}
	for i := range c.Frames {
		step := WSStep{}
		if closedSeen {
			o.Steps = append(o.Steps, step)
			continue
		}
		f := &c.Frames[i]
		conn.clientSend(clientFrame(f.Op, f.Data))
		step.Sent = true
		o.FramesSent++
		st = s.quiesce()
		step.Out, _ = collect()
		step.Hook, step.HookMsg = r.hook.take()
		step.State = st
		if st != "idle" || hasClose(step.Out) {
			closedSeen = true
		}
		step.Closed = st == "closed" || hasClose(step.Out)
		o.Steps = append(o.Steps, step)
	}
	o.Alive = !closedSeen
	conn.clientEOF()
	o.EndState = s.quiesce()
	o.Final, _ = collect()
	o.LateHook, o.LateHookMsg = r.hook.take()
	if len(pending) > 0 && o.Bad == "" {
		o.Bad = "incomplete frame at end of stream"
	}
	if e, ok := escaped.Load().(string); ok {
		o.Escaped = e
	}
	if o.EndState == "open" {
		conn.Close()
	}
	return o
}

// judgeWS evaluates the oracle for one sequence. Returns (signature class, failure) pairs.
func judgeWS(c *WSCase, o *WSObs) []struct{ Class, Kind, What string } {
	lateHook, lateMsg := o.LateHook, o.LateHookMsg
	type F = struct{ Class, Kind, What string }
	var fs []F
	lastClass := "ws:handshake"
	if o.Escaped != "" {
		return []F{{"ws", "escaped-panic", clip(o.Escaped, 200)}}
	}
	if !strings.HasPrefix(o.Handshake, "HTTP/1.1 101 ") {
		fs = append(fs, F{"ws:handshake", "upgrade-refused", o.Handshake})
		return fs
	}
	want := "Sec-WebSocket-Protocol: " + c.Subprotocol
	if !strings.Contains(o.Handshake, want) {
		fs = append(fs, F{"ws:handshake", "wrong-subprotocol", o.Handshake})
	}
	if o.Bad != "" {
		fs = append(fs, F{"ws", "malformed-frame", o.Bad})
	}
	perFrameFailed := false
	sawClose := false
	inited := false
	for i, st := range o.Steps {
		f := c.Frames[i]
		if !st.Sent {
			continue
		}
		lastClass = f.Class
		if st.Hook > 0 {
			fs = append(fs, F{f.Class, panicKind(st.HookMsg), fmt.Sprintf("recover hook ran %d time(s) on frame %d: %s", st.Hook, i, clip(st.HookMsg, 160))})
		}
		errFrame, closeFrame := false, false
		wasInited := inited
		var data []string
		for _, m := range st.Out {
			if m.Type == "connection_ack" {
				inited = true
			}
			if m.Op == opClose {
				closeFrame = true
			}
			if m.Type == "error" || m.Type == "connection_error" {
				errFrame = true
			}
			if m.Type == "data" || m.Type == "next" {
				var p map[string]json.RawMessage
				if json.Unmarshal([]byte(m.Payload), &p) != nil {
					fs = append(fs, F{f.Class, "malformed-frame", "data frame payload is not an object: " + clip(m.Payload, 80)})
					continue
				}
				if e, ok := p["errors"]; ok && string(e) != "null" {
					errFrame = true // errors delivered in a data frame (non-protocol error kind)
				}
				if d, ok := p["data"]; ok && string(d) != "null" {
					data = append(data, string(d))
				}
			}
		}
		if closeFrame || st.Closed {
			sawClose = true
		}
		switch f.Must {
		case "error-or-close":
			if !errFrame && !closeFrame && !st.Closed {
				fs = append(fs, F{f.Class, "no-close", fmt.Sprintf("malformed frame %d got neither an error frame nor a close; server sent %v", i, st.Out)})
				perFrameFailed = true
			}
			if len(data) > 0 {
				fs = append(fs, F{f.Class, "accepted-malformed", fmt.Sprintf("malformed frame %d produced data %v", i, data)})
			}
		case "data":
			if !wasInited {
				break // a start before connection_init is answered by a close; C11 owns that
			}
			if len(data) != 1 || !jsonEqual(data[0], f.Data2) {
				fs = append(fs, F{f.Class, "wrong-data", fmt.Sprintf("frame %d: data frames %v, expected exactly %s (server sent %v)", i, data, f.Data2, st.Out)})
			}
		}
	}
	if lateHook > 0 {
		fs = append(fs, F{lastClass, panicKind(lateMsg), "recover hook ran after the client's EOF: " + clip(lateMsg, 160)})
	}
	for _, m := range o.Final {
		if m.Op == opClose {
			sawClose = true
		}
	}
	if o.EndState == "open" && !sawClose && !perFrameFailed {
		fs = append(fs, F{lastClass, "conn-left-open", "Websocket.Do returned, no goroutine of the connection is left, and the connection was neither closed nor sent a close frame"})
	}
	return fs
}

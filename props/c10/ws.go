package main

// Websocket rig: the real transport.Websocket (through Server.ServeHTTP) over an in-memory
// duplex connection with a hijackable ResponseWriter, a small RFC 6455 frame codec for the
// client side, and quiescence detection that uses no clock:
//
//   - the in-memory conn knows when the server goroutine is blocked in Read on an empty
//     buffer;
//   - a goroutine dump tells whether any goroutine created by wsConnection code is alive.
//
// A worker process runs one connection at a time, so every "wsConnection" goroutine in the
// dump belongs to the connection under test.

import (
	"bufio"
	"bytes"
	"encoding/binary"
	"encoding/json"
	"fmt"
	"io"
	"net"
	"net/http"
	"net/http/httptest"
	"runtime"
	"strings"
	"sync"
	"sync/atomic"
	"time"
	"unicode/utf8"

	"verif/common"
)

// ---- in-memory connection ------------------------------------------------------------------

type memConn struct {
	mu          sync.Mutex
	cond        *sync.Cond
	c2s         []byte
	c2sEOF      bool
	s2c         []byte
	closed      bool
	readWaiting bool
	// environment controls (a slow or stalled client; no clock involved)
	stallWrites  bool // server Write blocks until released
	writeWaiting int  // number of server goroutines blocked in Write
	yieldInWrite bool // server Write yields the processor once before completing
}

func newMemConn() *memConn {
	m := &memConn{}
	m.cond = sync.NewCond(&m.mu)
	return m
}

type memAddr struct{}

func (memAddr) Network() string { return "mem" }
func (memAddr) String() string  { return "mem" }

func (m *memConn) Read(p []byte) (int, error) {
	m.mu.Lock()
	defer m.mu.Unlock()
	for len(m.c2s) == 0 && !m.c2sEOF && !m.closed {
		m.readWaiting = true
		m.cond.Wait()
	}
	m.readWaiting = false
	if m.closed {
		return 0, net.ErrClosed
	}
	if len(m.c2s) == 0 {
		return 0, io.EOF // the client went away
	}
	n := copy(p, m.c2s)
	m.c2s = m.c2s[n:]
	return n, nil
}

func (m *memConn) Write(p []byte) (int, error) {
	m.mu.Lock()
	yield := m.yieldInWrite
	m.mu.Unlock()
	if yield {
		runtime.Gosched()
	}
	m.mu.Lock()
	defer m.mu.Unlock()
	for m.stallWrites && !m.closed {
		m.writeWaiting++
		m.cond.Broadcast()
		m.cond.Wait()
		m.writeWaiting--
	}
	if m.closed {
		return 0, net.ErrClosed
	}
	m.s2c = append(m.s2c, p...)
	return len(p), nil
}

func (m *memConn) Close() error {
	m.mu.Lock()
	m.closed = true
	m.cond.Broadcast()
	m.mu.Unlock()
	return nil
}

func (m *memConn) LocalAddr() net.Addr                { return memAddr{} }
func (m *memConn) RemoteAddr() net.Addr               { return memAddr{} }
func (m *memConn) SetDeadline(t time.Time) error      { return nil }
func (m *memConn) SetReadDeadline(t time.Time) error  { return nil }
func (m *memConn) SetWriteDeadline(t time.Time) error { return nil }

func (m *memConn) clientSend(b []byte) {
	m.mu.Lock()
	m.c2s = append(m.c2s, b...)
	m.cond.Broadcast()
	m.mu.Unlock()
}

func (m *memConn) clientEOF() {
	m.mu.Lock()
	m.c2sEOF = true
	m.cond.Broadcast()
	m.mu.Unlock()
}

func (m *memConn) setStall(on bool) {
	m.mu.Lock()
	m.stallWrites = on
	m.cond.Broadcast()
	m.mu.Unlock()
}

func (m *memConn) setYield(on bool) {
	m.mu.Lock()
	m.yieldInWrite = on
	m.mu.Unlock()
}

func (m *memConn) writersStalled() int {
	m.mu.Lock()
	defer m.mu.Unlock()
	return m.writeWaiting
}

func (m *memConn) state() (closed, blockedEmpty bool) {
	m.mu.Lock()
	defer m.mu.Unlock()
	return m.closed, m.readWaiting && len(m.c2s) == 0 && !m.c2sEOF
}

func (m *memConn) takeOutput() []byte {
	m.mu.Lock()
	defer m.mu.Unlock()
	b := m.s2c
	m.s2c = nil
	return b
}

// ---- hijackable response writer ---------------------------------------------------------------

type hijackWriter struct {
	rec      *httptest.ResponseRecorder
	conn     *memConn
	hijacked bool
}

func (h *hijackWriter) Header() http.Header { return h.rec.Header() }
func (h *hijackWriter) Write(b []byte) (int, error) {
	if h.hijacked {
		return 0, http.ErrHijacked
	}
	return h.rec.Write(b)
}
func (h *hijackWriter) WriteHeader(code int) {
	if !h.hijacked {
		h.rec.WriteHeader(code)
	}
}
func (h *hijackWriter) Hijack() (net.Conn, *bufio.ReadWriter, error) {
	h.hijacked = true
	return h.conn, bufio.NewReadWriter(bufio.NewReader(h.conn), bufio.NewWriter(h.conn)), nil
}

// ---- frame codec ---------------------------------------------------------------------------------

const (
	opCont   = 0
	opText   = 1
	opBinary = 2
	opClose  = 8
	opPing   = 9
	opPong   = 10
)

// clientFrame builds one masked, final client frame.
func clientFrame(op byte, payload []byte) []byte {
	var b []byte
	b = append(b, 0x80|op)
	n := len(payload)
	switch {
	case n < 126:
		b = append(b, 0x80|byte(n))
	case n < 65536:
		b = append(b, 0x80|126, byte(n>>8), byte(n))
	default:
		b = append(b, 0x80|127)
		var l [8]byte
		binary.BigEndian.PutUint64(l[:], uint64(n))
		b = append(b, l[:]...)
	}
	mask := [4]byte{0x12, 0x34, 0x56, 0x78}
	b = append(b, mask[:]...)
	for i, c := range payload {
		b = append(b, c^mask[i%4])
	}
	return b
}

type srvFrame struct {
	Op      byte
	Payload []byte
}

// parseServerFrames strictly parses complete unmasked server frames (reassembling
// fragmented messages). rest holds an incomplete trailing frame, if any.
func parseServerFrames(b []byte) (frames []srvFrame, rest []byte, bad string) {
	var cur *srvFrame
	for len(b) > 0 {
		if len(b) < 2 {
			return frames, b, ""
		}
		fin := b[0]&0x80 != 0
		if b[0]&0x70 != 0 {
			return frames, nil, "reserved bits set in a server frame"
		}
		op := b[0] & 0x0f
		if b[1]&0x80 != 0 {
			return frames, nil, "server frame is masked"
		}
		n := int(b[1] & 0x7f)
		hdr := 2
		switch n {
		case 126:
			if len(b) < 4 {
				return frames, b, ""
			}
			n = int(binary.BigEndian.Uint16(b[2:4]))
			hdr = 4
		case 127:
			if len(b) < 10 {
				return frames, b, ""
			}
			n = int(binary.BigEndian.Uint64(b[2:10]))
			hdr = 10
		}
		if len(b) < hdr+n {
			return frames, b, ""
		}
		payload := b[hdr : hdr+n]
		b = b[hdr+n:]
		switch op {
		case opText, opBinary:
			if cur != nil {
				return frames, nil, "new data frame inside a fragmented message"
			}
			cur = &srvFrame{Op: op, Payload: append([]byte(nil), payload...)}
		case opCont:
			if cur == nil {
				return frames, nil, "continuation frame without a start"
			}
			cur.Payload = append(cur.Payload, payload...)
		case opClose, opPing, opPong:
			if !fin || n > 125 {
				return frames, nil, "fragmented or oversized control frame"
			}
			frames = append(frames, srvFrame{Op: op, Payload: append([]byte(nil), payload...)})
			continue
		default:
			return frames, nil, fmt.Sprintf("unknown opcode %d", op)
		}
		if fin {
			frames = append(frames, *cur)
			cur = nil
		}
	}
	if cur != nil {
		return frames, nil, "fragmented message never finished"
	}
	return frames, nil, ""
}

// ---- one websocket session --------------------------------------------------------------------

type WSFrame struct {
	Op   byte   `json:"op"`   // opText, opBinary, opClose
	Data []byte `json:"data"` // payload bytes
	// reference classification
	Class string `json:"class"`              // frame class for signatures
	Must  string `json:"must,omitempty"`     // "error-or-close": malformed, the client must get an error frame or a close; "data": expects data frame
	Data2 string `json:"exp_data,omitempty"` // expected payload.data for Must == "data"
}

type WSCase struct {
	Part        string    `json:"part"`
	Subprotocol string    `json:"subprotocol"`
	Frames      []WSFrame `json:"frames"`
	// Mode "" plays every frame step-wise (send, wait for quiescence). With "stall" or
	// "burst" the frames from index Active on form one group around a running operation:
	//   stall: the client stops draining the socket, Frames[Active] (a subscription) is sent,
	//          the harness waits until a server goroutine is stuck inside its socket write
	//          (holding the connection's write lock), sends the rest of the group, waits until
	//          the read loop is stuck behind that lock (or went back to reading, or Do
	//          returned), and only then drains the socket again;
	//   burst: the whole group is sent at once and runs freely (socket writes yield the
	//          processor once, like a write that deschedules).
	Mode       string   `json:"mode,omitempty"`
	Active     int      `json:"active,omitempty"`
	ExpNext    int      `json:"exp_next,omitempty"`  // >0: id "1" must get exactly this many results, then complete
	ExpPongs   []string `json:"exp_pongs,omitempty"` // payloads ("" = none) the pongs must carry, as a multiset
	CheckPongs bool     `json:"check_pongs,omitempty"`
	Rep        int      `json:"rep,omitempty"`
}

type WSMsg struct {
	Op      byte   `json:"op"`
	Type    string `json:"type,omitempty"`
	ID      string `json:"id,omitempty"`
	Payload string `json:"payload,omitempty"`
	Close   int    `json:"close_code,omitempty"`
}

type WSStep struct {
	Sent    bool    `json:"sent"`
	Out     []WSMsg `json:"out"`
	State   string  `json:"state"`        // idle | closed | open (Do returned, conn not closed)
	Closed  bool    `json:"closed_after"` // conn closed by the server or close frame seen
	Hook    int     `json:"hook"`
	HookMsg string  `json:"hook_msg,omitempty"`
}

type WSObs struct {
	Handshake   string   `json:"handshake"`
	Steps       []WSStep `json:"steps"`
	Final       []WSMsg  `json:"final"` // frames after the client's EOF
	EndState    string   `json:"end_state"`
	Escaped     string   `json:"escaped,omitempty"`
	Bad         string   `json:"bad,omitempty"` // framing / JSON violation
	LateHook    int      `json:"late_hook,omitempty"`
	LateHookMsg string   `json:"late_hook_msg,omitempty"`
	Alive       bool     `json:"alive"` // every frame was sent and the server still waited for more
	FramesSent  int      `json:"frames_sent"`
	Deadlock    string   `json:"deadlock,omitempty"` // the connection's goroutines, when they deadlocked
	// stall/burst group
	GroupAlive     bool `json:"group_alive,omitempty"`     // connection still open after the group
	StalledWriters int  `json:"stalled_writers,omitempty"` // goroutines stuck in the socket write when the socket was drained again
}

const hangGuard = 10 * time.Second

func goroutineDump() string {
	buf := make([]byte, 1<<16)
	for {
		n := runtime.Stack(buf, true)
		if n < len(buf) {
			return string(buf[:n])
		}
		buf = make([]byte, 2*len(buf))
	}
}

const wsFn = "graphql/handler/transport.(*wsConnection)"

type wsSession struct {
	conn     *memConn
	done     atomic.Bool
	start    time.Time
	deadlock string // set when quiesce found the connection's goroutines deadlocked
}

// ---- goroutine inspection (states, never durations) -----------------------------------------------

type gInfo struct{ id, state, text string }

// leakedGoroutines: goroutines of earlier, deadlocked sessions. They can never run again and
// are ignored by every later inspection.
var leakedGoroutines = map[string]bool{}

// connGoroutines returns the live goroutines that belong to websocket connection code.
func connGoroutines() []gInfo {
	var out []gInfo
	for _, g := range strings.Split(goroutineDump(), "\n\n") {
		if !strings.Contains(g, wsFn) || !strings.HasPrefix(g, "goroutine ") {
			continue
		}
		head := g[len("goroutine "):]
		sp := strings.IndexByte(head, ' ')
		lb, rb := strings.IndexByte(head, '['), strings.IndexByte(head, ']')
		if sp < 0 || lb < 0 || rb < lb {
			continue
		}
		id := head[:sp]
		if leakedGoroutines[id] {
			continue
		}
		state := head[lb+1 : rb]
		if c := strings.IndexByte(state, ','); c >= 0 {
			state = state[:c] // drop ", 2 minutes" style annotations
		}
		out = append(out, gInfo{id, state, g})
	}
	return out
}

func anyCreatedBySubscribe(gs []gInfo) bool {
	for _, g := range gs {
		if strings.Contains(g.text, subscribeCreated) {
			return true
		}
	}
	return false
}

// runLoopBehindLock: the goroutine running wsConnection.run is acquiring a sync.Mutex that is
// not the in-memory conn's own (i.e. wsConnection.mu, held by the stalled writer).
func runLoopBehindLock(gs []gInfo) bool {
	for _, g := range gs {
		if strings.Contains(g.text, wsFn+".run(") {
			return strings.Contains(g.text, "sync.(*Mutex).lockSlow") && !strings.Contains(g.text, "main.(*memConn)")
		}
	}
	return false
}

// deadlockSignature: every goroutine of the connection is parked, at least one of them on a
// sync.Mutex, and none of them waits for the environment (the in-memory conn) - except that
// the read loop may be waiting for the next client frame on an empty buffer (readerIdle),
// which the harness will not send before the server is quiet. Only these goroutines or the
// environment could ever wake them (the server is configured without tickers or timeouts),
// so the goroutine on the mutex can never proceed. Returns "" when that is not the case.
func deadlockSignature(gs []gInfo, readerIdle bool) string {
	if len(gs) == 0 {
		return ""
	}
	onMutex := false
	var sig []string
	for _, g := range gs {
		switch g.state {
		case "sync.Mutex.Lock":
			onMutex = true
		case "chan receive", "select", "sync.Cond.Wait", "semacquire", "sync.WaitGroup.Wait":
		default:
			return "" // running, runnable, syscall, IO wait, ...
		}
		if strings.Contains(g.text, "main.(*memConn).Read") {
			if !readerIdle {
				return ""
			}
		} else if strings.Contains(g.text, "main.(*memConn)") {
			return ""
		}
		sig = append(sig, g.id+":"+g.state)
	}
	if !onMutex {
		return ""
	}
	sortStrings(sig)
	return strings.Join(sig, " ")
}

// quiesce spins (yielding, no clock in the decision) until the server side can make no
// further progress on its own. Returns "idle" (server waits for the next frame),
// "closed" (Do returned and the connection was closed), "open" (Do returned, nothing
// of the connection's goroutines is left, and nobody closed the connection) or "deadlock"
// (see deadlockSignature; observed identically on three consecutive inspections).
func (s *wsSession) quiesce() string {
	lastDead, deadSeen := "", 0
	for spins := 0; ; spins++ {
		closed, blocked := s.conn.state()
		gs := connGoroutines()
		if s.done.Load() && len(gs) == 0 {
			closed, _ = s.conn.state()
			if closed {
				return "closed"
			}
			return "open"
		}
		if !s.done.Load() && blocked && !closed && !anyCreatedBySubscribe(gs) {
			// re-check: still blocked on an empty buffer => nothing happened in between
			if _, b2 := s.conn.state(); b2 && !s.done.Load() {
				return "idle"
			}
		}
		if d := deadlockSignature(gs, blocked); d != "" && s.conn.writersStalled() == 0 {
			if d == lastDead {
				deadSeen++
			} else {
				lastDead, deadSeen = d, 1
			}
			if deadSeen >= 3 {
				var sb strings.Builder
				for _, g := range gs {
					leakedGoroutines[g.id] = true
					lines := strings.Split(g.text, "\n")
					for i, l := range lines {
						if i == 0 || (strings.Contains(l, "gqlgen/graphql/handler/transport.") && !strings.HasPrefix(l, "\t")) {
							sb.WriteString(stripArgs(l) + " <- ")
						}
					}
					sb.WriteString("| ")
				}
				s.deadlock = sb.String()
				return "deadlock"
			}
		} else {
			lastDead, deadSeen = "", 0
		}
		if spins%64 == 63 && time.Since(s.start) > hangGuard {
			common.Broken("websocket session did not quiesce within %v (hang guard; not a verdict)\n%s", hangGuard, goroutineDump())
		}
		runtime.Gosched()
	}
}

// stripArgs removes goroutine numbers and argument/pointer lists so that the text is stable.
func stripArgs(l string) string {
	if strings.HasPrefix(l, "goroutine ") {
		if i := strings.IndexByte(l, '['); i >= 0 {
			return l[i:]
		}
	}
	if i := strings.Index(l, " in goroutine "); i >= 0 {
		l = l[:i]
	}
	if i := strings.LastIndexByte(l, '('); i >= 0 && strings.HasSuffix(l, ")") {
		return l[strings.LastIndex(l[:i], "/")+1 : i]
	}
	return l
}

const subscribeCreated = "created by github.com/99designs/gqlgen/" + wsFn + ".subscribe"

// waitFor spins (yielding) until the state predicate holds; the clock is only the hang guard.
func (s *wsSession) waitFor(pred func() bool) {
	for spins := 0; !pred(); spins++ {
		if spins%64 == 63 && time.Since(s.start) > hangGuard {
			common.Broken("websocket session: awaited state not reached within %v (hang guard; not a verdict)\n%s", hangGuard, goroutineDump())
		}
		runtime.Gosched()
	}
}

var serverTypes = map[string]map[string]bool{
	"graphql-ws":           {"connection_ack": true, "connection_error": true, "data": true, "error": true, "complete": true, "ka": true},
	"graphql-transport-ws": {"connection_ack": true, "next": true, "error": true, "complete": true, "ping": true, "pong": true},
}

// decodeOut parses and validates server frames. Every text frame must be one JSON object
// with a server->client "type" of the negotiated subprotocol.
func decodeOut(sub string, frames []srvFrame) ([]WSMsg, string) {
	var out []WSMsg
	for _, f := range frames {
		switch f.Op {
		case opText:
			if !utf8.Valid(f.Payload) {
				return out, "text frame is not UTF-8"
			}
			var m struct {
				Type    *string         `json:"type"`
				ID      string          `json:"id"`
				Payload json.RawMessage `json:"payload"`
			}
			dec := json.NewDecoder(bytes.NewReader(f.Payload))
			if err := dec.Decode(&m); err != nil {
				return out, "text frame is not a JSON object: " + clip(string(f.Payload), 80)
			}
			if dec.More() {
				return out, "text frame has trailing data: " + clip(string(f.Payload), 80)
			}
			if m.Type == nil || !serverTypes[sub][*m.Type] {
				return out, "text frame with a type the server may not send: " + clip(string(f.Payload), 80)
			}
			out = append(out, WSMsg{Op: opText, Type: *m.Type, ID: m.ID, Payload: string(m.Payload)})
		case opClose:
			msg := WSMsg{Op: opClose}
			if len(f.Payload) == 1 {
				return out, "close frame with a 1-byte payload"
			}
			if len(f.Payload) >= 2 {
				msg.Close = int(binary.BigEndian.Uint16(f.Payload))
				if !utf8.Valid(f.Payload[2:]) {
					return out, "close reason is not UTF-8"
				}
				msg.Payload = string(f.Payload[2:])
			}
			out = append(out, msg)
		case opPing, opPong:
			out = append(out, WSMsg{Op: f.Op})
		default:
			return out, "server sent a binary frame"
		}
	}
	return out, ""
}

// runWS plays one frame sequence: after every frame the harness waits for quiescence and
// collects what the server answered. Frames are not sent once the server has closed.
func (r *rig) runWS(c *WSCase) WSObs {
	var o WSObs
	conn := newMemConn()
	w := &hijackWriter{rec: httptest.NewRecorder(), conn: conn}
	req := httptest.NewRequest("GET", "/", nil)
	req.Header.Set("Connection", "Upgrade")
	req.Header.Set("Upgrade", "websocket")
	req.Header.Set("Sec-WebSocket-Version", "13")
	req.Header.Set("Sec-WebSocket-Key", "dGhlIHNhbXBsZSBub25jZQ==")
	if c.Subprotocol != "" {
		req.Header.Set("Sec-WebSocket-Protocol", c.Subprotocol)
	}
	r.hs.Log.Reset()
	r.hook.take()
	s := &wsSession{conn: conn, start: time.Now()}
	var escaped atomic.Value
	go func() {
		defer s.done.Store(true)
		defer func() {
			if p := recover(); p != nil {
				escaped.Store(fmt.Sprint(p))
			}
		}()
		srv := r.srv
		if r.override != nil {
			srv = r.override
		}
		srv.ServeHTTP(w, req)
	}()
	var pending []byte
	collect := func() ([]WSMsg, bool) {
		pending = append(pending, conn.takeOutput()...)
		if o.Handshake == "" {
			i := bytes.Index(pending, []byte("\r\n\r\n"))
			if i < 0 {
				return nil, true
			}
			o.Handshake = string(pending[:i])
			pending = pending[i+4:]
		}
		frames, rest, bad := parseServerFrames(pending)
		pending = rest
		if bad != "" {
			o.Bad = bad
			return nil, false
		}
		msgs, bad := decodeOut(c.Subprotocol, frames)
		if bad != "" {
			o.Bad = bad
			return msgs, false
		}
		return msgs, true
	}
	hasClose := func(ms []WSMsg) bool {
		for _, m := range ms {
			if m.Op == opClose {
				return true
			}
		}
		return false
	}
	st := s.quiesce()
	first, _ := collect()
	closedSeen := st != "idle" || hasClose(first)
	if !w.hijacked {
		o.Handshake = fmt.Sprintf("no upgrade: status %d body %s", w.rec.Code, clip(w.rec.Body.String(), 100))
	}
	for i := range c.Frames {
		step := WSStep{}
		if closedSeen {
			o.Steps = append(o.Steps, step)
			continue
		}
		f := &c.Frames[i]
		if c.Mode != "" && i == c.Active {
			rest := c.Frames[i+1:]
			switch c.Mode {
			case "stall":
				conn.setStall(true)
				conn.clientSend(clientFrame(f.Op, f.Data))
				s.waitFor(func() bool { // a writer is stuck, or nothing will ever write
					if conn.writersStalled() > 0 || s.done.Load() {
						return true
					}
					_, blocked := conn.state()
					return blocked && !anyCreatedBySubscribe(connGoroutines())
				})
				var burst []byte
				for _, g := range rest {
					burst = append(burst, clientFrame(g.Op, g.Data)...)
				}
				conn.clientSend(burst)
				s.waitFor(func() bool { // the read loop cannot get further on its own
					if s.done.Load() {
						return true
					}
					if _, blocked := conn.state(); blocked {
						return true
					}
					return runLoopBehindLock(connGoroutines())
				})
				o.StalledWriters = conn.writersStalled()
				conn.setStall(false)
			case "burst":
				conn.setYield(true)
				burst := clientFrame(f.Op, f.Data)
				for _, g := range rest {
					burst = append(burst, clientFrame(g.Op, g.Data)...)
				}
				conn.clientSend(burst)
			}
			step.Sent = true
			o.FramesSent += 1 + len(rest)
			st = s.quiesce()
			step.Out, _ = collect()
			step.Hook, step.HookMsg = r.hook.take()
			step.State = st
			closedSeen = true // the group is the end of the scripted part
			o.GroupAlive = st == "idle" && !hasClose(step.Out)
			step.Closed = st == "closed" || hasClose(step.Out)
			o.Steps = append(o.Steps, step)
			continue
		}
		conn.clientSend(clientFrame(f.Op, f.Data))
		step.Sent = true
		o.FramesSent++
		st = s.quiesce()
		step.Out, _ = collect()
		step.Hook, step.HookMsg = r.hook.take()
		step.State = st
		if st != "idle" || hasClose(step.Out) {
			closedSeen = true
		}
		step.Closed = st == "closed" || hasClose(step.Out)
		o.Steps = append(o.Steps, step)
	}
	o.Alive = !closedSeen
	conn.clientEOF()
	if s.deadlock == "" {
		o.EndState = s.quiesce()
	}
	if s.deadlock != "" {
		// nothing of this connection can ever run again; its goroutines are written off
		o.EndState, o.Deadlock = "deadlock", s.deadlock
		conn.Close()
	}
	o.Final, _ = collect()
	o.LateHook, o.LateHookMsg = r.hook.take()
	if len(pending) > 0 && o.Bad == "" {
		o.Bad = "incomplete frame at end of stream"
	}
	if e, ok := escaped.Load().(string); ok {
		o.Escaped = e
	}
	if o.EndState == "open" {
		conn.Close()
	}
	return o
}

// judgeWS evaluates the oracle for one sequence. Returns (signature class, failure) pairs.
func judgeWS(c *WSCase, o *WSObs) []struct{ Class, Kind, What string } {
	lateHook, lateMsg := o.LateHook, o.LateHookMsg
	type F = struct{ Class, Kind, What string }
	var fs []F
	lastClass := "ws:handshake"
	if o.Escaped != "" {
		return []F{{"ws", "escaped-panic", clip(o.Escaped, 200)}}
	}
	if !strings.HasPrefix(o.Handshake, "HTTP/1.1 101 ") {
		fs = append(fs, F{"ws:handshake", "upgrade-refused", o.Handshake})
		return fs
	}
	want := "Sec-WebSocket-Protocol: " + c.Subprotocol
	if !strings.Contains(o.Handshake, want) {
		fs = append(fs, F{"ws:handshake", "wrong-subprotocol", o.Handshake})
	}
	if o.Bad != "" {
		fs = append(fs, F{"ws", "malformed-frame", o.Bad})
	}
	perFrameFailed := false
	sawClose := false
	inited := false
	for i, st := range o.Steps {
		f := c.Frames[i]
		if !st.Sent {
			continue
		}
		if c.Mode != "" && i == c.Active && len(c.Frames) > i+1 {
			f.Class = c.Frames[i+1].Class + "(during-operation)" // f is a copy
		}
		lastClass = f.Class
		if st.Hook > 0 {
			fs = append(fs, F{f.Class, panicKind(st.HookMsg), fmt.Sprintf("recover hook ran %d time(s) on frame %d: %s", st.Hook, i, clip(st.HookMsg, 160))})
		}
		errFrame, closeFrame := false, false
		wasInited := inited
		var data []string
		for _, m := range st.Out {
			if m.Type == "connection_ack" {
				inited = true
			}
			if m.Op == opClose {
				closeFrame = true
			}
			if m.Type == "error" || m.Type == "connection_error" {
				errFrame = true
			}
			if m.Type == "data" || m.Type == "next" {
				var p map[string]json.RawMessage
				if json.Unmarshal([]byte(m.Payload), &p) != nil {
					fs = append(fs, F{f.Class, "malformed-frame", "data frame payload is not an object: " + clip(m.Payload, 80)})
					continue
				}
				if e, ok := p["errors"]; ok && string(e) != "null" {
					errFrame = true // errors delivered in a data frame (non-protocol error kind)
				}
				if d, ok := p["data"]; ok && string(d) != "null" {
					data = append(data, string(d))
				}
			}
		}
		if closeFrame || st.Closed {
			sawClose = true
		}
		switch f.Must {
		case "error-or-close":
			if !errFrame && !closeFrame && !st.Closed {
				fs = append(fs, F{f.Class, "no-close", fmt.Sprintf("malformed frame %d got neither an error frame nor a close; server sent %v", i, st.Out)})
				perFrameFailed = true
			}
			if len(data) > 0 {
				fs = append(fs, F{f.Class, "accepted-malformed", fmt.Sprintf("malformed frame %d produced data %v", i, data)})
			}
		case "data":
			if !wasInited {
				break // a start before connection_init is answered by a close; C11 owns that
			}
			if len(data) != 1 || !jsonEqual(data[0], f.Data2) {
				fs = append(fs, F{f.Class, "wrong-data", fmt.Sprintf("frame %d: data frames %v, expected exactly %s (server sent %v)", i, data, f.Data2, st.Out)})
			}
		}
	}
	if c.Mode != "" && len(o.Steps) > c.Active && o.Steps[c.Active].Sent && o.Escaped == "" && o.Bad == "" && o.Steps[c.Active].Hook == 0 {
		groupClass := "ws-active-operation"
		if len(c.Frames) > c.Active+1 {
			groupClass = c.Frames[c.Active+1].Class + "(during-operation)"
		}
		var nexts, completes int
		var pongs []string
		for _, m := range o.Steps[c.Active].Out {
			switch {
			case (m.Type == "data" || m.Type == "next") && m.ID == "1":
				nexts++
			case m.Type == "complete" && m.ID == "1":
				completes++
			case m.Type == "pong":
				pongs = append(pongs, m.Payload)
			}
		}
		if c.ExpNext > 0 && (nexts != c.ExpNext || completes != 1) {
			fs = append(fs, F{groupClass, "wrong-data", fmt.Sprintf("operation 1 delivered %d results and %d complete, expected %d and 1; server sent %v", nexts, completes, c.ExpNext, o.Steps[c.Active].Out)})
		}
		if c.CheckPongs {
			want := append([]string(nil), c.ExpPongs...)
			got := append([]string(nil), pongs...)
			sortStrings(want)
			sortStrings(got)
			same := len(want) == len(got)
			for i := 0; same && i < len(want); i++ {
				same = want[i] == got[i] || (want[i] != "" && got[i] != "" && jsonEqual(want[i], got[i]))
			}
			if !same {
				fs = append(fs, F{groupClass, "pong-mismatch", fmt.Sprintf("pongs carried %q, pings carried %q", got, want)})
			}
		}
	}
	if o.Deadlock != "" {
		fs = append(fs, F{lastClass, "deadlock", "every goroutine of the connection is parked on a lock or channel and none waits for the client: " + clip(o.Deadlock, 600)})
		return fs
	}
	if lateHook > 0 {
		fs = append(fs, F{lastClass, panicKind(lateMsg), "recover hook ran after the client's EOF: " + clip(lateMsg, 160)})
	}
	for _, m := range o.Final {
		if m.Op == opClose {
			sawClose = true
		}
	}
	if o.EndState == "open" && !sawClose && !perFrameFailed {
		fs = append(fs, F{lastClass, "conn-left-open", "Websocket.Do returned, no goroutine of the connection is left, and the connection was neither closed nor sent a close frame"})
	}
	return fs
}

package main

// Enumerators of the HTTP case spaces (a) JSON shapes, (b) raw bytes, (c) multipart.
// Every enumerator is a pure function of the tier: all workers enumerate the same
// sequence and each executes the cases whose key hashes to its shard.

import (
	"bytes"
	"encoding/json"
	"fmt"
	"net/url"
	"strings"
)

type emitFn func(c *HTTPCase)

// ---- (a) JSON shapes ------------------------------------------------------------------------

var fieldNames = []string{"query", "operationName", "variables", "extensions", "headers"}
var kindNames = []string{"absent", "null", "string", "number", "bool", "array", "object"}

// fieldValue is the JSON text used for field f with kind k ("" = absent).
func fieldValue(f, k int) string {
	switch kindNames[k] {
	case "absent":
		return ""
	case "null":
		return "null"
	case "number":
		return "5"
	case "bool":
		return "true"
	case "array":
		return "[]"
	case "string":
		switch fieldNames[f] {
		case "query":
			return `"` + docQ + `"`
		case "operationName":
			return `"Q"`
		}
		return `"s"`
	case "object":
		switch fieldNames[f] {
		case "variables":
			return `{"x":2}`
		case "extensions":
			return `{"k":1}`
		case "headers":
			return `{"X-A":["b"]}`
		}
		return `{}`
	}
	panic("kind")
}

// shapeBody builds the object for a 5-digit base-7 shape index.
func shapeBody(idx int) (body string, kinds [5]int) {
	var parts []string
	n := idx
	for f := 0; f < 5; f++ {
		k := n % 7
		n /= 7
		kinds[f] = k
		if v := fieldValue(f, k); v != "" {
			parts = append(parts, `"`+fieldNames[f]+`":`+v)
		}
	}
	return "{" + strings.Join(parts, ",") + "}", kinds
}

var topLevels = []struct{ class, text string }{
	{"body-json-null", "null"},
	{"body-json-bool", "true"},
	{"body-json-bool", "false"},
	{"body-json-number", "5"},
	{"body-json-string", `"s"`},
	{"body-json-array", "[]"},
	{"body-json-array", `[{"query":"{a}"}]`},
	{"body-json-object", "{}"},
}
var trailers = []string{"", " ", "\n", ` "query":1`, `{"query":"{a}"}`, "x"}

// jsonBodies enumerates (class, body) for part (a), simplest first.
func jsonBodies(each func(class, body string)) {
	for _, tr := range trailers {
		for _, t := range topLevels {
			each(t.class, t.text+tr)
		}
	}
	for idx := 0; idx < 7*7*7*7*7; idx++ {
		b, _ := shapeBody(idx)
		each("body-json-object", b)
	}
}

type jsonEndpoint struct{ name, ctype, accept string }

func jsonEndpoints(tier string) []jsonEndpoint {
	eps := []jsonEndpoint{
		{"POST", "application/json", ""},
		{"SSE", "application/json", "text/event-stream"},
		{"MIXED", "application/json", "multipart/mixed"},
		{"URLENC", "application/x-www-form-urlencoded", ""},
	}
	if tier == "thorough" {
		eps = append(eps, jsonEndpoint{"POST-grjson", "application/json; charset=utf-8", "application/graphql-response+json"})
	}
	return eps
}

func enumA(tier string, emit emitFn) {
	for _, ep := range jsonEndpoints(tier) {
		ep := ep
		jsonBodies(func(class, body string) {
			c := &HTTPCase{Part: "a", Endpoint: ep.name, Class: class, CType: ep.ctype, Accept: ep.accept, Body: []byte(body)}
			if ep.name == "URLENC" {
				c.Exp = expectFromDocBody(c.Body)
			} else {
				c.Exp = expectFromJSONBody(c.Body)
			}
			emit(c)
		})
	}
}

// ---- (b) raw bytes ---------------------------------------------------------------------------

const structAlphabet = "{}[]:,\"\\01-a "

func rawStrings(tier string, each func(class string, s []byte)) {
	// all byte strings of length <= 2
	each("bytes-len0", nil)
	for a := 0; a < 256; a++ {
		each("bytes-len1", []byte{byte(a)})
	}
	for a := 0; a < 256; a++ {
		for b := 0; b < 256; b++ {
			each("bytes-len2", []byte{byte(a), byte(b)})
		}
	}
	// all strings of length 3..L over the structural alphabet (length <= 2 is covered above)
	maxLen := 4
	if tier == "thorough" {
		maxLen = 5
	}
	al := []byte(structAlphabet)
	for l := 3; l <= maxLen; l++ {
		buf := make([]byte, l)
		idx := make([]int, l)
		for {
			for i := range buf {
				buf[i] = al[idx[i]]
			}
			each(fmt.Sprintf("struct-len%d", l), append([]byte(nil), buf...))
			p := l - 1
			for p >= 0 {
				idx[p]++
				if idx[p] < len(al) {
					break
				}
				idx[p] = 0
				p--
			}
			if p < 0 {
				break
			}
		}
	}
	for _, lit := range []string{"null", "true", "false", "null ", " null", "nullx", "nul", "{}x", "{} {}", `{"a":null}`, `{"a":{"b":[1,"s",null]}}`, `{"a":1}}`, `{"a":1`, "[null]"} {
		each("literal", []byte(lit))
	}
}

// rawClass names the input class of a raw string for signatures.
func rawClass(prefix string, s []byte) string {
	v, _, err := firstJSON(s)
	if err != nil {
		return prefix + "-not-json"
	}
	return prefix + "-json-" + jsonKind(v)
}

func rawCase(endpoint, gen string, s []byte) *HTTPCase {
	c := &HTTPCase{Part: "b", Endpoint: endpoint, Note: gen}
	switch endpoint {
	case "POST":
		c.Class = rawClass("body", s)
	case "GETVARS", "GETEXT":
		c.Class = rawClass("param", s)
	case "GETRAW":
		c.Class = "query-string"
	default:
		c.Class = "document-body"
		if strings.Contains(string(s), `"query":`) {
			c.Class = rawClass("body", s)
		}
	}
	switch endpoint {
	case "POST":
		c.CType, c.Body = "application/json", s
		c.Exp = expectFromJSONBody(s)
	case "URLENC":
		c.CType, c.Body = "application/x-www-form-urlencoded", s
		c.Exp = expectFromDocBody(s)
	case "GRAPHQL":
		c.CType, c.Body = "application/graphql", s
		c.Exp = expectFromDocBody(s)
	case "GETVARS":
		c.Target = "/?query=%7Ba%7D&variables=" + url.QueryEscape(string(s))
		c.Exp = expectFromJSONMapParam(s)
	case "GETEXT":
		c.Target = "/?query=%7Ba%7D&extensions=" + url.QueryEscape(string(s))
		c.Exp = expectFromJSONMapParam(s)
	case "GETRAW":
		c.RawReq = []byte("GET /?" + string(s) + " HTTP/1.1\r\nHost: x\r\n\r\n")
		c.Exp = expectFromQueryString(string(s))
	}
	return c
}

var rawEndpoints = []string{"POST", "GETVARS", "GETEXT", "GETRAW", "URLENC", "GRAPHQL"}

// extras: hand-picked structurally mutated valid requests with explicit expectations.
type extra struct {
	endpoint, input, kind, data string
}

var okA = `{"a":"A"}`

var extras = []extra{
	{"GETRAW", "query=%7Ba%7D", "success", okA},
	{"GETRAW", "query={a}", "success", okA},
	{"GETRAW", "query=%7Ba%7D&variables=%7B%7D", "success", okA},
	{"GETRAW", "query=%7Ba%7D&variables=null", "success", okA},
	{"GETRAW", "query=%7Ba%7D&variables=%5B%5D", "client-error", ""},
	{"GETRAW", "query=%7Ba%7D&variables=%7B", "client-error", ""},
	{"GETRAW", "query=%7Ba%7D&variables=%", "client-error", ""},
	{"GETRAW", "query=%7Ba%7D;x=1", "client-error", ""},
	{"GETRAW", "query=%7Ba%7D&operationName=Zed", "client-error", ""},
	{"GETRAW", "query=mutation%7Bm2%7D", "client-error", ""},
	{"GETRAW", "query=%7Ba%7D&extensions=5", "client-error", ""},
	{"GETRAW", "query=%7Ba%7D&extensions=%7B%22persistedQuery%22%3A5%7D", "success", okA},
	{"GETRAW", "query=%7Ba", "client-error", ""},
	{"GETRAW", "query=%ZZ", "client-error", ""},
	{"GETRAW", "query=%7Ba%7D&query=%7B", "success", okA},
	{"GETRAW", "variables=%7B%7D", "client-error", ""},
	{"URLENC", "query=%7Ba%7D", "success", okA},
	{"URLENC", "query=%7Ba%7", "client-error", ""},
	{"URLENC", "query=%7B%ZZ", "client-error", ""},
	{"URLENC", "query={a}", "success", okA},
	{"URLENC", `{"query":"{a}"}`, "success", okA},
	{"URLENC", `{"query":5}`, "client-error", ""},
	{"URLENC", `{"query":"{a}","variables":[]}`, "client-error", ""},
	{"URLENC", `[{"query":"{a}"}]`, "client-error", ""},
	{"URLENC", `query=`, "client-error", ""},
	{"GRAPHQL", "{a}", "success", okA},
	{"GRAPHQL", "query={a}", "success", okA},
	{"GRAPHQL", "%7Ba%7D", "success", okA},
	{"GRAPHQL", "query=%7Ba%7D", "success", okA},
	{"GRAPHQL", "%7Ba%7", "client-error", ""},
	{"GRAPHQL", "%7B%ZZ", "client-error", ""},
	{"GRAPHQL", "query=", "client-error", ""},
	{"GRAPHQL", "mutation{m2}", "success", `{"m2":"M2"}`},
	{"POST", `{"query":"{a}"}`, "success", okA},
	{"POST", `{"query":"{a}","variables":{"x":[{}]}}`, "success", okA},
	{"POST", `{"query":"{a}","operationName":"Zed"}`, "client-error", ""},
	{"POST", "\xef\xbb\xbf" + `{"query":"{a}"}`, "client-error", ""},
	{"POST", `{"query":"{a}",}`, "client-error", ""},
	{"POST", `{"query":"{a}"`, "client-error", ""},
	{"POST", `{"query":"{a"}`, "client-error", ""},
	{"POST", `{"query":"{a}","variables":{"x":1e400}}`, "success", okA},
	{"POST", strings.Repeat("[", 10001), "client-error", ""},
	{"POST", `{"query":"` + strings.Repeat("{a", 300) + `"}`, "client-error", ""},
	{"POST", "{\"query\":\"{a}\xff\"}", "client-error", ""},
}

func enumB(tier string, emit emitFn) {
	for _, ep := range rawEndpoints {
		ep := ep
		rawStrings(tier, func(class string, s []byte) {
			emit(rawCase(ep, class, s))
		})
	}
	for _, x := range extras {
		c := rawCase(x.endpoint, "extra (explicit expectation)", []byte(x.input))
		c.Exp = Expect{Kind: x.kind, Data: x.data}
		emit(c)
	}
}

// ---- (c) multipart --------------------------------------------------------------------------

const boundary = "XbX"

type filePart struct {
	key, filename, ctype string
	content              []byte
}

var file0 = filePart{"0", "a.txt", "text/plain", []byte("0123456789abcdef-file0")}
var file1 = filePart{"1", "b.bin", "application/octet-stream", []byte("FILE-ONE\x00\xff\r\n--XbX-not-a-boundary\r\nend")}

func fieldPart(name, value string) string {
	return "--" + boundary + "\r\nContent-Disposition: form-data; name=\"" + name + "\"\r\n\r\n" + value + "\r\n"
}

func (f filePart) part() string {
	return "--" + boundary + "\r\nContent-Disposition: form-data; name=\"" + f.key + "\"; filename=\"" + f.filename +
		"\"\r\nContent-Type: " + f.ctype + "\r\n\r\n" + string(f.content) + "\r\n"
}

func closeBody(parts ...string) []byte {
	return []byte(strings.Join(parts, "") + "--" + boundary + "--\r\n")
}

const mpCType = "multipart/form-data; boundary=" + boundary

type upShape struct {
	name  string
	query string
	vars  string // "" = no variables key, otherwise JSON text
	field string
	good  map[string]string // map path -> resolver arg path
}

var upShapes = []upShape{
	{"scalar", `mutation($file:Upload!){upload(file:$file)}`, `{"file":null,"x":"s"}`, "upload",
		map[string]string{"variables.file": "file"}},
	{"null", `mutation($files:[Upload]!){uploads(files:$files)}`, `{"files":null,"x":[null]}`, "uploads", nil},
	{"list", `mutation($files:[Upload]!){uploads(files:$files)}`, `{"files":[null,null]}`, "uploads",
		map[string]string{"variables.files.0": "files.0", "variables.files.1": "files.1"}},
	{"list-of-lists", `mutation($files:[[Upload]]){matrix(files:$files)}`, `{"files":[[null,null],[null]]}`, "matrix",
		map[string]string{"variables.files.0.0": "files.0.0", "variables.files.0.1": "files.0.1", "variables.files.1.0": "files.1.0"}},
	{"object", `mutation($x:Req){nested(req:$x)}`, `{"x":{"file":null,"x":"s"}}`, "nested",
		map[string]string{"variables.x.file": "req.file"}},
	{"object-with-list", `mutation($x:Req){nested(req:$x)}`, `{"x":{"files":[null,null],"file":null}}`, "nested",
		map[string]string{"variables.x.file": "req.file", "variables.x.files.0": "req.files.0", "variables.x.files.1": "req.files.1"}},
	{"variables-absent", `mutation($file:Upload!){upload(file:$file)}`, "", "upload", nil},
	{"variables-null", `mutation($file:Upload!){upload(file:$file)}`, "null", "upload", nil},
}

func (s upShape) operations() string {
	q, _ := json.Marshal(s.query)
	if s.vars == "" {
		return `{"query":` + string(q) + `}`
	}
	return `{"query":` + string(q) + `,"variables":` + s.vars + `}`
}

func (s upShape) decodedVars() (bool, any) {
	if s.vars == "" {
		return false, nil
	}
	var v any
	dec := json.NewDecoder(strings.NewReader(s.vars))
	dec.UseNumber()
	if err := dec.Decode(&v); err != nil {
		panic(err)
	}
	return true, v
}

// expectUpload computes the reference outcome of mapping files to paths on a shape.
// mapping: ordered (file, paths...) as they appear in the map.
func expectUpload(s upShape, files []filePart, paths [][]string) (Expect, string) {
	hasVars, vars := s.decodedVars()
	allGood := true
	type slot struct {
		arg  string
		file int
	}
	var slots []slot
	var reqFiles []ExpUpload
	for i, f := range files {
		reqFiles = append(reqFiles, ExpUpload{Filename: f.filename, ContentType: f.ctype, Content: f.content})
		for _, p := range paths[i] {
			reason := refWalk(hasVars, vars, p, func(container any, key string, idx int) {
				switch c := container.(type) {
				case map[string]any:
					c[key] = uploadMark{i}
				case []any:
					c[idx] = uploadMark{i}
				}
			})
			if reason != "" {
				return Expect{Kind: "client-error"}, reason
			}
			arg, ok := s.good[p]
			if !ok {
				allGood = false
			}
			slots = append(slots, slot{arg, i})
		}
	}
	if !allGood {
		return Expect{Kind: "any", Uploads: reqFiles}, "walkable-undeclared-position"
	}
	// a slot written twice keeps the last writer; resolver order is arg-path order
	last := map[string]int{}
	for _, sl := range slots {
		last[sl.arg] = sl.file
	}
	if len(last) != len(slots) {
		return Expect{Kind: "any", Uploads: reqFiles}, "same-position-twice"
	}
	var args []string
	for a := range last {
		args = append(args, a)
	}
	sortStrings(args)
	var exp []ExpUpload
	for _, a := range args {
		f := files[last[a]]
		exp = append(exp, ExpUpload{ArgPath: a, Filename: f.filename, ContentType: f.ctype, Content: f.content})
	}
	return Expect{Kind: "success", Data: fmt.Sprintf(`{%q:"%s:%d"}`, s.field, s.field, len(exp)), Uploads: exp}, "well-formed"
}

func sortStrings(s []string) {
	for i := 1; i < len(s); i++ {
		for j := i; j > 0 && s[j] < s[j-1]; j-- {
			s[j], s[j-1] = s[j-1], s[j]
		}
	}
}

var pathSegs = []string{"variables", "file", "files", "0", "1", "-1", "99", "x", ""}

func allPaths(maxSegs int, each func(p string)) {
	var rec func(prefix []string)
	rec = func(prefix []string) {
		if len(prefix) > 0 {
			each(strings.Join(prefix, "."))
		}
		if len(prefix) == maxSegs {
			return
		}
		for _, s := range pathSegs {
			rec(append(prefix[:len(prefix):len(prefix)], s))
		}
	}
	// breadth by length so that short paths come first
	for l := 1; l <= maxSegs; l++ {
		l := l
		var gen func(prefix []string)
		gen = func(prefix []string) {
			if len(prefix) == l {
				each(strings.Join(prefix, "."))
				return
			}
			for _, s := range pathSegs {
				gen(append(prefix[:len(prefix):len(prefix)], s))
			}
		}
		gen(nil)
	}
	_ = rec
}

func mapJSON(keys []string, paths [][]string) string {
	var sb strings.Builder
	sb.WriteByte('{')
	for i, k := range keys {
		if i > 0 {
			sb.WriteByte(',')
		}
		kb, _ := json.Marshal(k)
		pb, _ := json.Marshal(paths[i])
		sb.Write(kb)
		sb.WriteByte(':')
		sb.Write(pb)
	}
	sb.WriteByte('}')
	return sb.String()
}

// memory / spill: MaxMemory decides (ContentLength < MaxMemory => in memory).
var memModes = []struct {
	name   string
	maxMem int64
}{{"memory", 0}, {"spill", 1}}

func enumC(tier string, emit emitFn) {
	maxSegs := 3
	if tier == "thorough" {
		maxSegs = 4
	}
	// c1: every shape x every path x memory/spill, one file mapped to one path
	for _, mode := range memModes {
		for _, s := range upShapes {
			s, mode := s, mode
			allPaths(maxSegs, func(p string) {
				exp, reason := expectUpload(s, []filePart{file0}, [][]string{{p}})
				body := closeBody(fieldPart("operations", s.operations()), fieldPart("map", mapJSON([]string{"0"}, [][]string{{p}})), file0.part())
				emit(&HTTPCase{Part: "c", Endpoint: "MULTIPART", Class: "AddUpload:" + reason, CType: mpCType, Body: body, Up: true,
					MaxMem: mode.maxMem, Exp: exp, Note: "c1 shape=" + s.name + " path=" + p + " " + mode.name})
			})
		}
	}
	// c2: well-formed multi-path / multi-file uploads x size limits x content-length knowledge
	type multi struct {
		name  string
		shape int
		files []filePart
		paths [][]string
		order []int // order of file parts in the body
	}
	multis := []multi{
		{"one-file-one-path", 0, []filePart{file0}, [][]string{{"variables.file"}}, []int{0}},
		{"one-file-two-paths", 2, []filePart{file0}, [][]string{{"variables.files.0", "variables.files.1"}}, []int{0}},
		{"two-files", 2, []filePart{file0, file1}, [][]string{{"variables.files.0"}, {"variables.files.1"}}, []int{0, 1}},
		{"two-files-reversed-parts", 2, []filePart{file0, file1}, [][]string{{"variables.files.1"}, {"variables.files.0"}}, []int{1, 0}},
		{"one-file-object-and-list", 5, []filePart{file1}, [][]string{{"variables.x.file", "variables.x.files.1"}}, []int{0}},
		{"two-files-three-matrix-slots", 3, []filePart{file0, file1}, [][]string{{"variables.files.0.0", "variables.files.1.0"}, {"variables.files.0.1"}}, []int{0, 1}},
		{"same-path-twice", 2, []filePart{file0}, [][]string{{"variables.files.0", "variables.files.0"}}, []int{0}},
		{"empty-file", 0, []filePart{{"0", "e.txt", "text/plain", nil}}, [][]string{{"variables.file"}}, []int{0}},
	}
	for _, m := range multis {
		s := upShapes[m.shape]
		exp, reason := expectUpload(s, m.files, m.paths)
		var keys []string
		for _, f := range m.files {
			keys = append(keys, f.key)
		}
		parts := []string{fieldPart("operations", s.operations()), fieldPart("map", mapJSON(keys, m.paths))}
		for _, i := range m.order {
			parts = append(parts, m.files[i].part())
		}
		body := closeBody(parts...)
		L := int64(len(body))
		for _, chunked := range []bool{false, true} {
			for _, mu := range []int64{0, L - 1, L, L + 1} {
				for _, mm := range []int64{0, 1, L - 1, L, L + 1} {
					e := exp
					class := "upload:" + reason
					if mu != 0 && L > mu {
						e = Expect{Kind: "refused-size"}
						class = "upload:over-MaxUploadSize"
					}
					emit(&HTTPCase{Part: "c", Endpoint: "MULTIPART", Class: class, CType: mpCType, Body: body, Up: true,
						ChunkedCL: chunked, MaxUpload: mu, MaxMem: mm, Exp: e,
						Note: fmt.Sprintf("c2 %s L=%d MaxUploadSize=%d MaxMemory=%d", m.name, L, mu, mm)})
				}
			}
		}
	}
	// c3: part orders, duplicated and missing parts
	s := upShapes[2]
	ops := fieldPart("operations", s.operations())
	mp := fieldPart("map", mapJSON([]string{"0", "1"}, [][]string{{"variables.files.0"}, {"variables.files.1"}}))
	symbols := []struct{ name, text string }{
		{"O", ops}, {"M", mp}, {"F0", file0.part()}, {"F1", file1.part()},
		{"X", fieldPart("x", "y")}, {"Obad", fieldPart("operations", `{"query":`)}, {"Mbad", fieldPart("map", `{"0":`)},
	}
	maxParts := 4
	if tier == "thorough" {
		maxParts = 5
	}
	goodExp, _ := expectUpload(s, []filePart{file0, file1}, [][]string{{"variables.files.0"}, {"variables.files.1"}})
	for _, mode := range memModes {
		for l := 0; l <= maxParts; l++ {
			idx := make([]int, l)
			for {
				var names, texts []string
				for _, i := range idx {
					names = append(names, symbols[i].name)
					texts = append(texts, symbols[i].text)
				}
				seq := strings.Join(names, ",")
				exp := Expect{Kind: "client-error"}
				class := "parts:malformed-order"
				if seq == "O,M,F0,F1" || seq == "O,M,F1,F0" {
					exp, class = goodExp, "parts:well-formed"
				}
				emit(&HTTPCase{Part: "c", Endpoint: "MULTIPART", Class: class, CType: mpCType, Body: closeBody(texts...), Up: true,
					MaxMem: mode.maxMem, Exp: exp, Note: "c3 parts=[" + seq + "] " + mode.name})
				p := l - 1
				for p >= 0 {
					idx[p]++
					if idx[p] < len(symbols) {
						break
					}
					idx[p] = 0
					p--
				}
				if p < 0 {
					break
				}
			}
		}
	}
	// c4: operations / map JSON shapes
	sc := upShapes[0]
	opsShapes := []struct {
		text string
		ok   bool // decodable request with an object for variables
		vars bool
	}{
		{sc.operations(), true, true},
		{"null", true, false}, {"5", false, false}, {`"s"`, false, false}, {"[]", false, false}, {"{}", true, false},
		{`{"query":5}`, false, false},
		{`{"query":"mutation($file:Upload!){upload(file:$file)}","variables":[]}`, false, false},
		{`{"query":"mutation($file:Upload!){upload(file:$file)}","variables":"s"}`, false, false},
		{`{"query":"mutation($file:Upload!){upload(file:$file)}","variables":{"file":null}} trailing`, true, true},
		{``, false, false},
	}
	mapShapes := []struct {
		text    string
		kind    string // "ok", "bad", "dup"
		reaches bool   // file part "0" is looked up successfully, so its path is walked
	}{
		{`{"0":["variables.file"]}`, "ok", true},
		{`null`, "bad", false}, {`{}`, "bad", false}, {`[]`, "bad", false}, {`5`, "bad", false}, {`"s"`, "bad", false}, {``, "bad", false},
		{`{"0":null}`, "bad", false}, {`{"0":[]}`, "bad", false}, {`{"0":"variables.file"}`, "bad", false}, {`{"0":[5]}`, "bad", false},
		{`{"0":[null]}`, "bad", false}, {`{"0":[""]}`, "bad", false}, {`{"1":["variables.file"]}`, "bad", false},
		{`{"0":["variables.file"],"1":["variables.file"]}`, "bad", true},
		{`{"0":["variables.file","variables.file"]}`, "dup", true},
		{`{"0":["variables.file"]} trailing`, "ok", true},
	}
	for _, mode := range memModes {
		for _, o := range opsShapes {
			for _, m := range mapShapes {
				exp := Expect{Kind: "client-error"}
				class := "opsmap:malformed"
				switch {
				case o.ok && !o.vars && m.reaches:
					class = "AddUpload:variables-missing"
				case !o.ok || m.kind == "bad":
				case m.kind == "dup":
					exp = Expect{Kind: "any", Uploads: []ExpUpload{{Filename: file0.filename, ContentType: file0.ctype, Content: file0.content}}}
					class = "opsmap:same-position-twice"
				default:
					exp, _ = expectUpload(sc, []filePart{file0}, [][]string{{"variables.file"}})
					class = "opsmap:well-formed"
					if strings.Contains(o.text, "trailing") || strings.Contains(m.text, "trailing") {
						exp.Lenient = true
					}
				}
				body := closeBody(fieldPart("operations", o.text), fieldPart("map", m.text), file0.part())
				emit(&HTTPCase{Part: "c", Endpoint: "MULTIPART", Class: class, CType: mpCType, Body: body, Up: true, MaxMem: mode.maxMem, Exp: exp,
					Note: "c4 operations=" + o.text + " map=" + m.text + " " + mode.name})
			}
		}
	}
	// c5: every proper prefix of a well-formed two-file upload body (truncated transfer)
	full := closeBody(ops, mp, file0.part(), file1.part())
	tail := len("--" + boundary + "--\r\n")
	for _, mode := range memModes {
		for n := 0; n < len(full); n++ {
			exp := Expect{Kind: "client-error"}
			class := "truncated-body"
			if n > len(full)-tail {
				// inside the closing delimiter: whether "--XbX" + EOF terminates the last part is a
				// matter of the MIME reader, not of this property
				exp = Expect{Kind: "any", Uploads: goodExp.Uploads}
				class = "truncated-closing-delimiter"
			}
			emit(&HTTPCase{Part: "c", Endpoint: "MULTIPART", Class: class, CType: mpCType, Body: append([]byte(nil), full[:n]...), Up: true,
				MaxMem: mode.maxMem, Exp: exp, Note: fmt.Sprintf("c5 prefix %d/%d %s", n, len(full), mode.name)})
		}
	}
	// c6: content-type level damage
	for _, ct := range []string{"multipart/form-data", "multipart/form-data; boundary=", "multipart/form-data; boundary=other", `multipart/form-data; boundary="XbX"`} {
		exp := Expect{Kind: "client-error"}
		class := "bad-boundary"
		if strings.HasSuffix(ct, `"XbX"`) {
			exp, class = goodExp, "parts:well-formed"
		}
		emit(&HTTPCase{Part: "c", Endpoint: "MULTIPART", Class: class, CType: ct, Body: full, Up: true, Exp: exp, Note: "c6 content-type " + ct})
	}
	// c7: the same variable shapes without any upload, as plain JSON POSTs against the upload
	// schema (null members of nested lists are ordinary, well-formed input)
	for _, v := range []string{`null`, `[]`, `[[]]`, `[[null]]`, `[null]`, `[[null],null]`} {
		body := `{"query":"mutation($f:[[Upload]]){matrix(files:$f)}","variables":{"f":` + v + `}}`
		emit(&HTTPCase{Part: "c", Endpoint: "POST", Class: "nested-list-variable-null-member", CType: "application/json", Body: []byte(body), Up: true,
			Exp: Expect{Kind: "success", Data: `{"matrix":"matrix:0"}`}, Note: "c7 variables.f=" + v})
	}
	_ = bytes.Equal
}

// ---- (d0) broken websocket handshakes ------------------------------------------------------

// enumHandshake: requests that carry an Upgrade header (so the Websocket transport takes
// them) but are not a valid RFC 6455 opening handshake. The client must get a well-formed
// 4xx error.
func enumHandshake(emit emitFn) {
	const full = "Connection: Upgrade\r\nUpgrade: websocket\r\nSec-WebSocket-Version: 13\r\nSec-WebSocket-Key: dGhlIHNhbXBsZSBub25jZQ==\r\n"
	for _, h := range []struct{ name, text string }{
		{"no-connection-header", "GET / HTTP/1.1\r\nHost: x\r\nUpgrade: websocket\r\n\r\n"},
		{"no-version", "GET / HTTP/1.1\r\nHost: x\r\nConnection: Upgrade\r\nUpgrade: websocket\r\n\r\n"},
		{"no-key", "GET / HTTP/1.1\r\nHost: x\r\nConnection: Upgrade\r\nUpgrade: websocket\r\nSec-WebSocket-Version: 13\r\n\r\n"},
		{"bad-version", "GET / HTTP/1.1\r\nHost: x\r\nConnection: Upgrade\r\nUpgrade: websocket\r\nSec-WebSocket-Version: 8\r\nSec-WebSocket-Key: dGhlIHNhbXBsZSBub25jZQ==\r\n\r\n"},
		{"other-upgrade-token", "GET / HTTP/1.1\r\nHost: x\r\nConnection: Upgrade\r\nUpgrade: h2c\r\n\r\n"},
		{"post-method", "POST / HTTP/1.1\r\nHost: x\r\nContent-Length: 0\r\n" + full + "\r\n"},
		{"foreign-origin", "GET / HTTP/1.1\r\nHost: x\r\nOrigin: http://elsewhere.example\r\n" + full + "\r\n"},
	} {
		emit(&HTTPCase{Part: "d", Endpoint: "WS-HANDSHAKE", Class: "bad-upgrade-request", RawReq: []byte(h.text),
			Exp: Expect{Kind: "client-error"}, Note: "d0 " + h.name})
	}
}

// ---- (g) reader operations on delivered uploads -------------------------------------------------

var gFile = filePart{"0", "r.txt", "text/plain", []byte("abcde")}

func readerAlphabet(L int) []ROp {
	var al []ROp
	for _, n := range []int{0, 1, L, L + 1} {
		al = append(al, ROp{Kind: "read", N: n})
	}
	for whence := 0; whence <= 2; whence++ {
		for _, off := range []int64{0, 1, int64(L) - 1, int64(L), int64(L) + 1, 512, -1} {
			al = append(al, ROp{Kind: "seek", Off: off, Whence: whence})
		}
	}
	return append(al, ROp{Kind: "readall"})
}

// enumG: every operation sequence up to a length, on the in-memory and on the spill-file
// branch, for one file mapped to one path and to two paths.
func enumG(tier string, emit emitFn) {
	maxLen := 3
	files := []filePart{gFile}
	if tier == "thorough" {
		maxLen = 4
		files = append(files, filePart{"0", "one.txt", "text/plain", []byte("Z")})
	}
	for _, file := range files {
		al := readerAlphabet(len(file.content))
		for _, mode := range memModes {
			for _, two := range []bool{false, true} {
				shape, paths := upShapes[0], []string{"variables.file"}
				if two {
					shape, paths = upShapes[2], []string{"variables.files.0", "variables.files.1"}
				}
				exp, _ := expectUpload(shape, []filePart{file}, [][]string{paths})
				body := closeBody(fieldPart("operations", shape.operations()), fieldPart("map", mapJSON([]string{"0"}, [][]string{paths})), file.part())
				for l := 1; l <= maxLen; l++ {
					if tier == "thorough" && l == maxLen && len(file.content) == 1 {
						continue // the 1-byte file goes one level less deep
					}
					idx := make([]int, l)
					for {
						ops := make([]ROp, l)
						for i, k := range idx {
							ops[i] = al[k]
						}
						emit(&HTTPCase{Part: "g", Endpoint: "MULTIPART", Class: "upload-reader(" + mode.name + ")", CType: mpCType, Body: body, Up: true,
							MaxMem: mode.maxMem, Exp: exp, Ops: ops, Note: fmt.Sprintf("g %s paths=%d file=%dB", mode.name, len(paths), len(file.content))})
						p := l - 1
						for p >= 0 {
							idx[p]++
							if idx[p] < len(al) {
								break
							}
							idx[p] = 0
							p--
						}
						if p < 0 {
							break
						}
					}
				}
			}
		}
	}
}

// C16 — introspection mirrors the schema exactly, and reveals nothing when disabled.
//
// The check generates two probe servers from the tree under test (single-file layout →
// generated!.gotpl, follow-schema layout → root_.gotpl) for the schema `type Query { ping:
// String }`, copies the harness (props/c16/harness, build tag c16harness) into each scratch
// module, builds it there and runs it. The harness injects every schema of the feature grid
// through the generated Config.Schema, executes the introspection queries through
// handler.Server + POST, rebuilds a schema description from the JSON and compares it with the
// ast.Schema loaded independently by gqlparser; then it enumerates every query shape of at most
// 4 selection nodes reaching __schema / __type against a server with introspection disabled.
// This file only orchestrates and merges.
package main

import (
	"encoding/json"
	"fmt"
	"os"
	"os/exec"
	"path/filepath"
	"strconv"
	"sync"
	"time"

	"verif/common"
	"verif/probe"
)

const probeSchema = "type Query {\n  ping: String\n}\n"

// grid bound (max non-default slots per schema) per layout and tier. The two layouts differ
// only in the template that carries introspectSchema / introspectType (generated!.gotpl vs
// root_.gotpl); the introspection marshalers come from the same templates, so the second
// layout gets the smaller grid and the full set of query shapes.
var gridK = map[string]map[string]int{
	"single-file":   {"quick": 2, "thorough": 3},
	"follow-schema": {"quick": 1, "thorough": 2},
	"federation":    {"quick": -1, "thorough": -1}, // no grid
}

// max selection nodes of the disabled-mode query shapes, and wrapper depth of the grid
var shapeN = map[string]map[string]int{
	"single-file":   {"quick": 4, "thorough": 4},
	"follow-schema": {"quick": 3, "thorough": 4},
	"federation":    {"quick": 0, "thorough": 0}, // no single-request shapes
}
var wrapDepth = map[string]int{"quick": 3, "thorough": 4}

// shapes with at most this many nodes take the name of each __type from the full alphabet
// (user type, absent name, root type, built-in scalar, introspection type, empty string, other
// case); larger shapes from {user type, absent name}
var namesFullUpto = map[string]int{"quick": 3, "thorough": 4}

// max requests per history (sequences of enabled / disabled requests on one server process)
var histLen = map[string]int{"quick": 2, "thorough": 3}

// The federation probe serves its own embedded schema (the _service field returns the embedded
// sources, not Config.Schema), so that schema carries the sentinel names. Only the request
// histories run on it; the grid and the single-request shapes are about __schema / __type.
const fedSchema = `extend schema @link(url: "https://specs.apollo.dev/federation/v2.3", import: ["@key"])

"zqsentinel type description"
type ZqSentinelType @key(fields: "id") {
  id: ID!
  zqSentinelLeaf: String
}

type Query {
  ping: String
  zqSentinelField: ZqSentinelType
}
`

var layouts = []struct {
	name, yml, schema string
	fed               bool
}{
	{"single-file", "schema:\n  - schema.graphql\nexec:\n  filename: graph/generated.go\n  package: graph\nmodel:\n  filename: graph/models_gen.go\n  package: graph\n", probeSchema, false},
	{"follow-schema", "schema:\n  - schema.graphql\nexec:\n  layout: follow-schema\n  dir: graph\n  package: graph\nmodel:\n  filename: graph/models_gen.go\n  package: graph\n", probeSchema, false},
	{"federation", "schema:\n  - schema.graphql\nexec:\n  filename: graph/generated.go\n  package: graph\nfederation:\n  filename: graph/federation.go\n  package: graph\n  version: 2\nmodel:\n  filename: graph/models_gen.go\n  package: graph\n", fedSchema, true},
}

type finding struct {
	Signature string `json:"signature"`
	What      string `json:"what"`
	Replay    any    `json:"replay"`
	Count     int    `json:"count"`
}

type output struct {
	Layout            string         `json:"layout"`
	Findings          []finding      `json:"findings"`
	Broken            []string       `json:"broken"`
	GridSchemas       int            `json:"grid_schemas"`
	GridPlanned       int            `json:"grid_planned"`
	GridEvaluations   int            `json:"grid_evaluations"`
	GridNontrivial    int            `json:"grid_nontrivial"`
	ShapeSkeletons    int            `json:"shape_skeletons"`
	ShapesGenerated   int            `json:"shapes_generated"`
	ShapesValid       int            `json:"shapes_valid"`
	ShapesReaching    int            `json:"shapes_reaching"`
	ShapesSentinelOn  int            `json:"shapes_sentinel_when_enabled"`
	ShapesKeyAbsent   int            `json:"shapes_expected_key_absent"`
	ShapesUnknownName int            `json:"shape_type_fields_with_unknown_name"`
	ShapeEvaluations  int            `json:"shape_evaluations"`
	HistoryProcesses  int            `json:"history_processes"`
	HistorySequences  int            `json:"history_sequences"`
	HistoryRequests   int            `json:"history_requests"`
	HistoryMixed      int            `json:"history_sequences_mixing_enabled_and_disabled"`
	Exhaustive        bool           `json:"exhaustive"`
	Stopped           string         `json:"stopped"`
	Samples           []any          `json:"samples"`
	Bounds            map[string]any `json:"bounds"`
	WallS             float64        `json:"wall_s"`
}

func harnessFiles() map[string]string {
	files := map[string]string{}
	dir := filepath.Join(common.Root, "props", "c16", "harness")
	ents, err := os.ReadDir(dir)
	if err != nil {
		common.Broken("cannot read harness sources: %v", err)
	}
	for _, e := range ents {
		if filepath.Ext(e.Name()) != ".go" {
			continue
		}
		b, err := os.ReadFile(filepath.Join(dir, e.Name()))
		if err != nil {
			common.Broken("cannot read %s: %v", e.Name(), err)
		}
		files["harness/"+e.Name()] = string(b)
	}
	if len(files) == 0 {
		common.Broken("no harness sources in %s", dir)
	}
	return files
}

// buildProbe generates the probe server for one layout and builds the harness inside it.
func buildProbe(name, yml, schema string) (bin string, err error) {
	spec := probe.Spec{Name: "c16-" + name, Files: map[string]string{"schema.graphql": schema, "gqlgen.yml": yml}, Stub: "graph/stub.go"}
	res, err := probe.Generate(spec)
	if err != nil {
		return "", fmt.Errorf("generator could not be run: %v", err)
	}
	if res.ExitCode != 0 {
		return "", fmt.Errorf("generation failed (exit %d): %s", res.ExitCode, res.Output)
	}
	// generation tidies go.mod/go.sum down to what the generated code needs; write them again
	// (the harness also needs the handler packages and their dependencies) and add the harness
	if _, err := probe.WriteProject(probe.Spec{Name: spec.Name, Files: harnessFiles()}); err != nil {
		return "", err
	}
	bin = filepath.Join(res.Dir, "c16harness")
	if out, err := probe.GoBuild(res.Dir, "-tags", "c16harness", "-o", bin, "./harness"); err != nil {
		return "", fmt.Errorf("building the harness in the %s probe failed: %v\n%s", name, err, out)
	}
	return bin, nil
}

func main() {
	c := common.New("C16", "exploration")
	budget := 150 * time.Second
	if c.Tier == "thorough" {
		budget = 9 * time.Minute // the coordinator wants thorough to stay under 10 min wall whatever the load
	}
	if v, err := strconv.Atoi(os.Getenv("C16_BUDGET_S")); err == nil && v > 0 {
		budget = time.Duration(v) * time.Second // for experiments on a loaded machine
	}
	c.Budget(budget)
	start := time.Now()
	defer probe.Cleanup()

	bins := make([]string, len(layouts))
	errs := make([]error, len(layouts))
	if _, err := probe.Driver(); err != nil { // build the generator once, before the parallel part
		probe.Cleanup()
		common.Broken("%v", err)
	}
	var wg sync.WaitGroup
	for i, l := range layouts {
		wg.Add(1)
		go func() {
			defer wg.Done()
			bins[i], errs[i] = buildProbe(l.name, l.yml, l.schema)
		}()
	}
	wg.Wait()
	for _, err := range errs {
		if err != nil {
			probe.Cleanup()
			common.Broken("%v", err)
		}
	}

	if rp := common.ReplayArg(); rp != "" {
		code := 0
		for i, l := range layouts {
			cmd := exec.Command(bins[i], "-replay", rp, "-layout", l.name)
			if l.fed {
				cmd.Args = append(cmd.Args, "-fed")
			}
			cmd.Stdout, cmd.Stderr = os.Stdout, os.Stderr
			if err := cmd.Run(); err != nil {
				if ee, ok := err.(*exec.ExitError); ok && ee.ExitCode() == 3 {
					continue // replay belongs to the other layout
				} else if ok && ee.ExitCode() == 1 {
					code = 1
				} else {
					code = 2
				}
			}
		}
		probe.Cleanup()
		os.Exit(code)
	}

	// both layouts run concurrently, each harness with NumCPU worker goroutines (a case is one
	// schema or one query shape; cases are independent); results are merged in layout order
	outs := make([]output, len(layouts))
	runErrs := make([]string, len(layouts))
	share := int((budget - time.Since(start)).Seconds())
	if share < 5 {
		share = 5
	}
	var rwg sync.WaitGroup
	for i, l := range layouts {
		rwg.Add(1)
		go func() {
			defer rwg.Done()
			resFile := filepath.Join(probe.ScratchRoot(), "result-"+l.name+".json")
			cmd := exec.Command(bins[i], "-tier", c.Tier, "-layout", l.name, "-out", resFile, "-budget", fmt.Sprint(share), "-grid-k", fmt.Sprint(gridK[l.name][c.Tier]),
				"-shape-n", fmt.Sprint(shapeN[l.name][c.Tier]), "-wrap-depth", fmt.Sprint(wrapDepth[c.Tier]), "-names-full-upto", fmt.Sprint(namesFullUpto[c.Tier]), "-hist-len", fmt.Sprint(histLen[c.Tier]))
			if l.fed {
				cmd.Args = append(cmd.Args, "-fed")
			}
			if c.Tier == "thorough" {
				cmd.Args = append(cmd.Args, "-name-pairs-full")
			}
			cmd.Stdout, cmd.Stderr = os.Stderr, os.Stderr
			if err := cmd.Run(); err != nil {
				runErrs[i] = fmt.Sprintf("harness for layout %s failed: %v", l.name, err)
				return
			}
			b, err := os.ReadFile(resFile)
			if err != nil {
				runErrs[i] = fmt.Sprintf("no result from harness for layout %s: %v", l.name, err)
				return
			}
			var o output
			if err := json.Unmarshal(b, &o); err != nil {
				runErrs[i] = fmt.Sprintf("result of layout %s does not parse: %v", l.name, err)
				return
			}
			if len(o.Broken) > 0 {
				runErrs[i] = fmt.Sprintf("harness (layout %s) reports broken machinery: %s", l.name, o.Broken[0])
				return
			}
			if o.HistorySequences == 0 || (!l.fed && (o.GridSchemas == 0 || (o.ShapesValid == 0 && o.Exhaustive))) {
				runErrs[i] = fmt.Sprintf("harness (layout %s) evaluated nothing", l.name)
				return
			}
			outs[i] = o
		}()
	}
	rwg.Wait()
	exhaustive := true
	for i := range layouts {
		if runErrs[i] != "" {
			probe.Cleanup()
			common.Broken("%s", runErrs[i])
		}
		exhaustive = exhaustive && outs[i].Exhaustive
	}

	evaluations, nontrivial := 0, 0
	perLayout := map[string]any{}
	var bounds map[string]any
	for _, o := range outs {
		for _, f := range o.Findings {
			c.Report(f.Signature, f.What, f.Replay)
		}
		evaluations += o.GridEvaluations + o.ShapeEvaluations + o.HistoryRequests
		nontrivial += o.GridNontrivial + o.ShapesReaching + o.HistoryMixed
		perLayout[o.Layout] = map[string]any{
			"grid_schemas": o.GridSchemas, "grid_planned": o.GridPlanned, "grid_query_evaluations": o.GridEvaluations, "grid_distinct_nontrivial_schemas": o.GridNontrivial,
			"shape_skeletons": o.ShapeSkeletons, "shapes_generated": o.ShapesGenerated, "shapes_valid_executed": o.ShapesValid,
			"shapes_distinct_reaching_meta_field_when_enabled": o.ShapesReaching, "shapes_revealing_sentinel_when_enabled": o.ShapesSentinelOn,
			"shapes_expected_key_absent_when_disabled": o.ShapesKeyAbsent, "shape_type_fields_asking_for_a_name_not_in_the_schema": o.ShapesUnknownName, "shape_request_evaluations": o.ShapeEvaluations,
			"history_fresh_worker_processes": o.HistoryProcesses, "history_sequences": o.HistorySequences, "history_request_evaluations": o.HistoryRequests,
			"history_sequences_mixing_enabled_and_disabled_requests": o.HistoryMixed,
			"exhaustive": o.Exhaustive, "stopped": o.Stopped, "harness_wall_s": o.WallS,
			"finding_case_counts": func() map[string]int {
				m := map[string]int{}
				for _, f := range o.Findings {
					m[f.Signature] = f.Count
				}
				return m
			}(),
		}
		if bounds == nil {
			bounds = o.Bounds
			bounds["grid_max_nondefault_slots"] = map[string]any{}
			bounds["shape_max_nodes"] = map[string]any{}
		}
		if o.Layout == "federation" { // its history alphabet is the superset (adds _service)
			bounds["history_shapes"] = o.Bounds["history_shapes"]
		}
		bounds["grid_max_nondefault_slots"].(map[string]any)[o.Layout] = gridK[o.Layout][c.Tier]
		bounds["shape_max_nodes"].(map[string]any)[o.Layout] = shapeN[o.Layout][c.Tier]
		for _, s := range o.Samples {
			c.Sample(s)
		}
	}
	c.Cov["evaluations"] = evaluations
	c.Cov["distinct_nontrivial"] = nontrivial
	c.Cov["rule"] = "Per probe layout: (1) every assignment of the schema feature grid with at most grid_max_nondefault_slots non-default slots (at most 2 when an element is renamed; quick crosses only the name shapes grid_name_shapes_in_pairs with a second feature), simplest first; the grid includes a name dimension for the object type, object / interface field, their arguments, input field, enum value, directive and directive argument: leading / trailing / inner underscore, single character, a sibling differing only in case, a Go keyword, a 96-character name; on the federation probe the one schema is es.Schema() itself, with everything the plugin injects (Query._service, Query._entities, _Any, _Entity, _Service, directives) compared exactly; each schema is served through the generated Config.Schema and queried with the standard introspection.Query, an extended query with includeDeprecated:true, the same with includeDeprecated:false, __type(name:) for every user type, and the standard query with introspection disabled (evaluations = requests whose response the oracle judged). A schema is non-trivial when it has at least one non-default feature and the oracle compared at least one user-defined type rebuilt from non-null introspection data; distinct = distinct SDL text per layout. (2) every decorated query shape with at most shape_max_nodes selection nodes containing __schema or __type, the name of each __type taken as literal / variable / defaulted variable from the name alphabet in bounds (existing user type, root type, built-in scalar, introspection type, a name not in the schema, the empty string, an existing name in another case; shapes above shape_type_names_full_upto_nodes nodes use the short alphabet); with introspection disabled every meta field must be null with an error at its path and look the same whatever name was asked for, with introspection enabled a name not in the schema must give a plain null; valid ones (gqlparser validator) are executed with introspection enabled and disabled (2 evaluations); a shape is non-trivial when the enabled run returned a non-null value for its meta field, distinct = distinct query text per layout. (3) request histories, also on a federation probe (its own sentinel schema, _service{sdl}): for every gate configuration in bounds (documented AroundOperations gate after/before extension.Introspection{}, Introspection{} and a gating context mutator in both registration orders with the expectation that mutators run in registration order, the gating mutator alone, two servers over one / two executable schemas of the same generated package) every sequence of at most history_max_requests requests over {allowed caller, anonymous caller} x history_shapes; one fresh worker process per (configuration, first request) serves all sequences with that first request; every response is judged (1 evaluation): disabled for this caller -> null + error at the path + no schema string, enabled -> data, no error (absent type name: plain null); a sequence is non-trivial when it contains both an enabled and a disabled request, distinct by construction (configuration, sequence)."
	c.Cov["exhaustive"] = exhaustive
	c.Cov["bounds"] = bounds
	c.Cov["per_layout"] = perLayout
	c.Assume = []string{
		"gqlparser's parser is trusted to turn SDL / default-value text into AST; the reference is an ast.Schema loaded separately from the one handed to the server",
		"deprecationReason is compared up to the directive's default: a deprecated element reporting null and one reporting \"No longer supported\" rebuild to the same schema (the spec makes the reason optional)",
		"built-in types and directives are checked for presence (String, Boolean, the __ types, every referenced type; @skip @include @deprecated @specifiedBy), user-defined elements exactly; lists that do not apply to a kind may be null or empty",
		"on the federation probe the reference is a snapshot of es.Schema() taken before the first request (the sources are embedded in the generated package; there is no second copy to load)",
		"the federation _service field is covered by the request histories only (federation probe, v2, one entity); its single-request hiding shapes are the plain / alias / fragment / @include(if:$v) forms of the history alphabet",
		"all sequences that share a first request run in one worker process one after the other, so a response may also depend on the earlier sequences of that process; a violation is reported with its own sequence and --replay runs that sequence alone on a fresh process",
		"@defer is not part of the disabled-mode shape alphabet (POST delivers only the first payload; deferred delivery belongs to C13)",
		"a response key that the query selects but the server leaves out entirely (duplicate spread after a skipped one, D12/C01) reveals nothing and is counted, not reported",
	}
	probe.Cleanup()
	c.Finish()
}

//go:build c16harness

package main

// Federation probe, introspection enabled: the description rebuilt from the introspection JSON
// must equal the executable schema es.Schema() - including what the federation plugin injects
// (Query._service, Query._entities, _Any, _Entity, _Service, its directives), whose names start
// with a single underscore. The reference is a snapshot of es.Schema() taken before the first
// request (the probe's sources are embedded in the generated package, there is no second copy
// to load); only gqlparser's prelude counts as built-in here.

import (
	"fmt"

	"github.com/99designs/gqlgen/graphql/handler/extension"
)

func fedRebuild(verbose bool) (findings []caseFinding, evaluations int, compared bool, broken string) {
	es := newExecutableSchema(nil)
	ref := fromASTOpt(es.Schema(), true)
	q := ref.Types["Query"]
	if q == nil {
		return nil, 0, false, "federation probe has no Query type"
	}
	have := map[string]bool{}
	for _, f := range q.Fields {
		have[f.Name] = true
	}
	for _, n := range []string{"_service", "_entities", "ping"} {
		if !have[n] {
			return nil, 0, false, fmt.Sprintf("federation probe: es.Schema() has no Query.%s", n)
		}
	}
	for _, n := range []string{"_Any", "_Entity", "_Service", sentinelTypeName} {
		if t := ref.Types[n]; t == nil || t.BuiltIn {
			return nil, 0, false, fmt.Sprintf("federation probe: es.Schema() has no type %s to compare exactly", n)
		}
	}
	on, off := newServerOn(es), newServerOn(es)
	on.Use(extension.Introspection{})
	findings, evaluations, compared = compareServed(ref, on, off, verbose)
	return findings, evaluations, compared, ""
}

func runFedRebuild(layout string, col *collector, o *Output) {
	findings, evals, compared, broken := fedRebuild(false)
	if broken != "" {
		col.brokenf("%s", broken)
		return
	}
	for _, f := range findings {
		col.report(-(1 << 31), f.sig, f.what+" | schema: the federation probe's own executable schema", map[string]any{"mode": "fedrebuild", "layout": layout, "variant": f.variant})
	}
	o.GridPlanned, o.GridSchemas, o.GridEvaluations = 1, 1, evals
	if compared {
		o.GridNontrivial = 1
	}
	o.Samples = append(o.Samples, map[string]any{"kind": "federation probe: introspection rebuilt and compared with es.Schema()", "layout": layout,
		"compared_exactly": []string{"Query._service", "Query._entities", "_Any", "_Entity", "_Service", "federation directives", sentinelTypeName}})
}

//go:build c16harness

package main

import (
	"bytes"
	"context"
	"encoding/json"
	"fmt"
	"net/http"
	"net/http/httptest"

	"github.com/99designs/gqlgen/graphql"
	"github.com/99designs/gqlgen/graphql/handler"
	"github.com/99designs/gqlgen/graphql/handler/extension"
	"github.com/99designs/gqlgen/graphql/handler/transport"
	"github.com/vektah/gqlparser/v2"
	"github.com/vektah/gqlparser/v2/ast"

	"probe/graph"
)

func loadSchema(sdl string) (*ast.Schema, error) {
	s, err := gqlparser.LoadSchema(&ast.Source{Name: "schema.graphql", Input: sdl})
	if err != nil {
		return nil, err
	}
	return s, nil
}

// newServer builds the generated probe server around an injected schema. The probe's own
// schema is `type Query { ping: String }`; introspection reads only the injected ast.Schema.
func newServer(schema *ast.Schema, introspectionEnabled bool) *handler.Server {
	srv := newServerOn(newExecutableSchema(schema))
	if introspectionEnabled {
		srv.Use(extension.Introspection{})
	}
	return srv
}

// newExecutableSchema builds the generated executable schema; a nil schema means the probe's
// own embedded one (the federation probe, whose _service field serves the embedded sources).
func newExecutableSchema(schema *ast.Schema) graphql.ExecutableSchema {
	stub := &graph.Stub{}
	stub.QueryResolver.Ping = func(ctx context.Context) (*string, error) {
		s := "pong"
		return &s, nil
	}
	return graph.NewExecutableSchema(graph.Config{Schema: schema, Resolvers: stub})
}

func newServerOn(es graphql.ExecutableSchema) *handler.Server {
	srv := handler.New(es)
	srv.AddTransport(transport.POST{})
	return srv
}

type gqlError struct {
	Message    string         `json:"message"`
	Path       []any          `json:"path"`
	Extensions map[string]any `json:"extensions"`
}

type gqlResponse struct {
	Data   json.RawMessage `json:"data"`
	Errors []gqlError      `json:"errors"`
	Raw    []byte          `json:"-"`
	Status int             `json:"-"`
}

// postRaw sends one POST request through the real handler and returns the response bytes.
func postRaw(srv *handler.Server, query string, variables map[string]any, headers ...string) ([]byte, int) {
	body, _ := json.Marshal(map[string]any{"query": query, "variables": variables})
	req := httptest.NewRequest(http.MethodPost, "/query", bytes.NewReader(body))
	req.Header.Set("Content-Type", "application/json")
	for i := 0; i+1 < len(headers); i += 2 {
		req.Header.Set(headers[i], headers[i+1])
	}
	rec := httptest.NewRecorder()
	srv.ServeHTTP(rec, req)
	return rec.Body.Bytes(), rec.Code
}

func post(srv *handler.Server, query string, variables map[string]any, headers ...string) (*gqlResponse, error) {
	raw, code := postRaw(srv, query, variables, headers...)
	out := &gqlResponse{Raw: raw, Status: code}
	if err := json.Unmarshal(out.Raw, out); err != nil {
		return out, fmt.Errorf("response is not JSON: %v: %.200s", err, out.Raw)
	}
	return out, nil
}

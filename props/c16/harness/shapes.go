//go:build c16harness

package main

// Disabled mode: every query shape with at most N selection nodes that reaches __schema or
// __type(name:) from the query root through aliases, inline fragments, named fragments
// (including the same fragment spread twice and nested spreads), @include/@skip with literal
// or variable conditions, and literal / variable / defaulted-variable values for `name`.

import (
	"fmt"
	"sort"
	"strings"
)

const sentinel = "zqsentinel" // every user-chosen name and text of the marker schema contains it (case-insensitively)

const markerSDL = `
"zqsentinel schema description"
schema { query: Query }

type Query {
  ping: String
  "zqsentinel field description"
  zqSentinelField(zqSentinelArg: ZqSentinelInput = {zqSentinelIn: 7}): ZqSentinelType @deprecated(reason: "zqsentinel reason")
}

"zqsentinel type description"
type ZqSentinelType implements ZqSentinelIface {
  zqSentinelLeaf: String
}

interface ZqSentinelIface {
  zqSentinelLeaf: String
}

input ZqSentinelInput {
  zqSentinelIn: Int
}

enum ZqSentinelEnum {
  ZQSENTINELVALUE
}

"zqsentinel directive description"
directive @zqSentinelDir(zqSentinelDirArg: Int) on FIELD_DEFINITION
`

const sentinelTypeName = "ZqSentinelType"

type ctxKind int

const (
	ctxQuery ctxKind = iota
	ctxSchema
	ctxType
	ctxFieldT
	ctxDirectiveT
)

type Node struct {
	K    string // field | inline | spread | spreadref
	Name string
	Meta bool
	Kids []*Node
	Frag int // spread / spreadref: fragment number
	// decorations
	Alias string
	Arg   string   // for __type: literal | var | defvar
	TName typeName // for __type: the value of the name argument
	Dir   string   // "", inc-lit-true, inc-var-true, skip-lit-false, skip-var-false, inc-var-false, skip-lit-true
	Cond  bool     // inline: "on Query"
}

func (n *Node) clone() *Node {
	c := *n
	c.Kids = make([]*Node, len(n.Kids))
	for i, k := range n.Kids {
		c.Kids[i] = k.clone()
	}
	return &c
}

func cloneForest(f []*Node) []*Node {
	out := make([]*Node, len(f))
	for i, n := range f {
		out[i] = n.clone()
	}
	return out
}

// payload fields per introspection context: name -> child context (-1 = leaf)
type payloadField struct {
	name  string
	child ctxKind
	leaf  bool
}

var payloads = map[ctxKind][]payloadField{
	ctxSchema:     {{"description", 0, true}, {"queryType", ctxType, false}, {"types", ctxType, false}, {"directives", ctxDirectiveT, false}},
	ctxType:       {{"name", 0, true}, {"description", 0, true}, {"fields", ctxFieldT, false}},
	ctxFieldT:     {{"name", 0, true}},
	ctxDirectiveT: {{"name", 0, true}},
}

// payloadForests returns every non-empty forest of exactly n nodes below a field of context c
// (distinct field names in increasing alphabet order, so no duplicates).
func payloadForests(c ctxKind, n int) [][]*Node {
	var out [][]*Node
	var rec func(start, left int, cur []*Node)
	rec = func(start, left int, cur []*Node) {
		if left == 0 {
			if len(cur) > 0 {
				out = append(out, cloneForest(cur))
			}
			return
		}
		for i := start; i < len(payloads[c]); i++ {
			pf := payloads[c][i]
			if pf.leaf {
				rec(i+1, left-1, append(cur, &Node{K: "field", Name: pf.name}))
				continue
			}
			for sub := 1; sub <= left-1; sub++ {
				for _, kids := range payloadForests(pf.child, sub) {
					rec(i+1, left-1-sub, append(cur, &Node{K: "field", Name: pf.name, Kids: kids}))
				}
			}
		}
	}
	rec(0, n, nil)
	return out
}

// rootForests returns every forest of exactly n nodes in the Query context. nfrag is the number of
// fragments already defined (for spreadref); the returned int is the number defined after it.
type forestWithFrags struct {
	nodes []*Node
	nfrag int
}

func rootForests(n int, nfrag int) []forestWithFrags {
	if n == 0 {
		return []forestWithFrags{{nil, nfrag}}
	}
	var out []forestWithFrags
	// first item uses k nodes, the rest n-k
	for k := 1; k <= n; k++ {
		for _, first := range rootItems(k, nfrag) {
			for _, rest := range rootForests(n-k, first.nfrag) {
				nodes := append(cloneForest(first.nodes), cloneForest(rest.nodes)...)
				out = append(out, forestWithFrags{nodes, rest.nfrag})
			}
		}
	}
	return out
}

// rootItems: single items of exactly k nodes.
func rootItems(k int, nfrag int) []forestWithFrags {
	var out []forestWithFrags
	one := func(n *Node, nf int) { out = append(out, forestWithFrags{[]*Node{n}, nf}) }
	if k == 1 {
		one(&Node{K: "field", Name: "__typename"}, nfrag)
		one(&Node{K: "field", Name: "ping"}, nfrag)
		for f := 0; f < nfrag; f++ {
			one(&Node{K: "spreadref", Frag: f}, nfrag)
		}
	}
	if k >= 2 {
		for _, p := range payloadForests(ctxSchema, k-1) {
			one(&Node{K: "field", Name: "__schema", Meta: true, Kids: p}, nfrag)
		}
		for _, p := range payloadForests(ctxType, k-1) {
			one(&Node{K: "field", Name: "__type", Meta: true, Kids: p}, nfrag)
		}
		for _, body := range rootForests(k-1, nfrag) {
			one(&Node{K: "inline", Kids: body.nodes}, body.nfrag)
		}
		// a new fragment gets the next number; fragments defined inside its body come after it
		for _, body := range rootForests(k-1, nfrag+1) {
			one(&Node{K: "spread", Frag: nfrag, Kids: body.nodes}, body.nfrag)
		}
	}
	return out
}

func hasMeta(f []*Node) bool {
	for _, n := range f {
		if n.Meta || hasMeta(n.Kids) {
			return true
		}
	}
	return false
}

var dirAlphabet = []string{"", "inc-var-true", "skip-var-false", "inc-lit-true", "skip-lit-false", "inc-var-false", "skip-lit-true"}
var metaAliases = []string{"", "a", "ping"}
var fillerAliases = []string{"", "b"}
var typeArgForms = []string{"literal", "var", "defvar"}

// values of __type's name argument. With introspection disabled every one of them must give
// null plus an error, indistinguishably; with introspection enabled a name that is not in the
// schema gives a plain null (spec), an existing one its type.
type typeName struct {
	Name   string
	Exists bool
	Class  string
}

var typeNamesFull = []typeName{
	{sentinelTypeName, true, "user type"},
	{"NoSuchTypeZq", false, "not in the schema"},
	{"Query", true, "root type"},
	{"String", true, "built-in scalar"},
	{"__Schema", true, "introspection type"},
	{"", false, "empty string"},
	{"zqsentineltype", false, "existing name in another case"},
}

// the short alphabet used for shapes larger than the -names-full-upto bound
var typeNamesShort = typeNamesFull[:2]

func dirText(d string) (text string, excluded bool) {
	switch d {
	case "":
		return "", false
	case "inc-var-true":
		return " @include(if: $t)", false
	case "skip-var-false":
		return " @skip(if: $f)", false
	case "inc-lit-true":
		return " @include(if: true)", false
	case "skip-lit-false":
		return " @skip(if: false)", false
	case "inc-var-false":
		return " @include(if: $f)", true
	case "skip-lit-true":
		return " @skip(if: true)", true
	}
	panic("bad dir " + d)
}

// decorate calls f for every decoration of the skeleton forest (in place; f must render at once).
func decorate(forest []*Node, dirs []string, names []typeName, f func()) {
	var nodes []*Node
	var walk func(ns []*Node, underMeta bool)
	walk = func(ns []*Node, underMeta bool) {
		for _, n := range ns {
			if !underMeta {
				nodes = append(nodes, n)
			}
			walk(n.Kids, underMeta || n.Meta)
		}
	}
	walk(forest, false)
	var rec func(i int)
	rec = func(i int) {
		if i == len(nodes) {
			f()
			return
		}
		n := nodes[i]
		switch {
		case n.K == "field" && n.Meta:
			args := []string{""}
			tnames := []typeName{{}}
			if n.Name == "__type" {
				args = typeArgForms
				tnames = names
			}
			for _, al := range metaAliases {
				for _, d := range dirs {
					for _, a := range args {
						for _, tn := range tnames {
							n.Alias, n.Dir, n.Arg, n.TName = al, d, a, tn
							rec(i + 1)
						}
					}
				}
			}
		case n.K == "field":
			for _, al := range fillerAliases {
				n.Alias = al
				rec(i + 1)
			}
		case n.K == "inline":
			for _, c := range []bool{false, true} {
				for _, d := range dirs {
					n.Cond, n.Dir = c, d
					rec(i + 1)
				}
			}
		default: // spread, spreadref
			for _, d := range dirs {
				n.Dir = d
				rec(i + 1)
			}
		}
	}
	rec(0)
}

type Shape struct {
	Query     string
	Variables map[string]any
	MetaKeys  map[string]string   // response key -> __schema | __type, reachable (not excluded)
	MetaNames map[string]typeName // response key of a reachable __type -> the name it asks for
	Fillers   map[string]string   // response key -> expected JSON text
	Nodes     int
}

// render turns a decorated forest into a query document plus the reference expectation.
func render(forest []*Node) Shape {
	var frags = map[int]*Node{}
	used := map[string]bool{}
	var nameDecls []string // one variable per __type node that takes its name from a variable
	nameVars := map[string]any{}
	var sel func(ns []*Node, indent string) string
	sel = func(ns []*Node, indent string) string {
		var b strings.Builder
		for _, n := range ns {
			dt, _ := dirText(n.Dir)
			if strings.Contains(dt, "$t") {
				used["t"] = true
			}
			if strings.Contains(dt, "$f") {
				used["f"] = true
			}
			switch n.K {
			case "field":
				b.WriteString(indent)
				if n.Alias != "" {
					b.WriteString(n.Alias + ": ")
				}
				b.WriteString(n.Name)
				if n.Name == "__type" && n.Meta {
					switch n.Arg {
					case "literal":
						b.WriteString(fmt.Sprintf("(name: %q)", n.TName.Name))
					case "var":
						v := fmt.Sprintf("n%d", len(nameDecls))
						b.WriteString("(name: $" + v + ")")
						nameDecls = append(nameDecls, "$"+v+": String!")
						nameVars[v] = n.TName.Name
					case "defvar":
						v := fmt.Sprintf("d%d", len(nameDecls))
						b.WriteString("(name: $" + v + ")")
						nameDecls = append(nameDecls, fmt.Sprintf("$%s: String! = %q", v, n.TName.Name))
					}
				}
				b.WriteString(dt)
				if len(n.Kids) > 0 {
					b.WriteString(" {\n" + sel(n.Kids, indent+"  ") + indent + "}")
				}
				b.WriteString("\n")
			case "inline":
				b.WriteString(indent + "...")
				if n.Cond {
					b.WriteString(" on Query")
				}
				b.WriteString(dt + " {\n" + sel(n.Kids, indent+"  ") + indent + "}\n")
			case "spread":
				frags[n.Frag] = n
				b.WriteString(fmt.Sprintf("%s...F%d%s\n", indent, n.Frag, dt))
			case "spreadref":
				b.WriteString(fmt.Sprintf("%s...F%d%s\n", indent, n.Frag, dt))
			}
		}
		return b.String()
	}
	body := sel(forest, "  ")
	var fragText strings.Builder
	// fragment bodies may define further fragments: iterate until all are rendered
	done := map[int]bool{}
	for {
		var pending []int
		for i := range frags {
			if !done[i] {
				pending = append(pending, i)
			}
		}
		if len(pending) == 0 {
			break
		}
		sort.Ints(pending)
		for _, i := range pending {
			done[i] = true
			fragText.WriteString(fmt.Sprintf("fragment F%d on Query {\n%s}\n", i, sel(frags[i].Kids, "  ")))
		}
	}
	var decls []string
	vars := map[string]any{}
	if used["t"] {
		decls = append(decls, "$t: Boolean!")
		vars["t"] = true
	}
	if used["f"] {
		decls = append(decls, "$f: Boolean!")
		vars["f"] = false
	}
	decls = append(decls, nameDecls...)
	for k, v := range nameVars {
		vars[k] = v
	}
	head := "query Q"
	if len(decls) > 0 {
		head += "(" + strings.Join(decls, ", ") + ")"
	}
	sh := Shape{Query: head + " {\n" + body + "}\n" + fragText.String(), Variables: vars, MetaKeys: map[string]string{}, MetaNames: map[string]typeName{}, Fillers: map[string]string{}}

	// reference: which response keys are reachable (own directive and every enclosing
	// fragment's directive let the selection through)
	visiting := map[int]bool{}
	var reach func(ns []*Node)
	reach = func(ns []*Node) {
		for _, n := range ns {
			if _, ex := dirText(n.Dir); ex {
				continue
			}
			switch n.K {
			case "field":
				key := n.Name
				if n.Alias != "" {
					key = n.Alias
				}
				if n.Meta {
					sh.MetaKeys[key] = n.Name
					if n.Name == "__type" {
						sh.MetaNames[key] = n.TName
					}
				} else if n.Name == "__typename" {
					sh.Fillers[key] = `"Query"`
				} else {
					sh.Fillers[key] = `"pong"`
				}
			case "inline":
				reach(n.Kids)
			case "spread", "spreadref":
				// a fragment cycle is rejected by validation; just do not loop here
				if fr := frags[n.Frag]; fr != nil && !visiting[n.Frag] {
					visiting[n.Frag] = true
					reach(fr.Kids)
					visiting[n.Frag] = false
				}
			}
		}
	}
	reach(forest)
	var count func(ns []*Node) int
	count = func(ns []*Node) int {
		c := 0
		for _, n := range ns {
			c += 1 + count(n.Kids)
		}
		return c
	}
	sh.Nodes = count(forest)
	return sh
}

// shapeSkeletons returns, in a fixed order (smaller first), every undecorated forest with at
// most maxNodes nodes that contains a meta field.
func shapeSkeletons(maxNodes int) [][]*Node {
	var out [][]*Node
	for n := 2; n <= maxNodes; n++ {
		for _, fw := range rootForests(n, 0) {
			if hasMeta(fw.nodes) {
				out = append(out, fw.nodes)
			}
		}
	}
	return out
}

// enumerateShapes walks every decoration of every skeleton in a fixed order and calls f with
// the shape's index and a function that renders it. Walking is cheap (no rendering), so
// parallel workers each walk the whole space and render only the indices they own. The
// skeletons are cloned before they are decorated, so they can be shared. f returns false to stop.
//
// A skeleton with at most namesFullUpto nodes takes the name of each __type from the full
// alphabet typeNamesFull, larger ones from typeNamesShort.
func enumerateShapes(skeletons [][]*Node, dirs []string, namesFullUpto int, f func(idx int, render func() Shape) bool) (total int) {
	idx := 0
	stop := false
	for _, sk := range skeletons {
		forest := cloneForest(sk)
		names := typeNamesShort
		if countNodes(forest) <= namesFullUpto {
			names = typeNamesFull
		}
		decorate(forest, dirs, names, func() {
			if stop {
				return
			}
			if !f(idx, func() Shape { return render(forest) }) {
				stop = true
			}
			idx++
		})
		if stop {
			break
		}
	}
	return idx
}

func countNodes(ns []*Node) int {
	c := 0
	for _, n := range ns {
		c += 1 + countNodes(n.Kids)
	}
	return c
}

//go:build c16harness

// Worker for the C16 check. It lives in the scratch module of a probe server generated from
// the tree under test (import "probe/graph"), enumerates the schema grid and the disabled-mode
// query shapes against that server, evaluates the oracle on every case and writes the merged
// result as JSON for props/c16/main.go.
package main

import (
	"bytes"
	"crypto/sha256"
	"encoding/hex"
	"encoding/json"
	"flag"
	"fmt"
	"os"
	"runtime"
	"runtime/debug"
	"sort"
	"strings"
	"sync"
	"time"

	"github.com/99designs/gqlgen/graphql/handler"
	"github.com/99designs/gqlgen/graphql/introspection"
	"github.com/vektah/gqlparser/v2/ast"
	"github.com/vektah/gqlparser/v2/parser"
	"github.com/vektah/gqlparser/v2/validator"
)

type Finding struct {
	Signature string `json:"signature"`
	What      string `json:"what"`
	Replay    any    `json:"replay"`
	Count     int    `json:"count"`
	order     int
}

type Output struct {
	Layout            string         `json:"layout"`
	Findings          []*Finding     `json:"findings"`
	Broken            []string       `json:"broken"`
	GridSchemas       int            `json:"grid_schemas"`
	GridPlanned       int            `json:"grid_planned"`
	GridEvaluations   int            `json:"grid_evaluations"`
	GridNontrivial    int            `json:"grid_nontrivial"`
	ShapeSkeletons    int            `json:"shape_skeletons"`
	ShapesGenerated   int            `json:"shapes_generated"`
	ShapesValid       int            `json:"shapes_valid"`
	ShapesReaching    int            `json:"shapes_reaching"`
	ShapesSentinelOn  int            `json:"shapes_sentinel_when_enabled"`
	ShapesKeyAbsent   int            `json:"shapes_expected_key_absent"`
	ShapesUnknownName int            `json:"shape_type_fields_with_unknown_name"`
	ShapeEvaluations  int            `json:"shape_evaluations"`
	HistoryProcesses  int            `json:"history_processes"`
	HistorySequences  int            `json:"history_sequences"`
	HistoryRequests   int            `json:"history_requests"`
	HistoryMixed      int            `json:"history_sequences_mixing_enabled_and_disabled"`
	Exhaustive        bool           `json:"exhaustive"`
	Stopped           string         `json:"stopped,omitempty"`
	Samples           []any          `json:"samples"`
	Bounds            map[string]any `json:"bounds"`
	WallS             float64        `json:"wall_s"`
}

type collector struct {
	mu       sync.Mutex
	findings map[string]*Finding
	broken   []string
}

func (c *collector) report(order int, sig, what string, replay any) {
	c.mu.Lock()
	defer c.mu.Unlock()
	f, ok := c.findings[sig]
	if !ok {
		c.findings[sig] = &Finding{Signature: sig, What: what, Replay: replay, Count: 1, order: order}
		return
	}
	f.Count++
	if order < f.order { // keep the first case in enumeration order: deterministic witness
		f.What, f.Replay, f.order = what, replay, order
	}
}

func (c *collector) brokenf(format string, a ...any) {
	c.mu.Lock()
	defer c.mu.Unlock()
	if len(c.broken) < 20 {
		c.broken = append(c.broken, fmt.Sprintf(format, a...))
	}
}

// quick crosses only these name shapes with a second feature; every shape is tried alone
var namePairShapesShort = map[string]bool{"leadUnderscore": true, "caseTwin": true, "goKeyword": true}
var namePairsFull bool

var deadline time.Time

func expired() bool { return !deadline.IsZero() && time.Now().After(deadline) }

func main() {
	tier := flag.String("tier", "quick", "quick|thorough")
	layout := flag.String("layout", "single-file", "label of the probe layout this binary was built in")
	out := flag.String("out", "", "result file")
	budget := flag.Int("budget", 0, "internal budget in seconds (0 = none)")
	replay := flag.String("replay", "", "replay file")
	gridK := flag.Int("grid-k", 0, "override: max non-default slots per schema")
	shapeN := flag.Int("shape-n", 4, "max selection nodes per disabled-mode query")
	workers := flag.Int("workers", runtime.NumCPU(), "worker goroutines")
	namesFullUpto := flag.Int("names-full-upto", 3, "shapes with at most this many nodes take __type names from the full alphabet")
	wrapDepth := flag.Int("wrap-depth", 4, "max depth of list/non-null wrappers in the grid")
	flag.BoolVar(&namePairsFull, "name-pairs-full", false, "cross every name shape (not only the short list) with a second feature")
	histLen := flag.Int("hist-len", 0, "max requests per history (0 = no histories)")
	fed := flag.Bool("fed", false, "this binary was built in the federation probe (own embedded schema, _service field)")
	histWork := flag.Bool("hist-worker", false, "internal: run the histories of one (configuration, first request) and print JSON")
	histCfg := flag.Int("hist-config", 0, "internal")
	histFirst := flag.Int("hist-first", 0, "internal")
	dump := flag.String("dump", "", "print the SDL of an assignment given as slot=value,slot=value and exit")
	flag.Parse()
	if *histWork {
		histWorker(*fed, *histCfg, *histFirst, *histLen)
		return
	}
	start := time.Now()
	var finalDeadline time.Time
	if *budget > 0 {
		// the grid may use 70% of the budget, the query shapes get the rest
		deadline = start.Add(time.Duration(*budget) * time.Second * 7 / 10)
		finalDeadline = start.Add(time.Duration(*budget) * time.Second)
	}
	// The live heap is tiny (one schema per worker) but every request allocates a few MB, so
	// the default pacer would collect hundreds of times per second of work; every collection
	// needs all worker threads at a safepoint, which is very slow on an oversubscribed
	// machine. Collect only when the heap reaches 3 GiB instead (a few dozen collections per run).
	debug.SetGCPercent(-1)
	debug.SetMemoryLimit(3 << 30)
	grid := newGrid(*wrapDepth)
	if *dump != "" {
		m := map[string]string{}
		if *dump != "base" {
			for _, kv := range strings.Split(*dump, ",") {
				p := strings.SplitN(kv, "=", 2)
				m[p[0]] = p[1]
			}
		}
		a, err := grid.FromNamed(m)
		if err != nil {
			fmt.Println(err)
			os.Exit(2)
		}
		fmt.Print(grid.SDL(a))
		return
	}
	if *replay != "" {
		os.Exit(doReplay(grid, *replay, *layout, *fed))
	}
	k := 2
	if *tier == "thorough" {
		k = 3
	}
	if *gridK > 0 {
		k = *gridK
	}
	col := &collector{findings: map[string]*Finding{}}
	o := &Output{Layout: *layout, Exhaustive: true, Bounds: map[string]any{}, Findings: []*Finding{}}
	o.Bounds["wrapper_depth"] = *wrapDepth
	// histories first: they are cheap and must not be starved by the grid
	runHistories(*fed, *histLen, *workers, *layout, col, o)
	if *fed {
		runFedRebuild(*layout, col, o)
	}
	if *gridK >= 0 {
		runGrid(grid, k, *workers, *layout, col, o)
	}
	deadline = finalDeadline
	if *shapeN > 0 {
		runShapes(*shapeN, *namesFullUpto, *workers, *layout, col, o)
	}
	for _, f := range col.findings {
		o.Findings = append(o.Findings, f)
	}
	sort.Slice(o.Findings, func(i, j int) bool { return o.Findings[i].Signature < o.Findings[j].Signature })
	o.Broken = col.broken
	o.WallS = time.Since(start).Seconds()
	if os.Getenv("C16_MEMSTATS") != "" {
		var ms runtime.MemStats
		runtime.ReadMemStats(&ms)
		fmt.Fprintf(os.Stderr, "memstats: total_alloc=%d MiB num_gc=%d pause_total=%v sys=%d MiB\n", ms.TotalAlloc>>20, ms.NumGC, time.Duration(ms.PauseTotalNs), ms.Sys>>20)
	}
	b, _ := json.MarshalIndent(o, "", " ")
	if *out == "" {
		os.Stdout.Write(append(b, '\n'))
		return
	}
	if err := os.WriteFile(*out, b, 0o644); err != nil {
		fmt.Fprintln(os.Stderr, "cannot write result:", err)
		os.Exit(2)
	}
}

// ---------------------------------------------------------------------------------------
// grid

type gridCaseResult struct {
	evaluations int
	nontrivial  bool
	hash        string
}

type caseFinding struct {
	sig, what, variant string
}

// evalSchema runs every introspection variant against a server built around the schema of
// assignment a and returns the disagreements with the reference.
func evalSchema(g *Grid, a Assignment, verbose bool) (findings []caseFinding, broken string, res gridCaseResult) {
	sdl := g.SDL(a)
	h := sha256.Sum256([]byte(sdl))
	res.hash = hex.EncodeToString(h[:8])
	served, err := loadSchema(sdl)
	if err != nil {
		return nil, fmt.Sprintf("grid schema %s does not load: %v\n%s", g.Label(a), err, sdl), res
	}
	refAST, err := loadSchema(sdl) // the reference is a separate load: nothing the server does to its copy can leak into it
	if err != nil {
		return nil, fmt.Sprintf("grid schema %s does not load the second time: %v", g.Label(a), err), res
	}
	ref := fromAST(refAST)
	if why := verifyModel(g, a, ref); why != "" {
		return nil, fmt.Sprintf("grid schema %s: reference does not contain the requested feature: %s\n%s", g.Label(a), why, sdl), res
	}
	findings, res.evaluations, res.nontrivial = compareServed(ref, newServer(served, true), newServer(served, false), verbose)
	res.nontrivial = res.nontrivial && len(a) > 0
	return findings, "", res
}

// compareServed runs every introspection variant against the enabled server (and the standard
// query against the disabled one) and returns the disagreements with the reference description.
func compareServed(ref *MSchema, srv, off *handler.Server, verbose bool) (findings []caseFinding, evaluations int, comparedAny bool) {
	var res gridCaseResult
	add := func(variant string, diffs []Diff) {
		for _, d := range diffs {
			findings = append(findings, caseFinding{sig: d.Signature(variant), what: "[" + variant + "] " + d.String(), variant: variant})
		}
	}
	comparedUser := 0
	runSchemaQuery := func(v Variant, query string) {
		raw, _ := postRaw(srv, query, nil)
		res.evaluations++
		// one typed decoding pass over the (mostly built-in, ~25 kB) response
		var resp struct {
			Data *struct {
				Schema *jSchema `json:"__schema"`
			} `json:"data"`
			Errors []gqlError `json:"errors"`
		}
		if err := json.Unmarshal(raw, &resp); err != nil {
			findings = append(findings, caseFinding{"enabled:" + v.Name + ":response-not-json", fmt.Sprintf("%v: %.200s", err, raw), v.Name})
			return
		}
		if len(resp.Errors) > 0 {
			findings = append(findings, caseFinding{"enabled:" + v.Name + ":errors", fmt.Sprintf("introspection query %s returned errors: %.300s", v.Name, raw), v.Name})
			return
		}
		if resp.Data == nil || resp.Data.Schema == nil {
			findings = append(findings, caseFinding{"enabled:" + v.Name + ":no-schema", fmt.Sprintf("no __schema in data: %.200s", raw), v.Name})
			return
		}
		got, problems := fromSchemaJSON(resp.Data.Schema, v)
		add(v.Name, problems)
		if got == nil {
			return
		}
		if verbose {
			fmt.Printf("--- variant %s: %d types, %d directives rebuilt from %d bytes\n", v.Name, len(got.Types), len(got.Directives), len(raw))
		}
		diffs := compare(ref, got, v)
		add(v.Name, diffs)
		for n, t := range got.Types {
			if rt, ok := ref.Types[n]; ok && !rt.BuiltIn && t != nil {
				comparedUser++
			}
		}
	}
	runSchemaQuery(variantStandard, introspection.Query)
	runSchemaQuery(variantFull, extendedQuery("true"))
	runSchemaQuery(variantNoDep, extendedQuery("false"))

	// __type(name:) for every user-defined type, two built-ins and a name that does not exist
	var names []string
	for n, t := range ref.Types {
		if !t.BuiltIn {
			names = append(names, n)
		}
	}
	sort.Strings(names)
	names = append(names, "String", "__Type", "NoSuchTypeZz")
	resp, err := post(srv, byTypeQuery(names), nil)
	res.evaluations++
	switch {
	case err != nil:
		findings = append(findings, caseFinding{"enabled:bytype:response-not-json", err.Error(), "bytype"})
	case len(resp.Errors) > 0:
		findings = append(findings, caseFinding{"enabled:bytype:errors", fmt.Sprintf("__type query returned errors: %.300s", resp.Raw), "bytype"})
	default:
		var data map[string]json.RawMessage
		if err := json.Unmarshal(resp.Data, &data); err != nil {
			findings = append(findings, caseFinding{"enabled:bytype:no-data", fmt.Sprintf("%.200s", resp.Raw), "bytype"})
			break
		}
		for i, n := range names {
			raw := data[fmt.Sprintf("t%d", i)]
			rt, exists := ref.Types[n]
			if !exists {
				if string(raw) != "null" {
					findings = append(findings, caseFinding{"mismatch:bytype:type.unknownName", fmt.Sprintf("__type(name:%q) for a name that is not in the schema gave %.100s", n, raw), "bytype"})
				}
				continue
			}
			var jt *jType
			if err := json.Unmarshal(raw, &jt); err != nil || jt == nil {
				findings = append(findings, caseFinding{"mismatch:bytype:type.missing", fmt.Sprintf("__type(name:%q) gave %.100s", n, raw), "bytype"})
				continue
			}
			r := &rebuilder{}
			gt := r.typ(jt, variantByType, map[string]string{})
			add("bytype", r.problems)
			if gt == nil {
				continue
			}
			c := &comparer{v: variantByType, ref: ref}
			if gt.Name != n || gt.Kind != rt.Kind {
				c.add("type", "identity", n, rt.Kind+" "+n, gt.Kind+" "+gt.Name, "")
			} else if !rt.BuiltIn {
				c.typ(rt, gt)
			}
			add("bytype", c.diffs)
		}
	}

	// the same schema with introspection left disabled: the standard query gets nothing
	resp, err = post(off, introspection.Query, nil)
	res.evaluations++
	if err != nil {
		findings = append(findings, caseFinding{"disabled:grid:response-not-json", err.Error(), "disabled"})
	} else {
		var data map[string]json.RawMessage
		json.Unmarshal(resp.Data, &data)
		if v, ok := data["__schema"]; !ok || string(v) != "null" {
			findings = append(findings, caseFinding{"disabled:meta-field-not-null:__schema", fmt.Sprintf("standard introspection query with introspection disabled: %.200s", resp.Raw), "disabled"})
		}
		if !hasErrorAt(resp, "__schema") {
			findings = append(findings, caseFinding{"disabled:no-error:__schema", fmt.Sprintf("standard introspection query with introspection disabled gave no error at __schema: %.200s", resp.Raw), "disabled"})
		}
	}
	return findings, res.evaluations, comparedUser > 0
}

func hasErrorAt(resp *gqlResponse, key string) bool {
	for _, e := range resp.Errors {
		if len(e.Path) >= 1 {
			if s, ok := e.Path[0].(string); ok && s == key {
				return true
			}
		}
	}
	return false
}

// verifyModel checks that the reference really contains what the assignment asked for, so that
// a typo in the SDL writer cannot silently turn cases into trivial ones. "" = fine.
func verifyModel(g *Grid, a Assignment, ref *MSchema) string {
	objT, _ := g.nm(a, "objType")
	fN, _ := g.nm(a, "objField")
	gN, _ := g.nm(a, "ifaceField")
	argN, _ := g.nm(a, "objArg")
	iargN, _ := g.nm(a, "ifaceArg")
	inN, _ := g.nm(a, "inputField")
	evN, _ := g.nm(a, "enumValue")
	dirN, _ := g.nm(a, "directive")
	dargN, _ := g.nm(a, "dirArg")
	if ref.Types[objT] == nil || ref.Directives[dirN] == nil {
		return "renamed object type / directive not in the reference"
	}
	fieldOf := func(typ, name string) *MField {
		t := ref.Types[typ]
		if t == nil {
			return nil
		}
		for i := range t.Fields {
			if t.Fields[i].Name == name {
				return &t.Fields[i]
			}
		}
		return nil
	}
	argOf := func(l []MInputValue, name string) *MInputValue {
		for i := range l {
			if l[i].Name == name {
				return &l[i]
			}
		}
		return nil
	}
	type elem struct {
		desc   *string
		dep    bool
		reason *string
		iv     *MInputValue
	}
	get := func(kind string) *elem {
		switch kind {
		case "objField":
			if f := fieldOf(objT, fN); f != nil {
				return &elem{f.Desc, f.IsDeprecated, f.Reason, nil}
			}
		case "ifaceField":
			if f := fieldOf("I1", gN); f != nil {
				return &elem{f.Desc, f.IsDeprecated, f.Reason, nil}
			}
		case "objArg":
			if f := fieldOf(objT, fN); f != nil {
				if iv := argOf(f.Args, argN); iv != nil {
					return &elem{iv.Desc, iv.IsDeprecated, iv.Reason, iv}
				}
			}
		case "ifaceArg":
			if f := fieldOf("I1", gN); f != nil {
				if iv := argOf(f.Args, iargN); iv != nil {
					return &elem{iv.Desc, iv.IsDeprecated, iv.Reason, iv}
				}
			}
		case "inputField":
			if t := ref.Types["In"]; t != nil {
				if iv := argOf(t.InputFields, inN); iv != nil {
					return &elem{iv.Desc, iv.IsDeprecated, iv.Reason, iv}
				}
			}
		case "enumValue":
			if t := ref.Types["Color"]; t != nil {
				for _, ev := range t.EnumValues {
					if ev.Name == evN {
						return &elem{ev.Desc, ev.IsDeprecated, ev.Reason, nil}
					}
				}
			}
		case "dirArg":
			if d := ref.Directives[dirN]; d != nil {
				if iv := argOf(d.Args, dargN); iv != nil {
					return &elem{iv.Desc, iv.IsDeprecated, iv.Reason, iv}
				}
			}
		}
		return nil
	}
	wantDesc := func(v string) *string {
		switch v {
		case "line":
			return strp(lineDescValue)
		case "block":
			return strp(blockDescValue)
		}
		return nil
	}
	for _, k := range elemKinds {
		e := get(k)
		if e == nil {
			return "element " + k + " not found"
		}
		if w := wantDesc(g.val(a, k+".desc")); !eqp(w, e.desc) {
			return fmt.Sprintf("%s description: want %s have %s", k, ps(w), ps(e.desc))
		}
		switch g.val(a, k+".depr") {
		case "none":
			if e.dep {
				return k + " unexpectedly deprecated"
			}
		case "bare":
			if !e.dep || e.reason == nil || *e.reason != defaultDeprecationReason {
				return k + " bare deprecation not in reference"
			}
		case "reason":
			if !e.dep || e.reason == nil || *e.reason != deprReasonValue {
				return k + " deprecation reason not in reference"
			}
		}
	}
	for _, k := range inputKinds {
		e := get(k)
		dv := g.val(a, k+".def")
		typ, _ := defSDL(dv)
		if e.iv.Type != typ {
			return fmt.Sprintf("%s type: want %s have %s", k, typ, e.iv.Type)
		}
		if (dv == "none") != (e.iv.DefaultAST == nil) {
			return k + " default presence"
		}
	}
	if f := fieldOf(objT, "w"); f == nil || f.Type != renderWrap(g.val(a, "outWrap"), "Int") {
		return "outWrap"
	}
	if f := fieldOf(objT, fN); f == nil || argOf(f.Args, "warg") == nil || argOf(f.Args, "warg").Type != renderWrap(g.val(a, "inWrap"), "Int") {
		return "inWrap"
	}
	has := func(b bool, what string) string {
		if !b {
			return what
		}
		return ""
	}
	checks := []string{
		has((g.val(a, "mutation") == "yes") == (ref.Mutation != nil), "mutation"),
		has((g.val(a, "subscription") == "yes") == (ref.Subscription != nil), "subscription"),
		has(eqp(wantDesc(g.val(a, "schemaDesc")), ref.Desc), "schemaDesc"),
		has(eqp(wantDesc(g.val(a, "typeDesc")), ref.Types[objT].Desc) && eqp(wantDesc(g.val(a, "typeDesc")), ref.Types["Sc"].Desc), "typeDesc"),
		has(eqp(wantDesc(g.val(a, "dirDesc")), ref.Directives[dirN].Desc), "dirDesc"),
		has((g.val(a, "repeatable") == "yes") == ref.Directives[dirN].IsRepeatable, "repeatable"),
		has((g.val(a, "specifiedBy") == "yes") == (ref.Types["Sc"].SpecifiedBy != nil), "specifiedBy"),
		has((g.val(a, "oneOf") == "yes") == ref.Types["One"].IsOneOf, "oneOf"),
		has((g.val(a, "union") != "none") == (ref.Types["U"] != nil), "union"),
		has((g.val(a, "objImpl") != "none") == (len(ref.Types[objT].Interfaces) > 0), "objImpl"),
		has((g.val(a, "ifaceImpl") != "none") == (len(ref.Types["I1"].Interfaces) > 0), "ifaceImpl"),
		has(len(ref.Directives[dirN].Locations) == map[string]int{"fielddef": 1, "mixed": 4, "all": 19}[g.val(a, "dirLocs")], "dirLocs"),
	}
	for _, c := range checks {
		if c != "" {
			return c
		}
	}
	// a case twin must really be there, next to the element it differs from only in case
	hasArg := func(l []MInputValue, n string) bool { return argOf(l, n) != nil }
	for _, k := range namedKinds {
		if _, twin := g.nm(a, k); !twin {
			continue
		}
		tw := caseTwinName(k)
		ok := false
		switch k {
		case "objType":
			ok = ref.Types[tw] != nil
		case "objField":
			ok = fieldOf(objT, tw) != nil
		case "ifaceField":
			ok = fieldOf("I1", tw) != nil
		case "objArg":
			ok = hasArg(fieldOf(objT, fN).Args, tw)
		case "ifaceArg":
			ok = hasArg(fieldOf("I1", gN).Args, tw)
		case "inputField":
			ok = hasArg(ref.Types["In"].InputFields, tw)
		case "enumValue":
			for _, ev := range ref.Types["Color"].EnumValues {
				ok = ok || ev.Name == tw
			}
		case "directive":
			ok = ref.Directives[tw] != nil
		case "dirArg":
			ok = hasArg(ref.Directives[dirN].Args, tw)
		}
		if !ok {
			return "case twin of " + k + " missing"
		}
	}
	return ""
}

func runGrid(g *Grid, k, workers int, layout string, col *collector, o *Output) {
	var cases []Assignment
	// an assignment that renames an element (a ".name" slot) has at most 2 non-default slots:
	// the name dimension is crossed pairwise with everything, the triples are over the rest
	g.Enumerate(k, func(a Assignment) bool {
		for i, v := range a {
			if !strings.HasSuffix(g.Slots[i].Name, ".name") {
				continue
			}
			if len(a) > 2 {
				return true
			}
			if len(a) == 2 && !namePairsFull && !namePairShapesShort[g.Slots[i].Values[v]] {
				return true
			}
		}
		cases = append(cases, a)
		return true
	})
	o.Bounds["grid_max_nondefault_slots_when_an_element_is_renamed"] = 2
	o.Bounds["grid_name_shapes"] = nameValues
	if namePairsFull {
		o.Bounds["grid_name_shapes_in_pairs"] = nameValues[1:]
	} else {
		o.Bounds["grid_name_shapes_in_pairs"] = []string{"leadUnderscore", "caseTwin", "goKeyword"}
	}
	o.Bounds["grid_named_element_kinds"] = namedKinds
	o.GridPlanned = len(cases)
	o.Bounds["grid_max_nondefault_slots"] = k
	o.Bounds["grid_slots"] = len(g.Slots)
	nf := 0
	for _, s := range g.Slots {
		nf += len(s.Values) - 1
	}
	o.Bounds["grid_features"] = nf

	type result struct {
		done bool
		res  gridCaseResult
	}
	results := make([]result, len(cases))
	var wg sync.WaitGroup
	var next int
	var mu sync.Mutex
	for w := 0; w < workers; w++ {
		wg.Add(1)
		go func() {
			defer wg.Done()
			for {
				mu.Lock()
				i := next
				next++
				mu.Unlock()
				if i >= len(cases) || expired() {
					return
				}
				a := cases[i]
				findings, broken, res := evalSchema(g, a, false)
				if broken != "" {
					col.brokenf("%s", broken)
				}
				for _, f := range findings {
					col.report(i, f.sig, f.what+" | schema: "+g.Label(a), map[string]any{"mode": "grid", "layout": layout, "assignment": g.Named(a), "variant": f.variant, "sdl": g.SDL(a)})
				}
				results[i] = result{true, res}
			}
		}()
	}
	wg.Wait()
	distinct := map[string]bool{}
	for i, r := range results {
		if !r.done {
			o.Exhaustive = false
			o.Stopped = fmt.Sprintf("grid stopped by the internal budget after %d of %d schemas", o.GridSchemas, len(cases))
			continue
		}
		o.GridSchemas++
		o.GridEvaluations += r.res.evaluations
		if r.res.nontrivial && !distinct[r.res.hash] {
			distinct[r.res.hash] = true
		}
		if i == len(cases)/2 {
			o.Samples = append(o.Samples, map[string]any{"kind": "grid schema", "layout": layout, "assignment": g.Named(cases[i]), "sdl": g.SDL(cases[i]), "queries": []string{"standard introspection.Query", "extended includeDeprecated:true", "extended includeDeprecated:false", "__type(name:) per user type", "standard query with introspection disabled"}})
		} else if i == 1 || i == len(cases)-1 {
			o.Samples = append(o.Samples, map[string]any{"kind": "grid schema", "layout": layout, "assignment": g.Named(cases[i])})
		}
	}
	o.GridNontrivial = len(distinct)
}

// ---------------------------------------------------------------------------------------
// disabled-mode shapes

type printWitness struct {
	idx               int
	meta, print, name string
	sh                Shape
}

type shapeOutcome struct {
	valid, reaching, sentinelOn, keyAbsent bool
	unknownNames                           int // __type keys asking for a name that is not in the schema
	findings                               []caseFinding
	prints                                 []metaPrint
}

// metaPrint is what a client can observe about one meta field of a disabled-mode response,
// apart from its response key: the value and the (message, extensions) of the errors at its path.
type metaPrint struct {
	meta, print, name string
}

func checkShape(sh Shape, markerSchema *ast.Schema, srvOn, srvOff *handler.Server) (out shapeOutcome, broken string) {
	doc, perr := parser.ParseQuery(&ast.Source{Input: sh.Query})
	if perr != nil {
		return out, fmt.Sprintf("generated shape does not parse: %v\n%s", perr, sh.Query)
	}
	if errs := validator.Validate(markerSchema, doc); len(errs) > 0 {
		return out, "" // not a valid query: never executed, nothing to decide here
	}
	out.valid = true
	// enabled: tells whether the shape really reaches the meta field, and that the sentinel
	// scan has something to find
	respOn, err := post(srvOn, sh.Query, sh.Variables)
	if err != nil {
		return out, "enabled-mode response is not JSON: " + err.Error()
	}
	var dataOn map[string]json.RawMessage
	json.Unmarshal(respOn.Data, &dataOn)
	for key := range sh.MetaKeys {
		v, ok := dataOn[key]
		if tn, isType := sh.MetaNames[key]; isType && !tn.Exists {
			// enabled + a name that is not in the schema: a plain null, no error (spec)
			out.unknownNames++
			if ok && (string(v) != "null" || hasErrorAt(respOn, key)) {
				out.findings = append(out.findings, caseFinding{"enabled:unknown-type-name-not-plain-null", fmt.Sprintf("__type(name: %q) with introspection enabled: %.300s", tn.Name, respOn.Raw), "enabled"})
			}
			continue
		}
		if ok && string(v) != "null" {
			out.reaching = true
		}
	}
	if bytes.Contains(bytes.ToLower(respOn.Raw), []byte(sentinel)) {
		out.sentinelOn = true
	}
	// disabled
	resp, err := post(srvOff, sh.Query, sh.Variables)
	if err != nil {
		out.findings = append(out.findings, caseFinding{"disabled:response-not-json", err.Error(), "disabled"})
		return out, ""
	}
	if bytes.Contains(bytes.ToLower(resp.Raw), []byte(sentinel)) {
		out.findings = append(out.findings, caseFinding{"disabled:schema-string-in-response", fmt.Sprintf("response contains a name or text of the schema: %.300s", resp.Raw), "disabled"})
	}
	var data map[string]json.RawMessage
	if err := json.Unmarshal(resp.Data, &data); err != nil || data == nil {
		if len(resp.Errors) == 0 {
			out.findings = append(out.findings, caseFinding{"disabled:no-data-no-error", fmt.Sprintf("%.300s", resp.Raw), "disabled"})
		}
		return out, ""
	}
	keys := make([]string, 0, len(data))
	for k := range data {
		keys = append(keys, k)
	}
	sort.Strings(keys)
	for _, key := range keys {
		v := data[key]
		if meta, ok := sh.MetaKeys[key]; ok {
			if string(v) != "null" {
				out.findings = append(out.findings, caseFinding{"disabled:meta-field-not-null:" + meta, fmt.Sprintf("%s is not null with introspection disabled: %.300s", key, resp.Raw), "disabled"})
			}
			if !hasErrorAt(resp, key) {
				out.findings = append(out.findings, caseFinding{"disabled:no-error:" + meta, fmt.Sprintf("no error with path [%s]: %.300s", key, resp.Raw), "disabled"})
			}
			out.prints = append(out.prints, metaPrint{meta, observable(resp, key, v), sh.MetaNames[key].Name})
			continue
		}
		if _, ok := sh.Fillers[key]; ok {
			continue // __typename / ping are allowed to work; their values are C01's business
		}
		out.findings = append(out.findings, caseFinding{"disabled:unexpected-key", fmt.Sprintf("response key %q is not selected by the query: %.300s", key, resp.Raw), "disabled"})
	}
	for key := range sh.MetaKeys {
		if _, ok := data[key]; !ok {
			out.keyAbsent = true // nothing revealed; how selections are collected is property C01's business
		}
	}
	return out, ""
}

// observable renders what the response shows for one meta field besides its key.
func observable(resp *gqlResponse, key string, value json.RawMessage) string {
	var errs []string
	for _, e := range resp.Errors {
		if len(e.Path) >= 1 {
			if s, ok := e.Path[0].(string); ok && s == key {
				ext, _ := json.Marshal(e.Extensions)
				errs = append(errs, fmt.Sprintf("{message:%q path-len:%d extensions:%s}", e.Message, len(e.Path), ext))
			}
		}
	}
	sort.Strings(errs)
	return fmt.Sprintf("value=%s errors=[%s]", value, strings.Join(errs, " "))
}

func runShapes(maxNodes, namesFullUpto, workers int, layout string, col *collector, o *Output) {
	markerServed, err := loadSchema(markerSDL)
	if err != nil {
		col.brokenf("marker schema does not load: %v", err)
		return
	}
	markerRef, _ := loadSchema(markerSDL)
	srvOn := newServer(markerServed, true)
	srvOff := newServer(markerServed, false)
	o.Bounds["shape_max_nodes"] = maxNodes
	o.Bounds["shape_directives"] = dirAlphabet
	o.Bounds["shape_meta_aliases"] = metaAliases
	o.Bounds["shape_type_name_forms"] = typeArgForms
	o.Bounds["shape_type_names_full"] = typeNamesFull
	o.Bounds["shape_type_names_short"] = typeNamesShort
	o.Bounds["shape_type_names_full_upto_nodes"] = namesFullUpto
	for _, tn := range typeNamesFull { // the reference's idea of which names exist must be right
		if _, ok := markerRef.Types[tn.Name]; ok != tn.Exists {
			col.brokenf("name alphabet: %q exists=%v but the marker schema says %v", tn.Name, tn.Exists, ok)
			return
		}
	}

	skeletons := shapeSkeletons(maxNodes)
	o.ShapeSkeletons = len(skeletons)

	// Every worker walks the whole decoration space (cheap) and renders + executes the shapes
	// whose index falls into its residue class; the counters are per worker and merged below.
	type tally struct {
		total, valid, sentinelOn, keyAbsent, done, unknownNames int
		stopped                                                 bool
		reaching                                                map[[16]byte]bool
		samples                                                 map[int]Shape
		prints                                                  map[string]printWitness // meta + observable -> first shape showing it
	}
	tallies := make([]*tally, workers)
	var wg sync.WaitGroup
	for w := 0; w < workers; w++ {
		t := &tally{reaching: map[[16]byte]bool{}, samples: map[int]Shape{}, prints: map[string]printWitness{}}
		tallies[w] = t
		wg.Add(1)
		go func() {
			defer wg.Done()
			t.total = enumerateShapes(skeletons, dirAlphabet, namesFullUpto, func(idx int, render func() Shape) bool {
				if idx%workers != w {
					return true
				}
				if t.stopped || expired() {
					t.stopped = true
					return false
				}
				sh := render()
				t.done++
				if idx == 100 || idx == 5000 || idx == 200000 {
					t.samples[idx] = sh
				}
				out, broken := checkShape(sh, markerRef, srvOn, srvOff)
				if broken != "" {
					col.brokenf("%s", broken)
					return true
				}
				if out.valid {
					t.valid++
					if out.reaching {
						var h [16]byte
						s := sha256.Sum256([]byte(sh.Query))
						copy(h[:], s[:16])
						t.reaching[h] = true
					}
					if out.sentinelOn {
						t.sentinelOn++
					}
					if out.keyAbsent {
						t.keyAbsent++
					}
					t.unknownNames += out.unknownNames
					for _, p := range out.prints {
						k := p.meta + " " + p.print
						if w, ok := t.prints[k]; !ok || idx < w.idx {
							t.prints[k] = printWitness{idx, p.meta, p.print, p.name, sh}
						}
					}
				}
				for _, f := range out.findings {
					col.report(1<<30+idx, f.sig, f.what, map[string]any{"mode": "shape", "layout": layout, "query": sh.Query, "variables": sh.Variables})
				}
				return true
			})
		}()
	}
	wg.Wait()
	distinct := map[[16]byte]bool{}
	stopped := false
	samples := map[int]Shape{}
	prints := map[string]printWitness{}
	for _, t := range tallies {
		o.ShapesGenerated += t.done
		o.ShapesValid += t.valid
		o.ShapeEvaluations += 2 * t.valid
		o.ShapesSentinelOn += t.sentinelOn
		o.ShapesKeyAbsent += t.keyAbsent
		stopped = stopped || t.stopped
		for h := range t.reaching {
			distinct[h] = true
		}
		for i, sh := range t.samples {
			samples[i] = sh
		}
		o.ShapesUnknownName += t.unknownNames
		for k, w := range t.prints {
			if old, ok := prints[k]; !ok || w.idx < old.idx {
				prints[k] = w
			}
		}
	}
	o.ShapesReaching = len(distinct)
	// With introspection disabled nothing observable may depend on the name asked for (or on
	// anything else): every __type field, and every __schema field, looks the same.
	byMeta := map[string][]printWitness{}
	for _, w := range prints {
		byMeta[w.meta] = append(byMeta[w.meta], w)
	}
	for meta, ws := range byMeta {
		if len(ws) < 2 {
			continue
		}
		sort.Slice(ws, func(i, j int) bool { return ws[i].idx < ws[j].idx })
		var desc []string
		for _, w := range ws {
			desc = append(desc, fmt.Sprintf("name %q -> %s", w.name, w.print))
		}
		col.report(1<<30+ws[1].idx, "disabled:response-distinguishes-cases:"+meta, "responses with introspection disabled differ: "+strings.Join(desc, " | "),
			map[string]any{"mode": "shape", "layout": layout, "query": ws[1].sh.Query, "variables": ws[1].sh.Variables, "compare_with_query": ws[0].sh.Query, "compare_with_variables": ws[0].sh.Variables})
	}
	if stopped {
		o.Exhaustive = false
		o.Stopped += fmt.Sprintf(" shape enumeration stopped by the internal budget after %d shapes", o.ShapesGenerated)
	}
	for _, i := range []int{100, 5000, 200000} {
		if sh, ok := samples[i]; ok {
			o.Samples = append(o.Samples, map[string]any{"kind": "disabled-mode query shape", "layout": layout, "query": sh.Query, "variables": sh.Variables, "meta_keys": sh.MetaKeys, "type_names": sh.MetaNames})
		}
	}
}

// ---------------------------------------------------------------------------------------
// replay

func doReplay(g *Grid, file, layout string, fed bool) int {
	b, err := os.ReadFile(file)
	if err != nil {
		fmt.Println("cannot read replay:", err)
		return 2
	}
	var rf struct {
		Signature string `json:"signature"`
		What      string `json:"what"`
		Replay    struct {
			Mode       string            `json:"mode"`
			Layout     string            `json:"layout"`
			Assignment map[string]string `json:"assignment"`
			Query      string            `json:"query"`
			Variables  map[string]any    `json:"variables"`
			Config     string            `json:"config"`
			Federation bool              `json:"federation"`
			Requests   []histRequest     `json:"requests"`
		} `json:"replay"`
	}
	if err := json.Unmarshal(b, &rf); err != nil {
		fmt.Println("cannot parse replay:", err)
		return 2
	}
	if rf.Replay.Layout != "" && rf.Replay.Layout != layout {
		return 3 // not for this probe layout
	}
	fmt.Printf("replaying %s on layout %s\n", rf.Signature, layout)
	switch rf.Replay.Mode {
	case "history":
		return replayHistory(fed, rf.Replay.Config, rf.Replay.Requests)
	case "fedrebuild":
		findings, evals, _, broken := fedRebuild(true)
		if broken != "" {
			fmt.Println("BROKEN:", broken)
			return 2
		}
		fmt.Printf("%d queries evaluated, %d disagreements\n", evals, len(findings))
		for _, f := range findings {
			fmt.Printf("  [%s] %s\n", f.sig, f.what)
		}
		if len(findings) > 0 {
			return 1
		}
		return 0
	case "grid":
		a, err := g.FromNamed(rf.Replay.Assignment)
		if err != nil {
			fmt.Println(err)
			return 2
		}
		fmt.Printf("schema %s:\n%s\n", g.Label(a), g.SDL(a))
		findings, broken, res := evalSchema(g, a, true)
		if broken != "" {
			fmt.Println("BROKEN:", broken)
			return 2
		}
		fmt.Printf("%d queries evaluated, %d disagreements\n", res.evaluations, len(findings))
		for _, f := range findings {
			fmt.Printf("  [%s] %s\n", f.sig, f.what)
		}
		if len(findings) > 0 {
			return 1
		}
	case "shape":
		served, _ := loadSchema(markerSDL)
		ref, _ := loadSchema(markerSDL)
		// rebuild the expectation from the query itself
		sh := Shape{Query: rf.Replay.Query, Variables: rf.Replay.Variables, MetaKeys: map[string]string{}, Fillers: map[string]string{}}
		var found *Shape
		enumerateShapes(shapeSkeletons(4), dirAlphabet, 4, func(_ int, render func() Shape) bool {
			if s := render(); s.Query == sh.Query {
				found = &s
				return false
			}
			return true
		})
		if found == nil {
			fmt.Println("query is not one of the enumerated shapes")
			return 2
		}
		fmt.Printf("query:\n%svariables: %v\nexpected meta keys: %v\n", found.Query, found.Variables, found.MetaKeys)
		off := newServer(served, false)
		resp, _ := post(off, found.Query, found.Variables)
		fmt.Printf("response with introspection disabled: %s\n", resp.Raw)
		out, broken := checkShape(*found, ref, newServer(served, true), off)
		if broken != "" {
			fmt.Println("BROKEN:", broken)
			return 2
		}
		for _, f := range out.findings {
			fmt.Printf("  [%s] %s\n", f.sig, f.what)
		}
		if len(out.findings) > 0 {
			return 1
		}
	default:
		fmt.Println("unknown replay mode", rf.Replay.Mode)
		return 2
	}
	return 0
}

//go:build c16harness

package main

import (
	"fmt"
	"strings"
)

var (
	variantStandard = Variant{Name: "standard", IncludeDeprecated: true}
	variantFull     = Variant{Name: "full", IncludeDeprecated: true, InputDeprecation: true, Extras: true}
	variantNoDep    = Variant{Name: "nodep", IncludeDeprecated: false, InputDeprecation: true, Extras: true, ArgsFiltered: false}
	variantByType   = Variant{Name: "bytype", IncludeDeprecated: true, InputDeprecation: true, Extras: true}
)

const typeRefFragment = `
fragment TypeRef on __Type {
  kind name
  ofType { kind name ofType { kind name ofType { kind name ofType { kind name ofType { kind name ofType { kind name ofType { kind name ofType { kind name ofType { kind name } } } } } } } } }
}
`

func fragments(incl string) string {
	return fmt.Sprintf(`
fragment FullType on __Type {
  kind
  name
  description
  specifiedByURL
  isOneOf
  fields(includeDeprecated: %[1]s) {
    name
    description
    args(includeDeprecated: %[1]s) { ...InputValue }
    type { ...TypeRef }
    isDeprecated
    deprecationReason
  }
  inputFields(includeDeprecated: %[1]s) { ...InputValue }
  interfaces { ...TypeRef }
  enumValues(includeDeprecated: %[1]s) {
    name
    description
    isDeprecated
    deprecationReason
  }
  possibleTypes { ...TypeRef }
}

fragment InputValue on __InputValue {
  name
  description
  type { ...TypeRef }
  defaultValue
  isDeprecated
  deprecationReason
}
`, incl) + typeRefFragment
}

// extendedQuery is the standard introspection query with every includeDeprecated argument
// given explicitly and with the fields the standard one leaves out.
func extendedQuery(incl string) string {
	return fmt.Sprintf(`
query Extended {
  __schema {
    description
    queryType { name }
    mutationType { name }
    subscriptionType { name }
    types { ...FullType }
    directives {
      name
      description
      locations
      isRepeatable
      args(includeDeprecated: %s) { ...InputValue }
    }
  }
}
`, incl) + fragments(incl)
}

// byTypeQuery asks __type(name:) for each name under aliases t0, t1, ...
func byTypeQuery(names []string) string {
	var b strings.Builder
	b.WriteString("query ByType {\n")
	for i, n := range names {
		fmt.Fprintf(&b, "  t%d: __type(name: %q) { ...FullType }\n", i, n)
	}
	b.WriteString("}\n")
	b.WriteString(fragments("true"))
	return b.String()
}

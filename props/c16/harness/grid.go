//go:build c16harness

package main

// The schema feature grid of DESIGN.md §4 C16.
//
// A schema is an *assignment*: one value per slot. Value 0 of every slot is the plain
// default; the base schema is the all-default assignment and already contains one element of
// every kind (object field, interface field, their arguments, input field, enum value,
// directive argument). The tiers enumerate every assignment with at most 2 (quick) / 3
// (thorough) non-default slots.

import (
	"fmt"
	"sort"
	"strings"
)

type Slot struct {
	Name   string
	Values []string // Values[0] is the default
}

// element kinds that carry description + deprecation
var elemKinds = []string{"objField", "ifaceField", "objArg", "ifaceArg", "inputField", "enumValue", "dirArg"}

// element kinds that carry a default value
var inputKinds = []string{"objArg", "ifaceArg", "inputField", "dirArg"}

// element kinds whose NAME varies (everything the introspection result lists by name)
var namedKinds = []string{"objType", "objField", "ifaceField", "objArg", "ifaceArg", "inputField", "enumValue", "directive", "dirArg"}

// name shapes. caseTwin keeps the base name and adds a sibling that differs only in case.
var nameValues = []string{"base", "leadUnderscore", "trailUnderscore", "innerUnderscore", "singleChar", "caseTwin", "goKeyword", "longest"}

var baseNames = map[string]string{"objType": "Obj", "objField": "f", "ifaceField": "g", "objArg": "arg", "ifaceArg": "iarg",
	"inputField": "a", "enumValue": "RED", "directive": "dir", "dirArg": "darg"}

// distinct per kind so that two renamed elements never collide inside one type
var singleCharNames = map[string]string{"objType": "Z", "objField": "z", "ifaceField": "y", "objArg": "z", "ifaceArg": "z",
	"inputField": "z", "enumValue": "Z", "directive": "z", "dirArg": "z"}
var goKeywordNames = map[string]string{"objType": "chan", "objField": "func", "ifaceField": "type", "objArg": "range", "ifaceArg": "select",
	"inputField": "go", "enumValue": "defer", "directive": "package", "dirArg": "var"}

func elementName(kind, shape string) string {
	base := baseNames[kind]
	switch shape {
	case "base", "caseTwin":
		return base
	case "leadUnderscore":
		return "_" + base
	case "trailUnderscore":
		return base + "_"
	case "innerUnderscore":
		return base + "_x"
	case "singleChar":
		return singleCharNames[kind]
	case "goKeyword":
		return goKeywordNames[kind]
	case "longest":
		n := base + "_"
		for len(n) < 96 {
			n += "LongName9_"
		}
		return n[:96]
	}
	panic("bad name shape " + shape)
}

// caseTwinName is the sibling that differs from the base name only in case.
func caseTwinName(kind string) string {
	base := baseNames[kind]
	if up := strings.ToUpper(base); up != base {
		return up
	}
	return strings.ToLower(base)
}

// nm is the name of the element of the given kind under assignment a; twin says whether a
// sibling differing only in case is to be added.
func (g *Grid) nm(a Assignment, kind string) (name string, twin bool) {
	shape := g.val(a, kind+".name")
	return elementName(kind, shape), shape == "caseTwin"
}

var descValues = []string{"none", "line", "block"}
var deprValues = []string{"none", "bare", "reason"}
var defValues = []string{"none", "int", "float", "bool", "string", "stringctl", "blockstr", "enum", "list", "object", "null"}

// wrapper shapes: every string over {L(ist), N(onNull)} of length 1..maxDepth without "NN",
// read outer to inner, applied to Int.
func wrapShapes(maxDepth int) []string {
	out := []string{"none"}
	var rec func(cur string, d int)
	for d := 1; d <= maxDepth; d++ {
		rec = func(cur string, left int) {
			if left == 0 {
				out = append(out, cur)
				return
			}
			rec(cur+"L", left-1)
			if !strings.HasSuffix(cur, "N") {
				rec(cur+"N", left-1)
			}
		}
		rec("", d)
	}
	return out
}

func renderWrap(shape, named string) string {
	if shape == "none" || shape == "" {
		return named
	}
	switch shape[0] {
	case 'L':
		return "[" + renderWrap(shape[1:], named) + "]"
	case 'N':
		return renderWrap(shape[1:], named) + "!"
	}
	panic("bad wrap shape " + shape)
}

var allDirectiveLocations = "QUERY | MUTATION | SUBSCRIPTION | FIELD | FRAGMENT_DEFINITION | FRAGMENT_SPREAD | INLINE_FRAGMENT | VARIABLE_DEFINITION | SCHEMA | SCALAR | OBJECT | FIELD_DEFINITION | ARGUMENT_DEFINITION | INTERFACE | UNION | ENUM | ENUM_VALUE | INPUT_OBJECT | INPUT_FIELD_DEFINITION"

func buildSlots(maxWrapDepth int) []Slot {
	var s []Slot
	for _, k := range elemKinds {
		s = append(s, Slot{k + ".desc", descValues})
	}
	for _, k := range elemKinds {
		s = append(s, Slot{k + ".depr", deprValues})
	}
	for _, k := range inputKinds {
		s = append(s, Slot{k + ".def", defValues})
	}
	for _, k := range namedKinds {
		s = append(s, Slot{k + ".name", nameValues})
	}
	s = append(s,
		Slot{"objImpl", []string{"none", "one", "twoIfaces", "twoObjs"}},
		Slot{"ifaceImpl", []string{"none", "one", "chain"}},
		Slot{"union", []string{"none", "one", "two"}},
		Slot{"repeatable", []string{"none", "yes"}},
		Slot{"specifiedBy", []string{"none", "yes"}},
		Slot{"oneOf", []string{"none", "yes"}},
		Slot{"schemaDesc", []string{"none", "line", "block"}},
		Slot{"mutation", []string{"none", "yes"}},
		Slot{"subscription", []string{"none", "yes"}},
		Slot{"dirLocs", []string{"fielddef", "mixed", "all"}},
		Slot{"typeDesc", descValues},
		Slot{"dirDesc", descValues},
		Slot{"outWrap", wrapShapes(maxWrapDepth)},
		Slot{"inWrap", wrapShapes(maxWrapDepth)},
	)
	return s
}

// Assignment maps slot index -> value index; absent = 0.
type Assignment map[int]int

type Grid struct {
	Slots []Slot
	index map[string]int
}

func newGrid(maxWrapDepth int) *Grid {
	g := &Grid{Slots: buildSlots(maxWrapDepth), index: map[string]int{}}
	for i, s := range g.Slots {
		g.index[s.Name] = i
	}
	return g
}

func (g *Grid) val(a Assignment, slot string) string {
	i, ok := g.index[slot]
	if !ok {
		panic("unknown slot " + slot)
	}
	return g.Slots[i].Values[a[i]]
}

// Named renders an assignment as {"slot":"value"} of its non-default slots.
func (g *Grid) Named(a Assignment) map[string]string {
	m := map[string]string{}
	for i, v := range a {
		if v != 0 {
			m[g.Slots[i].Name] = g.Slots[i].Values[v]
		}
	}
	return m
}

func (g *Grid) FromNamed(m map[string]string) (Assignment, error) {
	a := Assignment{}
	for k, v := range m {
		i, ok := g.index[k]
		if !ok {
			return nil, fmt.Errorf("unknown slot %q", k)
		}
		found := false
		for vi, vn := range g.Slots[i].Values {
			if vn == v {
				a[i] = vi
				found = true
			}
		}
		if !found {
			return nil, fmt.Errorf("unknown value %q for slot %q", v, k)
		}
	}
	return a, nil
}

func (g *Grid) Label(a Assignment) string {
	m := g.Named(a)
	keys := make([]string, 0, len(m))
	for k := range m {
		keys = append(keys, k)
	}
	sort.Strings(keys)
	parts := make([]string, 0, len(keys))
	for _, k := range keys {
		parts = append(parts, k+"="+m[k])
	}
	if len(parts) == 0 {
		return "base"
	}
	return strings.Join(parts, ",")
}

// Enumerate calls f for every assignment with at most k non-default slots, ordered by number of
// non-default slots, then slot index, then value index (simplest first). f returns false to stop.
func (g *Grid) Enumerate(k int, f func(a Assignment) bool) {
	n := len(g.Slots)
	var rec func(start, left int, cur Assignment) bool
	rec = func(start, left int, cur Assignment) bool {
		if left == 0 {
			cp := Assignment{}
			for i, v := range cur {
				cp[i] = v
			}
			return f(cp)
		}
		for i := start; i < n; i++ {
			for v := 1; v < len(g.Slots[i].Values); v++ {
				cur[i] = v
				if !rec(i+1, left-1, cur) {
					return false
				}
			}
			delete(cur, i)
		}
		return true
	}
	for size := 0; size <= k; size++ {
		if !rec(0, size, Assignment{}) {
			return
		}
	}
}

const lineDesc = `one-line é \"quoted\" back\\slash`

// lineDescValue is what lineDesc denotes.
const lineDescValue = "one-line é \"quoted\" back\\slash"

const blockDescBody = "Block \"quoted\" text\n  indented 'line'\n\nafter blank, back\\slash, \\\"\"\" triple, ünï"

// blockDescValue is what the block string denotes (\""" is the only escape in block strings).
const blockDescValue = "Block \"quoted\" text\n  indented 'line'\n\nafter blank, back\\slash, \"\"\" triple, ünï"

func descSDL(v, indent string) string {
	switch v {
	case "line":
		return indent + "\"" + lineDesc + "\"\n"
	case "block":
		lines := strings.Split(blockDescBody, "\n")
		var b strings.Builder
		b.WriteString(indent + "\"\"\"\n")
		for _, l := range lines {
			if l == "" {
				b.WriteString("\n")
			} else {
				b.WriteString(indent + l + "\n")
			}
		}
		b.WriteString(indent + "\"\"\"\n")
		return b.String()
	}
	return ""
}

const deprReasonText = `use \"other\" instead\nsecond line`
const deprReasonValue = "use \"other\" instead\nsecond line"

func deprSDL(v string) string {
	switch v {
	case "bare":
		return " @deprecated"
	case "reason":
		return " @deprecated(reason: \"" + deprReasonText + "\")"
	}
	return ""
}

// defSDL returns the named type and the default-value literal for a default kind.
func defSDL(v string) (typ, lit string) {
	switch v {
	case "none":
		return "Int", ""
	case "int":
		return "Int", "-42"
	case "float":
		return "Float", "-1.5e3"
	case "bool":
		return "Boolean", "true"
	case "string":
		return "String", `"q\"uo\\te\nnl\ttab é ☃ /"`
	case "stringctl":
		return "String", `"bell\u0007 nul\u0000 del\u007f"`
	case "blockstr":
		return "String", "\"\"\"block \"q\"\n  second\"\"\""
	case "enum":
		return "Color", "GREEN"
	case "list":
		return "[Int]", "[1, 2, 3]"
	case "object":
		return "In2", `{n: 1, s: "x y", l: [1, 2], o: {n: 2, s: "{in:ner}"}}`
	case "null":
		return "Int", "null"
	}
	panic("bad default kind " + v)
}

func (g *Grid) inputValueSDL(a Assignment, kind, name, indent string) string {
	typ, lit := defSDL(g.val(a, kind+".def"))
	s := descSDL(g.val(a, kind+".desc"), indent) + indent + name + ": " + typ
	if lit != "" {
		s += " = " + lit
	}
	s += deprSDL(g.val(a, kind+".depr"))
	return s
}

// SDL renders the schema for an assignment.
func (g *Grid) SDL(a Assignment) string {
	var b strings.Builder
	v := func(slot string) string { return g.val(a, slot) }
	td := v("typeDesc")
	objT, objTTwin := g.nm(a, "objType")
	fN, fTwin := g.nm(a, "objField")
	gN, gTwin := g.nm(a, "ifaceField")
	argN, argTwin := g.nm(a, "objArg")
	iargN, iargTwin := g.nm(a, "ifaceArg")
	inN, inTwin := g.nm(a, "inputField")
	evN, evTwin := g.nm(a, "enumValue")
	dirN, dirTwin := g.nm(a, "directive")
	dargN, dargTwin := g.nm(a, "dirArg")
	twinLine := func(on bool, kind, indent, suffix string) string {
		if !on {
			return ""
		}
		return indent + caseTwinName(kind) + suffix
	}

	hasMut, hasSub := v("mutation") == "yes", v("subscription") == "yes"
	if sd := v("schemaDesc"); sd != "none" {
		b.WriteString(descSDL(sd, ""))
		b.WriteString("schema {\n  query: Query\n")
		if hasMut {
			b.WriteString("  mutation: Mutation\n")
		}
		if hasSub {
			b.WriteString("  subscription: Subscription\n")
		}
		b.WriteString("}\n\n")
	}

	b.WriteString("type Query {\n  ping: String\n  obj: " + objT + "\n  iface: I1\n  q(in: In, one: One, sc: Sc, c: Color): String\n")
	if v("union") != "none" {
		b.WriteString("  uni: U\n")
	}
	b.WriteString("}\n\n")
	if hasMut {
		b.WriteString("type Mutation {\n  m(x: Int): Int\n}\n\n")
	}
	if hasSub {
		b.WriteString("type Subscription {\n  s: Int\n}\n\n")
	}

	// interfaces
	ifaceImpl := v("ifaceImpl")
	var i1Impl []string  // what I1 implements
	var i1Extra []string // extra fields I1 must carry
	switch ifaceImpl {
	case "one":
		b.WriteString("interface I0 {\n  i0: Int\n}\n\n")
		i1Impl = []string{"I0"}
		i1Extra = []string{"  i0: Int\n"}
	case "chain":
		b.WriteString("interface I00 {\n  i00: Int\n}\n\n")
		b.WriteString("interface I0 implements I00 {\n  i0: Int\n  i00: Int\n}\n\n")
		i1Impl = []string{"I0", "I00"}
		i1Extra = []string{"  i0: Int\n", "  i00: Int\n"}
	}
	ifaceArgType, _ := defSDL(v("ifaceArg.def"))
	b.WriteString(descSDL(td, ""))
	b.WriteString("interface I1")
	if len(i1Impl) > 0 {
		b.WriteString(" implements " + strings.Join(i1Impl, " & "))
	}
	b.WriteString(" {\n")
	b.WriteString(descSDL(v("ifaceField.desc"), "  "))
	b.WriteString("  " + gN + "(\n" + g.inputValueSDL(a, "ifaceArg", iargN, "    ") + "\n" + twinLine(iargTwin, "ifaceArg", "    ", ": Int\n") + "  ): String" + deprSDL(v("ifaceField.depr")) + "\n")
	b.WriteString(twinLine(gTwin, "ifaceField", "  ", ": Int\n"))
	for _, e := range i1Extra {
		b.WriteString(e)
	}
	b.WriteString("}\n\n")

	// object
	objImpl := v("objImpl")
	var objIfaces []string
	if objImpl != "none" {
		objIfaces = append(objIfaces, "I1")
		objIfaces = append(objIfaces, i1Impl...)
	}
	if objImpl == "twoIfaces" {
		b.WriteString("interface J {\n  j: Int\n}\n\n")
		objIfaces = append(objIfaces, "J")
	}
	implFields := func() string {
		var s strings.Builder
		s.WriteString("  " + gN + "(" + iargN + ": " + ifaceArgType + twinLine(iargTwin, "ifaceArg", ", ", ": Int") + "): String\n")
		s.WriteString(twinLine(gTwin, "ifaceField", "  ", ": Int\n"))
		for _, e := range i1Extra {
			s.WriteString(e)
		}
		return s.String()
	}
	b.WriteString(descSDL(td, ""))
	b.WriteString("type " + objT)
	if len(objIfaces) > 0 {
		b.WriteString(" implements " + strings.Join(objIfaces, " & "))
	}
	b.WriteString(" {\n")
	b.WriteString(descSDL(v("objField.desc"), "  "))
	b.WriteString("  " + fN + "(\n" + g.inputValueSDL(a, "objArg", argN, "    ") + "\n" + twinLine(argTwin, "objArg", "    ", ": Int\n") + "    warg: " + renderWrap(v("inWrap"), "Int") + "\n  ): String" + deprSDL(v("objField.depr")) + "\n")
	b.WriteString("  w: " + renderWrap(v("outWrap"), "Int") + "\n")
	b.WriteString("  plain: Int\n")
	b.WriteString(twinLine(fTwin, "objField", "  ", ": Int\n"))
	if objImpl != "none" {
		b.WriteString(implFields())
	}
	if objImpl == "twoIfaces" {
		b.WriteString("  j: Int\n")
	}
	b.WriteString("}\n\n")
	if objTTwin {
		b.WriteString("type " + caseTwinName("objType") + " {\n  x: Int\n}\n\n")
	}
	if objImpl == "twoObjs" {
		b.WriteString("type Obj2 implements " + strings.Join(append([]string{"I1"}, i1Impl...), " & ") + " {\n" + implFields() + "}\n\n")
	}

	// union
	switch v("union") {
	case "one":
		b.WriteString(descSDL(td, ""))
		b.WriteString("union U = " + objT + "\n\n")
	case "two":
		b.WriteString("type Other {\n  o: Int\n}\n\n")
		b.WriteString(descSDL(td, ""))
		b.WriteString("union U = " + objT + " | Other\n\n")
	}

	// enum
	b.WriteString(descSDL(td, ""))
	b.WriteString("enum Color {\n")
	b.WriteString(descSDL(v("enumValue.desc"), "  "))
	b.WriteString("  " + evN + deprSDL(v("enumValue.depr")) + "\n  GREEN\n  BLUE\n" + twinLine(evTwin, "enumValue", "  ", "\n") + "}\n\n")

	// inputs
	b.WriteString(descSDL(td, ""))
	b.WriteString("input In {\n" + g.inputValueSDL(a, "inputField", inN, "  ") + "\n  b: Int\n" + twinLine(inTwin, "inputField", "  ", ": Int\n") + "}\n\n")
	b.WriteString("input In2 {\n  n: Int\n  s: String\n  l: [Int]\n  o: In2\n}\n\n")
	if v("oneOf") == "yes" {
		b.WriteString("input One @oneOf {\n  x: Int\n  y: String\n}\n\n")
	} else {
		b.WriteString("input One {\n  x: Int\n  y: String\n}\n\n")
	}

	// scalar
	b.WriteString(descSDL(td, ""))
	if v("specifiedBy") == "yes" {
		b.WriteString("scalar Sc @specifiedBy(url: \"https://example.com/sc-spec?x=1&y=%22\")\n\n")
	} else {
		b.WriteString("scalar Sc\n\n")
	}

	// directive
	if dirTwin {
		b.WriteString("directive @" + caseTwinName("directive") + " on FIELD_DEFINITION\n\n")
	}
	b.WriteString(descSDL(v("dirDesc"), ""))
	b.WriteString("directive @" + dirN + "(\n" + g.inputValueSDL(a, "dirArg", dargN, "  ") + "\n  other: Int\n" + twinLine(dargTwin, "dirArg", "  ", ": Int\n") + ")")
	if v("repeatable") == "yes" {
		b.WriteString(" repeatable")
	}
	switch v("dirLocs") {
	case "fielddef":
		b.WriteString(" on FIELD_DEFINITION\n")
	case "mixed":
		b.WriteString(" on QUERY | FIELD | OBJECT | ENUM_VALUE\n")
	case "all":
		b.WriteString(" on " + allDirectiveLocations + "\n")
	}
	return b.String()
}

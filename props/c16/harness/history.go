//go:build c16harness

package main

// Histories. "With introspection disabled no query obtains any of it" must hold whatever the
// process has served before. Here introspection is decided per request on ONE server process,
// the way docs/content/reference/introspection.md describes (extension.Introspection{} plus a
// gate that switches it off for callers that are not allowed), through context mutators
// registered in both orders, and through two servers built over the same generated package.
//
// Enumerated: every sequence of at most L requests over the alphabet
// {allowed caller, anonymous caller} x {__schema, __type(existing), __type(absent) and - on the
// federation probe - _service{sdl}} x {plain, aliased, named fragment, inline fragment,
// @include(if:$v), name through a variable}, for every gate configuration. For every first
// request a FRESH worker process is started (package-level state of the generated code starts
// empty); all sequences beginning with that request run in it one after the other. The oracle
// judges every response: a request for which introspection is disabled gets null plus an error
// at the field's path and no schema string; one for which it is enabled gets the data and no
// error (an absent type name: a plain null).

import (
	"bytes"
	"context"
	"encoding/json"
	"fmt"
	"os"
	"os/exec"
	"sort"
	"strings"
	"sync"

	"github.com/99designs/gqlgen/graphql"
	"github.com/99designs/gqlgen/graphql/handler"
	"github.com/99designs/gqlgen/graphql/handler/extension"
	"github.com/vektah/gqlparser/v2/ast"
	"github.com/vektah/gqlparser/v2/gqlerror"
)

const gateHeader = "X-Introspect"

func allowed(oc *graphql.OperationContext) bool {
	return oc.Headers != nil && oc.Headers.Get(gateHeader) == "allow"
}

// aroundGate is the documented gate: an operation middleware that switches introspection off
// for callers that are not allowed.
func aroundGate(ctx context.Context, next graphql.OperationHandler) graphql.ResponseHandler {
	if oc := graphql.GetOperationContext(ctx); !allowed(oc) {
		oc.DisableIntrospection = true
	}
	return next(ctx)
}

// gateMutator decides introspection for the request as an OperationContextMutator.
type gateMutator struct{}

func (gateMutator) ExtensionName() string                          { return "C16Gate" }
func (gateMutator) Validate(schema graphql.ExecutableSchema) error { return nil }
func (gateMutator) MutateOperationContext(ctx context.Context, oc *graphql.OperationContext) *gqlerror.Error {
	oc.DisableIntrospection = !allowed(oc)
	return nil
}

// histConfig is one way of gating. build returns the server and headers a request of the given
// caller goes to; enabled is what the documentation promises for that caller.
type histConfig struct {
	Name    string
	What    string
	build   func(schema *ast.Schema) func(caller string) (*handler.Server, []string)
	enabled func(caller string) bool
}

func oneServer(setup func(srv *handler.Server)) func(schema *ast.Schema) func(string) (*handler.Server, []string) {
	return func(schema *ast.Schema) func(string) (*handler.Server, []string) {
		srv := newServerOn(newExecutableSchema(schema))
		setup(srv)
		return func(caller string) (*handler.Server, []string) {
			if caller == "allow" {
				return srv, []string{gateHeader, "allow"}
			}
			return srv, nil
		}
	}
}

func onlyAllowed(caller string) bool { return caller == "allow" }

var histConfigs = []histConfig{
	{"around-after-introspection", "srv.Use(extension.Introspection{}); srv.AroundOperations(gate) - the documented per-request gate",
		oneServer(func(srv *handler.Server) { srv.Use(extension.Introspection{}); srv.AroundOperations(aroundGate) }), onlyAllowed},
	{"around-before-introspection", "srv.AroundOperations(gate); srv.Use(extension.Introspection{}) - operation middleware runs after every context mutator",
		oneServer(func(srv *handler.Server) { srv.AroundOperations(aroundGate); srv.Use(extension.Introspection{}) }), onlyAllowed},
	{"mutators-introspection-then-gate", "srv.Use(extension.Introspection{}); srv.Use(gateMutator{}) - mutators run in registration order, the gate has the last word",
		oneServer(func(srv *handler.Server) { srv.Use(extension.Introspection{}); srv.Use(gateMutator{}) }), onlyAllowed},
	{"mutators-gate-then-introspection", "srv.Use(gateMutator{}); srv.Use(extension.Introspection{}) - Introspection{} runs last and enables it for everybody",
		oneServer(func(srv *handler.Server) { srv.Use(gateMutator{}); srv.Use(extension.Introspection{}) }), func(string) bool { return true }},
	{"mutator-gate-only", "srv.Use(gateMutator{}) alone",
		oneServer(func(srv *handler.Server) { srv.Use(gateMutator{}) }), onlyAllowed},
	{"two-servers-one-executable-schema", "two handler.Servers over the same ExecutableSchema value: one with extension.Introspection{}, one without",
		func(schema *ast.Schema) func(string) (*handler.Server, []string) {
			es := newExecutableSchema(schema)
			open, closed := newServerOn(es), newServerOn(es)
			open.Use(extension.Introspection{})
			return func(caller string) (*handler.Server, []string) {
				if caller == "allow" {
					return open, nil
				}
				return closed, nil
			}
		}, onlyAllowed},
	{"two-servers-two-executable-schemas", "two handler.Servers over two NewExecutableSchema values of the same generated package: one with extension.Introspection{}, one without",
		func(schema *ast.Schema) func(string) (*handler.Server, []string) {
			open, closed := newServerOn(newExecutableSchema(schema)), newServerOn(newExecutableSchema(schema))
			open.Use(extension.Introspection{})
			return func(caller string) (*handler.Server, []string) {
				if caller == "allow" {
					return open, nil
				}
				return closed, nil
			}
		}, onlyAllowed},
}

// histShape is one way of asking for one meta field.
type histShape struct {
	ID     string
	Meta   string // __schema | __type | _service
	Key    string // response key
	Exists bool   // false: __type of a name that is not in the schema
	Query  string
	Vars   map[string]any
}

func histShapes(fed bool) []histShape {
	type meta struct {
		id, meta, name, args, sel string
		exists                    bool
	}
	metas := []meta{
		{"schema", "__schema", "__schema", "", "{ types { name } }", true},
		{"type-existing", "__type", "__type", fmt.Sprintf("(name: %q)", sentinelTypeName), "{ name }", true},
		{"type-absent", "__type", "__type", `(name: "NoSuchTypeZq")`, "{ name }", false},
	}
	if fed {
		metas = append(metas, meta{"service", "_service", "_service", "", "{ sdl }", true})
	}
	var out []histShape
	for _, m := range metas {
		field := m.name + m.args + " " + m.sel
		add := func(hiding, key, query string, vars map[string]any) {
			out = append(out, histShape{ID: m.id + "/" + hiding, Meta: m.meta, Key: key, Exists: m.exists, Query: query, Vars: vars})
		}
		add("plain", m.name, "{ "+field+" }", nil)
		add("alias", "x", "{ x: "+field+" }", nil)
		add("named-fragment", m.name, "query Q { ...F } fragment F on Query { "+field+" }", nil)
		add("inline-fragment", m.name, "{ ... on Query { "+field+" } }", nil)
		add("include-variable", m.name, "query Q($v: Boolean!) { "+m.name+m.args+" @include(if: $v) "+m.sel+" }", map[string]any{"v": true})
		if m.meta == "__type" {
			name := sentinelTypeName
			if !m.exists {
				name = "NoSuchTypeZq"
			}
			add("name-variable", m.name, "query Q($n: String!) { __type(name: $n) "+m.sel+" }", map[string]any{"n": name})
		}
	}
	return out
}

const fedNote = "federation probe: the schema is the probe's own embedded one (sentinel names), _service serves its sources"

type histRequest struct {
	Caller string `json:"caller"`
	Shape  string `json:"shape"`
}

// the request alphabet: callers x shapes, allowed caller first
func histAlphabet(shapes []histShape) []histRequest {
	var out []histRequest
	for _, c := range []string{"allow", "anon"} {
		for _, s := range shapes {
			out = append(out, histRequest{c, s.ID})
		}
	}
	return out
}

// judge evaluates the oracle on one response.
func judge(cfg histConfig, caller string, sh histShape, resp *gqlResponse) []caseFinding {
	var fs []caseFinding
	var data map[string]json.RawMessage
	dataNull := len(resp.Data) == 0 || string(resp.Data) == "null"
	if !dataNull {
		json.Unmarshal(resp.Data, &data)
	}
	v, present := data[sh.Key]
	if cfg.enabled(caller) {
		if len(resp.Errors) > 0 {
			fs = append(fs, caseFinding{"history:enabled:errors:" + sh.Meta, fmt.Sprintf("introspection is enabled for this request but it failed: %.300s", resp.Raw), "history"})
			return fs
		}
		if !sh.Exists {
			if !present || string(v) != "null" {
				fs = append(fs, caseFinding{"history:enabled:unknown-type-name-not-plain-null", fmt.Sprintf("%.300s", resp.Raw), "history"})
			}
			return fs
		}
		if !present || string(v) == "null" {
			fs = append(fs, caseFinding{"history:enabled:meta-field-null:" + sh.Meta, fmt.Sprintf("introspection is enabled for this request but %s is null: %.300s", sh.Key, resp.Raw), "history"})
		} else if !bytes.Contains(bytes.ToLower(resp.Raw), []byte(sentinel)) {
			fs = append(fs, caseFinding{"history:enabled:schema-not-described:" + sh.Meta, fmt.Sprintf("the response does not mention the schema's names: %.300s", resp.Raw), "history"})
		}
		return fs
	}
	// disabled: null (a non-null field may take data with it) + an error at the path + nothing of the schema
	if !dataNull && (!present || string(v) != "null") {
		fs = append(fs, caseFinding{"history:disabled:meta-field-not-null:" + sh.Meta, fmt.Sprintf("%s is not null although introspection is disabled for this request: %.300s", sh.Key, resp.Raw), "history"})
	}
	if !hasErrorAt(resp, sh.Key) {
		fs = append(fs, caseFinding{"history:disabled:no-error:" + sh.Meta, fmt.Sprintf("no error with path [%s] although introspection is disabled for this request: %.300s", sh.Key, resp.Raw), "history"})
	}
	if bytes.Contains(bytes.ToLower(resp.Raw), []byte(sentinel)) {
		fs = append(fs, caseFinding{"history:disabled:schema-string-in-response", fmt.Sprintf("the response contains a name or text of the schema although introspection is disabled for this request: %.300s", resp.Raw), "history"})
	}
	return fs
}

type histWorkerFinding struct {
	Sig    string        `json:"sig"`
	What   string        `json:"what"`
	SeqNo  int           `json:"seq_no"`
	Seq    []histRequest `json:"seq"`
	At     int           `json:"at"`
	Config string        `json:"config"`
}

type histWorkerOut struct {
	Sequences int                 `json:"sequences"`
	Requests  int                 `json:"requests"`
	Mixed     int                 `json:"mixed"` // sequences with both an enabled and a disabled request
	Findings  []histWorkerFinding `json:"findings"`
	Broken    string              `json:"broken,omitempty"`
}

func histSchema(fed bool) (*ast.Schema, error) {
	if fed {
		return nil, nil // the federation probe serves its own embedded schema
	}
	return loadSchema(markerSDL)
}

// runSequence executes one sequence on the process' servers and judges every response.
func runSequence(cfg histConfig, route func(string) (*handler.Server, []string), shapes map[string]histShape, seq []histRequest, verbose bool) (fs []histWorkerFinding, broken string) {
	for i, r := range seq {
		sh, ok := shapes[r.Shape]
		if !ok {
			return nil, "unknown shape " + r.Shape
		}
		srv, headers := route(r.Caller)
		resp, err := post(srv, sh.Query, sh.Vars, headers...)
		if err != nil {
			return nil, err.Error()
		}
		for _, e := range resp.Errors {
			if code, _ := e.Extensions["code"].(string); code == "GRAPHQL_VALIDATION_FAILED" || code == "GRAPHQL_PARSE_FAILED" {
				return nil, fmt.Sprintf("history shape %s is not a valid query: %s", sh.ID, resp.Raw)
			}
		}
		if verbose {
			mode := "disabled"
			if cfg.enabled(r.Caller) {
				mode = "enabled"
			}
			fmt.Printf("  request %d: caller=%s (introspection %s) %s\n    %s\n    -> %.400s\n", i+1, r.Caller, mode, sh.ID, sh.Query, resp.Raw)
		}
		for _, f := range judge(cfg, r.Caller, sh, resp) {
			fs = append(fs, histWorkerFinding{Sig: f.sig, What: f.what, Seq: seq, At: i, Config: cfg.Name})
		}
	}
	return fs, ""
}

// histWorker runs, in this fresh process, every sequence of at most maxLen requests that begins
// with alphabet[first], under configuration cfgIdx, and prints the result as JSON.
func histWorker(fed bool, cfgIdx, first, maxLen int) {
	out := histWorkerOut{}
	defer func() {
		b, _ := json.Marshal(out)
		os.Stdout.Write(b)
	}()
	schema, err := histSchema(fed)
	if err != nil {
		out.Broken = "marker schema does not load: " + err.Error()
		return
	}
	shapeList := histShapes(fed)
	shapes := map[string]histShape{}
	for _, s := range shapeList {
		shapes[s.ID] = s
	}
	alphabet := histAlphabet(shapeList)
	if cfgIdx < 0 || cfgIdx >= len(histConfigs) || first < 0 || first >= len(alphabet) {
		out.Broken = "bad worker arguments"
		return
	}
	cfg := histConfigs[cfgIdx]
	route := cfg.build(schema)
	var rec func(seq []histRequest)
	rec = func(seq []histRequest) {
		if out.Broken != "" {
			return
		}
		fs, broken := runSequence(cfg, route, shapes, seq, false)
		if broken != "" {
			out.Broken = broken
			return
		}
		en, dis := false, false
		for _, r := range seq {
			if cfg.enabled(r.Caller) {
				en = true
			} else {
				dis = true
			}
		}
		if en && dis {
			out.Mixed++
		}
		for i := range fs {
			fs[i].SeqNo = out.Sequences
			fs[i].Seq = append([]histRequest{}, fs[i].Seq...)
		}
		if len(out.Findings) < 200 {
			out.Findings = append(out.Findings, fs...)
		}
		out.Sequences++
		out.Requests += len(seq)
		if len(seq) < maxLen {
			for _, r := range alphabet {
				rec(append(append([]histRequest{}, seq...), r))
			}
		}
	}
	rec([]histRequest{alphabet[first]})
}

// runHistories starts one fresh worker process per (configuration, first request) and merges.
func runHistories(fed bool, maxLen, workers int, layout string, col *collector, o *Output) {
	if maxLen <= 0 {
		return
	}
	exe, err := os.Executable()
	if err != nil {
		col.brokenf("cannot find my own executable: %v", err)
		return
	}
	shapeList := histShapes(fed)
	alphabet := histAlphabet(shapeList)
	var ids []string
	for _, s := range shapeList {
		ids = append(ids, s.ID)
	}
	var cfgNames []string
	for _, c := range histConfigs {
		cfgNames = append(cfgNames, c.Name)
	}
	o.Bounds["history_max_requests"] = maxLen
	o.Bounds["history_shapes"] = ids
	o.Bounds["history_callers"] = []string{"allow", "anon"}
	o.Bounds["history_gate_configurations"] = cfgNames

	type job struct{ cfg, first int }
	var jobs []job
	for c := range histConfigs {
		for f := range alphabet {
			jobs = append(jobs, job{c, f})
		}
	}
	results := make([]*histWorkerOut, len(jobs))
	var wg sync.WaitGroup
	var mu sync.Mutex
	next := 0
	for w := 0; w < workers; w++ {
		wg.Add(1)
		go func() {
			defer wg.Done()
			for {
				mu.Lock()
				i := next
				next++
				mu.Unlock()
				if i >= len(jobs) || expired() {
					return
				}
				args := []string{"-hist-worker", "-hist-config", fmt.Sprint(jobs[i].cfg), "-hist-first", fmt.Sprint(jobs[i].first), "-hist-len", fmt.Sprint(maxLen)}
				if fed {
					args = append(args, "-fed")
				}
				cmd := exec.Command(exe, args...)
				cmd.Stderr = os.Stderr
				b, err := cmd.Output()
				var r histWorkerOut
				if err != nil {
					col.brokenf("history worker %v failed: %v", args, err)
					return
				}
				if err := json.Unmarshal(b, &r); err != nil {
					col.brokenf("history worker %v printed no result: %v", args, err)
					return
				}
				if r.Broken != "" {
					col.brokenf("history worker %v: %s", args, r.Broken)
					return
				}
				results[i] = &r
			}
		}()
	}
	wg.Wait()
	for i, r := range results {
		if r == nil {
			o.Exhaustive = false
			if !strings.Contains(o.Stopped, "histories stopped") {
				o.Stopped += fmt.Sprintf(" histories stopped by the internal budget after %d of %d worker processes", o.HistoryProcesses, len(jobs))
			}
			continue
		}
		o.HistoryProcesses++
		o.HistorySequences += r.Sequences
		o.HistoryRequests += r.Requests
		o.HistoryMixed += r.Mixed
		sort.SliceStable(r.Findings, func(a, b int) bool { return r.Findings[a].SeqNo < r.Findings[b].SeqNo })
		for _, f := range r.Findings {
			cfg := histConfigs[jobs[i].cfg]
			col.report(-(1<<30)+i*1_000_000+f.SeqNo, f.Sig,
				fmt.Sprintf("%s | request %d of the sequence %s under gate configuration %s (%s); the worker process had served the earlier sequences starting with the same first request", f.What, f.At+1, describeSeq(f.Seq), cfg.Name, cfg.What),
				map[string]any{"mode": "history", "layout": layout, "federation": fed, "config": cfg.Name, "requests": f.Seq})
		}
		if i == len(jobs)/2 {
			o.Samples = append(o.Samples, map[string]any{"kind": "request history (all sequences of at most history_max_requests requests with this first request run in one fresh process)", "layout": layout,
				"gate_configuration": histConfigs[jobs[i].cfg].Name, "first_request": alphabet[jobs[i].first], "sequences": r.Sequences, "requests": r.Requests})
		}
	}
}

func describeSeq(seq []histRequest) string {
	var parts []string
	for _, r := range seq {
		parts = append(parts, r.Caller+":"+r.Shape)
	}
	return "[" + strings.Join(parts, " , ") + "]"
}

// replayHistory runs one recorded sequence in this (fresh) process.
func replayHistory(fed bool, cfgName string, seq []histRequest) int {
	schema, err := histSchema(fed)
	if err != nil {
		fmt.Println("BROKEN:", err)
		return 2
	}
	shapes := map[string]histShape{}
	for _, s := range histShapes(fed) {
		shapes[s.ID] = s
	}
	for _, cfg := range histConfigs {
		if cfg.Name != cfgName {
			continue
		}
		fmt.Printf("gate configuration %s: %s\n", cfg.Name, cfg.What)
		fs, broken := runSequence(cfg, cfg.build(schema), shapes, seq, true)
		if broken != "" {
			fmt.Println("BROKEN:", broken)
			return 2
		}
		for _, f := range fs {
			fmt.Printf("  [%s] request %d: %s\n", f.Sig, f.At+1, f.What)
		}
		if len(fs) > 0 {
			return 1
		}
		fmt.Println("  the oracle has no complaint about this sequence on a fresh process")
		return 0
	}
	fmt.Println("unknown gate configuration", cfgName)
	return 2
}

//go:build c16harness

package main

// Normalised schema description, built two ways:
//   - fromAST:  the reference, from an ast.Schema loaded by gqlparser from the SDL
//     (a separate load from the one handed to the server);
//   - fromJSON: rebuilt from the JSON an introspection query returned.
// and the element-by-element comparison of the two.

import (
	"fmt"
	"math/big"
	"sort"
	"strconv"
	"strings"

	"github.com/vektah/gqlparser/v2/ast"
	"github.com/vektah/gqlparser/v2/parser"
)

type MInputValue struct {
	Name         string
	Desc         *string
	Type         string
	Default      *string    // GraphQL-formatted text (JSON side) ...
	DefaultAST   *ast.Value // ... or the AST value (reference side)
	IsDeprecated bool
	Reason       *string
}

type MField struct {
	Name         string
	Desc         *string
	Args         []MInputValue
	Type         string
	IsDeprecated bool
	Reason       *string
}

type MEnumValue struct {
	Name         string
	Desc         *string
	IsDeprecated bool
	Reason       *string
}

type MType struct {
	Kind                                                                      string
	Name                                                                      string
	Desc                                                                      *string
	SpecifiedBy                                                               *string
	IsOneOf                                                                   bool
	Fields                                                                    []MField // nil = null / not applicable
	InputFields                                                               []MInputValue
	EnumValues                                                                []MEnumValue
	Interfaces                                                                []string
	PossibleTypes                                                             []string
	HasFields, HasInputFields, HasEnumValues, HasInterfaces, HasPossibleTypes bool // JSON side: value was a list (not null)
	BuiltIn                                                                   bool
}

type MDirective struct {
	Name         string
	Desc         *string
	Locations    []string
	Args         []MInputValue
	IsRepeatable bool
	BuiltIn      bool
}

type MSchema struct {
	Desc                          *string
	Query, Mutation, Subscription *string
	Types                         map[string]*MType
	TypeOrder                     []string
	Directives                    map[string]*MDirective
	DirOrder                      []string
}

// Variant says what an introspection query asked for, so that only that is compared.
type Variant struct {
	Name              string
	IncludeDeprecated bool // fields / enumValues / args / inputFields
	InputDeprecation  bool // isDeprecated+deprecationReason selected on __InputValue
	Extras            bool // isRepeatable, isOneOf selected
	ArgsFiltered      bool // the query passed includeDeprecated to args / inputFields (spec: default false filters)
}

const defaultDeprecationReason = "No longer supported"

func strp(s string) *string { return &s }

func renderASTType(t *ast.Type) string {
	if t == nil {
		return "<nil>"
	}
	var s string
	if t.Elem != nil {
		s = "[" + renderASTType(t.Elem) + "]"
	} else {
		s = t.NamedType
	}
	if t.NonNull {
		s += "!"
	}
	return s
}

// own deprecation of an element = its own @deprecated directive.
func ownDeprecation(dl ast.DirectiveList) (bool, *string) {
	for _, d := range dl {
		if d.Name != "deprecated" {
			continue
		}
		for _, a := range d.Arguments {
			if a.Name == "reason" && a.Value != nil {
				if a.Value.Kind == ast.NullValue {
					return true, nil
				}
				return true, strp(a.Value.Raw)
			}
		}
		return true, strp(defaultDeprecationReason)
	}
	return false, nil
}

func descPtr(s string) *string {
	if s == "" {
		return nil
	}
	return &s
}

func astInputValue(name, desc string, t *ast.Type, def *ast.Value, dl ast.DirectiveList) MInputValue {
	dep, reason := ownDeprecation(dl)
	return MInputValue{Name: name, Desc: descPtr(desc), Type: renderASTType(t), DefaultAST: def, IsDeprecated: dep, Reason: reason}
}

// fromAST builds the reference description. Deprecated elements are always included here;
// the comparison filters them according to the variant.
func fromAST(s *ast.Schema) *MSchema { return fromASTOpt(s, false) }

// the types and directives of gqlparser's prelude
var preludeTypes = map[string]bool{"Int": true, "Float": true, "String": true, "Boolean": true, "ID": true}
var preludeDirectives = map[string]bool{"defer": true, "include": true, "skip": true, "deprecated": true, "specifiedBy": true, "oneOf": true}

// fromASTOpt: with preludeOnly, only the prelude's own definitions count as built-in (presence
// check); everything a plugin injects (federation's _Any, _Entity, _Service, Query._service,
// Query._entities, its directives) is then compared exactly like a user-defined element.
func fromASTOpt(s *ast.Schema, preludeOnly bool) *MSchema {
	m := &MSchema{Types: map[string]*MType{}, Directives: map[string]*MDirective{}, Desc: descPtr(s.Description)}
	if s.Query != nil {
		m.Query = strp(s.Query.Name)
	}
	if s.Mutation != nil {
		m.Mutation = strp(s.Mutation.Name)
	}
	if s.Subscription != nil {
		m.Subscription = strp(s.Subscription.Name)
	}
	for name, def := range s.Types {
		t := &MType{Kind: string(def.Kind), Name: name, Desc: descPtr(def.Description), BuiltIn: def.BuiltIn}
		if preludeOnly {
			t.BuiltIn = preludeTypes[name] || strings.HasPrefix(name, "__")
		}
		switch def.Kind {
		case ast.Object, ast.Interface:
			t.Fields = []MField{}
			for _, f := range def.Fields {
				if strings.HasPrefix(f.Name, "__") {
					continue // meta fields are never listed
				}
				dep, reason := ownDeprecation(f.Directives)
				mf := MField{Name: f.Name, Desc: descPtr(f.Description), Type: renderASTType(f.Type), IsDeprecated: dep, Reason: reason, Args: []MInputValue{}}
				for _, a := range f.Arguments {
					mf.Args = append(mf.Args, astInputValue(a.Name, a.Description, a.Type, a.DefaultValue, a.Directives))
				}
				t.Fields = append(t.Fields, mf)
			}
			t.Interfaces = append([]string{}, def.Interfaces...)
		case ast.InputObject:
			t.InputFields = []MInputValue{}
			for _, f := range def.Fields {
				t.InputFields = append(t.InputFields, astInputValue(f.Name, f.Description, f.Type, f.DefaultValue, f.Directives))
			}
			for _, d := range def.Directives {
				if d.Name == "oneOf" {
					t.IsOneOf = true
				}
			}
		case ast.Enum:
			t.EnumValues = []MEnumValue{}
			for _, ev := range def.EnumValues {
				dep, reason := ownDeprecation(ev.Directives)
				t.EnumValues = append(t.EnumValues, MEnumValue{Name: ev.Name, Desc: descPtr(ev.Description), IsDeprecated: dep, Reason: reason})
			}
		case ast.Scalar:
			for _, d := range def.Directives {
				if d.Name == "specifiedBy" {
					for _, a := range d.Arguments {
						if a.Name == "url" {
							t.SpecifiedBy = strp(a.Value.Raw)
						}
					}
				}
			}
		}
		m.Types[name] = t
	}
	// possible types, computed here from the definitions (not with ast.Schema.GetPossibleTypes)
	for name, def := range s.Types {
		switch def.Kind {
		case ast.Union:
			m.Types[name].PossibleTypes = append([]string{}, def.Types...)
		case ast.Interface:
			pt := []string{}
			for on, od := range s.Types {
				if od.Kind != ast.Object {
					continue
				}
				for _, in := range od.Interfaces {
					if in == name {
						pt = append(pt, on)
					}
				}
			}
			sort.Strings(pt)
			m.Types[name].PossibleTypes = pt
		}
	}
	for name, d := range s.Directives {
		md := &MDirective{Name: name, Desc: descPtr(d.Description), IsRepeatable: d.IsRepeatable, Args: []MInputValue{}}
		for _, l := range d.Locations {
			md.Locations = append(md.Locations, string(l))
		}
		for _, a := range d.Arguments {
			md.Args = append(md.Args, astInputValue(a.Name, a.Description, a.Type, a.DefaultValue, a.Directives))
		}
		if d.Position != nil && d.Position.Src != nil && d.Position.Src.BuiltIn {
			md.BuiltIn = true
		}
		if preludeOnly {
			md.BuiltIn = preludeDirectives[name]
		}
		m.Directives[name] = md
	}
	return m
}

// ---------------------------------------------------------------------------------------
// JSON side

type jTypeRef struct {
	Kind   *string   `json:"kind"`
	Name   *string   `json:"name"`
	OfType *jTypeRef `json:"ofType"`
}

type jInputValue struct {
	Name              *string   `json:"name"`
	Description       *string   `json:"description"`
	Type              *jTypeRef `json:"type"`
	DefaultValue      *string   `json:"defaultValue"`
	IsDeprecated      *bool     `json:"isDeprecated"`
	DeprecationReason *string   `json:"deprecationReason"`
}

type jField struct {
	Name              *string        `json:"name"`
	Description       *string        `json:"description"`
	Args              *[]jInputValue `json:"args"`
	Type              *jTypeRef      `json:"type"`
	IsDeprecated      *bool          `json:"isDeprecated"`
	DeprecationReason *string        `json:"deprecationReason"`
}

type jEnumValue struct {
	Name              *string `json:"name"`
	Description       *string `json:"description"`
	IsDeprecated      *bool   `json:"isDeprecated"`
	DeprecationReason *string `json:"deprecationReason"`
}

type jType struct {
	Kind           *string        `json:"kind"`
	Name           *string        `json:"name"`
	Description    *string        `json:"description"`
	SpecifiedByURL *string        `json:"specifiedByURL"`
	IsOneOf        *bool          `json:"isOneOf"`
	Fields         *[]jField      `json:"fields"`
	InputFields    *[]jInputValue `json:"inputFields"`
	Interfaces     *[]jTypeRef    `json:"interfaces"`
	EnumValues     *[]jEnumValue  `json:"enumValues"`
	PossibleTypes  *[]jTypeRef    `json:"possibleTypes"`
}

type jDirective struct {
	Name         *string        `json:"name"`
	Description  *string        `json:"description"`
	Locations    *[]string      `json:"locations"`
	Args         *[]jInputValue `json:"args"`
	IsRepeatable *bool          `json:"isRepeatable"`
}

type jSchema struct {
	Description      *string       `json:"description"`
	QueryType        *jTypeRef     `json:"queryType"`
	MutationType     *jTypeRef     `json:"mutationType"`
	SubscriptionType *jTypeRef     `json:"subscriptionType"`
	Types            *[]jType      `json:"types"`
	Directives       *[]jDirective `json:"directives"`
}

// rebuildErr collects structural problems found while rebuilding (malformed introspection JSON).
type rebuilder struct {
	problems []Diff
	kinds    map[string]string // named type -> kind as listed in types
}

func (r *rebuilder) problem(path, attr, exp, got string) {
	r.problems = append(r.problems, Diff{Elem: "structure", Attr: attr, Path: path, Exp: exp, Got: got})
}

// typeRef renders a JSON type reference as "[Int!]!" and records the named kinds it mentions.
func (r *rebuilder) typeRef(path string, t *jTypeRef, refs map[string]string) string {
	if t == nil {
		r.problem(path, "typeRef", "type reference", "null")
		return "<null>"
	}
	if t.Kind == nil {
		r.problem(path, "typeRef.kind", "kind", "null")
		return "<nokind>"
	}
	switch *t.Kind {
	case "NON_NULL", "LIST":
		if t.Name != nil {
			r.problem(path, "typeRef.name", "null name on wrapper", *t.Name)
		}
		if t.OfType == nil {
			r.problem(path, "typeRef.ofType", "ofType on wrapper "+*t.Kind, "null")
			return "<truncated>"
		}
		if *t.Kind == "NON_NULL" {
			if t.OfType.Kind != nil && *t.OfType.Kind == "NON_NULL" {
				r.problem(path, "typeRef.ofType", "non-null of non-null is impossible", "NON_NULL")
			}
			return r.typeRef(path, t.OfType, refs) + "!"
		}
		return "[" + r.typeRef(path, t.OfType, refs) + "]"
	default:
		if t.Name == nil {
			r.problem(path, "typeRef.name", "name on named type", "null")
			return "<noname>"
		}
		if t.OfType != nil {
			r.problem(path, "typeRef.ofType", "null ofType on named type", "non-null")
		}
		if refs != nil {
			if prev, ok := refs[*t.Name]; ok && prev != *t.Kind {
				r.problem(path, "typeRef.kind", prev, *t.Kind)
			}
			refs[*t.Name] = *t.Kind
		}
		return *t.Name
	}
}

func (r *rebuilder) inputValues(path string, l *[]jInputValue, v Variant, refs map[string]string) []MInputValue {
	out := []MInputValue{}
	if l == nil {
		return nil
	}
	for _, iv := range *l {
		if iv.Name == nil {
			r.problem(path, "inputValue.name", "name", "null")
			continue
		}
		p := path + "." + *iv.Name
		m := MInputValue{Name: *iv.Name, Desc: iv.Description, Type: r.typeRef(p, iv.Type, refs), Default: iv.DefaultValue}
		if v.InputDeprecation {
			if iv.IsDeprecated == nil {
				r.problem(p, "inputValue.isDeprecated", "boolean", "null")
			} else {
				m.IsDeprecated = *iv.IsDeprecated
			}
			m.Reason = iv.DeprecationReason
		}
		out = append(out, m)
	}
	return out
}

func (r *rebuilder) typ(t *jType, v Variant, refs map[string]string) *MType {
	if t.Kind == nil || t.Name == nil {
		r.problem("types[]", "type.name/kind", "name and kind", "null")
		return nil
	}
	p := *t.Name
	m := &MType{Kind: *t.Kind, Name: *t.Name, Desc: t.Description, SpecifiedBy: t.SpecifiedByURL}
	if t.IsOneOf != nil {
		m.IsOneOf = *t.IsOneOf
	}
	if t.Fields != nil {
		m.HasFields = true
		m.Fields = []MField{}
		for _, f := range *t.Fields {
			if f.Name == nil {
				r.problem(p, "field.name", "name", "null")
				continue
			}
			fp := p + "." + *f.Name
			mf := MField{Name: *f.Name, Desc: f.Description, Type: r.typeRef(fp, f.Type, refs), Reason: f.DeprecationReason}
			if f.IsDeprecated == nil {
				r.problem(fp, "field.isDeprecated", "boolean", "null")
			} else {
				mf.IsDeprecated = *f.IsDeprecated
			}
			if f.Args == nil {
				r.problem(fp, "field.args", "list", "null")
			}
			mf.Args = r.inputValues(fp, f.Args, v, refs)
			m.Fields = append(m.Fields, mf)
		}
	}
	if t.InputFields != nil {
		m.HasInputFields = true
		m.InputFields = r.inputValues(p, t.InputFields, v, refs)
	}
	if t.EnumValues != nil {
		m.HasEnumValues = true
		m.EnumValues = []MEnumValue{}
		for _, ev := range *t.EnumValues {
			if ev.Name == nil {
				r.problem(p, "enumValue.name", "name", "null")
				continue
			}
			me := MEnumValue{Name: *ev.Name, Desc: ev.Description, Reason: ev.DeprecationReason}
			if ev.IsDeprecated == nil {
				r.problem(p+"."+*ev.Name, "enumValue.isDeprecated", "boolean", "null")
			} else {
				me.IsDeprecated = *ev.IsDeprecated
			}
			m.EnumValues = append(m.EnumValues, me)
		}
	}
	named := func(what string, l *[]jTypeRef) []string {
		out := []string{}
		for _, tr := range *l {
			n := r.typeRef(p+"."+what, &tr, refs)
			if strings.ContainsAny(n, "[]!<") {
				r.problem(p+"."+what, what, "named type", n)
			}
			out = append(out, n)
		}
		return out
	}
	if t.Interfaces != nil {
		m.HasInterfaces = true
		m.Interfaces = named("interfaces", t.Interfaces)
	}
	if t.PossibleTypes != nil {
		m.HasPossibleTypes = true
		m.PossibleTypes = named("possibleTypes", t.PossibleTypes)
	}
	return m
}

// fromSchemaJSON rebuilds a description from the value of "__schema".
func fromSchemaJSON(js *jSchema, v Variant) (*MSchema, []Diff) {
	r := &rebuilder{}
	m := &MSchema{Types: map[string]*MType{}, Directives: map[string]*MDirective{}, Desc: js.Description}
	refs := map[string]string{}
	root := func(what string, t *jTypeRef) *string {
		if t == nil {
			return nil
		}
		if t.Name == nil {
			r.problem("__schema."+what, "rootType.name", "name", "null")
			return nil
		}
		// the root selections ask only for name; a root type must be an OBJECT
		refs[*t.Name] = "OBJECT"
		return t.Name
	}
	m.Query = root("queryType", js.QueryType)
	m.Mutation = root("mutationType", js.MutationType)
	m.Subscription = root("subscriptionType", js.SubscriptionType)
	if js.Types == nil {
		r.problem("__schema.types", "types", "list", "null")
	} else {
		for i := range *js.Types {
			t := r.typ(&(*js.Types)[i], v, refs)
			if t == nil {
				continue
			}
			if _, dup := m.Types[t.Name]; dup {
				r.problem(t.Name, "types.duplicate", "each type once", "listed twice")
			}
			m.Types[t.Name] = t
			m.TypeOrder = append(m.TypeOrder, t.Name)
		}
	}
	if js.Directives == nil {
		r.problem("__schema.directives", "directives", "list", "null")
	} else {
		for _, d := range *js.Directives {
			if d.Name == nil {
				r.problem("directives[]", "directive.name", "name", "null")
				continue
			}
			md := &MDirective{Name: *d.Name, Desc: d.Description}
			if d.Locations == nil {
				r.problem("@"+*d.Name, "directive.locations", "list", "null")
			} else {
				md.Locations = *d.Locations
			}
			if d.Args == nil {
				r.problem("@"+*d.Name, "directive.args", "list", "null")
			}
			md.Args = r.inputValues("@"+*d.Name, d.Args, v, refs)
			if v.Extras {
				if d.IsRepeatable == nil {
					r.problem("@"+*d.Name, "directive.isRepeatable", "boolean", "null")
				} else {
					md.IsRepeatable = *d.IsRepeatable
				}
			}
			if _, dup := m.Directives[md.Name]; dup {
				r.problem("@"+md.Name, "directives.duplicate", "each directive once", "listed twice")
			}
			m.Directives[md.Name] = md
			m.DirOrder = append(m.DirOrder, md.Name)
		}
	}
	// closure: every referenced named type is listed, with the kind the reference claims
	names := make([]string, 0, len(refs))
	for n := range refs {
		names = append(names, n)
	}
	sort.Strings(names)
	for _, n := range names {
		t, ok := m.Types[n]
		if !ok {
			r.problem(n, "closure.missingType", "referenced type listed in __schema.types", "absent")
			continue
		}
		if t.Kind != refs[n] {
			r.problem(n, "closure.kind", t.Kind, refs[n])
		}
	}
	return m, r.problems
}

// ---------------------------------------------------------------------------------------
// comparison

type Diff struct {
	Elem string // element kind: schema, type, objectField, interfaceField, fieldArg, inputField, enumValue, directive, directiveArg, structure
	Attr string
	Path string
	Exp  string
	Got  string
	// classification helpers
	Class string // a specific named class when recognised, else ""
}

func (d Diff) Signature(variant string) string {
	if d.Class != "" {
		return d.Class
	}
	return "mismatch:" + variant + ":" + d.Elem + "." + d.Attr
}

func (d Diff) String() string {
	return fmt.Sprintf("%s %s.%s: expected %s, got %s", d.Path, d.Elem, d.Attr, d.Exp, d.Got)
}

func ps(p *string) string {
	if p == nil {
		return "null"
	}
	return strconv.Quote(*p)
}

func eqp(a, b *string) bool {
	if a == nil || b == nil {
		return a == b
	}
	return *a == *b
}

type comparer struct {
	v     Variant
	ref   *MSchema
	diffs []Diff
}

func (c *comparer) add(elem, attr, path, exp, got, class string) {
	c.diffs = append(c.diffs, Diff{Elem: elem, Attr: attr, Path: path, Exp: exp, Got: got, Class: class})
}

// deprecation: isDeprecated exact; the reason is compared up to the directive's default
// (a deprecated element with a null reason and one with the default reason rebuild to the
// same schema; the spec makes deprecationReason optional). A non-deprecated element must
// have no reason.
func normReason(dep bool, r *string) string {
	if !dep {
		if r == nil {
			return "null"
		}
		return "reason on non-deprecated element: " + *r
	}
	if r == nil {
		return strconv.Quote(defaultDeprecationReason)
	}
	return strconv.Quote(*r)
}

// valueEqual compares a default value given as GraphQL text with the AST value.
func valueEqual(text string, want *ast.Value) (ok bool, why string) {
	doc, err := parser.ParseQuery(&ast.Source{Input: "{f(a: " + text + ")}"})
	if err != nil {
		return false, "not a GraphQL value: " + err.Error()
	}
	defer func() {
		if r := recover(); r != nil {
			ok, why = false, "not a single GraphQL value"
		}
	}()
	got := doc.Operations[0].SelectionSet[0].(*ast.Field).Arguments[0].Value
	if !sameValue(got, want) {
		return false, "denotes a different value"
	}
	return true, ""
}

func sameValue(a, b *ast.Value) bool {
	if a == nil || b == nil {
		return a == b
	}
	kind := func(k ast.ValueKind) ast.ValueKind {
		if k == ast.BlockValue {
			return ast.StringValue
		}
		return k
	}
	if kind(a.Kind) != kind(b.Kind) {
		return false
	}
	switch kind(a.Kind) {
	case ast.IntValue:
		x, ok1 := new(big.Int).SetString(a.Raw, 10)
		y, ok2 := new(big.Int).SetString(b.Raw, 10)
		return ok1 && ok2 && x.Cmp(y) == 0
	case ast.FloatValue:
		x, e1 := strconv.ParseFloat(a.Raw, 64)
		y, e2 := strconv.ParseFloat(b.Raw, 64)
		return e1 == nil && e2 == nil && x == y
	case ast.NullValue:
		return true
	case ast.ListValue:
		if len(a.Children) != len(b.Children) {
			return false
		}
		for i := range a.Children {
			if !sameValue(a.Children[i].Value, b.Children[i].Value) {
				return false
			}
		}
		return true
	case ast.ObjectValue:
		if len(a.Children) != len(b.Children) {
			return false
		}
		bm := map[string]*ast.Value{}
		for _, ch := range b.Children {
			bm[ch.Name] = ch.Value
		}
		if len(bm) != len(b.Children) {
			return false
		}
		for _, ch := range a.Children {
			bv, ok := bm[ch.Name]
			if !ok || !sameValue(ch.Value, bv) {
				return false
			}
		}
		return true
	default: // string, enum, boolean, variable
		return a.Raw == b.Raw
	}
}

func astValueText(v *ast.Value) string {
	if v == nil {
		return "none"
	}
	return v.String()
}

// encl carries the enclosing field's own deprecation when comparing field arguments.
type encl struct {
	isField bool
	dep     bool
	reason  *string
}

// inputValues compares a list of arguments / input fields. elem is fieldArg, inputField or
// directiveArg. filtered says whether deprecated ones must be absent.
func (c *comparer) inputValues(elem, path string, exp, got []MInputValue, filtered bool, e encl) {
	want := []MInputValue{}
	hidden := map[string]bool{}
	for _, iv := range exp {
		if filtered && iv.IsDeprecated {
			hidden[iv.Name] = true
			continue
		}
		want = append(want, iv)
	}
	gotIdx := map[string]int{}
	for i, iv := range got {
		if _, dup := gotIdx[iv.Name]; dup {
			c.add(elem, "duplicate", path+"."+iv.Name, "once", "twice", "")
		}
		gotIdx[iv.Name] = i
	}
	var gotKept []string
	for _, iv := range got {
		if hidden[iv.Name] {
			cls := map[string]string{
				"fieldArg":     "field-args-includeDeprecated-false-not-filtered",
				"directiveArg": "directive-args-includeDeprecated-false-not-filtered",
				"inputField":   "inputFields-includeDeprecated-false-not-filtered",
			}[elem]
			c.add(elem, "filter", path+"."+iv.Name, "absent (deprecated, includeDeprecated=false)", "listed", cls)
			continue
		}
		gotKept = append(gotKept, iv.Name)
	}
	var wantNames []string
	for _, iv := range want {
		wantNames = append(wantNames, iv.Name)
	}
	if strings.Join(wantNames, ",") != strings.Join(gotKept, ",") {
		c.add(elem, "names", path, strings.Join(wantNames, ","), strings.Join(gotKept, ","), "")
	}
	for _, w := range want {
		gi, ok := gotIdx[w.Name]
		if !ok {
			continue
		}
		g := got[gi]
		p := path + "." + w.Name
		if !eqp(w.Desc, g.Desc) {
			c.add(elem, "description", p, ps(w.Desc), ps(g.Desc), "")
		}
		if w.Type != g.Type {
			c.add(elem, "type", p, w.Type, g.Type, "")
		}
		switch {
		case w.DefaultAST == nil && g.Default != nil:
			c.add(elem, "defaultValue", p, "null", ps(g.Default), "")
		case w.DefaultAST != nil && g.Default == nil:
			c.add(elem, "defaultValue", p, astValueText(w.DefaultAST), "null", "")
		case w.DefaultAST != nil:
			if ok, why := valueEqual(*g.Default, w.DefaultAST); !ok {
				cls := ""
				if strings.HasPrefix(why, "not a GraphQL value") && w.DefaultAST.Kind == ast.StringValue && hasGoOnlyEscape(*g.Default) {
					cls = "default-string-printed-with-go-escapes"
				}
				c.add(elem, "defaultValue", p, astValueText(w.DefaultAST), ps(g.Default)+" ("+why+")", cls)
			}
		}
		if c.v.InputDeprecation {
			gotDep, gotReason := g.IsDeprecated, normReason(g.IsDeprecated, g.Reason)
			wantDep, wantReason := w.IsDeprecated, normReason(w.IsDeprecated, w.Reason)
			if gotDep != wantDep || gotReason != wantReason {
				cls := ""
				if elem == "fieldArg" && e.isField && gotDep == e.dep && (!gotDep || gotReasonMatchesEnclosing(g.Reason, e.reason)) {
					cls = "arg-deprecation-taken-from-enclosing-field"
				}
				if elem == "directiveArg" && wantDep && !gotDep && g.Reason == nil {
					cls = "directive-arg-deprecation-dropped"
				}
				attr := "isDeprecated"
				if gotDep == wantDep {
					attr = "deprecationReason"
				}
				c.add(elem, attr, p, fmt.Sprintf("isDeprecated=%v reason=%s", wantDep, wantReason), fmt.Sprintf("isDeprecated=%v reason=%s", gotDep, ps(g.Reason)), cls)
			}
		}
	}
}

// the argument reports exactly what the enclosing field's own directive would give
func gotReasonMatchesEnclosing(got, enclosing *string) bool {
	if got == nil {
		return true // InputValue.DeprecationReason gives null for a bare @deprecated
	}
	return enclosing != nil && *got == *enclosing
}

// hasGoOnlyEscape: the text contains a backslash escape that Go's strconv.Quote emits and
// GraphQL does not define (\a \v \x.. \U........).
func hasGoOnlyEscape(s string) bool {
	for i := 0; i+1 < len(s); i++ {
		if s[i] != '\\' {
			continue
		}
		switch s[i+1] {
		case 'a', 'v', 'x', 'U':
			return true
		}
		i++
	}
	return false
}

func setEq(a, b []string) (bool, string, string) {
	x := append([]string{}, a...)
	y := append([]string{}, b...)
	sort.Strings(x)
	sort.Strings(y)
	xs, ys := strings.Join(x, ","), strings.Join(y, ",")
	return xs == ys, xs, ys
}

// compare checks the rebuilt description against the reference: user-defined elements
// exactly, built-ins for presence.
func compare(ref, got *MSchema, v Variant) []Diff {
	c := &comparer{v: v, ref: ref}
	if !eqp(ref.Desc, got.Desc) {
		c.add("schema", "description", "schema", ps(ref.Desc), ps(got.Desc), "")
	}
	if !eqp(ref.Query, got.Query) {
		c.add("schema", "queryType", "schema", ps(ref.Query), ps(got.Query), "")
	}
	if !eqp(ref.Mutation, got.Mutation) {
		c.add("schema", "mutationType", "schema", ps(ref.Mutation), ps(got.Mutation), "")
	}
	if !eqp(ref.Subscription, got.Subscription) {
		c.add("schema", "subscriptionType", "schema", ps(ref.Subscription), ps(got.Subscription), "")
	}
	// types
	names := make([]string, 0, len(ref.Types))
	for n := range ref.Types {
		names = append(names, n)
	}
	sort.Strings(names)
	for _, n := range names {
		rt := ref.Types[n]
		gt, ok := got.Types[n]
		if !ok {
			if rt.BuiltIn {
				// built-ins: the ones the spec obliges a server to list are the introspection
				// types themselves and the built-in scalars in use; every built-in reference is
				// covered by the closure check of the rebuild. String and Boolean are always in
				// use (by the introspection types).
				if n == "String" || n == "Boolean" || strings.HasPrefix(n, "__") {
					c.add("type", "builtinMissing", n, "listed", "absent", "")
				}
				continue
			}
			c.add("type", "missing", n, "listed", "absent", "")
			continue
		}
		if rt.Kind != gt.Kind {
			c.add("type", "kind", n, rt.Kind, gt.Kind, "")
			continue
		}
		if rt.BuiltIn {
			continue
		}
		c.typ(rt, gt)
	}
	for _, n := range got.TypeOrder {
		if _, ok := ref.Types[n]; !ok {
			c.add("type", "phantom", n, "absent", "listed", "")
		}
	}
	// directives
	dnames := make([]string, 0, len(ref.Directives))
	for n := range ref.Directives {
		dnames = append(dnames, n)
	}
	sort.Strings(dnames)
	for _, n := range dnames {
		rd := ref.Directives[n]
		gd, ok := got.Directives[n]
		if !ok {
			if rd.BuiltIn {
				switch n {
				case "skip", "include", "deprecated", "specifiedBy":
					c.add("directive", "builtinMissing", "@"+n, "listed", "absent", "")
				}
				continue
			}
			c.add("directive", "missing", "@"+n, "listed", "absent", "")
			continue
		}
		if rd.BuiltIn {
			continue
		}
		p := "@" + n
		if !eqp(rd.Desc, gd.Desc) {
			c.add("directive", "description", p, ps(rd.Desc), ps(gd.Desc), "")
		}
		if ok, x, y := setEq(rd.Locations, gd.Locations); !ok || len(rd.Locations) != len(gd.Locations) {
			c.add("directive", "locations", p, x, y, "")
		}
		if v.Extras && rd.IsRepeatable != gd.IsRepeatable {
			c.add("directive", "isRepeatable", p, fmt.Sprint(rd.IsRepeatable), fmt.Sprint(gd.IsRepeatable), "")
		}
		c.inputValues("directiveArg", p, rd.Args, gd.Args, v.ArgsFiltered && !v.IncludeDeprecated, encl{})
	}
	for _, n := range got.DirOrder {
		if _, ok := ref.Directives[n]; !ok {
			c.add("directive", "phantom", "@"+n, "absent", "listed", "")
		}
	}
	return c.diffs
}

func (c *comparer) typ(rt, gt *MType) {
	n := rt.Name
	v := c.v
	if !eqp(rt.Desc, gt.Desc) {
		c.add("type", "description", n, ps(rt.Desc), ps(gt.Desc), "")
	}
	if !eqp(rt.SpecifiedBy, gt.SpecifiedBy) {
		c.add("type", "specifiedByURL", n, ps(rt.SpecifiedBy), ps(gt.SpecifiedBy), "")
	}
	if v.Extras && rt.IsOneOf != gt.IsOneOf {
		c.add("type", "isOneOf", n, fmt.Sprint(rt.IsOneOf), fmt.Sprint(gt.IsOneOf), "")
	}
	// lists that do not apply to the kind: null or empty are both "nothing"
	if rt.Fields == nil && len(gt.Fields) > 0 {
		c.add("type", "fields", n, "none for kind "+rt.Kind, fmt.Sprintf("%d fields", len(gt.Fields)), "")
	}
	if rt.InputFields == nil && len(gt.InputFields) > 0 {
		c.add("type", "inputFields", n, "none for kind "+rt.Kind, fmt.Sprintf("%d input fields", len(gt.InputFields)), "")
	}
	if rt.EnumValues == nil && len(gt.EnumValues) > 0 {
		c.add("type", "enumValues", n, "none for kind "+rt.Kind, fmt.Sprintf("%d values", len(gt.EnumValues)), "")
	}
	if rt.Interfaces == nil && len(gt.Interfaces) > 0 {
		c.add("type", "interfaces", n, "none for kind "+rt.Kind, strings.Join(gt.Interfaces, ","), "")
	}
	if rt.PossibleTypes == nil && len(gt.PossibleTypes) > 0 {
		c.add("type", "possibleTypes", n, "none for kind "+rt.Kind, strings.Join(gt.PossibleTypes, ","), "")
	}
	if rt.Fields != nil {
		elem := "objectField"
		if rt.Kind == "INTERFACE" {
			elem = "interfaceField"
		}
		if !gt.HasFields {
			c.add("type", "fields", n, "list", "null", "")
		}
		var want []MField
		for _, f := range rt.Fields {
			if !v.IncludeDeprecated && f.IsDeprecated {
				continue
			}
			want = append(want, f)
		}
		var wn, gn []string
		gi := map[string]int{}
		for _, f := range want {
			wn = append(wn, f.Name)
		}
		for i, f := range gt.Fields {
			gn = append(gn, f.Name)
			gi[f.Name] = i
		}
		if strings.Join(wn, ",") != strings.Join(gn, ",") {
			c.add(elem, "names", n, strings.Join(wn, ","), strings.Join(gn, ","), "")
		}
		for _, w := range want {
			i, ok := gi[w.Name]
			if !ok {
				continue
			}
			g := gt.Fields[i]
			p := n + "." + w.Name
			if !eqp(w.Desc, g.Desc) {
				c.add(elem, "description", p, ps(w.Desc), ps(g.Desc), "")
			}
			if w.Type != g.Type {
				c.add(elem, "type", p, w.Type, g.Type, "")
			}
			if w.IsDeprecated != g.IsDeprecated {
				c.add(elem, "isDeprecated", p, fmt.Sprint(w.IsDeprecated), fmt.Sprint(g.IsDeprecated), "")
			} else if normReason(w.IsDeprecated, w.Reason) != normReason(g.IsDeprecated, g.Reason) {
				c.add(elem, "deprecationReason", p, normReason(w.IsDeprecated, w.Reason), ps(g.Reason), "")
			}
			c.inputValues("fieldArg", p, w.Args, g.Args, v.ArgsFiltered && !v.IncludeDeprecated, encl{isField: true, dep: w.IsDeprecated, reason: w.Reason})
		}
	}
	if rt.InputFields != nil {
		if !gt.HasInputFields {
			c.add("type", "inputFields", n, "list", "null", "")
		}
		c.inputValues("inputField", n, rt.InputFields, gt.InputFields, v.ArgsFiltered && !v.IncludeDeprecated, encl{})
	}
	if rt.EnumValues != nil {
		if !gt.HasEnumValues {
			c.add("type", "enumValues", n, "list", "null", "")
		}
		var wn, gn []string
		gi := map[string]int{}
		var want []MEnumValue
		for _, ev := range rt.EnumValues {
			if !v.IncludeDeprecated && ev.IsDeprecated {
				continue
			}
			want = append(want, ev)
			wn = append(wn, ev.Name)
		}
		for i, ev := range gt.EnumValues {
			gn = append(gn, ev.Name)
			gi[ev.Name] = i
		}
		if strings.Join(wn, ",") != strings.Join(gn, ",") {
			c.add("enumValue", "names", n, strings.Join(wn, ","), strings.Join(gn, ","), "")
		}
		for _, w := range want {
			i, ok := gi[w.Name]
			if !ok {
				continue
			}
			g := gt.EnumValues[i]
			p := n + "." + w.Name
			if !eqp(w.Desc, g.Desc) {
				c.add("enumValue", "description", p, ps(w.Desc), ps(g.Desc), "")
			}
			if w.IsDeprecated != g.IsDeprecated {
				c.add("enumValue", "isDeprecated", p, fmt.Sprint(w.IsDeprecated), fmt.Sprint(g.IsDeprecated), "")
			} else if normReason(w.IsDeprecated, w.Reason) != normReason(g.IsDeprecated, g.Reason) {
				c.add("enumValue", "deprecationReason", p, normReason(w.IsDeprecated, w.Reason), ps(g.Reason), "")
			}
		}
	}
	if rt.Interfaces != nil {
		if !gt.HasInterfaces {
			c.add("type", "interfaces", n, "list", "null", "")
		}
		if ok, x, y := setEq(rt.Interfaces, gt.Interfaces); !ok || len(rt.Interfaces) != len(gt.Interfaces) {
			cls := ""
			if rt.Kind == "INTERFACE" && len(gt.Interfaces) == 0 {
				cls = "interface-kind-interfaces-empty"
			}
			c.add("type", "interfaces", n, x, y, cls)
		}
	}
	if rt.PossibleTypes != nil {
		if !gt.HasPossibleTypes {
			c.add("type", "possibleTypes", n, "list", "null", "")
		}
		if ok, x, y := setEq(rt.PossibleTypes, gt.PossibleTypes); !ok || len(rt.PossibleTypes) != len(gt.PossibleTypes) {
			c.add("type", "possibleTypes", n, x, y, c.possibleTypesClass(rt, gt))
		}
	}
}

// possibleTypesClass recognises one specific deviation: an INTERFACE whose possibleTypes are
// the expected object types plus interfaces that implement it (the spec: "they must be object
// types").
func (c *comparer) possibleTypesClass(rt, gt *MType) string {
	if rt.Kind != "INTERFACE" || c.ref == nil {
		return ""
	}
	want := map[string]bool{}
	for _, n := range rt.PossibleTypes {
		want[n] = true
	}
	seen := map[string]bool{}
	extras := 0
	for _, n := range gt.PossibleTypes {
		if seen[n] {
			return ""
		}
		seen[n] = true
		if want[n] {
			continue
		}
		t := c.ref.Types[n]
		if t == nil || t.Kind != "INTERFACE" {
			return ""
		}
		implements := false
		for _, i := range t.Interfaces {
			if i == rt.Name {
				implements = true
			}
		}
		if !implements {
			return ""
		}
		extras++
	}
	for n := range want {
		if !seen[n] {
			return ""
		}
	}
	if extras == 0 {
		return ""
	}
	return "interface-possibleTypes-lists-implementing-interface"
}

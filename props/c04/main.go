// C04: user-code failures are contained: null plus error at the field, never a crash.
// Bounded-exhaustive enumeration: operations (<= N selection nodes) x outcome plans
// (<= d deviations) x generator configurations, each executed on a server generated from
// the tree under test at check time and compared with a reference executor written from
// the specification.
package main

import (
	"os"
	"time"

	"verif/common"
	"verif/exech/driver"
	"verif/probe"
)

func main() {
	c := common.New("C04", "fault_enumeration")
	cfgs := []driver.ProbeConfig{driver.CfgDefault, driver.CfgWorker1, driver.CfgWorker2, driver.CfgFollowSchema, driver.CfgFieldDir}
	budget := 100 * time.Second
	if c.Tier == "thorough" {
		budget = 14 * time.Minute
		cfgs = append(cfgs, driver.CfgSplitFieldDir,
			driver.Opt("omit-slice-element-pointers", "omit_slice_element_pointers: true\n"),
			driver.Opt("resolvers-no-pointers", "resolvers_always_return_pointers: false\n"),
			driver.Opt("omit-getters", "omit_getters: true\n"),
			driver.Opt("omit-complexity", "omit_complexity: true\n"),
			driver.Opt("fields-no-pointers", "struct_fields_always_pointers: false\n"),
		)
	}
	// second probe schema (nested lists, object-valued struct fields, method-bound fields
	// with and without context, map-backed model): fault points on those code paths
	shapeCfgs := []driver.ProbeConfig{driver.CfgDefault, driver.CfgWorker1}
	if c.Tier == "thorough" {
		shapeCfgs = append(shapeCfgs, driver.CfgFollowSchema, driver.CfgFieldDir,
			driver.Opt("resolvers-no-pointers", "resolvers_always_return_pointers: false\n"))
	}
	t0 := time.Now()
	all := driver.BuildBoth(cfgs, shapeCfgs)
	var builds []driver.Built
	for _, b := range all {
		if b.Probe == "exec" {
			builds = append(builds, b)
		}
	}
	c.Cov["build_s"] = time.Since(t0).Seconds()
	for _, b := range all {
		if b.Err != nil {
			probe.Cleanup()
			common.Broken("config %s: %v", b.Cfg.Name, b.Err)
		}
	}
	if rp := common.ReplayArg(); rp != "" {
		code := driver.Replay(all, rp)
		probe.Cleanup()
		os.Exit(code)
	}
	results := driver.RunMass("C04", c.Tier, all, budget)
	driver.Report(c, results)
	// transport / multi-payload fault scenarios, explored with a small preemption bound
	sts := driver.RunSched("C04", c.Tier, builds, 60*time.Second)
	var sexec int64
	var srows []map[string]any
	for _, st := range sts {
		if st.Broken != "" {
			probe.Cleanup()
			common.Broken("%s", st.Broken)
		}
		sexec += st.Execs
		srows = append(srows, map[string]any{"scenario": st.Scenario, "schedules": st.Execs, "distinct_outcomes": st.NOutcomes, "exhaustive": st.Exhaustive})
		for _, f := range st.Found {
			c.Report(f.Sig+"@"+st.Scenario, f.Msg, f)
		}
	}
	c.Cov["scenario_results"] = srows
	c.Cov["scenario_schedules"] = sexec
	if v, ok := c.Cov["evaluations"].(int64); ok {
		c.Cov["evaluations"] = v + sexec
	}
	c.Cov["rule"] = "fault enumeration: every operation of the enumerated space (<= N nodes) and of a hand-written fault corpus, times every single fault point of its reference run - each resolver call, each @fd directive call, each field-interceptor call, each custom-scalar argument unmarshal - times {error, panic} (plus the null / list-length / concrete-type deviations of C01), in several worker_limit and layout configurations; a case is non-trivial when it invoked a resolver or carries a fault; oracle: response equals the reference with that position failing (null + one error at its path, ordinary propagation, everything else unchanged), recover hook invoked exactly once per injected panic, no panic escapes any goroutine (crash state of the controlled runtime)"
	c.Cov["bounds"] = map[string]any{"tier": c.Tier, "configs": len(cfgs), "shapes_configs": len(shapeCfgs)}
	c.Assume = []string{
		"default schedule per case (interleavings of failing siblings are explored by C06's corpus)",
		"serialization-time panics, subscription events and deferred groups are exercised by the transport scenarios of this check (see scenario_results)",
	}
	probe.Cleanup()
	c.Finish()
}

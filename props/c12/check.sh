#!/bin/bash
tier=$1; shift
export VERIF_ARGS="$*"
export VERIF_RACE_RUNS=30
exec /verif/tools/instr_check.sh c12 "$tier" \
  github.com/99designs/gqlgen/graphql github.com/99designs/gqlgen/graphql/executor \
  github.com/99designs/gqlgen/graphql/handler github.com/99designs/gqlgen/graphql/handler/transport \
  github.com/99designs/gqlgen/graphql/handler/extension github.com/99designs/gqlgen/graphql/handler/lru

// C12: streamed HTTP responses (SSE, multipart/mixed) are well-framed under any timing.
// Model checking of the real transport.SSE.Do / transport.MultipartMixed.Do under the
// controlled scheduler: payload production, keep-alive ticks, aggregator flush ticks and
// client disconnects are interleaved exhaustively up to a deviation bound.
package main

import (
	"bytes"
	"context"
	"encoding/json"
	"fmt"
	"io"
	"mime"
	"mime/multipart"
	"net/http/httptest"
	"strings"
	"time"

	"github.com/99designs/gqlgen/graphql/handler"
	"github.com/99designs/gqlgen/graphql/handler/transport"

	"verif/explore"
	"verif/handschema"
	"verif/rig"
	"verif/vrt"
	"verif/vrt/vtime"
)

type scen struct {
	Transport  string `json:"transport"` // sse | mixed
	Query      string `json:"query"`
	Payloads   int    `json:"payloads"` // subscription payloads / incremental payloads
	KeepAlive  bool   `json:"keepalive"`
	Disconnect bool   `json:"disconnect"`
	Special    bool   `json:"special"` // payload strings containing framing look-alikes
	// RawWS: payload values that contain raw JSON whitespace (line feeds), as marshalers built
	// on json.Encoder (graphql.MarshalMap / MarshalAny, custom scalars) emit them
	RawWS bool `json:"raw_whitespace,omitempty"`
	// CtxCancel: the request context is cancelled by the SERVER side (a timeout middleware's
	// deadline) at an arbitrary moment while the client stays connected: whatever the
	// operation still produces must be framed completely
	CtxCancel bool `json:"server_side_cancel,omitempty"`
	// Huge: payloads larger than any plausible write buffer (8 KiB strings)
	Huge bool `json:"huge_payloads,omitempty"`
	// Prose: 23 KiB string payloads full of commas, semicolons and blanks (nothing inside a
	// JSON string is a structural position)
	Prose bool `json:"prose_payloads,omitempty"`
	// Paths: incremental payloads carry paths of DEcreasing length (a nested deferred group
	// that completes before the group enclosing it), the last payload the shortest
	Paths bool `json:"decreasing_paths,omitempty"`
	// Pair: a second request ({name}) is served concurrently by the same server; both
	// streams must be well-framed and carry their own payloads
	Pair bool `json:"pair,omitempty"`
	// Sequel: once the handler has returned, the SAME request is served again by the same
	// server; nothing of the second request may reach the first one's ResponseWriter
	Sequel bool `json:"sequel,omitempty"`
}

type inst struct {
	sc           scen
	rw           *rig.RW
	rw2          *rig.RW
	log2         *handschema.Log
	log          *handschema.Log
	emitted      []string // payload data produced by the operation, in order
	handlerDone  bool
	lateWrites   int
	disconnected bool
}

var rawSpecials = []string{"\"50% done %d %s %% %!\"", "{\"k\":1}\n", "[1,\n 2]", "\"t\"\r\n"}

var specials = []string{`"a\nb"`, `"data: x\r\n\r\n--graphql--"`, `"event: complete"`}

func (in *inst) Body() {
	in.log = &handschema.Log{}
	hs := handschema.New(in.log)
	in.rw = rig.NewRW()
	ctx, cancel := context.WithCancel(context.Background())
	if in.sc.Disconnect {
		vrt.AddEnv(&vrt.EnvEvent{Name: "client-disconnect", Enabled: func() bool { return !in.handlerDone }, Fire: func() { in.disconnected = true; cancel() }})
	}
	if in.sc.CtxCancel {
		vrt.AddEnv(&vrt.EnvEvent{Name: "server-side-cancel", Max: 1, Enabled: func() bool { return !in.handlerDone }, Fire: func() { cancel() }})
	}
	hs.Sub = func(ctx context.Context, field string, args map[string]any, call int) handschema.SubStep {
		vrt.Yield("produce")
		if ctx.Err() != nil || call >= in.sc.Payloads {
			return handschema.SubStep{Kind: "end"}
		}
		st := handschema.SubStep{Kind: "emit", Val: call + 1}
		if in.sc.Special {
			st.Raw = specials[call%len(specials)]
		}
		if in.sc.RawWS {
			st.Raw = rawSpecials[call%len(rawSpecials)]
		}
		if in.sc.Huge {
			st.Raw = `"` + strings.Repeat(string(rune('a'+call%26)), 8192) + `"`
		}
		if in.sc.Prose {
			st.Raw = `"` + strings.Repeat("lorem ipsum, dolor sit amet; ", 800) + fmt.Sprint(call) + `"`
		}
		return st
	}
	if in.sc.Transport == "mixed" {
		for i := 0; i < in.sc.Payloads; i++ {
			d := fmt.Sprintf(`{"inc":%d}`, i+1)
			if in.sc.Special {
				d = fmt.Sprintf(`{"inc":%s}`, specials[i%len(specials)])
			}
			if in.sc.RawWS {
				d = fmt.Sprintf("{\"inc\":%s}", rawSpecials[i%len(rawSpecials)])
			}
			if in.sc.Huge {
				d = fmt.Sprintf("{\"inc\":%q}", strings.Repeat(string(rune('a'+i%26)), 8192))
			}
			if in.sc.Prose {
				d = fmt.Sprintf("{\"inc\":%q}", strings.Repeat("lorem ipsum, dolor sit amet; ", 800)+fmt.Sprint(i))
			}
			hs.Incremental = append(hs.Incremental, d)
			if in.sc.Paths {
				hs.IncPaths = append(hs.IncPaths, []string{"a", "b", "c", "d"}[:in.sc.Payloads-i])
			}
		}
		hs.Hook = func(ctx context.Context, object, field string, args map[string]any) { vrt.Yield("resolve") }
		hs.IncHook = func(k int) { vrt.Yield("produce-inc") }
	}
	srv := handler.New(hs)
	accept := "text/event-stream"
	if in.sc.Transport == "sse" {
		t := transport.SSE{}
		if in.sc.KeepAlive {
			t.KeepAlivePingInterval = 10 * time.Second
			if !vrt.Active() {
				t.KeepAlivePingInterval = 20 * time.Microsecond // free-running race pass: real ticks
			}
		}
		srv.AddTransport(t)
	} else {
		srv.AddTransport(transport.MultipartMixed{Boundary: "graphql"})
		accept = "multipart/mixed"
	}
	body, _ := json.Marshal(map[string]any{"query": in.sc.Query})
	req := httptest.NewRequest("POST", "/query", bytes.NewReader(body)).WithContext(ctx)
	req.Header.Set("Accept", accept)
	req.Header.Set("Content-Type", "application/json")
	req = req.WithContext(handschema.WithLog(req.Context(), in.log))
	var pairDone chan struct{}
	if in.sc.Pair {
		in.rw2 = rig.NewRW()
		in.log2 = &handschema.Log{}
		pairDone = make(chan struct{}, 1)
		b2, _ := json.Marshal(map[string]any{"query": "{name big}"})
		r2 := httptest.NewRequest("POST", "/query", bytes.NewReader(b2)).WithContext(handschema.WithLog(ctx, in.log2))
		r2.Header.Set("Accept", accept)
		r2.Header.Set("Content-Type", "application/json")
		vrt.Go("second-request", func() {
			srv.ServeHTTP(in.rw2, r2)
			vrt.Send(pairDone, struct{}{})
		})
	}
	srv.ServeHTTP(in.rw, req)
	if pairDone != nil {
		vrt.Recv(pairDone)
	}
	in.handlerDone = true
	in.lateWrites = len(in.rw.Writes)
	cancel() // net/http cancels the request context once the handler has returned
	if in.sc.Sequel {
		in.rw2 = rig.NewRW()
		in.log2 = &handschema.Log{}
		ctx2, cancel2 := context.WithCancel(context.Background())
		r2 := httptest.NewRequest("POST", "/query", bytes.NewReader(body)).WithContext(handschema.WithLog(ctx2, in.log2))
		r2.Header.Set("Accept", accept)
		r2.Header.Set("Content-Type", "application/json")
		srv.ServeHTTP(in.rw2, r2)
		cancel2()
	}
}

func (in *inst) Obs() string {
	if in.rw == nil {
		return "<not started>"
	}
	return fmt.Sprintf("%d|%q|conc=%d|late=%d", in.rw.Status, in.rw.Buf.String(), len(in.rw.Concurrent), len(in.rw.Writes)-in.lateWrites)
}

func (in *inst) Check(x *explore.Exec) (string, string) {
	tp := in.sc.Transport
	if x.Out.Kind == "crash" {
		return tp + ":crash:" + firstLine(x.Out.CrashVal), x.Out.Crash
	}
	if x.Out.Kind == "horizon" {
		return "", ""
	}
	if len(in.rw.Concurrent) > 0 {
		return tp + ":concurrent-responsewriter-use", strings.Join(in.rw.Concurrent, "; ")
	}
	if !x.Out.MainDone {
		return tp + ":handler-never-returns", fmt.Sprintf("handler blocked forever: %v", x.Out.Blocked)
	}
	if n := len(in.rw.Writes) - in.lateWrites; n > 0 {
		return tp + ":write-after-handler-returned", fmt.Sprintf("%d writes to the ResponseWriter after the handler returned: %q", n, in.rw.Writes[in.lateWrites:])
	}
	if in.rw.Status != 200 {
		// request-level rejection (invalid query on multipart/mixed): a plain JSON error body
		var v map[string]any
		if err := json.Unmarshal(in.rw.Buf.Bytes(), &v); err != nil || v["errors"] == nil {
			return tp + ":bad-error-body", fmt.Sprintf("status %d body %q", in.rw.Status, in.rw.Buf.String())
		}
		return "", ""
	}
	var sig, msg string
	if tp == "sse" {
		sig, msg = in.checkSSE()
	} else {
		sig, msg = in.checkMixed()
	}
	if sig == "" && (in.sc.Pair || in.sc.Sequel) && in.rw2 != nil {
		// judge the second stream with the same parsers
		other := &inst{sc: in.sc, rw: in.rw2, log: in.log2, handlerDone: true}
		other.lateWrites = len(in.rw2.Writes)
		if len(in.rw2.Concurrent) > 0 {
			return tp + ":concurrent-responsewriter-use", strings.Join(in.rw2.Concurrent, "; ")
		}
		if tp == "sse" {
			sig, msg = other.checkSSE()
		} else {
			sig, msg = other.checkMixed()
		}
		if sig != "" {
			sig, msg = sig+":second-stream", "concurrent request's stream: "+msg
		}
	}
	return sig, msg
}

func firstLine(s string) string {
	if i := strings.IndexByte(s, '\n'); i >= 0 {
		s = s[:i]
	}
	if len(s) > 80 {
		s = s[:80]
	}
	return s
}

// --- strict SSE parser (WHATWG event stream, restricted to what a GraphQL-SSE client accepts)

type sseBlock struct {
	comment bool
	event   string
	data    []string
}

func parseSSE(b []byte) ([]sseBlock, string) {
	s := string(b)
	if strings.ContainsAny(s, "\r") {
		return nil, "stream contains CR (gqlgen frames with LF only)"
	}
	if s == "" {
		return nil, ""
	}
	if !strings.HasSuffix(s, "\n\n") {
		return nil, fmt.Sprintf("stream does not end with a complete block: %q", tail(s))
	}
	var out []sseBlock
	for _, blk := range strings.Split(strings.TrimSuffix(s, "\n\n"), "\n\n") {
		var sb sseBlock
		nComment, nField := 0, 0
		for _, line := range strings.Split(blk, "\n") {
			switch {
			case line == "":
				return nil, fmt.Sprintf("empty line inside block %q", blk)
			case strings.HasPrefix(line, ":"):
				nComment++
			case strings.HasPrefix(line, "event: "):
				if sb.event != "" {
					return nil, fmt.Sprintf("two event fields in one block %q", blk)
				}
				sb.event = strings.TrimPrefix(line, "event: ")
				nField++
			case strings.HasPrefix(line, "data: "):
				sb.data = append(sb.data, strings.TrimPrefix(line, "data: "))
				nField++
			default:
				return nil, fmt.Sprintf("unknown line %q in block %q", line, blk)
			}
		}
		if nComment > 0 && nField > 0 {
			return nil, fmt.Sprintf("comment/ping spliced into an event: %q", blk)
		}
		sb.comment = nComment > 0
		out = append(out, sb)
	}
	return out, ""
}

func tail(s string) string {
	if len(s) > 60 {
		return s[len(s)-60:]
	}
	return s
}

func (in *inst) checkSSE() (string, string) {
	blocks, perr := parseSSE(in.rw.Buf.Bytes())
	if perr != "" {
		return "sse:malformed-stream", perr + " stream=" + fmt.Sprintf("%q", in.rw.Buf.String())
	}
	var nexts []string
	completes := 0
	for i, b := range blocks {
		if b.comment {
			continue
		}
		switch b.event {
		case "next":
			if completes > 0 {
				return "sse:event-after-complete", fmt.Sprintf("block %d after complete", i)
			}
			if len(b.data) != 1 {
				return "sse:next-without-single-data", fmt.Sprintf("%v", b)
			}
			if !json.Valid([]byte(b.data[0])) {
				return "sse:next-data-not-json", b.data[0]
			}
			nexts = append(nexts, b.data[0])
		case "complete":
			completes++
			if len(b.data) != 0 {
				return "sse:complete-with-data", fmt.Sprintf("%v", b)
			}
		default:
			return "sse:unknown-event", b.event
		}
	}
	if completes != 1 {
		return "sse:complete-count", fmt.Sprintf("%d complete events in %q", completes, in.rw.Buf.String())
	}
	if last := blocks[len(blocks)-1]; last.event != "complete" {
		return "sse:complete-not-last", fmt.Sprintf("%q", in.rw.Buf.String())
	}
	// each payload exactly once, in order
	want := in.wantPayloads()
	if in.log.Count("exec:") == 0 {
		// request rejected before execution: exactly one next event carrying errors only
		var v map[string]any
		if len(nexts) != 1 || json.Unmarshal([]byte(nexts[0]), &v) != nil || v["errors"] == nil || v["data"] != nil {
			return "sse:rejected-request-framing", fmt.Sprintf("%v", nexts)
		}
		return "", ""
	}
	if len(nexts) != len(want) {
		return "sse:payload-count", fmt.Sprintf("want %d next events %v, got %d: %v", len(want), want, len(nexts), nexts)
	}
	for i := range want {
		var got struct {
			Data json.RawMessage `json:"data"`
		}
		json.Unmarshal([]byte(nexts[i]), &got)
		if !jsonEqual(got.Data, []byte(want[i])) {
			return "sse:payload-mismatch", fmt.Sprintf("event %d: want data %s got %s", i, want[i], nexts[i])
		}
	}
	return "", ""
}

func jsonEqual(a, b []byte) bool {
	var x, y any
	if json.Unmarshal(a, &x) != nil || json.Unmarshal(b, &y) != nil {
		return false
	}
	xa, _ := json.Marshal(x)
	ya, _ := json.Marshal(y)
	return bytes.Equal(xa, ya)
}

// wantPayloads: the data of every payload the operation produced, from the schema's log.
func (in *inst) wantPayloads() []string {
	var out []string
	for _, e := range in.log.Snapshot() {
		if strings.HasPrefix(e, "payload:") {
			out = append(out, strings.TrimPrefix(e, "payload:"))
		}
	}
	return out
}

func (in *inst) checkMixed() (string, string) {
	ct := in.rw.SentHdr.Get("Content-Type")
	mt, params, err := mime.ParseMediaType(ct)
	if err != nil || mt != "multipart/mixed" || params["boundary"] == "" {
		return "mixed:bad-content-type", ct
	}
	raw := in.rw.Buf.Bytes()
	boundary := params["boundary"]
	closing := "--" + boundary + "--"
	// a delimiter is CRLF + "--" + boundary; raw CR/LF cannot occur inside JSON strings, so
	// counting CRLF-anchored occurrences counts real delimiters only
	if n := bytes.Count(raw, []byte("\r\n"+closing)); n != 1 && !in.disconnected {
		return "mixed:closing-boundary-count", fmt.Sprintf("%d closing boundaries in %q", n, raw)
	}
	if !in.disconnected && !bytes.HasSuffix(bytes.TrimRight(raw, "\r\n"), []byte(closing)) {
		return "mixed:closing-boundary-not-last", fmt.Sprintf("%q", raw)
	}
	mr := multipart.NewReader(bytes.NewReader(raw), boundary)
	var datas []string
	first := true
	for {
		p, err := mr.NextPart()
		if err == io.EOF {
			break
		}
		if err != nil {
			if in.disconnected {
				break
			}
			return "mixed:mime-parse-error", fmt.Sprintf("%v in %q", err, raw)
		}
		if p.Header.Get("Content-Type") != "application/json" {
			return "mixed:part-content-type", fmt.Sprintf("%v", p.Header)
		}
		b, _ := io.ReadAll(p)
		if !json.Valid(b) {
			return "mixed:part-not-json", string(b)
		}
		var v struct {
			Data        json.RawMessage `json:"data"`
			Incremental []struct {
				Data json.RawMessage `json:"data"`
			} `json:"incremental"`
		}
		json.Unmarshal(b, &v)
		if first {
			if v.Data == nil {
				return "mixed:initial-not-first", string(b)
			}
			datas = append(datas, string(v.Data))
			first = false
			continue
		}
		if v.Data != nil {
			return "mixed:initial-payload-repeated", string(b)
		}
		for _, inc := range v.Incremental {
			datas = append(datas, string(inc.Data))
		}
	}
	want := in.wantPayloads()
	if in.disconnected {
		// delivered payloads must be a prefix of what was produced
		if len(datas) > len(want) {
			return "mixed:payload-count", fmt.Sprintf("want ≤%d got %d", len(want), len(datas))
		}
		want = want[:len(datas)]
	}
	if len(datas) != len(want) {
		return "mixed:payload-count", fmt.Sprintf("want %d payloads %v, got %d: %v in %q", len(want), want, len(datas), datas, raw)
	}
	for i := range want {
		if !jsonEqual([]byte(datas[i]), []byte(want[i])) {
			return "mixed:payload-mismatch", fmt.Sprintf("payload %d: want %s got %s", i, want[i], datas[i])
		}
	}
	return "", ""
}

func scenarios(tier string) []*explore.Scenario {
	var out []*explore.Scenario
	add := func(s scen) {
		s2 := s
		name := fmt.Sprintf("%s q=%s k=%d ka=%v dc=%v sp=%v", s.Transport, s.Query, s.Payloads, s.KeepAlive, s.Disconnect, s.Special) + map[bool]string{true: " rawws", false: ""}[s.RawWS] + map[bool]string{true: " paths", false: ""}[s.Paths] + map[bool]string{true: " huge", false: ""}[s.Huge] + map[bool]string{true: " prose", false: ""}[s.Prose] + map[bool]string{true: " ctxcancel", false: ""}[s.CtxCancel]
		if s.Pair {
			name += " pair"
		}
		if s.Sequel {
			name += " sequel"
		}
		var bound *int
		if s.Pair || s.Sequel {
			// two whole requests interleave: explored with fewer deviations
			b := 2
			if tier == "thorough" {
				b = 3
			}
			bound = &b
		}
		out = append(out, &explore.Scenario{Name: name, Meta: s2, Bound: bound, New: func() explore.Instance { return &inst{sc: s2} }})
	}
	maxK := 2
	if tier == "thorough" {
		maxK = 3
	}
	for _, ka := range []bool{false, true} {
		for _, dc := range []bool{false, true} {
			add(scen{Transport: "sse", Query: "{a name}", KeepAlive: ka, Disconnect: dc})
			add(scen{Transport: "sse", Query: "{nosuchfield}", KeepAlive: ka, Disconnect: dc})
			for k := 0; k <= maxK; k++ {
				add(scen{Transport: "sse", Query: "subscription{s2}", Payloads: k, KeepAlive: ka, Disconnect: dc, Special: k > 0 && ka})
			}
		}
	}
	// payload contents with raw JSON whitespace
	add(scen{Transport: "sse", Query: "subscription{s2}", Payloads: 2, RawWS: true})
	add(scen{Transport: "sse", Query: "subscription{s2}", Payloads: 4, RawWS: true})
	add(scen{Transport: "mixed", Query: "{a name}", Payloads: 4, RawWS: true})
	add(scen{Transport: "sse", Query: "subscription{s2}", Payloads: 3, KeepAlive: true, RawWS: true})
	add(scen{Transport: "mixed", Query: "{a name}", Payloads: 2, RawWS: true})
	add(scen{Transport: "sse", Query: "subscription{s2}", Payloads: 2, KeepAlive: true, Huge: true})
	add(scen{Transport: "mixed", Query: "{a name}", Payloads: 2, Huge: true})
	add(scen{Transport: "sse", Query: "subscription{s2}", Payloads: 2, Prose: true})
	add(scen{Transport: "mixed", Query: "{a name}", Payloads: 2, Prose: true})
	// more payloads in ONE flush than any plausible batch cap (default schedule: no flush tick
	// fires, everything is queued until the operation is done)
	out = append(out, &explore.Scenario{Name: "mixed q={a name} k=70 one batch", DefaultOnly: true, Meta: scen{Transport: "mixed", Query: "{a name}", Payloads: 70},
		New: func() explore.Instance { return &inst{sc: scen{Transport: "mixed", Query: "{a name}", Payloads: 70}} }})
	out = append(out, &explore.Scenario{Name: "sse q=subscription{s2} k=70", DefaultOnly: true, Meta: scen{Transport: "sse", Query: "subscription{s2}", Payloads: 70},
		New: func() explore.Instance { return &inst{sc: scen{Transport: "sse", Query: "subscription{s2}", Payloads: 70}} }})
	add(scen{Transport: "mixed", Query: "{a name}", Payloads: 2, CtxCancel: true})
	add(scen{Transport: "mixed", Query: "{a name}", Payloads: 1, CtxCancel: true})
	add(scen{Transport: "mixed", Query: "{a name}", Payloads: 2, Paths: true})
	add(scen{Transport: "mixed", Query: "{a name}", Payloads: 3, Paths: true})
	// two streams served concurrently by one server
	// the same request twice in a row on one server (keep-alive timers of the first are still around)
	add(scen{Transport: "sse", Query: "subscription{s2}", Payloads: 1, KeepAlive: true, Sequel: true})
	add(scen{Transport: "sse", Query: "{a name}", KeepAlive: true, Sequel: true})
	add(scen{Transport: "mixed", Query: "{a name}", Payloads: 1, Sequel: true})
	add(scen{Transport: "sse", Query: "{a name}", Pair: true})
	add(scen{Transport: "sse", Query: "subscription{s2}", Payloads: 1, Pair: true})
	add(scen{Transport: "mixed", Query: "{a name}", Payloads: 1, Pair: true})
	add(scen{Transport: "mixed", Query: "{a name}", Payloads: 0, Pair: true})
	for _, dc := range []bool{false, true} {
		add(scen{Transport: "mixed", Query: "{nosuchfield}", Disconnect: dc})
		for k := 0; k <= maxK; k++ {
			add(scen{Transport: "mixed", Query: "{a name}", Payloads: k, Disconnect: dc, Special: k == maxK})
		}
	}
	return out
}

func vrtTicks(tier string) {
	vtime.MaxTicks = 3
	if tier == "thorough" {
		vtime.MaxTicks = 3
	}
}

func main() {
	explore.Main(explore.Options{
		Prop:  "C12",
		Level: "model_checking",
		Cfg: func(tier string) explore.Config {
			vrtTicks(tier)
			if tier == "thorough" {
				return explore.Config{Bound: 4, MaxSteps: 5000}
			}
			return explore.Config{Bound: 3, MaxSteps: 5000}
		},
		Scenarios: scenarios,
		BudgetQ:   150 * time.Second,
		BudgetT:   12 * time.Minute,
		Assume: []string{
			"timing is abstracted to orderings of visible operations (writes, flushes, lock acquisitions, ticks, payload production, cancellation); each is atomic",
			"net/http is replaced by a recording ResponseWriter whose Write/Flush are two-step so that overlapping calls are observable",
			"memory-level data races are outside the cooperative scheduler's view",
		},
	})
}

package main

import (
	"context"
	"encoding/json"
	"fmt"
	"net/http"
	"net/http/httptest"
	"net/url"
	"reflect"
	"sort"
	"strings"

	"github.com/vektah/gqlparser/v2/ast"
	"github.com/vektah/gqlparser/v2/formatter"
	"github.com/vektah/gqlparser/v2/gqlerror"
	"github.com/vektah/gqlparser/v2/parser"

	"github.com/99designs/gqlgen/graphql"
	"github.com/99designs/gqlgen/graphql/handler"
	"github.com/99designs/gqlgen/graphql/handler/extension"
	"github.com/99designs/gqlgen/graphql/handler/lru"
	"github.com/99designs/gqlgen/graphql/handler/transport"

	"verif/handschema"
)

// Config is one server configuration. ApqKind: own (map cache written here), mapcache (the real
// graphql.MapCache), lru (the real handler/lru with ApqCap entries).
type Config struct {
	Name    string `json:"name"`
	ApqKind string `json:"apq_kind"`
	ApqCap  int    `json:"apq_cap"` // 0 = unbounded
	QC      bool   `json:"query_cache"`
	QCCap   int    `json:"query_cache_cap"`
	// Deep configs get the full length in the all-sequences phase, the others one less (own-map
	// and lru3 behave like mapcache and lru2 there; the BFS phase treats all configs alike).
	Deep bool `json:"all_sequences_full_length"`
	// Family configs also run the near-equal text families (alphabet.go).
	Family bool `json:"family"`
	// HeavyQuick: the family configs on which the long-text families run in the quick tier.
	HeavyQuick bool `json:"heavy_families_in_quick"`
	// Neighbours: further OperationParameterMutator extensions (accept everything) around APQ.
	Neighbours bool `json:"other_parameter_mutators"`
}

var configs = []Config{
	{Name: "own-map", ApqKind: "own"},
	{Name: "mapcache", ApqKind: "mapcache", Deep: true, Family: true, HeavyQuick: true},
	{Name: "mapcache+mutators", ApqKind: "mapcache", Neighbours: true},
	{Name: "lru1", ApqKind: "lru", ApqCap: 1, Deep: true, Family: true},
	{Name: "lru2", ApqKind: "lru", ApqCap: 2, Deep: true},
	{Name: "lru3", ApqKind: "lru", ApqCap: 3},
	{Name: "mapcache+qc2", ApqKind: "mapcache", QC: true, QCCap: 2, Deep: true, Family: true, HeavyQuick: true},
	{Name: "lru2+qc1", ApqKind: "lru", ApqCap: 2, QC: true, QCCap: 1, Deep: true, Family: true},
	{Name: "lru1+qc2", ApqKind: "lru", ApqCap: 1, QC: true, QCCap: 2, Family: true},
}

func configByName(n string) (Config, bool) {
	for _, c := range configs {
		if c.Name == n {
			return c, true
		}
	}
	return Config{}, false
}

// ownMap is the inspectable cache written for this check.
type ownMap struct{ m map[string]string }

func (o *ownMap) Get(_ context.Context, k string) (string, bool) { v, ok := o.m[k]; return v, ok }
func (o *ownMap) Add(_ context.Context, k string, v string)      { o.m[k] = v }

// rec sits between gqlgen and the real cache. It mirrors every Add/Get into an `ordered` (so the
// contents and recency order of an LRU are known without probing it) and checks every answer
// of the real cache against the mirror.
type rec[T any] struct {
	label    string
	inner    graphql.Cache[T]
	mirror   *ordered[T]
	same     func(a, b T) bool
	show     func(T) string
	problems []Problem
	calls    int
	log      []cacheCall // calls made by gqlgen since the harness last cleared it
}

type cacheCall struct {
	Op  string // Get | Add
	Key string
	Val any // Add only
}

func (r *rec[T]) Get(ctx context.Context, k string) (T, bool) {
	r.calls++
	r.log = append(r.log, cacheCall{Op: "Get", Key: k})
	v, ok := r.inner.Get(ctx, k)
	mv, mok := r.mirror.Get(k)
	if ok != mok || (ok && !r.same(v, mv)) {
		r.problems = append(r.problems, Problem{
			Sig:  "cache-answer-differs-from-policy|" + r.label,
			What: fmt.Sprintf("%s cache Get(%s): real=(%s,%v) reference policy=(%s,%v)", r.label, nick(k), r.show(v), ok, r.show(mv), mok)})
		if ok { // follow the real cache from here on
			r.mirror.Add(k, v)
		} else {
			r.mirror.Del(k)
		}
	}
	return v, ok
}

func (r *rec[T]) Add(ctx context.Context, k string, v T) {
	r.calls++
	r.log = append(r.log, cacheCall{Op: "Add", Key: k, Val: v})
	r.inner.Add(ctx, k, v)
	r.mirror.Add(k, v)
}

// survivors asks the REAL cache directly, after n fresh dummy entries have been added to it, which
// of the candidate keys it still holds. This disturbs recency, so it is the last thing done to a
// server. Get never evicts, so the order of the questions does not matter.
func (r *rec[T]) survivors(universe []string, n int, dummy T) map[string]T {
	ctx := context.Background()
	for j := 1; j <= n; j++ {
		r.inner.Add(ctx, fmt.Sprintf("\x00dummy-%d", j), dummy)
	}
	out := map[string]T{}
	ask := func(k string) {
		if v, ok := r.inner.Get(ctx, k); ok {
			out[k] = v
		}
	}
	for _, k := range universe {
		ask(k)
	}
	for _, k := range r.mirror.Keys {
		ask(k)
	}
	return out
}

// observed reconstructs the real cache state from survivors[i] = keys still present after i fresh
// Adds: contents = survivors[0]; for a bounded cache the key that disappears first is the least
// recent one, and so on. The result is an `ordered` holding the REAL contents and order.
func observed[T any](label string, cap int, surv []map[string]T) (*ordered[T], []Problem) {
	o := newOrdered[T](cap)
	var ps []Problem
	keys := make([]string, 0, len(surv[0]))
	for k := range surv[0] {
		keys = append(keys, k)
	}
	sort.Strings(keys)
	gone := map[string]int{}
	for _, k := range keys {
		o.Val[k] = surv[0][k]
		gone[k] = len(surv) // never
		for i := 1; i < len(surv); i++ {
			if _, ok := surv[i][k]; !ok {
				gone[k] = i
				break
			}
		}
		if cap > 0 && gone[k] > cap {
			ps = append(ps, Problem{Sig: "cache-keeps-entry-beyond-capacity|" + label,
				What: fmt.Sprintf("%s: %s is still present after %d fresh Adds to a cache of capacity %d", label, nick(k), cap, cap)})
		}
	}
	if cap > 0 && len(keys) > cap {
		ps = append(ps, Problem{Sig: "cache-keeps-entry-beyond-capacity|" + label,
			What: fmt.Sprintf("%s: %d entries in a cache of capacity %d", label, len(keys), cap)})
	}
	// most recent first = disappears last
	sort.SliceStable(keys, func(a, b int) bool { return gone[keys[a]] > gone[keys[b]] })
	for i := 1; i < len(keys) && cap > 0; i++ {
		if gone[keys[i]] == gone[keys[i-1]] {
			ps = append(ps, Problem{Sig: "cache-evicts-two-entries-for-one-add|" + label,
				What: fmt.Sprintf("%s: %s and %s disappear with the same fresh Add", label, nick(keys[i-1]), nick(keys[i]))})
		}
	}
	o.Keys = keys
	return o, ps
}

type Problem struct {
	Sig  string `json:"sig"`
	What string `json:"what"`
	Step int    `json:"step"`
}

type Obs struct {
	Status int      `json:"status"`
	Class  string   `json:"class"` // exec | notfound | mismatch | malformed | other
	Data   string   `json:"data,omitempty"`
	Msg    string   `json:"msg,omitempty"`
	Log    []string `json:"log,omitempty"`
	Body   string   `json:"body"`
}

type Step struct {
	Event string `json:"event"`
	Pred  Pred   `json:"predicted"`
	Obs   Obs    `json:"observed"`
	State string `json:"state_after"`
	Model string `json:"model_after"`
}

type Result struct {
	Key       string // real state (observed), the BFS state key
	MirrorKey string // reference policy applied to the cache calls gqlgen made
	Steps     []Step
	Problems  []Problem
}

// worker owns one handschema instance (stateless apart from its log).
type worker struct {
	hs *handschema.Schema
}

func newWorker() *worker { return &worker{hs: handschema.New(&handschema.Log{})} }

type server struct {
	srv   *handler.Server
	apq   *rec[string]
	qc    *rec[*ast.QueryDocument]
	real  any // the real APQ cache object
	cfg   Config
	probe []string
}

func (w *worker) newServer(cfg Config) *server {
	s := &server{cfg: cfg}
	var inner graphql.Cache[string]
	switch cfg.ApqKind {
	case "own":
		inner = &ownMap{m: map[string]string{}}
	case "mapcache":
		inner = graphql.MapCache[string]{}
	case "lru":
		inner = lru.New[string](cfg.ApqCap)
	default:
		panic("unknown apq kind " + cfg.ApqKind)
	}
	s.real = inner
	s.apq = &rec[string]{label: "apq/" + cfg.ApqKind, inner: inner, mirror: newOrdered[string](cfg.ApqCap),
		same: func(a, b string) bool { return a == b }, show: nick}
	s.srv = handler.New(w.hs)
	s.srv.AddTransport(transport.GET{})
	s.srv.AddTransport(transport.POST{})
	if cfg.QC {
		s.qc = &rec[*ast.QueryDocument]{label: "querycache/lru", inner: lru.New[*ast.QueryDocument](cfg.QCCap),
			mirror: newOrdered[*ast.QueryDocument](cfg.QCCap),
			same:   func(a, b *ast.QueryDocument) bool { return a == b },
			show:   func(d *ast.QueryDocument) string { return fmt.Sprintf("%p", d) }}
		s.srv.SetQueryCache(s.qc)
	}
	if cfg.Neighbours {
		s.srv.Use(passMutator{"before"})
	}
	s.srv.Use(extension.AutomaticPersistedQuery{Cache: s.apq})
	if cfg.Neighbours {
		s.srv.Use(passMutator{"after"})
	}
	return s
}

// passMutator is an application extension that looks at the request parameters and accepts every
// request. Installed before and after APQ (config field Neighbours): a rejection by APQ must stay
// a rejection whatever else is installed.
type passMutator struct{ name string }

func (p passMutator) ExtensionName() string                          { return "pass-" + p.name }
func (p passMutator) Validate(schema graphql.ExecutableSchema) error { return nil }
func (p passMutator) MutateOperationParameters(ctx context.Context, raw *graphql.RawParams) *gqlerror.Error {
	return nil
}

func (s *server) stateKey() string {
	if s.qc == nil {
		return stateKey[*ast.QueryDocument](s.apq.mirror, nil)
	}
	return stateKey(s.apq.mirror, s.qc.mirror)
}

// directEntries reads the real cache where it can be read (map caches); nil otherwise.
func (s *server) directEntries() map[string]string {
	switch c := s.real.(type) {
	case *ownMap:
		return c.m
	case graphql.MapCache[string]:
		return c
	}
	return nil
}

func buildRequest(e Event) *http.Request {
	ext := ""
	if e.PQ != "" {
		ext = `{"persistedQuery":` + e.PQ + `}`
	}
	if e.Method == "GET" {
		v := url.Values{}
		if e.Text != "" {
			v.Set("query", e.Text)
		}
		if ext != "" {
			v.Set("extensions", ext)
		}
		if e.Op != "" {
			v.Set("operationName", e.Op)
		}
		r, _ := http.NewRequest("GET", "/query?"+v.Encode(), nil)
		return r
	}
	var parts []string
	if e.Text != "" {
		q, _ := json.Marshal(e.Text)
		parts = append(parts, `"query":`+string(q))
	}
	if ext != "" {
		parts = append(parts, `"extensions":`+ext)
	}
	if e.Op != "" {
		parts = append(parts, `"operationName":`+jsonOf(e.Op))
	}
	r, _ := http.NewRequest("POST", "/query", strings.NewReader("{"+strings.Join(parts, ",")+"}"))
	r.Header.Set("Content-Type", "application/json")
	return r
}

func (w *worker) send(s *server, e Event) Obs {
	w.hs.Log.Reset()
	rr := httptest.NewRecorder()
	s.srv.ServeHTTP(rr, buildRequest(e))
	o := Obs{Status: rr.Code, Body: rr.Body.String()}
	// only the execution events count (handschema may log more, e.g. payloads)
	for _, l := range w.hs.Log.Snapshot() {
		if strings.HasPrefix(l, "exec:") || strings.HasPrefix(l, "rootfield:") || strings.HasPrefix(l, "resolver:") {
			o.Log = append(o.Log, l)
		}
	}
	var resp struct {
		Data   json.RawMessage `json:"data"`
		Errors []struct {
			Message    string         `json:"message"`
			Extensions map[string]any `json:"extensions"`
		} `json:"errors"`
	}
	if err := json.Unmarshal(rr.Body.Bytes(), &resp); err != nil {
		o.Class, o.Msg = "other", "unparseable response body"
		return o
	}
	if len(resp.Errors) == 0 && len(resp.Data) > 0 && string(resp.Data) != "null" {
		o.Class, o.Data = "exec", string(resp.Data)
		return o
	}
	if len(resp.Errors) > 0 {
		o.Msg = resp.Errors[0].Message
		code, _ := resp.Errors[0].Extensions["code"].(string)
		switch {
		case o.Msg == "PersistedQueryNotFound" || code == "PERSISTED_QUERY_NOT_FOUND":
			o.Class = "notfound"
		case strings.Contains(o.Msg, "hash does not match"):
			o.Class = "mismatch"
		case strings.Contains(o.Msg, "invalid APQ extension") || strings.Contains(o.Msg, "unsupported APQ version"):
			o.Class = "malformed"
		default:
			o.Class = "other"
		}
		if len(resp.Data) > 0 && string(resp.Data) != "null" {
			o.Class, o.Data = "exec", string(resp.Data) // data next to errors still means something ran
		}
		return o
	}
	o.Class, o.Msg = "other", "neither data nor errors"
	return o
}

// judge compares one observed step with the prediction of the reference model.
// diverged: implementation and model already disagreed about the state before this step (that was
// reported when the shorter history was judged), so only the response is compared here.
func judge(e Event, pred Pred, o Obs, before, after, modelAfter string, diverged bool, history []Event) []Problem {
	var ps []Problem
	bad := func(sig, format string, a ...any) {
		ps = append(ps, Problem{Sig: sig + "|" + e.Kind, What: fmt.Sprintf("event %q: ", e.Name) + fmt.Sprintf(format, a...)})
	}
	executes := false
	switch pred.Class {
	case "exec":
		spec := meaning(pred.Text, e.Op)
		if want := spec.Data[e.Method]; want != "" {
			executes = true
			if o.Class != "exec" || o.Data != want {
				bad("response-differs-from-model", "must execute %s (data %s), got class=%s data=%s msg=%q", nick(pred.Text), want, o.Class, o.Data, o.Msg)
			}
			if !reflect.DeepEqual(o.Log, spec.Log[e.Method]) {
				bad("resolver-log-differs-from-model", "must run exactly %v, log is %v", spec.Log[e.Method], o.Log)
			}
		} else if o.Class != "other" {
			// the text is one that is answered with its own (validation / transport) error
			bad("response-differs-from-model", "must behave like plain %s (an error of that text), got class=%s data=%s msg=%q", nick(pred.Text), o.Class, o.Data, o.Msg)
		}
	case "notfound":
		if o.Class != "notfound" {
			bad("response-differs-from-model", "must be answered PersistedQueryNotFound, got class=%s data=%s msg=%q", o.Class, o.Data, o.Msg)
		}
	case "rejected":
		if o.Class == "exec" {
			bad("response-differs-from-model", "must be rejected, got data=%s", o.Data)
		}
	}
	if !executes && len(o.Log) != 0 {
		bad("executed-although-nothing-may-run", "log is %v", o.Log)
	}
	if pred.Class == "rejected" && before != after {
		bad("state-changed-by-rejected-request", "state %s -> %s", before, after)
	}
	if after != modelAfter && !diverged {
		bad("state-differs-from-model", "implementation state %s, model state %s", after, modelAfter)
	}
	// the statement, read directly off the history (no cache policy involved): whatever a
	// hash-only request runs must have been sent earlier together with that very hash
	if e.Ext == "ok" && e.Text == "" && o.Class == "exec" {
		okHist := false
		for _, h := range history {
			if h.Ext == "ok" && h.Text != "" && h.Hash == e.Hash {
				if d := meaning(h.Text, e.Op).Data[e.Method]; d != "" && d == o.Data {
					okHist = true
				}
			}
		}
		if !okHist {
			bad("hash-only-ran-text-never-sent-with-that-hash", "hash %s produced data %s", nick(e.Hash), o.Data)
		}
	}
	return ps
}

// exactKeys: the caches may only ever be addressed with the request's own strings, byte for byte -
// the APQ cache with the client's hash (and, on Add, the client's text), the query-document cache
// with the exact text that is being run (and, on Add, the parse of that text). This does not need
// two texts that actually collide under some lossy key: any key that is not the text shows here.
func exactKeys(s *server, e Event, pred Pred) []Problem {
	var ps []Problem
	bad := func(sig, format string, a ...any) {
		ps = append(ps, Problem{Sig: sig + "|" + e.Kind, What: fmt.Sprintf("event %q: ", e.Name) + fmt.Sprintf(format, a...)})
	}
	for _, c := range s.apq.log {
		// (an extension the model reads as malformed has no hash to compare a lookup with; what
		// matters there is that nothing is stored, which is checked here, and the state comparison)
		if (e.Ext == "ok" && c.Key != e.Hash) || (e.Ext != "ok" && c.Op == "Add") {
			bad("apq-cache-addressed-with-key-that-is-not-the-request-hash", "%s(%s), the request's hash is %s", c.Op, nick(c.Key), nick(e.Hash))
		}
		if v, _ := c.Val.(string); c.Op == "Add" && v != e.Text {
			bad("apq-cache-stores-text-that-is-not-the-request-text", "Add(%s, %s), the request's text is %s", nick(c.Key), nick(v), nick(e.Text))
		}
	}
	if s.qc != nil {
		var fresh string
		for _, c := range s.qc.log {
			want := e.Text // a request that is not predicted to run anything can only be parsing its own text
			if pred.Class == "exec" {
				want = pred.Text
			}
			if c.Key != want {
				bad("query-cache-addressed-with-key-that-is-not-the-text", "%s(%s), the text being run is %s", c.Op, nick(c.Key), nick(want))
				continue
			}
			if c.Op == "Add" {
				if fresh == "" {
					if d, err := parser.ParseQuery(&ast.Source{Input: want}); err == nil {
						fresh = canonDoc(d)
					}
				}
				if d, _ := c.Val.(*ast.QueryDocument); d == nil || canonDoc(d) != fresh {
					bad("query-cache-stores-document-that-is-not-the-parse-of-the-text", "Add(%s, ...)", nick(c.Key))
				}
			}
		}
	}
	return ps
}

// universe of keys worth probing at the end of a trace.
func probeUniverse(alpha []Event) []string {
	set := map[string]bool{"": true}
	for _, e := range alpha {
		if e.Ext == "ok" {
			set[e.Hash] = true
		}
		if e.Text != "" {
			set[e.Text] = true
		}
	}
	var out []string
	for k := range set {
		out = append(out, k)
	}
	sort.Strings(out)
	return out
}

func canonDoc(d *ast.QueryDocument) string {
	var b strings.Builder
	formatter.NewFormatter(&b).FormatQueryDocument(d)
	return b.String()
}

// runTrace replays evs on a FRESH server and judges the last step and the state reached (every
// proper prefix is a history of its own that the enumeration judges separately); with allSteps
// (replay mode) every step is judged.
func (w *worker) runTrace(cfg Config, evs []Event, universe []string, allSteps bool) Result {
	s := w.newServer(cfg)
	m := newModel(cfg)
	var res Result
	diverged := false
	valsBefore := map[string]string{}
	for i, e := range evs {
		before := s.stateKey()
		diverged = before != m.Key()
		if i == len(evs)-1 {
			for k, v := range s.apq.mirror.Val {
				valsBefore[k] = v
			}
		}
		s.apq.log = nil
		if s.qc != nil {
			s.qc.log = nil
		}
		o := w.send(s, e)
		pred := m.Step(e)
		after := s.stateKey()
		if allSteps || i == len(evs)-1 {
			for _, p := range exactKeys(s, e, pred) {
				p.Step = i
				res.Problems = append(res.Problems, p)
			}
			for _, p := range judge(e, pred, o, before, after, m.Key(), diverged, evs[:i]) {
				p.Step = i
				res.Problems = append(res.Problems, p)
			}
		}
		res.Steps = append(res.Steps, Step{Event: e.Name, Pred: pred, Obs: o, State: after, Model: m.Key()})
	}
	res.MirrorKey = s.stateKey()
	last := "initial"
	if len(evs) > 0 {
		last = evs[len(evs)-1].Kind
	}
	end := func(sig, format string, a ...any) {
		res.Problems = append(res.Problems, Problem{Sig: sig + "|" + last, What: fmt.Sprintf(format, a...), Step: len(evs) - 1})
	}
	// Observe the REAL state reached. Contents: ask the real caches. Recency order of the bounded
	// ones: replay the same history on further fresh servers and see what i = 1..cap fresh Adds push
	// out. (The recorder's mirror alone would only show what the reference policy would hold.)
	rounds := 0
	if cfg.ApqCap > 0 {
		rounds = cfg.ApqCap
	}
	if cfg.QC && cfg.QCCap > rounds {
		rounds = cfg.QCCap
	}
	survA := make([]map[string]string, rounds+1)
	survQ := make([]map[string]*ast.QueryDocument, rounds+1)
	for i := 0; i <= rounds; i++ {
		si := s
		if i > 0 {
			si = w.newServer(cfg)
			for _, e := range evs {
				w.send(si, e)
			}
			if si.stateKey() != res.MirrorKey {
				end("replay-not-deterministic", "replay %d of the same history recorded %s instead of %s", i, si.stateKey(), res.MirrorKey)
			}
		}
		survA[i] = si.apq.survivors(universe, i, "dummy")
		if si.qc != nil {
			survQ[i] = si.qc.survivors(universe, i, &ast.QueryDocument{})
		}
	}
	realA, ps := observed(s.apq.label, cfg.ApqCap, survA)
	var realQ *ordered[*ast.QueryDocument]
	if s.qc != nil {
		var psq []Problem
		realQ, psq = observed(s.qc.label, cfg.QCCap, survQ)
		ps = append(ps, psq...)
	}
	res.Key = stateKey(realA, realQ)
	if a, b := stateKey[*ast.QueryDocument](realA, nil), stateKey[*ast.QueryDocument](s.apq.mirror, nil); a != b {
		ps = append(ps, Problem{Sig: "cache-state-differs-from-policy|" + s.apq.label,
			What: fmt.Sprintf("the real APQ cache holds %s; the reference policy applied to the calls gqlgen made gives %s", a, b)})
	}
	if s.qc != nil {
		if a, b := stateKey(newOrdered[string](0), realQ), stateKey(newOrdered[string](0), s.qc.mirror); a != b {
			ps = append(ps, Problem{Sig: "cache-state-differs-from-policy|" + s.qc.label,
				What: fmt.Sprintf("the real query cache holds %s; the reference policy applied to the calls gqlgen made gives %s", a, b)})
		}
	}
	if mk := m.Key(); res.Key != mk && !diverged && res.Key != res.MirrorKey {
		// (when real == mirror the per-step comparison above has already said so)
		end("state-differs-from-model", "real state %s, model state %s", res.Key, mk)
	}
	// invariant on the state reached: every entry binds lower-case-hex sha256(text) to text
	for _, k := range realA.Keys {
		if v := realA.Val[k]; sha(v) != k && (allSteps || valsBefore[k] != v) { // entries made by the last step
			end("cache-entry-key-is-not-sha256-of-its-text", "APQ cache entry %s -> %s (key %q, text %q)", nick(k), nick(v), k, v)
		}
	}
	if direct := s.directEntries(); direct != nil {
		if !reflect.DeepEqual(direct, realA.Val) {
			end("map-contents-differ-from-answers|"+s.apq.label, "real map %v, answers to Get %v", direct, realA.Val)
		}
		for k, v := range direct {
			if sha(v) != k && (allSteps || valsBefore[k] != v) {
				end("cache-entry-key-is-not-sha256-of-its-text", "APQ cache entry (read from the map) key %q text %q", k, v)
			}
		}
	}
	// query-document cache: every entry is the parse of its key
	if realQ != nil {
		for _, k := range realQ.Keys {
			fresh, err := parser.ParseQuery(&ast.Source{Input: k})
			if err != nil || canonDoc(fresh) != canonDoc(realQ.Val[k]) {
				end("query-cache-entry-is-not-the-parse-of-its-key", "query cache key %s holds a different document", nick(k))
			}
		}
	}
	for _, p := range append(append(ps, s.apq.problems...), qcProblems(s)...) {
		p.Sig += "|" + last
		p.Step = len(evs) - 1
		res.Problems = append(res.Problems, p)
	}
	return res
}

func qcProblems(s *server) []Problem {
	if s.qc == nil {
		return nil
	}
	return s.qc.problems
}

package main

import (
	"context"
	"encoding/json"
	"fmt"
	"net/http"
	"net/http/httptest"
	"net/url"
	"reflect"
	"sort"
	"strings"

	"github.com/vektah/gqlparser/v2/ast"
	"github.com/vektah/gqlparser/v2/formatter"
	"github.com/vektah/gqlparser/v2/parser"

	"github.com/99designs/gqlgen/graphql"
	"github.com/99designs/gqlgen/graphql/handler"
	"github.com/99designs/gqlgen/graphql/handler/extension"
	"github.com/99designs/gqlgen/graphql/handler/lru"
	"github.com/99designs/gqlgen/graphql/handler/transport"

	"verif/handschema"
)

// Config is one server configuration. ApqKind: own (map cache written here), mapcache (the real
// graphql.MapCache), lru (the real handler/lru with ApqCap entries).
type Config struct {
	Name    string `json:"name"`
	ApqKind string `json:"apq_kind"`
	ApqCap  int    `json:"apq_cap"` // 0 = unbounded
	QC      bool   `json:"query_cache"`
	QCCap   int    `json:"query_cache_cap"`
}

var configs = []Config{
	{Name: "own-map", ApqKind: "own"},
	{Name: "mapcache", ApqKind: "mapcache"},
	{Name: "lru1", ApqKind: "lru", ApqCap: 1},
	{Name: "lru2", ApqKind: "lru", ApqCap: 2},
	{Name: "lru3", ApqKind: "lru", ApqCap: 3},
	{Name: "mapcache+qc2", ApqKind: "mapcache", QC: true, QCCap: 2},
	{Name: "lru2+qc1", ApqKind: "lru", ApqCap: 2, QC: true, QCCap: 1},
	{Name: "lru1+qc2", ApqKind: "lru", ApqCap: 1, QC: true, QCCap: 2},
}

func configByName(n string) (Config, bool) {
	for _, c := range configs {
		if c.Name == n {
			return c, true
		}
	}
	return Config{}, false
}

// ownMap is the inspectable cache written for this check.
type ownMap struct{ m map[string]string }

func (o *ownMap) Get(_ context.Context, k string) (string, bool) { v, ok := o.m[k]; return v, ok }
func (o *ownMap) Add(_ context.Context, k string, v string)      { o.m[k] = v }

// rec sits between gqlgen and the real cache. It mirrors every Add/Get into an `ordered` (so the
// contents and recency order of an LRU are known without probing it) and checks every answer
// of the real cache against the mirror.
type rec[T any] struct {
	label    string
	inner    graphql.Cache[T]
	mirror   *ordered[T]
	same     func(a, b T) bool
	show     func(T) string
	problems []Problem
	calls    int
}

func (r *rec[T]) Get(ctx context.Context, k string) (T, bool) {
	r.calls++
	v, ok := r.inner.Get(ctx, k)
	mv, mok := r.mirror.Get(k)
	if ok != mok || (ok && !r.same(v, mv)) {
		r.problems = append(r.problems, Problem{
			Sig:  "cache-answer-differs-from-policy|" + r.label,
			What: fmt.Sprintf("%s cache Get(%s): real=(%s,%v) reference policy=(%s,%v)", r.label, nick(k), r.show(v), ok, r.show(mv), mok)})
		if ok { // follow the real cache from here on
			r.mirror.Add(k, v)
		} else {
			r.mirror.Del(k)
		}
	}
	return v, ok
}

func (r *rec[T]) Add(ctx context.Context, k string, v T) {
	r.calls++
	r.inner.Add(ctx, k, v)
	r.mirror.Add(k, v)
}

// probe asks the real cache directly (this disturbs LRU recency, so only at the very end of a
// trace) and compares its contents with the mirror.
func (r *rec[T]) probe(universe []string) {
	keys := map[string]bool{}
	for _, k := range universe {
		keys[k] = true
	}
	for _, k := range r.mirror.Keys {
		keys[k] = true
	}
	sorted := make([]string, 0, len(keys))
	for k := range keys {
		sorted = append(sorted, k)
	}
	sort.Strings(sorted)
	// ask for mirror-present keys least-recent first so that probing cannot itself evict anything
	for _, k := range sorted {
		v, ok := r.inner.Get(context.Background(), k)
		mv, mok := r.mirror.Peek(k)
		if ok != mok || (ok && !r.same(v, mv)) {
			r.problems = append(r.problems, Problem{
				Sig:  "cache-contents-differ-from-policy|" + r.label,
				What: fmt.Sprintf("%s cache holds (%s,%v) for %s at the end of the trace, reference policy says (%s,%v)", r.label, r.show(v), ok, nick(k), r.show(mv), mok)})
		}
	}
}

type Problem struct {
	Sig  string `json:"sig"`
	What string `json:"what"`
	Step int    `json:"step"`
}

type Obs struct {
	Status int      `json:"status"`
	Class  string   `json:"class"` // exec | notfound | mismatch | malformed | other
	Data   string   `json:"data,omitempty"`
	Msg    string   `json:"msg,omitempty"`
	Log    []string `json:"log,omitempty"`
	Body   string   `json:"body"`
}

type Step struct {
	Event string `json:"event"`
	Pred  Pred   `json:"predicted"`
	Obs   Obs    `json:"observed"`
	State string `json:"state_after"`
	Model string `json:"model_after"`
}

type Result struct {
	Key      string
	Steps    []Step
	Problems []Problem
}

// worker owns one handschema instance (stateless apart from its log).
type worker struct {
	hs *handschema.Schema
}

func newWorker() *worker { return &worker{hs: handschema.New(&handschema.Log{})} }

type server struct {
	srv   *handler.Server
	apq   *rec[string]
	qc    *rec[*ast.QueryDocument]
	real  any // the real APQ cache object
	cfg   Config
	probe []string
}

func (w *worker) newServer(cfg Config) *server {
	s := &server{cfg: cfg}
	var inner graphql.Cache[string]
	switch cfg.ApqKind {
	case "own":
		inner = &ownMap{m: map[string]string{}}
	case "mapcache":
		inner = graphql.MapCache[string]{}
	case "lru":
		inner = lru.New[string](cfg.ApqCap)
	default:
		panic("unknown apq kind " + cfg.ApqKind)
	}
	s.real = inner
	s.apq = &rec[string]{label: "apq/" + cfg.ApqKind, inner: inner, mirror: newOrdered[string](cfg.ApqCap),
		same: func(a, b string) bool { return a == b }, show: nick}
	s.srv = handler.New(w.hs)
	s.srv.AddTransport(transport.GET{})
	s.srv.AddTransport(transport.POST{})
	if cfg.QC {
		s.qc = &rec[*ast.QueryDocument]{label: "querycache/lru", inner: lru.New[*ast.QueryDocument](cfg.QCCap),
			mirror: newOrdered[*ast.QueryDocument](cfg.QCCap),
			same:   func(a, b *ast.QueryDocument) bool { return a == b },
			show:   func(d *ast.QueryDocument) string { return fmt.Sprintf("%p", d) }}
		s.srv.SetQueryCache(s.qc)
	}
	s.srv.Use(extension.AutomaticPersistedQuery{Cache: s.apq})
	return s
}

func (s *server) stateKey() string {
	if s.qc == nil {
		return stateKey[*ast.QueryDocument](s.apq.mirror, nil)
	}
	return stateKey(s.apq.mirror, s.qc.mirror)
}

// directEntries reads the real cache where it can be read (map caches); nil otherwise.
func (s *server) directEntries() map[string]string {
	switch c := s.real.(type) {
	case *ownMap:
		return c.m
	case graphql.MapCache[string]:
		return c
	}
	return nil
}

func buildRequest(e Event) *http.Request {
	ext := ""
	if e.PQ != "" {
		ext = `{"persistedQuery":` + e.PQ + `}`
	}
	if e.Method == "GET" {
		v := url.Values{}
		if e.Text != "" {
			v.Set("query", e.Text)
		}
		if ext != "" {
			v.Set("extensions", ext)
		}
		return httptest.NewRequest("GET", "/query?"+v.Encode(), nil)
	}
	var parts []string
	if e.Text != "" {
		q, _ := json.Marshal(e.Text)
		parts = append(parts, `"query":`+string(q))
	}
	if ext != "" {
		parts = append(parts, `"extensions":`+ext)
	}
	r := httptest.NewRequest("POST", "/query", strings.NewReader("{"+strings.Join(parts, ",")+"}"))
	r.Header.Set("Content-Type", "application/json")
	return r
}

func (w *worker) send(s *server, e Event) Obs {
	w.hs.Log.Reset()
	rr := httptest.NewRecorder()
	s.srv.ServeHTTP(rr, buildRequest(e))
	o := Obs{Status: rr.Code, Body: rr.Body.String(), Log: w.hs.Log.Snapshot()}
	var resp struct {
		Data   json.RawMessage `json:"data"`
		Errors []struct {
			Message    string         `json:"message"`
			Extensions map[string]any `json:"extensions"`
		} `json:"errors"`
	}
	if err := json.Unmarshal(rr.Body.Bytes(), &resp); err != nil {
		o.Class, o.Msg = "other", "unparseable response body"
		return o
	}
	if len(resp.Errors) == 0 && len(resp.Data) > 0 && string(resp.Data) != "null" {
		o.Class, o.Data = "exec", string(resp.Data)
		return o
	}
	if len(resp.Errors) > 0 {
		o.Msg = resp.Errors[0].Message
		code, _ := resp.Errors[0].Extensions["code"].(string)
		switch {
		case o.Msg == "PersistedQueryNotFound" || code == "PERSISTED_QUERY_NOT_FOUND":
			o.Class = "notfound"
		case strings.Contains(o.Msg, "hash does not match"):
			o.Class = "mismatch"
		case strings.Contains(o.Msg, "invalid APQ extension") || strings.Contains(o.Msg, "unsupported APQ version"):
			o.Class = "malformed"
		default:
			o.Class = "other"
		}
		if len(resp.Data) > 0 && string(resp.Data) != "null" {
			o.Class, o.Data = "exec", string(resp.Data) // data next to errors still means something ran
		}
		return o
	}
	o.Class, o.Msg = "other", "neither data nor errors"
	return o
}

// judge compares one observed step with the prediction of the reference model.
func judge(e Event, pred Pred, o Obs, before, after, modelAfter string, history []Event) []Problem {
	var ps []Problem
	bad := func(sig, format string, a ...any) {
		ps = append(ps, Problem{Sig: sig + "|" + e.Kind, What: fmt.Sprintf("event %q: ", e.Name) + fmt.Sprintf(format, a...)})
	}
	executes := false
	switch pred.Class {
	case "exec":
		spec := textInfo[pred.Text]
		if want := spec.Data[e.Method]; want != "" {
			executes = true
			if o.Class != "exec" || o.Data != want {
				bad("response-differs-from-model", "must execute %s (data %s), got class=%s data=%s msg=%q", nick(pred.Text), want, o.Class, o.Data, o.Msg)
			}
			if !reflect.DeepEqual(o.Log, spec.Log[e.Method]) {
				bad("resolver-log-differs-from-model", "must run exactly %v, log is %v", spec.Log[e.Method], o.Log)
			}
		} else if o.Class != "other" {
			// the text is one that is answered with its own (validation / transport) error
			bad("response-differs-from-model", "must behave like plain %s (an error of that text), got class=%s data=%s msg=%q", nick(pred.Text), o.Class, o.Data, o.Msg)
		}
	case "notfound":
		if o.Class != "notfound" {
			bad("response-differs-from-model", "must be answered PersistedQueryNotFound, got class=%s data=%s msg=%q", o.Class, o.Data, o.Msg)
		}
	case "rejected":
		if o.Class == "exec" {
			bad("response-differs-from-model", "must be rejected, got data=%s", o.Data)
		}
	}
	if !executes && len(o.Log) != 0 {
		bad("executed-although-nothing-may-run", "log is %v", o.Log)
	}
	if pred.Class == "rejected" && before != after {
		bad("state-changed-by-rejected-request", "state %s -> %s", before, after)
	}
	if after != modelAfter {
		bad("state-differs-from-model", "implementation state %s, model state %s", after, modelAfter)
	}
	// the statement, read directly off the history (no cache policy involved): whatever a
	// hash-only request runs must have been sent earlier together with that very hash
	if e.Ext == "ok" && e.Text == "" && o.Class == "exec" {
		okHist := false
		for _, h := range history {
			if h.Ext == "ok" && h.Text != "" && h.Hash == e.Hash {
				if d := textInfo[h.Text].Data[e.Method]; d != "" && d == o.Data {
					okHist = true
				}
			}
		}
		if !okHist {
			bad("hash-only-ran-text-never-sent-with-that-hash", "hash %s produced data %s", nick(e.Hash), o.Data)
		}
	}
	return ps
}

// universe of keys worth probing at the end of a trace.
func probeUniverse(alpha []Event) []string {
	set := map[string]bool{"": true}
	for _, e := range alpha {
		if e.Ext == "ok" {
			set[e.Hash] = true
		}
		if e.Text != "" {
			set[e.Text] = true
		}
	}
	var out []string
	for k := range set {
		out = append(out, k)
	}
	sort.Strings(out)
	return out
}

func canonDoc(d *ast.QueryDocument) string {
	var b strings.Builder
	formatter.NewFormatter(&b).FormatQueryDocument(d)
	return b.String()
}

// runTrace replays evs on a FRESH server and judges every step.
func (w *worker) runTrace(cfg Config, evs []Event, universe []string) Result {
	s := w.newServer(cfg)
	m := newModel(cfg)
	var res Result
	for i, e := range evs {
		before := s.stateKey()
		o := w.send(s, e)
		pred := m.Step(e)
		after := s.stateKey()
		for _, p := range judge(e, pred, o, before, after, m.Key(), evs[:i]) {
			p.Step = i
			res.Problems = append(res.Problems, p)
		}
		res.Steps = append(res.Steps, Step{Event: e.Name, Pred: pred, Obs: o, State: after, Model: m.Key()})
	}
	res.Key = s.stateKey()
	last := "initial"
	if len(evs) > 0 {
		last = evs[len(evs)-1].Kind
	}
	end := func(sig, format string, a ...any) {
		res.Problems = append(res.Problems, Problem{Sig: sig + "|" + last, What: fmt.Sprintf(format, a...), Step: len(evs) - 1})
	}
	// invariant on the state reached: every entry binds lower-case-hex sha256(text) to text
	for _, k := range s.apq.mirror.Keys {
		if v := s.apq.mirror.Val[k]; sha(v) != k {
			end("cache-entry-key-is-not-sha256-of-its-text", "APQ cache entry %s -> %s (key %q, text %q)", nick(k), nick(v), k, v)
		}
	}
	if direct := s.directEntries(); direct != nil {
		if !reflect.DeepEqual(direct, s.apq.mirror.Val) {
			end("cache-contents-differ-from-policy|"+s.apq.label, "real map %v, mirror %v", direct, s.apq.mirror.Val)
		}
		for k, v := range direct {
			if sha(v) != k {
				end("cache-entry-key-is-not-sha256-of-its-text", "APQ cache entry (read from the map) key %q text %q", k, v)
			}
		}
	}
	// query-document cache: every entry is the parse of its key
	if s.qc != nil {
		for _, k := range s.qc.mirror.Keys {
			fresh, err := parser.ParseQuery(&ast.Source{Input: k})
			if err != nil || canonDoc(fresh) != canonDoc(s.qc.mirror.Val[k]) {
				end("query-cache-entry-is-not-the-parse-of-its-key", "query cache key %s holds a different document", nick(k))
			}
		}
		s.qc.probe(universe)
	}
	s.apq.probe(universe)
	for _, p := range append(s.apq.problems, qcProblems(s)...) {
		p.Sig += "|" + last
		p.Step = len(evs) - 1
		res.Problems = append(res.Problems, p)
	}
	return res
}

func qcProblems(s *server) []Problem {
	if s.qc == nil {
		return nil
	}
	return s.qc.problems
}

package main

import (
	"crypto/sha256"
	"encoding/hex"
	"sort"
	"strings"
)

// ordered is the reference cache: keys most-recent-first, Cap 0 = unbounded (a plain map).
// Policy (the textbook LRU): Get of a present key and Add of any key make that key the most
// recent; when an Add makes the cache exceed Cap the least recent key is dropped.
type ordered[T any] struct {
	Cap  int
	Keys []string
	Val  map[string]T
}

func newOrdered[T any](cap int) *ordered[T] { return &ordered[T]{Cap: cap, Val: map[string]T{}} }

func (o *ordered[T]) touch(k string) bool {
	for i, x := range o.Keys {
		if x == k {
			copy(o.Keys[1:i+1], o.Keys[:i])
			o.Keys[0] = k
			return true
		}
	}
	return false
}

func (o *ordered[T]) Get(k string) (T, bool) {
	if !o.touch(k) {
		var zero T
		return zero, false
	}
	return o.Val[k], true
}

func (o *ordered[T]) Add(k string, v T) {
	if !o.touch(k) {
		o.Keys = append([]string{k}, o.Keys...)
	}
	o.Val[k] = v
	if o.Cap > 0 && len(o.Keys) > o.Cap {
		last := o.Keys[len(o.Keys)-1]
		o.Keys = o.Keys[:len(o.Keys)-1]
		delete(o.Val, last)
	}
}

func (o *ordered[T]) Del(k string) {
	for i, x := range o.Keys {
		if x == k {
			o.Keys = append(o.Keys[:i:i], o.Keys[i+1:]...)
			delete(o.Val, k)
			return
		}
	}
}

// Peek does not change recency.
func (o *ordered[T]) Peek(k string) (T, bool) { v, ok := o.Val[k]; return v, ok }

// canonKeys: recency order for a bounded cache, sorted for an unbounded one (order is not state there).
func (o *ordered[T]) canonKeys() []string {
	ks := append([]string(nil), o.Keys...)
	if o.Cap == 0 {
		sort.Strings(ks)
	}
	return ks
}

func sha(text string) string {
	b := sha256.Sum256([]byte(text))
	return hex.EncodeToString(b[:])
}

// Pred is what the property statement lets the client observe.
//
//	exec     – the server behaves exactly as if Text had been sent as a plain query
//	notfound – answered PersistedQueryNotFound, nothing executed
//	rejected – an error response, nothing executed, nothing registered
type Pred struct {
	Class string
	Text  string
}

// Model is the reference: hash -> text (with the configured cache policy) and, when the server has
// a query-document cache, the set of valid texts that went through parse+validate.
type Model struct {
	apq *ordered[string]
	qc  *ordered[struct{}]
}

func newModel(cfg Config) *Model {
	m := &Model{apq: newOrdered[string](cfg.ApqCap)}
	if cfg.QC {
		m.qc = newOrdered[struct{}](cfg.QCCap)
	}
	return m
}

// Step is the whole property: a hash is bound only by a request that carries both the text and
// the lower-case hex SHA-256 of exactly that text (version 1); a hash-only request runs what the
// hash is bound to or is answered NotFound; everything else that carries an extension is rejected.
func (m *Model) Step(e Event) Pred {
	switch {
	case e.Ext == "none" || e.Ext == "null":
		if e.Text == "" {
			return Pred{Class: "rejected"}
		}
		return m.run(e.Text)
	case e.Ext == "malformed" || e.Version != 1:
		return Pred{Class: "rejected"}
	case e.Text == "":
		t, ok := m.apq.Get(e.Hash)
		if !ok {
			return Pred{Class: "notfound"}
		}
		return m.run(t)
	case sha(e.Text) != e.Hash:
		return Pred{Class: "rejected"}
	}
	m.apq.Add(e.Hash, e.Text)
	return m.run(e.Text)
}

func (m *Model) run(text string) Pred {
	if m.qc != nil && textInfo[text].Valid {
		m.qc.Add(text, struct{}{})
	}
	return Pred{Class: "exec", Text: text}
}

func (m *Model) Key() string { return stateKey(m.apq, m.qc) }

// stateKey is the canonical persistent state: APQ entries (+ recency order when bounded) and the
// key list of the query-document cache.
func stateKey[T any](apq *ordered[string], qc *ordered[T]) string {
	var b strings.Builder
	b.WriteString("apq[")
	for i, k := range apq.canonKeys() {
		if i > 0 {
			b.WriteByte(' ')
		}
		b.WriteString(nick(k) + "=" + nick(apq.Val[k]))
	}
	b.WriteString("]")
	if qc != nil {
		b.WriteString(" qc[")
		for i, k := range qc.canonKeys() {
			if i > 0 {
				b.WriteByte(' ')
			}
			b.WriteString(nick(k))
		}
		b.WriteString("]")
	}
	return b.String()
}

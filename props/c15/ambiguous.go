package main

import (
	"fmt"
	"reflect"
	"strings"
)

// Extension objects whose member names differ from the canonical spelling (`sha256Hash`,
// `version`) only in case - including objects that carry TWO such members with different values.
// What a server makes of such an object is its own business (reject it, or read one of the
// members; a decoder that matches names case-insensitively may even pick a different member on
// every request, in map iteration order). So these events are not part of the deterministic BFS:
// each is put into short histories and REPEATED a stated number of times, and the oracle accepts
// any single consistent reading of each request:
//
//	rejected (nothing runs, nothing changes), or
//	for ONE version v among the object's version members and ONE hash h among its hash members:
//	exactly what the reference model says for {version: v, sha256Hash: h}.
//
// A request that is verified under one member and stored under another matches no reading; and
// independent of readings, after every step every cache entry must bind sha256(text) to text and a
// hash-only request may only run a text that hashes to the hash it sent.

func ambiguousObject(members ...string) string { return "{" + strings.Join(members, ",") + "}" }

func member(name string, value any) string { return jsonOf(name) + ":" + fmt.Sprint(value) }

func ambiguousAlphabet() []Event {
	h1, h2 := hashes[0], hashes[1]
	q := jsonOf
	type obj struct {
		name     string
		pq       string
		versions []int
		hashes   []string
	}
	objs := []obj{
		{"one-upper-hash-key(H1)", ambiguousObject(member("version", 1), member("SHA256HASH", q(h1))), []int{1}, []string{h1}},
		{"two-hash-keys(H1,H2)", ambiguousObject(member("version", 1), member("SHA256HASH", q(h1)), member("Sha256hash", q(h2))), []int{1}, []string{h1, h2}},
		{"two-hash-keys(H2,H1)", ambiguousObject(member("version", 1), member("SHA256HASH", q(h2)), member("Sha256hash", q(h1))), []int{1}, []string{h2, h1}},
		{"three-hash-keys(H1,H2,HX)", ambiguousObject(member("version", 1), member("SHA256HASH", q(h1)), member("Sha256hash", q(h2)), member("sha256hash", q(unknownHash))), []int{1}, []string{h1, h2, unknownHash}},
		{"canonical(H1)+upper(H2)", ambiguousObject(member("version", 1), member("sha256Hash", q(h1)), member("SHA256HASH", q(h2))), []int{1}, []string{h1, h2}},
		{"canonical(H2)+upper(H1)", ambiguousObject(member("version", 1), member("sha256Hash", q(h2)), member("SHA256HASH", q(h1))), []int{1}, []string{h2, h1}},
		{"one-upper-version-key(1)", ambiguousObject(member("VERSION", 1), member("sha256Hash", q(h1))), []int{1}, []string{h1}},
		{"two-version-keys(1,2)", ambiguousObject(member("VERSION", 1), member("Version", 2), member("sha256Hash", q(h1))), []int{1, 2}, []string{h1}},
		{"canonical-version(2)+upper(1)", ambiguousObject(member("version", 2), member("VERSION", 1), member("sha256Hash", q(h1))), []int{2, 1}, []string{h1}},
		{"two-version-keys+two-hash-keys", ambiguousObject(member("VERSION", 1), member("Version", 2), member("SHA256HASH", q(h1)), member("Sha256hash", q(h2))), []int{1, 2}, []string{h1, h2}},
	}
	var out []Event
	for _, method := range []string{"POST", "GET"} {
		for _, o := range objs {
			for _, t := range []string{texts[0], texts[1], ""} {
				out = append(out, Event{Name: method + " ambiguous(" + o.name + ") " + withText(t), Kind: "ambiguous:" + o.name,
					Method: method, Text: t, PQ: o.pq, Ext: "ambiguous", AltVersion: o.versions, AltHash: o.hashes})
			}
		}
	}
	return out
}

func (m *Model) clone() *Model {
	c := &Model{apq: cloneOrdered(m.apq)}
	if m.qc != nil {
		c.qc = cloneOrdered(m.qc)
	}
	return c
}

func cloneOrdered[T any](o *ordered[T]) *ordered[T] {
	c := newOrdered[T](o.Cap)
	c.Keys = append([]string(nil), o.Keys...)
	for k, v := range o.Val {
		c.Val[k] = v
	}
	return c
}

// readings of an event: itself when it is not ambiguous.
func readings(e Event) []Event {
	if e.Ext != "ambiguous" {
		return []Event{e}
	}
	rej := e
	rej.Ext = "malformed"
	out := []Event{rej}
	for _, v := range e.AltVersion {
		for _, h := range e.AltHash {
			r := e
			r.Ext, r.Version, r.Hash = "ok", v, h
			out = append(out, r)
		}
	}
	return out
}

// runAmbiguous replays evs on a fresh server and judges EVERY step, accepting for each ambiguous
// event any one reading. The state compared is what the recording caches saw plus, for map caches,
// the map itself (no replays here: a replay need not take the same reading).
func (w *worker) runAmbiguous(cfg Config, evs []Event) Result {
	s := w.newServer(cfg)
	m := newModel(cfg)
	var res Result
	var history []Event // with the reading taken
	for i, e := range evs {
		before := s.stateKey()
		s.apq.log = nil
		if s.qc != nil {
			s.qc.log = nil
		}
		o := w.send(s, e)
		after := s.stateKey()
		var firstProblems []Problem
		var taken *Event
		var pred Pred
		for _, r := range readings(e) {
			mc := m.clone()
			p := mc.Step(r)
			ps := append(judge(r, p, o, before, after, mc.Key(), false, history), exactKeys(s, r, p)...)
			if len(ps) == 0 {
				rr := r
				taken, pred, m = &rr, p, mc
				break
			}
			if e.Ext != "ambiguous" {
				firstProblems = ps
			}
		}
		if taken == nil {
			if e.Ext == "ambiguous" {
				firstProblems = []Problem{{Sig: "no-single-reading-of-the-extension-explains-the-outcome|" + e.Kind,
					What: fmt.Sprintf("event %q (versions %v, hashes %v): observed class=%s data=%s msg=%q log=%v, state %s -> %s, cache calls apq=%v; neither a rejection nor any one (version, hash) member pair gives this", e.Name, e.AltVersion, nickAll(e.AltHash), o.Class, o.Data, o.Msg, o.Log, before, after, showCalls(s.apq.log))}}
			}
			for _, p := range firstProblems {
				p.Step = i
				res.Problems = append(res.Problems, p)
			}
			history = append(history, e)
			// keep going from what the implementation holds, so that later steps are judged on their own
			m.apq = cloneOrdered(s.apq.mirror)
		} else {
			history = append(history, *taken)
		}
		res.Steps = append(res.Steps, Step{Event: e.Name, Pred: pred, Obs: o, State: after, Model: m.Key()})
		// reading-independent: the invariant on the state, after every step
		check := func(where string, entries map[string]string) {
			for k, v := range entries {
				if sha(v) != k {
					res.Problems = append(res.Problems, Problem{Sig: "cache-entry-key-is-not-sha256-of-its-text|" + e.Kind, Step: i,
						What: fmt.Sprintf("after event %q the APQ cache (%s) binds %s to %s (key %q, text %q)", e.Name, where, nick(k), nick(v), k, v)})
				}
			}
		}
		check("calls seen by the recording cache", s.apq.mirror.Val)
		if direct := s.directEntries(); direct != nil {
			check("the map itself", direct)
			if !reflect.DeepEqual(direct, s.apq.mirror.Val) {
				res.Problems = append(res.Problems, Problem{Sig: "map-contents-differ-from-calls|" + e.Kind, Step: i,
					What: fmt.Sprintf("real map %v, recorded %v", direct, s.apq.mirror.Val)})
			}
		}
		// reading-independent: a hash-only request (under every reading) runs only a text that hashes to a hash it sent
		if e.Text == "" && o.Class == "exec" {
			okText := false
			for _, r := range readings(e) {
				for _, t := range texts {
					if r.Ext == "ok" && sha(t) == r.Hash && meaning(t, e.Op).Data[e.Method] == o.Data {
						okText = true
					}
				}
			}
			if !okText {
				res.Problems = append(res.Problems, Problem{Sig: "hash-only-ran-text-that-does-not-hash-to-the-hash-sent|" + e.Kind, Step: i,
					What: fmt.Sprintf("event %q produced data %s", e.Name, o.Data)})
			}
		}
	}
	for _, p := range append(s.apq.problems, qcProblems(s)...) {
		p.Sig += "|ambiguous-history"
		p.Step = len(evs) - 1
		res.Problems = append(res.Problems, p)
	}
	res.Key, res.MirrorKey = s.stateKey(), s.stateKey()
	return res
}

func nickAll(hs []string) []string {
	out := make([]string, len(hs))
	for i, h := range hs {
		out[i] = nick(h)
	}
	return out
}

func showCalls(cs []cacheCall) []string {
	var out []string
	for _, c := range cs {
		if c.Op == "Add" {
			v, _ := c.Val.(string)
			out = append(out, fmt.Sprintf("Add(%s,%s)", nick(c.Key), nick(v)))
		} else {
			out = append(out, fmt.Sprintf("Get(%s)", nick(c.Key)))
		}
	}
	return out
}

// ambiguousHistories: prefix (nothing / victim registered / both registered), then `repeat` times
// {the ambiguous request; hash-only H1; hash-only H2}.
func ambiguousHistories(base []Event, repeat int) [][]Event {
	find := func(name string) Event {
		for _, e := range base {
			if e.Name == name {
				return e
			}
		}
		panic("no base event " + name)
	}
	reg1, reg2 := find("POST Q1+H1"), find("POST Q2+H2")
	only1, only2 := find("POST only H1"), find("POST only H2")
	prefixes := [][]Event{nil, {reg2}, {reg1, reg2}}
	var out [][]Event
	for _, a := range ambiguousAlphabet() {
		for _, p := range prefixes {
			h := append([]Event(nil), p...)
			for i := 0; i < repeat; i++ {
				h = append(h, a, only1, only2)
			}
			out = append(out, h)
		}
	}
	return out
}

#!/bin/bash
# usage: props/c15/check.sh <quick|thorough> [extra args]  — called by /verif/run.sh (env.sh already sourced).
#
# Why this wrapper exists: /verif/go.sum does not carry the checksums of modules that gqlgen's
# handler packages import (hashicorp/golang-lru, go-viper/mapstructure, gorilla/websocket), and
# the sandbox cannot look them up. The check is therefore built with a private modfile in the
# scratch area: go.mod = the one run.sh would use (honouring VERIF_MODFLAG / VERIF_REPO),
# go.sum = /verif/go.sum + the go.sum of the tree under test. Nothing shared is written.
set -u
cd /verif
tier=${1:-quick}; shift || true
mkdir -p bin
alt=$(mktemp -d "${VERIF_SCRATCH:-/var/tmp}/verif-c15-mod-XXXXXX")
src=/verif/go.mod
if [ -n "${VERIF_MODFLAG:-}" ]; then src=${VERIF_MODFLAG#-modfile=}; fi
cp "$src" "$alt/go.mod"
cat /verif/go.sum "${VERIF_REPO:-/repo}/go.sum" | sort -u > "$alt/go.sum"
if ! go build -modfile="$alt/go.mod" -o bin/c15 ./props/c15 2>bin/c15.buildlog; then
  cat bin/c15.buildlog >&2
  rm -rf "$alt"
  echo "BROKEN: build of check C15 failed" >&2
  exit 2
fi
rm -rf "$alt"
exec bin/c15 --tier "$tier" "$@"

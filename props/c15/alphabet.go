package main

import (
	"encoding/json"
	"fmt"
	"strings"
)

// The query texts. Q3 does not validate (unknown field), Q4 is a mutation (refused on GET).
var texts = []string{"{a}", "{name}", "{nope}", "mutation{m2}"}

// What running a text as a plain query must produce (independent of any APQ state): this is
// schema knowledge about verif/handschema, written down here, not measured.
type textSpec struct {
	Valid   bool
	Data    map[string]string   // method -> expected "data" JSON ("" = the request is answered with an error)
	Log     map[string][]string // method -> expected handschema log
	Nick    string
	Comment string
}

var textInfo = map[string]textSpec{
	"{a}": {Valid: true, Nick: "Q1",
		Data: map[string]string{"POST": `{"a":"A"}`, "GET": `{"a":"A"}`},
		Log: map[string][]string{
			"POST": {"exec:query", "rootfield:Query.a", "resolver:Query.a()"},
			"GET":  {"exec:query", "rootfield:Query.a", "resolver:Query.a()"}}},
	"{name}": {Valid: true, Nick: "Q2",
		Data: map[string]string{"POST": `{"name":"N"}`, "GET": `{"name":"N"}`},
		Log: map[string][]string{
			"POST": {"exec:query", "rootfield:Query.name", "resolver:Query.name()"},
			"GET":  {"exec:query", "rootfield:Query.name", "resolver:Query.name()"}}},
	"{nope}": {Valid: false, Nick: "Q3", Comment: "validation error, nothing runs",
		Data: map[string]string{"POST": "", "GET": ""}, Log: map[string][]string{}},
	"mutation{m2}": {Valid: true, Nick: "Q4", Comment: "mutations are refused on GET",
		Data: map[string]string{"POST": `{"m2":"M2"}`, "GET": ""},
		Log: map[string][]string{
			"POST": {"exec:mutation", "rootfield:Mutation.m2", "resolver:Mutation.m2()"}}},
}

var (
	hashes      []string // hashes[i] = sha(texts[i])
	unknownHash = sha("{b}")
	nicks       = map[string]string{}
)

func init() {
	for i, t := range texts {
		h := sha(t)
		hashes = append(hashes, h)
		nicks[t] = fmt.Sprintf("Q%d", i+1)
		nicks[h] = fmt.Sprintf("H%d", i+1)
		nicks[strings.ToUpper(h)] = fmt.Sprintf("UPPER(H%d)", i+1)
		nicks[h[:32]] = fmt.Sprintf("H%d[:32]", i+1)
		nicks[h+" "] = fmt.Sprintf("H%d+space", i+1)
	}
	nicks[unknownHash] = "HX"
	nicks[""] = `""`
}

func nick(s string) string {
	if n, ok := nicks[s]; ok {
		return n
	}
	return fmt.Sprintf("%q", s)
}

// Event is one request. Method/Text/PQ are what goes on the wire; Ext/Version/Hash are the same
// request as the reference model reads it.
type Event struct {
	Name   string `json:"name"`
	Kind   string `json:"kind"` // event class, used in violation signatures
	Method string `json:"method"`
	Text   string `json:"text"`         // "" = no query text
	PQ     string `json:"pq,omitempty"` // raw JSON value of extensions.persistedQuery, "" = no extension

	Ext     string `json:"ext"` // none | null | malformed | ok
	Version int    `json:"version,omitempty"`
	Hash    string `json:"hash,omitempty"`
	Core    bool   `json:"core,omitempty"`
}

func pqJSON(version int, hash string) string {
	h, _ := json.Marshal(hash)
	return fmt.Sprintf(`{"version":%d,"sha256Hash":%s}`, version, h)
}

func withText(t string) string {
	if t == "" {
		return "no-text"
	}
	return nick(t)
}

// buildAlphabet lists the events simplest-first; POST block then GET block.
func buildAlphabet() []Event {
	var out []Event
	for _, method := range []string{"POST", "GET"} {
		add := func(core bool, kind, text, pq, ext string, version int, hash string, label string) {
			out = append(out, Event{Name: method + " " + label, Kind: kind, Method: method, Text: text, PQ: pq,
				Ext: ext, Version: version, Hash: hash, Core: core})
		}
		okEv := func(core bool, kind, text, hash, label string) {
			add(core, kind, text, pqJSON(1, hash), "ok", 1, hash, label)
		}
		post := method == "POST"
		// 1. text only
		for i, t := range texts {
			add(post && i == 0, "text-only", t, "", "none", 0, "", nick(t))
		}
		// 2. text + its own hash (registration)
		for i, t := range texts {
			okEv(post || i == 0, "text+own-hash", t, hashes[i], nick(t)+"+"+nick(hashes[i]))
		}
		// 3. text + hash of another text
		for i, t := range texts {
			for j := range texts {
				if i != j {
					core := (post && i == 0 && j == 1) || (i == 1 && j == 0)
					okEv(core, "text+other-hash", t, hashes[j], nick(t)+"+"+nick(hashes[j]))
				}
			}
		}
		// 4. text + upper-case spelling of its own hash
		for i, t := range texts {
			u := strings.ToUpper(hashes[i])
			okEv(post && i == 0, "text+uppercase-hash", t, u, nick(t)+"+"+nick(u))
		}
		// 5. near misses
		okEv(false, "text+truncated-hash", texts[0], hashes[0][:32], "Q1+"+nick(hashes[0][:32]))
		okEv(false, "text+padded-hash", texts[0], hashes[0]+" ", "Q1+"+nick(hashes[0]+" "))
		okEv(false, "text+unknown-hash", texts[0], unknownHash, "Q1+HX")
		// 6. hash only
		for i := range texts {
			okEv(post || i < 2, "hash-only", "", hashes[i], "only "+nick(hashes[i]))
		}
		okEv(post, "hash-only-unknown", "", unknownHash, "only HX")
		okEv(post, "hash-only-uppercase", "", strings.ToUpper(hashes[0]), "only UPPER(H1)")
		okEv(false, "hash-only-empty", "", "", `only ""`)
		okEv(false, "hash-only-truncated", "", hashes[0][:32], "only H1[:32]")
		// 7. malformed extension values, each with its "own" text, with a foreign text (poisoning
		// attempt on H1) and without text
		h1, _ := json.Marshal(hashes[0])
		H1 := string(h1)
		type mal struct {
			name, pq, ext string
			version       int
			hash          string
		}
		mals := []mal{
			{"string", H1, "malformed", 0, ""},
			{"number", "1", "malformed", 0, ""},
			{"bool", "true", "malformed", 0, ""},
			{"array", `[{"version":1,"sha256Hash":` + H1 + `}]`, "malformed", 0, ""},
			{"hash-is-number", `{"version":1,"sha256Hash":12345}`, "malformed", 0, ""},
			{"hash-is-array", `{"version":1,"sha256Hash":[` + H1 + `]}`, "malformed", 0, ""},
			{"version-is-word", `{"version":"x","sha256Hash":` + H1 + `}`, "malformed", 0, ""},
			// objects with missing members: an absent version is not version 1, an absent hash is the empty hash
			{"empty-object", `{}`, "ok", 0, ""},
			{"no-version", `{"sha256Hash":` + H1 + `}`, "ok", 0, hashes[0]},
			{"no-hash", `{"version":1}`, "ok", 1, ""},
		}
		for _, m := range mals {
			for _, t := range []string{texts[0], texts[1], ""} {
				core := post && t == texts[1] && (m.name == "string" || m.name == "no-hash")
				add(core, "malformed:"+m.name, t, m.pq, m.ext, m.version, m.hash, "malformed("+m.name+") "+withText(t))
			}
		}
		// 8. wrong protocol version with an otherwise well-formed extension for H1
		for _, v := range []int{0, 2} {
			for _, t := range []string{texts[0], texts[1], ""} {
				core := post && ((v == 2 && t == texts[0]) || (v == 0 && t == ""))
				add(core, fmt.Sprintf("version:%d", v), t, pqJSON(v, hashes[0]), "ok", v, hashes[0],
					fmt.Sprintf("version=%d H1 %s", v, withText(t)))
			}
		}
		// 9. persistedQuery: null is "no extension"
		add(false, "null-extension", texts[0], "null", "null", 0, "", "pq=null Q1")
		add(false, "null-extension", "", "null", "null", 0, "", "pq=null no-text")
	}
	return out
}

// ---------------------------------------------------------------------------------------------
// Families of "nearly equal" texts: byte-wise distinct (so their SHA-256 differ) but equal under a
// normalisation some cache key might plausibly apply (collapse / trim whitespace, drop a BOM,
// unify line endings, fold case, Unicode-normalise). Members may or may not MEAN the same; what
// each exact text means is written down below (echo returns and logs its argument). Each family
// is explored as a universe of its own (BFS over all its events from all reachable states), so
// every member is requested by text, text+hash and hash only after every sibling was seen first.

type family struct {
	ID    string
	Why   string
	Texts []string
}

var families = []family{
	{ID: "strspace", Why: "amount / kind of whitespace inside a string literal is data",
		Texts: []string{`{ echo(s: "a b") }`, `{ echo(s: "a  b") }`, "{ echo(s: \"a\tb\") }"}},
	{ID: "comment", Why: "the newline that ends a # comment decides what is commented out",
		Texts: []string{"{ a # b\n}", "{ a #\n b }"}},
	{ID: "strcase", Why: "case inside a string literal is data",
		Texts: []string{`{ echo(s: "ab") }`, `{ echo(s: "AB") }`}},
	{ID: "namecase", Why: "names are case-sensitive: NAME is not a field",
		Texts: []string{`{name}`, `{NAME}`}},
	{ID: "blockstr", Why: "a newline inside a block string is data",
		Texts: []string{"{ echo(s: \"\"\"a\nb\"\"\") }", `{ echo(s: """a b""") }`}},
	{ID: "unicode", Why: "NFC and NFD spellings of a string literal are different data",
		Texts: []string{"{ echo(s: \"\u00e9\") }", "{ echo(s: \"e\u0301\") }"}},
	{ID: "trailing", Why: "same document with and without a trailing newline: same meaning, different hash",
		Texts: []string{"{a}", "{a}\n"}},
	{ID: "leading", Why: "same document after a leading space / byte order mark: same meaning, different hash",
		Texts: []string{"{a}", " {a}", "\ufeff{a}"}},
	{ID: "eol", Why: "same document with LF / CRLF line ends: same meaning, different hash",
		Texts: []string{"{ a\n b }", "{ a\r\n b }"}},
}

func jsonOf(s string) string { b, _ := json.Marshal(s); return string(b) }

func querySpec(valid bool, data string, log ...string) textSpec {
	if !valid {
		return textSpec{Data: map[string]string{"POST": "", "GET": ""}, Log: map[string][]string{}}
	}
	l := append([]string{"exec:query"}, log...)
	return textSpec{Valid: true, Data: map[string]string{"POST": data, "GET": data}, Log: map[string][]string{"POST": l, "GET": l}}
}

func echoSpec(arg string) textSpec {
	return querySpec(true, `{"echo":`+jsonOf(arg)+`}`, "rootfield:Query.echo", "resolver:Query.echo(s:"+jsonOf(arg)+")")
}

var (
	specA  = querySpec(true, `{"a":"A"}`, "rootfield:Query.a", "resolver:Query.a()")
	specAB = querySpec(true, `{"a":"A","b":null}`, "rootfield:Query.a", "resolver:Query.a()", "rootfield:Query.b", "resolver:Query.b()")
)

// what each exact family text means
var familyMeaning = map[string]textSpec{
	`{ echo(s: "a b") }`:            echoSpec("a b"),
	`{ echo(s: "a  b") }`:           echoSpec("a  b"),
	"{ echo(s: \"a\tb\") }":         echoSpec("a\tb"),
	"{ a # b\n}":                    specA,
	"{ a #\n b }":                   specAB,
	`{ echo(s: "ab") }`:             echoSpec("ab"),
	`{ echo(s: "AB") }`:             echoSpec("AB"),
	`{name}`:                        textInfo["{name}"],
	`{NAME}`:                        querySpec(false, ""),
	"{ echo(s: \"\"\"a\nb\"\"\") }": echoSpec("a\nb"),
	`{ echo(s: """a b""") }`:        echoSpec("a b"),
	"{ echo(s: \"\u00e9\") }":       echoSpec("\u00e9"),
	"{ echo(s: \"e\u0301\") }":      echoSpec("e\u0301"),
	"{a}":                           specA,
	"{a}\n":                         specA,
	" {a}":                          specA,
	"\ufeff{a}":                     specA,
	"{ a\n b }":                     specAB,
	"{ a\r\n b }":                   specAB,
}

func init() {
	for _, f := range families {
		for i, t := range f.Texts {
			spec, ok := familyMeaning[t]
			if !ok {
				panic("family text without a meaning: " + t)
			}
			if _, base := textInfo[t]; !base {
				textInfo[t] = spec
				n := fmt.Sprintf("%s.%c", f.ID, 'a'+i)
				nicks[t] = n
				nicks[sha(t)] = "H(" + n + ")"
			}
		}
	}
}

// familyAlphabet: every member as text only, text + own hash, text + hash of each sibling, hash
// only; POST block then GET block.
func familyAlphabet(f family) []Event {
	var out []Event
	for _, method := range []string{"POST", "GET"} {
		ev := func(kind, text, hash, label string) {
			e := Event{Name: method + " " + label, Kind: f.ID + ":" + kind, Method: method, Text: text, Ext: "none"}
			if hash != "" {
				e.PQ, e.Ext, e.Version, e.Hash = pqJSON(1, hash), "ok", 1, hash
			}
			out = append(out, e)
		}
		for _, t := range f.Texts {
			ev("text-only", t, "", nick(t))
		}
		for _, t := range f.Texts {
			ev("text+own-hash", t, sha(t), nick(t)+"+"+nick(sha(t)))
		}
		for _, t := range f.Texts {
			for _, u := range f.Texts {
				if t != u {
					ev("text+sibling-hash", t, sha(u), nick(t)+"+"+nick(sha(u)))
				}
			}
		}
		for _, t := range f.Texts {
			ev("hash-only", "", sha(t), "only "+nick(sha(t)))
		}
	}
	return out
}

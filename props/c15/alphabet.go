package main

import (
	"encoding/json"
	"fmt"
	"strings"
)

// The query texts. Q3 does not validate (unknown field), Q4 is a mutation (refused on GET).
var texts = []string{"{a}", "{name}", "{nope}", "mutation{m2}"}

// What running a text as a plain query must produce (independent of any APQ state): this is
// schema knowledge about verif/handschema, written down here, not measured.
type textSpec struct {
	Valid   bool
	Data    map[string]string   // method -> expected "data" JSON ("" = the request is answered with an error)
	Log     map[string][]string // method -> expected handschema log
	Nick    string
	Comment string
	// Ops: for a text with several operations, what it means per operationName ("" = none given);
	// a name that is not listed (and "" when there are several operations) is an error.
	Ops map[string]textSpec
}

// meaning of an exact text when requested with operationName op.
func meaning(text, op string) textSpec {
	spec := textInfo[text]
	if spec.Ops == nil {
		return spec
	}
	if m, ok := spec.Ops[op]; ok {
		return m
	}
	return querySpec(false, "")
}

var textInfo = map[string]textSpec{
	"{a}": {Valid: true, Nick: "Q1",
		Data: map[string]string{"POST": `{"a":"A"}`, "GET": `{"a":"A"}`},
		Log: map[string][]string{
			"POST": {"exec:query", "rootfield:Query.a", "resolver:Query.a()"},
			"GET":  {"exec:query", "rootfield:Query.a", "resolver:Query.a()"}}},
	"{name}": {Valid: true, Nick: "Q2",
		Data: map[string]string{"POST": `{"name":"N"}`, "GET": `{"name":"N"}`},
		Log: map[string][]string{
			"POST": {"exec:query", "rootfield:Query.name", "resolver:Query.name()"},
			"GET":  {"exec:query", "rootfield:Query.name", "resolver:Query.name()"}}},
	"{nope}": {Valid: false, Nick: "Q3", Comment: "validation error, nothing runs",
		Data: map[string]string{"POST": "", "GET": ""}, Log: map[string][]string{}},
	"mutation{m2}": {Valid: true, Nick: "Q4", Comment: "mutations are refused on GET",
		Data: map[string]string{"POST": `{"m2":"M2"}`, "GET": ""},
		Log: map[string][]string{
			"POST": {"exec:mutation", "rootfield:Mutation.m2", "resolver:Mutation.m2()"}}},
}

var (
	hashes      []string // hashes[i] = sha(texts[i])
	unknownHash = sha("{b}")
	nicks       = map[string]string{}
)

func init() {
	for i, t := range texts {
		h := sha(t)
		hashes = append(hashes, h)
		nicks[t] = fmt.Sprintf("Q%d", i+1)
		nicks[h] = fmt.Sprintf("H%d", i+1)
		nicks[strings.ToUpper(h)] = fmt.Sprintf("UPPER(H%d)", i+1)
		nicks[h[:32]] = fmt.Sprintf("H%d[:32]", i+1)
		nicks[h+" "] = fmt.Sprintf("H%d+space", i+1)
	}
	nicks[unknownHash] = "HX"
	nicks[""] = `""`
}

func nick(s string) string {
	if n, ok := nicks[s]; ok {
		return n
	}
	if len(s) > 80 {
		return fmt.Sprintf("%q...[%d bytes, sha256 %s]", s[:32], len(s), sha(s)[:8])
	}
	return fmt.Sprintf("%q", s)
}

// Event is one request. Method/Text/PQ are what goes on the wire; Ext/Version/Hash are the same
// request as the reference model reads it.
type Event struct {
	Name   string `json:"name"`
	Kind   string `json:"kind"` // event class, used in violation signatures
	Method string `json:"method"`
	Text   string `json:"text"`         // "" = no query text
	Op     string `json:"op,omitempty"` // operationName, "" = none
	PQ     string `json:"pq,omitempty"` // raw JSON value of extensions.persistedQuery, "" = no extension

	Ext     string `json:"ext"` // none | null | malformed | ok | ambiguous (see ambiguous.go)
	Version int    `json:"version,omitempty"`
	Hash    string `json:"hash,omitempty"`
	// ambiguous only: the values of all members that spell `version` / `sha256Hash` in any case
	AltVersion []int    `json:"alt_versions,omitempty"`
	AltHash    []string `json:"alt_hashes,omitempty"`
	Core       bool     `json:"core,omitempty"`
}

func pqJSON(version int, hash string) string {
	h, _ := json.Marshal(hash)
	return fmt.Sprintf(`{"version":%d,"sha256Hash":%s}`, version, h)
}

func withText(t string) string {
	if t == "" {
		return "no-text"
	}
	return nick(t)
}

// buildAlphabet lists the events simplest-first; POST block then GET block.
func buildAlphabet() []Event {
	var out []Event
	for _, method := range []string{"POST", "GET"} {
		add := func(core bool, kind, text, pq, ext string, version int, hash string, label string) {
			out = append(out, Event{Name: method + " " + label, Kind: kind, Method: method, Text: text, PQ: pq,
				Ext: ext, Version: version, Hash: hash, Core: core})
		}
		okEv := func(core bool, kind, text, hash, label string) {
			add(core, kind, text, pqJSON(1, hash), "ok", 1, hash, label)
		}
		post := method == "POST"
		// 1. text only
		for i, t := range texts {
			add(post && i == 0, "text-only", t, "", "none", 0, "", nick(t))
		}
		// 2. text + its own hash (registration)
		for i, t := range texts {
			okEv(post || i == 0, "text+own-hash", t, hashes[i], nick(t)+"+"+nick(hashes[i]))
		}
		// 3. text + hash of another text
		for i, t := range texts {
			for j := range texts {
				if i != j {
					core := (post && i == 0 && j == 1) || (i == 1 && j == 0)
					okEv(core, "text+other-hash", t, hashes[j], nick(t)+"+"+nick(hashes[j]))
				}
			}
		}
		// 4. text + upper-case spelling of its own hash
		for i, t := range texts {
			u := strings.ToUpper(hashes[i])
			okEv(post && i == 0, "text+uppercase-hash", t, u, nick(t)+"+"+nick(u))
		}
		// 5. near misses
		okEv(false, "text+truncated-hash", texts[0], hashes[0][:32], "Q1+"+nick(hashes[0][:32]))
		okEv(false, "text+padded-hash", texts[0], hashes[0]+" ", "Q1+"+nick(hashes[0]+" "))
		okEv(false, "text+unknown-hash", texts[0], unknownHash, "Q1+HX")
		// 6. hash only
		for i := range texts {
			okEv(post || i < 2, "hash-only", "", hashes[i], "only "+nick(hashes[i]))
		}
		okEv(post, "hash-only-unknown", "", unknownHash, "only HX")
		okEv(post, "hash-only-uppercase", "", strings.ToUpper(hashes[0]), "only UPPER(H1)")
		okEv(false, "hash-only-empty", "", "", `only ""`)
		okEv(false, "hash-only-truncated", "", hashes[0][:32], "only H1[:32]")
		// 7. malformed extension values, each with its "own" text, with a foreign text (poisoning
		// attempt on H1) and without text
		h1, _ := json.Marshal(hashes[0])
		H1 := string(h1)
		type mal struct {
			name, pq, ext string
			version       int
			hash          string
		}
		mals := []mal{
			{"string", H1, "malformed", 0, ""},
			{"number", "1", "malformed", 0, ""},
			{"bool", "true", "malformed", 0, ""},
			{"array", `[{"version":1,"sha256Hash":` + H1 + `}]`, "malformed", 0, ""},
			{"hash-is-number", `{"version":1,"sha256Hash":12345}`, "malformed", 0, ""},
			{"hash-is-array", `{"version":1,"sha256Hash":[` + H1 + `]}`, "malformed", 0, ""},
			{"version-is-word", `{"version":"x","sha256Hash":` + H1 + `}`, "malformed", 0, ""},
			// objects with missing members: an absent version is not version 1, an absent hash is the empty hash
			{"empty-object", `{}`, "ok", 0, ""},
			{"no-version", `{"sha256Hash":` + H1 + `}`, "ok", 0, hashes[0]},
			{"no-hash", `{"version":1}`, "ok", 1, ""},
		}
		for _, m := range mals {
			for _, t := range []string{texts[0], texts[1], ""} {
				core := post && t == texts[1] && (m.name == "string" || m.name == "no-hash")
				add(core, "malformed:"+m.name, t, m.pq, m.ext, m.version, m.hash, "malformed("+m.name+") "+withText(t))
			}
		}
		// 8. wrong protocol version with an otherwise well-formed extension for H1
		for _, v := range []int{0, 2} {
			for _, t := range []string{texts[0], texts[1], ""} {
				core := post && ((v == 2 && t == texts[0]) || (v == 0 && t == ""))
				add(core, fmt.Sprintf("version:%d", v), t, pqJSON(v, hashes[0]), "ok", v, hashes[0],
					fmt.Sprintf("version=%d H1 %s", v, withText(t)))
			}
		}
		// 9. persistedQuery: null is "no extension"
		add(false, "null-extension", texts[0], "null", "null", 0, "", "pq=null Q1")
		add(false, "null-extension", "", "null", "null", 0, "", "pq=null no-text")
	}
	return out
}

// ---------------------------------------------------------------------------------------------
// Families of "nearly equal" texts: byte-wise distinct (so their SHA-256 differ) but equal under a
// normalisation some cache key might plausibly apply (collapse / trim whitespace, drop a BOM,
// unify line endings, fold case, Unicode-normalise). Members may or may not MEAN the same; what
// each exact text means is written down below (echo returns and logs its argument). Each family
// is explored as a universe of its own (BFS over all its events from all reachable states), so
// every member is requested by text, text+hash and hash only after every sibling was seen first.

type family struct {
	ID           string   `json:"id"`
	Why          string   `json:"why"`
	Texts        []string `json:"-"`
	Ops          []string `json:"ops,omitempty"`   // operation names to request with (nil = none)
	Heavy        bool     `json:"heavy,omitempty"` // long texts: POST only, fewer configs in the quick tier
	Sizes        []int    `json:"text_bytes,omitempty"`
	ThoroughOnly bool     `json:"thorough_only,omitempty"`
}

var families = []family{
	{ID: "strspace", Why: "amount / kind of whitespace inside a string literal is data",
		Texts: []string{`{ echo(s: "a b") }`, `{ echo(s: "a  b") }`, "{ echo(s: \"a\tb\") }"}},
	{ID: "comment", Why: "the newline that ends a # comment decides what is commented out",
		Texts: []string{"{ a # b\n}", "{ a #\n b }"}},
	{ID: "strcase", Why: "case inside a string literal is data",
		Texts: []string{`{ echo(s: "ab") }`, `{ echo(s: "AB") }`}},
	{ID: "namecase", Why: "names are case-sensitive: NAME is not a field",
		Texts: []string{`{name}`, `{NAME}`}},
	{ID: "blockstr", Why: "a newline inside a block string is data",
		Texts: []string{"{ echo(s: \"\"\"a\nb\"\"\") }", `{ echo(s: """a b""") }`}},
	{ID: "unicode", Why: "NFC and NFD spellings of a string literal are different data",
		Texts: []string{"{ echo(s: \"\u00e9\") }", "{ echo(s: \"e\u0301\") }"}},
	{ID: "trailing", Why: "same document with and without a trailing newline: same meaning, different hash",
		Texts: []string{"{a}", "{a}\n"}},
	{ID: "leading", Why: "same document after a leading space / byte order mark: same meaning, different hash",
		Texts: []string{"{a}", " {a}", "\ufeff{a}"}},
	{ID: "eol", Why: "same document with LF / CRLF line ends: same meaning, different hash",
		Texts: []string{"{ a\n b }", "{ a\r\n b }"}},
}

func jsonOf(s string) string { b, _ := json.Marshal(s); return string(b) }

func querySpec(valid bool, data string, log ...string) textSpec {
	if !valid {
		return textSpec{Data: map[string]string{"POST": "", "GET": ""}, Log: map[string][]string{}}
	}
	l := append([]string{"exec:query"}, log...)
	return textSpec{Valid: true, Data: map[string]string{"POST": data, "GET": data}, Log: map[string][]string{"POST": l, "GET": l}}
}

func echoSpec(arg string) textSpec {
	return querySpec(true, `{"echo":`+jsonOf(arg)+`}`, "rootfield:Query.echo", "resolver:Query.echo(s:"+jsonOf(arg)+")")
}

var (
	specA  = querySpec(true, `{"a":"A"}`, "rootfield:Query.a", "resolver:Query.a()")
	specAB = querySpec(true, `{"a":"A","b":null}`, "rootfield:Query.a", "resolver:Query.a()", "rootfield:Query.b", "resolver:Query.b()")
)

// what each exact family text means
var familyMeaning = map[string]textSpec{
	`{ echo(s: "a b") }`:            echoSpec("a b"),
	`{ echo(s: "a  b") }`:           echoSpec("a  b"),
	"{ echo(s: \"a\tb\") }":         echoSpec("a\tb"),
	"{ a # b\n}":                    specA,
	"{ a #\n b }":                   specAB,
	`{ echo(s: "ab") }`:             echoSpec("ab"),
	`{ echo(s: "AB") }`:             echoSpec("AB"),
	`{name}`:                        textInfo["{name}"],
	`{NAME}`:                        querySpec(false, ""),
	"{ echo(s: \"\"\"a\nb\"\"\") }": echoSpec("a\nb"),
	`{ echo(s: """a b""") }`:        echoSpec("a b"),
	"{ echo(s: \"\u00e9\") }":       echoSpec("\u00e9"),
	"{ echo(s: \"e\u0301\") }":      echoSpec("e\u0301"),
	"{a}":                           specA,
	"{a}\n":                         specA,
	" {a}":                          specA,
	"\ufeff{a}":                     specA,
	"{ a\n b }":                     specAB,
	"{ a\r\n b }":                   specAB,
}

// padded returns a text of exactly n bytes that means `{a}`: the padding is a # comment.
func padded(n int) string {
	const head, tail = "{a #", "\n}"
	return head + strings.Repeat("p", n-len(head)-len(tail)) + tail
}

// lengthFamilies: texts just below / at / above sizes at which a cache key might plausibly stop
// being the text itself (truncation, hashing, a size class), and pairs of equally long texts that
// share a head longer than the threshold and differ only in their last bytes - in meaning, too.
func lengthFamilies() []family {
	var out []family
	for _, kib := range []int{1, 2, 4, 64} {
		t := kib << 10
		near := family{ID: fmt.Sprintf("len%dk", kib), Heavy: true, ThoroughOnly: kib == 64, // quick keeps the 64 KiB pair
			Why:   fmt.Sprintf("same meaning, lengths %d / %d / %d bytes", t-1, t, t+1),
			Texts: []string{padded(t - 1), padded(t), padded(t + 1)}}
		for _, x := range near.Texts {
			familyMeaning[x] = specA
		}
		head := "{ #" + strings.Repeat("h", t+64) + "\n"
		pair := family{ID: fmt.Sprintf("tail%dk", kib), Heavy: true,
			Why:   fmt.Sprintf("equal length, common head of %d bytes, different last bytes and different meaning", len(head)),
			Texts: []string{head + " a }", head + " b }"}}
		familyMeaning[pair.Texts[0]] = specA
		familyMeaning[pair.Texts[1]] = querySpec(true, `{"b":null}`, "rootfield:Query.b", "resolver:Query.b()")
		out = append(out, near, pair)
	}
	// the same without comments: many aliased fields, the two texts differ in the very last field
	var body, data strings.Builder
	var log []string
	for i := 0; body.Len() < 2<<10+64; i++ {
		fmt.Fprintf(&body, " f%03d:a", i)
		fmt.Fprintf(&data, `"f%03d":"A",`, i)
		log = append(log, "rootfield:Query.a", "resolver:Query.a()")
	}
	ta, tb := "{"+body.String()+" z:a }", "{"+body.String()+" z:b }"
	familyMeaning[ta] = querySpec(true, "{"+data.String()+`"z":"A"}`, append(append([]string(nil), log...), "rootfield:Query.a", "resolver:Query.a()")...)
	familyMeaning[tb] = querySpec(true, "{"+data.String()+`"z":null}`, append(append([]string(nil), log...), "rootfield:Query.b", "resolver:Query.b()")...)
	out = append(out, family{ID: "fields2k", Heavy: true,
		Why: "equal length, common head above 2 KiB made of aliased fields, the last field differs", Texts: []string{ta, tb}})
	return out
}

// multi-operation texts: the SAME text (and hash) means different things per operationName
const (
	multiAB = "query A{a} query B{name}"
	multiBA = "query A{name} query B{a}"
)

func init() {
	nameSpec := querySpec(true, `{"name":"N"}`, "rootfield:Query.name", "resolver:Query.name()")
	familyMeaning[multiAB] = textSpec{Valid: true, Ops: map[string]textSpec{"A": specA, "B": nameSpec}}
	familyMeaning[multiBA] = textSpec{Valid: true, Ops: map[string]textSpec{"A": nameSpec, "B": specA}}
	families = append(families, family{ID: "multiop", Ops: []string{"A", "B", ""},
		Why:   "one text with two operations: each request runs the operation IT names (none named = error), whatever an earlier request selected",
		Texts: []string{multiAB, multiBA}})
	families = append(families, lengthFamilies()...)
	for fi := range families {
		f := &families[fi]
		for i, t := range f.Texts {
			f.Sizes = append(f.Sizes, len(t))
			spec, ok := familyMeaning[t]
			if !ok {
				panic("family text without a meaning: " + t)
			}
			if _, base := textInfo[t]; !base {
				textInfo[t] = spec
				n := fmt.Sprintf("%s.%c", f.ID, 'a'+i)
				nicks[t] = n
				nicks[sha(t)] = "H(" + n + ")"
			}
		}
	}
}

// familyAlphabet: every member (with every operation name of the family) as text only, text + own
// hash, hash only; text + hash of each sibling; POST block then GET block (heavy families: POST).
func familyAlphabet(f family) []Event {
	var out []Event
	ops := f.Ops
	if ops == nil {
		ops = []string{""}
	}
	methods := []string{"POST", "GET"}
	if f.Heavy {
		methods = methods[:1]
	}
	for _, method := range methods {
		ev := func(kind, text, hash, op, label string) {
			if op != "" {
				label += " op=" + op
			} else if f.Ops != nil {
				label += " op=none"
			}
			e := Event{Name: method + " " + label, Kind: f.ID + ":" + kind, Method: method, Text: text, Op: op, Ext: "none"}
			if hash != "" {
				e.PQ, e.Ext, e.Version, e.Hash = pqJSON(1, hash), "ok", 1, hash
			}
			out = append(out, e)
		}
		for _, t := range f.Texts {
			for _, op := range ops {
				ev("text-only", t, "", op, nick(t))
			}
		}
		for _, t := range f.Texts {
			for _, op := range ops {
				ev("text+own-hash", t, sha(t), op, nick(t)+"+"+nick(sha(t)))
			}
		}
		for _, t := range f.Texts {
			for _, u := range f.Texts {
				if t != u {
					ev("text+sibling-hash", t, sha(u), ops[0], nick(t)+"+"+nick(sha(u)))
				}
			}
		}
		for _, t := range f.Texts {
			for _, op := range ops {
				ev("hash-only", "", sha(t), op, "only "+nick(sha(t)))
			}
		}
	}
	return out
}

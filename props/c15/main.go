// C15 — the persisted-query cache binds a hash only to the text that hashes to it.
//
// Explicit-state BFS over request histories on the real gqlgen code (handler.Server with POST and
// GET transports, extension.AutomaticPersistedQuery, executor query cache, handler/lru,
// graphql.MapCache) against a reference model (model.go). Every successor is obtained by building
// a fresh server and replaying the shortest known path plus one event; states are deduplicated by
// the canonical cache contents. A second phase enumerates ALL sequences (no deduplication) over a
// core sub-alphabet up to a shorter length, which checks that the state key hides nothing.
package main

import (
	"encoding/json"
	"fmt"
	"os"
	"runtime"
	"sort"
	"strings"
	"sync"
	"time"

	"verif/common"
	"verif/probe"
)

type job struct {
	path []int
}

// parallel runs every job on a fresh server; results are indexed like jobs (deterministic).
func parallel(cfg Config, alpha []Event, universe []string, jobs []job) []Result {
	out := make([]Result, len(jobs))
	n := runtime.NumCPU()
	if n > len(jobs) {
		n = len(jobs)
	}
	var wg sync.WaitGroup
	var next int
	var mu sync.Mutex
	for i := 0; i < n; i++ {
		wg.Add(1)
		go func() {
			defer wg.Done()
			w := newWorker()
			for {
				mu.Lock()
				lo := next
				next += 64
				mu.Unlock()
				if lo >= len(jobs) {
					return
				}
				for j := lo; j < lo+64 && j < len(jobs); j++ {
					out[j] = w.runTrace(cfg, pathEvents(alpha, jobs[j].path), universe, false)
				}
			}
		}()
	}
	wg.Wait()
	return out
}

func pathEvents(alpha []Event, path []int) []Event {
	evs := make([]Event, len(path))
	for i, p := range path {
		evs[i] = alpha[p]
	}
	return evs
}

type replayData struct {
	Config string  `json:"config"`
	Events []Event `json:"events"`
}

type cfgStats struct {
	Universe    string `json:"universe"`
	Config      string `json:"config"`
	States      int    `json:"states"`
	Transitions int    `json:"transitions"`
	MaxDepth    int    `json:"max_depth"` // deepest level at which a new state appeared
	Levels      int    `json:"levels_expanded"`
	Closed      bool   `json:"frontier_emptied"` // every event was applied in every reachable state
	DepthDone   bool   `json:"depth_bound_completed"`
}

type run struct {
	c        *common.Check
	alpha    []Event
	universe []string
	traces   int
	classes  map[string]int // predicted class / observed class histogram over BFS transitions
	sampled  map[string]bool
}

func (r *run) report(cfg Config, evs []Event, res Result) {
	for _, p := range res.Problems {
		r.c.Report(p.Sig, fmt.Sprintf("[config %s, step %d of %d] %s", cfg.Name, p.Step+1, len(evs), p.What),
			replayData{Config: cfg.Name, Events: evs[:min(p.Step+1, len(evs))]})
	}
}

func (r *run) sample(cfg Config, res Result, why string) {
	if r.sampled[why] {
		return
	}
	r.sampled[why] = true
	type st struct {
		Event, Predicted, Observed, State string
	}
	var steps []st
	for _, s := range res.Steps {
		p := s.Pred.Class
		if s.Pred.Text != "" {
			p += "(" + nick(s.Pred.Text) + ")"
		}
		o := s.Obs.Class
		if s.Obs.Data != "" {
			o += " " + s.Obs.Data
		} else if s.Obs.Msg != "" {
			o += " " + s.Obs.Msg
		}
		steps = append(steps, st{s.Event, p, o, s.State})
	}
	r.c.Sample(map[string]any{"why": why, "config": cfg.Name, "steps": steps})
}

// bfs explores one configuration to the given depth.
func (r *run) bfs(cfg Config, depth int) cfgStats {
	st := cfgStats{Config: cfg.Name}
	type node struct {
		key    string // observed real state: deduplication
		mirror string // what the recorder shows when the path is replayed: replay self-check
		path   []int
	}
	root := parallel(cfg, r.alpha, r.universe, []job{{}})[0]
	r.traces++
	r.report(cfg, nil, root)
	seen := map[string]bool{root.Key: true}
	frontier := []node{{key: root.Key, mirror: root.MirrorKey}}
	st.States = 1
	for d := 0; d < depth && len(frontier) > 0; d++ {
		if r.c.Expired() {
			return st
		}
		var jobs []job
		for _, n := range frontier {
			for ei := range r.alpha {
				jobs = append(jobs, job{path: append(append([]int(nil), n.path...), ei)})
			}
		}
		results := parallel(cfg, r.alpha, r.universe, jobs)
		r.traces += len(jobs)
		var next []node
		for i, res := range results {
			parent := frontier[i/len(r.alpha)]
			evs := pathEvents(r.alpha, jobs[i].path)
			// self-check: replaying the parent's path on a fresh server must reproduce its state
			prev := root.MirrorKey
			if len(res.Steps) > 1 {
				prev = res.Steps[len(res.Steps)-2].State
			}
			if prev != parent.mirror {
				// Never seen on the unchanged tree. Servers and caches are fresh per trace, so this means
				// some process-wide state of gqlgen (shared by the parallel workers) leaks into the
				// outcome of a request: the result is not a function of the history on that server.
				r.c.Report("same-history-different-state|"+evs[len(evs)-1].Kind,
					fmt.Sprintf("[config %s] replaying %d events on a fresh server reached %s, the first run of the same prefix reached %s", cfg.Name, len(evs)-1, prev, parent.mirror),
					replayData{Config: cfg.Name, Events: evs})
			}
			r.report(cfg, evs, res)
			st.Transitions++
			last := res.Steps[len(res.Steps)-1]
			r.classes["predicted:"+last.Pred.Class]++
			r.classes["observed:"+last.Obs.Class]++
			e := evs[len(evs)-1]
			switch {
			case e.Kind == "hash-only" && last.Obs.Class == "exec" && cfg.ApqCap > 0 && d >= 2:
				r.sample(cfg, res, "hash-only request served from an LRU cache")
			case e.Kind == "hash-only" && last.Obs.Class == "notfound" && cfg.ApqCap > 0 && d >= 2:
				r.sample(cfg, res, "hash-only request after eviction or without registration")
			case e.Kind == "text+other-hash" && d >= 1:
				r.sample(cfg, res, "text with the hash of another text")
			case e.Kind == "text+uppercase-hash":
				r.sample(cfg, res, "text with upper-case spelling of its hash")
			case e.Kind == "malformed:string" && d >= 1:
				r.sample(cfg, res, "malformed extension")
			}
			if !seen[res.Key] {
				seen[res.Key] = true
				st.States++
				st.MaxDepth = d + 1
				next = append(next, node{key: res.Key, mirror: res.MirrorKey, path: jobs[i].path})
			}
		}
		frontier = next
		st.Levels = d + 1
	}
	st.Closed = len(frontier) == 0
	st.DepthDone = true
	return st
}

// allSequences runs every sequence of exactly 1..maxLen events over the core alphabet (no
// deduplication). Returns the number of sequences run and whether it completed.
func (r *run) allSequences(cfg Config, core []int, maxLen int) (int, bool) {
	total := 0
	for l := 1; l <= maxLen; l++ {
		n := 1
		for i := 0; i < l; i++ {
			n *= len(core)
		}
		const chunk = 1 << 16
		for lo := 0; lo < n; lo += chunk {
			if r.c.Expired() {
				return total, false
			}
			hi := min(lo+chunk, n)
			jobs := make([]job, 0, hi-lo)
			for x := lo; x < hi; x++ {
				p := make([]int, l)
				for i, y := l-1, x; i >= 0; i-- {
					p[i] = core[y%len(core)]
					y /= len(core)
				}
				jobs = append(jobs, job{path: p})
			}
			results := parallel(cfg, r.alpha, r.universe, jobs)
			for i, res := range results {
				if len(res.Problems) > 0 {
					r.report(cfg, pathEvents(r.alpha, jobs[i].path), res)
				}
			}
			total += len(jobs)
		}
	}
	return total, true
}

func replay(path string, alpha []Event) {
	b, err := os.ReadFile(path)
	if err != nil {
		common.Broken("cannot read replay file: %v", err)
	}
	var f struct {
		Signature string     `json:"signature"`
		What      string     `json:"what"`
		Replay    replayData `json:"replay"`
	}
	if err := json.Unmarshal(b, &f); err != nil {
		common.Broken("replay file does not parse: %v", err)
	}
	cfg, ok := configByName(f.Replay.Config)
	if !ok {
		common.Broken("replay file names unknown config %q", f.Replay.Config)
	}
	fmt.Printf("replaying %d events on config %s (tree under test: %s)\n", len(f.Replay.Events), cfg.Name, common.RepoDir())
	amb := false
	for _, e := range f.Replay.Events {
		amb = amb || e.Ext == "ambiguous"
	}
	var res Result
	if amb {
		fmt.Println("history contains ambiguous extension objects: the outcome may differ per run, trying up to 200 runs")
		for i := 0; i < 200 && len(res.Problems) == 0; i++ {
			res = newWorker().runAmbiguous(cfg, f.Replay.Events)
		}
	} else {
		res = newWorker().runTrace(cfg, f.Replay.Events, probeUniverse(append(append([]Event(nil), alpha...), f.Replay.Events...)), true)
	}
	for i, s := range res.Steps {
		fmt.Printf("step %d: %s\n  predicted: %s %s\n  observed:  status=%d class=%s data=%s msg=%q log=%v\n  body: %s\n  state: %s\n  model: %s\n",
			i+1, s.Event, s.Pred.Class, nick(s.Pred.Text), s.Obs.Status, s.Obs.Class, s.Obs.Data, s.Obs.Msg, s.Obs.Log, s.Obs.Body, s.State, s.Model)
	}
	if len(res.Problems) == 0 {
		fmt.Println("oracle: no disagreement")
		os.Exit(0)
	}
	for _, p := range res.Problems {
		fmt.Printf("oracle: DISAGREEMENT at step %d [%s]: %s\n", p.Step+1, p.Sig, p.What)
	}
	os.Exit(1)
}

func main() {
	alpha := buildAlphabet()
	if p := common.ReplayArg(); p != "" {
		replay(p, alpha)
	}
	c := common.New("C15", "model_checking")
	if c.Tier != "thorough" {
		// quick: the GET block repeats the POST block; keep two of the ten malformed-extension
		// variants on GET (all ten stay on POST). thorough keeps everything.
		var trimmed []Event
		for _, e := range alpha {
			if e.Method == "GET" && strings.HasPrefix(e.Kind, "malformed:") && e.Kind != "malformed:string" && e.Kind != "malformed:no-hash" {
				continue
			}
			trimmed = append(trimmed, e)
		}
		alpha = trimmed
	}
	depth, seqLen, famDepth, ambRepeat := 5, 3, 6, 8
	c.Budget(150 * time.Second)
	if c.Tier == "thorough" {
		depth, seqLen, famDepth, ambRepeat = 8, 4, 10, 24
		c.Budget(20 * time.Minute)
	}
	r := &run{c: c, alpha: alpha, universe: probeUniverse(alpha), classes: map[string]int{}, sampled: map[string]bool{}}

	// sanity of the alphabet itself (machinery, not property): names unique, semantic reading
	// of well-formed extensions consistent with the raw JSON that goes on the wire
	names := map[string]bool{}
	var core []int
	for i, e := range alpha {
		if names[e.Name] {
			common.Broken("duplicate event name %q", e.Name)
		}
		names[e.Name] = true
		if e.Core {
			core = append(core, i)
		}
		if e.Ext == "ok" && e.PQ != "" {
			var pq map[string]any
			if json.Unmarshal([]byte(e.PQ), &pq) != nil {
				common.Broken("event %q: well-formed extension does not parse", e.Name)
			}
			if v, ok := pq["version"].(float64); (ok && int(v) != e.Version) || (!ok && e.Version != 0) {
				common.Broken("event %q: version on the wire differs from the model's reading", e.Name)
			}
			if h, ok := pq["sha256Hash"].(string); (ok && h != e.Hash) || (!ok && e.Hash != "") {
				common.Broken("event %q: hash on the wire differs from the model's reading", e.Name)
			}
		}
	}

	var stats []cfgStats
	states, transitions, maxDepth := 0, 0, 0
	allDepth, allClosed := true, true
	for _, cfg := range configs {
		st := r.bfs(cfg, depth)
		st.Universe = "base"
		stats = append(stats, st)
		states += st.States
		transitions += st.Transitions
		maxDepth = max(maxDepth, st.MaxDepth)
		allDepth = allDepth && st.DepthDone
		allClosed = allClosed && st.Closed
		fmt.Printf("bfs %-13s states=%-4d transitions=%-6d max_depth=%d levels=%d frontier_emptied=%v\n",
			st.Config, st.States, st.Transitions, st.MaxDepth, st.Levels, st.Closed)
	}
	// near-equal text families: own universes, on the configs where a cache key is at stake
	famStates, famTransitions, famSeq, famEvents := 0, 0, 0, 0
	famClosed := true
	for _, f := range families {
		if f.ThoroughOnly && c.Tier != "thorough" {
			continue
		}
		fa := familyAlphabet(f)
		famEvents += len(fa)
		r.alpha, r.universe = fa, probeUniverse(fa)
		all := make([]int, len(fa))
		for i := range all {
			all[i] = i
		}
		fs, ft := 0, 0
		for _, cfg := range configs {
			if !cfg.Family || (f.Heavy && c.Tier != "thorough" && !cfg.HeavyQuick) {
				continue
			}
			st := r.bfs(cfg, famDepth)
			st.Universe = "family:" + f.ID
			stats = append(stats, st)
			fs += st.States
			ft += st.Transitions
			maxDepth = max(maxDepth, st.MaxDepth)
			allDepth = allDepth && st.DepthDone
			famClosed = famClosed && st.Closed
			if cfg.QC { // and every short sequence without deduplication
				n, done := r.allSequences(cfg, all, 2)
				famSeq += n
				allDepth = allDepth && done
			}
		}
		famStates += fs
		famTransitions += ft
		fmt.Printf("family %-9s texts=%d bytes=%v events=%-3d states=%-5d transitions=%-6d (%s)\n", f.ID, len(f.Texts), f.Sizes, len(fa), fs, ft, f.Why)
	}
	states += famStates
	transitions += famTransitions
	r.alpha, r.universe = alpha, probeUniverse(alpha)
	bfsTraces := r.traces

	seqTotal, seqDone := 0, true
	seqPer := map[string]int{}
	for _, cfg := range configs {
		l := seqLen
		if !cfg.Deep {
			l--
		}
		n, done := r.allSequences(cfg, core, l)
		seqPer[cfg.Name] = n
		seqTotal += n
		seqDone = seqDone && done
	}
	pairs := 0
	if c.Tier == "thorough" { // every ordered pair of the FULL alphabet, no deduplication
		all := make([]int, len(alpha))
		for i := range all {
			all[i] = i
		}
		for _, cfg := range configs {
			n, done := r.allSequences(cfg, all, 2)
			pairs += n
			seqDone = seqDone && done
		}
		fmt.Printf("full-alphabet phase: all sequences of length<=2 over %d events, %d sequences over %d configs\n", len(alpha), pairs, len(configs))
	}
	// extension objects with case-variant / duplicated member names, repeated (ambiguous.go)
	ambConfigs := []string{"mapcache", "lru2", "mapcache+qc2"}
	ambHist, ambReq := 0, 0
	for _, name := range ambConfigs {
		cfg, _ := configByName(name)
		hs := ambiguousHistories(alpha, ambRepeat)
		results := make([]Result, len(hs))
		var wg sync.WaitGroup
		sem := make(chan struct{}, runtime.NumCPU())
		for i := range hs {
			wg.Add(1)
			sem <- struct{}{}
			go func(i int) {
				defer wg.Done()
				results[i] = newWorker().runAmbiguous(cfg, hs[i])
				<-sem
			}(i)
		}
		wg.Wait()
		for i, res := range results {
			r.report(cfg, hs[i], res)
			ambHist++
			ambReq += len(hs[i])
		}
	}
	fmt.Printf("ambiguous-extension phase: %d histories (each ambiguous request repeated %d times), %d requests over %d configs\n", ambHist, ambRepeat, ambReq, len(ambConfigs))
	fmt.Printf("all-sequences phase: %d core events, length<=%d (%d on the non-deep configs), %d sequences over %d configs, completed=%v\n",
		len(core), seqLen, seqLen-1, seqTotal, len(configs), seqDone)

	c.Cov["states"] = states
	c.Cov["transitions"] = transitions
	c.Cov["max_depth"] = maxDepth
	c.Cov["traces_validated_against_impl"] = bfsTraces + seqTotal + pairs + famSeq + ambHist
	c.Cov["ambiguous_extension_histories"] = ambHist
	c.Cov["ambiguous_extension_requests"] = ambReq
	c.Cov["family_states"] = famStates
	c.Cov["family_transitions"] = famTransitions
	c.Cov["family_length2_traces"] = famSeq
	c.Cov["family_events_total"] = famEvents
	c.Cov["family_frontier_emptied"] = famClosed
	c.Cov["bfs_traces"] = bfsTraces
	c.Cov["all_sequences_traces"] = seqTotal
	c.Cov["all_sequences_per_config"] = seqPer
	c.Cov["full_alphabet_length2_traces"] = pairs
	c.Cov["per_config"] = stats
	c.Cov["frontier_emptied_all_configs"] = allClosed
	c.Cov["exhaustive"] = allDepth && seqDone
	c.Cov["alphabet_events"] = len(alpha)
	c.Cov["core_events"] = len(core)
	keys := make([]string, 0, len(r.classes))
	for k := range r.classes {
		keys = append(keys, k)
	}
	sort.Strings(keys)
	hist := map[string]int{}
	for _, k := range keys {
		hist[k] = r.classes[k]
	}
	c.Cov["bfs_transition_classes"] = hist
	c.Cov["bounds"] = map[string]any{
		"bfs_depth":           depth,
		"all_sequences_len":   fmt.Sprintf("%d on configs with all_sequences_full_length, %d on the others", seqLen, seqLen-1),
		"texts":               texts,
		"near_equal_families": families,
		"family_bfs_depth":    famDepth,
		"family_configs":      "those with family=true (long-text families in the quick tier: those with heavy_families_in_quick; the thorough_only family only in thorough); plus all sequences of length<=2 of the family alphabet on the ones with a query cache",
		"ambiguous_extension": fmt.Sprintf("objects with case-variant and duplicated version / sha256Hash members (10 objects x {Q1, Q2, no text} x {POST, GET}), each in 3 histories (nothing / victim / both registered first) on configs %v; within a history the request is repeated %d times, each time followed by hash-only H1 and H2 (the member a case-insensitive decoder picks may change per request: repeat count is the bound); every step judged, any one consistent reading accepted; not part of the BFS state count", ambConfigs, ambRepeat),
		"exact_key_oracle":    "on every judged step every Get/Add gqlgen makes on the recording caches is compared byte for byte with the request: APQ key == client hash, APQ value == client text, query-cache key == text being run, stored document == parse(text)",
		"configs":             configs,
		"state_key":           "APQ cache entries (+LRU recency order) + query-document cache keys (+order)",
		"exhaustive_means":    "every event of the alphabet applied to every state first reached at depth < bfs_depth, and every core-alphabet sequence of length <= all_sequences_len; both on every config",
		"frontier_emptied":    "true for a config when a BFS level produced no new state: every event was applied in every reachable state",
		"successor_semantics": "fresh server, replay of the shortest known path plus one event",
	}
	c.Assume = []string{
		"requests are issued one after another (no concurrent requests); concurrency on the caches is outside this property's quantifier",
		"the reference for bounded caches is textbook LRU (Get and Add refresh recency, Add evicts the least recent); a hash-only request is required to follow that policy exactly, which is stricter than the statement (NotFound is always statement-legal)",
		"rejected requests are only required to produce an error response, run nothing and change nothing; the wording of the error is not compared",
	}
	probe.Cleanup()
	c.Finish()
}

package main

import (
	"fmt"
	"strings"
)

// OpSpec is one operation of an enumerated document.
//
//	Kind: query | mutation | subscription
//	Form: named  -> "query A { a }"      (name is A, B, C by position)
//	      anon   -> "query { a }"        (keyword, no name)
//	      short  -> "{ a }"              (query shorthand; queries only)
type OpSpec struct {
	Kind string `json:"kind"`
	Form string `json:"form"`
}

// DocSpec is one enumerated document: 1..3 operations plus at most one injected fault.
//
//	Fault: ""              -> no fault
//	       "parse"         -> the selection set of operation FaultAt is "{ <field> ! }" (syntax error)
//	       "unknown-field" -> operation FaultAt selects the field "nope" that its root type lacks
//
// A fault-free document with an anonymous operation next to other operations is still invalid
// (GraphQL spec 5.2.2.1, lone anonymous operation); Class() reports that as "validation".
//
// Names selects the operation names by position: "" = A, B, C; otherwise one of nameSchemes, whose
// names are related without being equal (case variants, prefixes, trailing underscore/digit).
type DocSpec struct {
	Ops     []OpSpec `json:"ops"`
	Fault   string   `json:"fault"`
	FaultAt int      `json:"fault_at"`
	Names   string   `json:"names,omitempty"`
}

var opNames = []string{"A", "B", "C"}

// nameSchemes: names by position. Each scheme also exists reversed, so that both "the shorter /
// lower-case name first" and "the longer / upper-case name first" occur with every kind order.
var nameSchemes = map[string][]string{
	"case":       {"getUser", "GetUser", "GETUSER"},
	"case-rev":   {"GETUSER", "GetUser", "getUser"},
	"prefix":     {"Get", "GetU", "GetUser"},
	"prefix-rev": {"GetUser", "GetU", "Get"},
	"suffix":     {"Op", "Op_", "Op1"},
	"suffix-rev": {"Op1", "Op_", "Op"},
}

var nameSchemeOrder = []string{"case", "case-rev", "prefix", "prefix-rev", "suffix", "suffix-rev"}

func (d DocSpec) names() []string {
	if d.Names == "" {
		return opNames
	}
	n, ok := nameSchemes[d.Names]
	if !ok {
		panic("unknown name scheme " + d.Names)
	}
	return n
}

// What one operation selects, what its resolver event looks like in handschema.Log and what
// data it yields, by (kind, position). Every position uses a different field or argument so
// that the resolver log identifies the operation that ran.
type fieldInfo struct{ sel, event, data string }

var fieldTable = map[string][3]fieldInfo{
	"query": {
		{`a`, `resolver:Query.a()`, `{"a":"A"}`},
		{`name`, `resolver:Query.name()`, `{"name":"N"}`},
		{`b(x: 3)`, `resolver:Query.b(x:3)`, `{"b":6}`},
	},
	"mutation": {
		{`m(v: 1)`, `resolver:Mutation.m(v:1)`, `{"m":1}`},
		{`m2`, `resolver:Mutation.m2()`, `{"m2":"M2"}`},
		{`m(v: 3)`, `resolver:Mutation.m(v:3)`, `{"m":3}`},
	},
	// the harness scripts every subscription to emit the value 7 as its first event
	"subscription": {
		{`s(n: 1)`, `resolver:Subscription.s(n:1)`, `{"s":7}`},
		{`s2`, `resolver:Subscription.s2()`, `{"s2":7}`},
		{`s(n: 3)`, `resolver:Subscription.s(n:3)`, `{"s":7}`},
	},
}

// Name returns the name of operation i ("" when anonymous).
func (d DocSpec) Name(i int) string {
	if d.Ops[i].Form == "named" {
		return d.names()[i]
	}
	return ""
}

func (d DocSpec) Text() string {
	var parts []string
	for i, op := range d.Ops {
		sel := fieldTable[op.Kind][i].sel
		if d.Fault == "unknown-field" && d.FaultAt == i {
			sel = "nope"
		}
		if d.Fault == "parse" && d.FaultAt == i {
			sel += " !"
		}
		switch op.Form {
		case "named":
			parts = append(parts, fmt.Sprintf("%s %s { %s }", op.Kind, d.names()[i], sel))
		case "anon":
			parts = append(parts, fmt.Sprintf("%s { %s }", op.Kind, sel))
		case "short":
			parts = append(parts, fmt.Sprintf("{ %s }", sel))
		}
	}
	return strings.Join(parts, " ")
}

// Class is the reference's verdict on the document alone: valid | parse | validation.
func (d DocSpec) Class() string {
	if d.Fault == "parse" {
		return "parse"
	}
	if d.Fault == "unknown-field" {
		return "validation"
	}
	if len(d.Ops) > 1 {
		for _, op := range d.Ops {
			if op.Form != "named" {
				return "validation" // anonymous operation must be alone
			}
		}
	}
	return "valid"
}

// Select is the reference operation selection (GraphQL spec 6.1 GetOperation): with no name the
// document must hold exactly one operation; with a name, the operation carrying it. -1 = none.
func (d DocSpec) Select(hasName bool, name string) int {
	if !hasName {
		if len(d.Ops) == 1 {
			return 0
		}
		return -1
	}
	for i := range d.Ops {
		if d.Name(i) != "" && d.Name(i) == name {
			return i
		}
	}
	return -1
}

func opAlphabet() []OpSpec {
	return []OpSpec{
		{"query", "named"}, {"query", "short"}, {"query", "anon"},
		{"mutation", "named"}, {"mutation", "anon"},
		{"subscription", "named"}, {"subscription", "anon"},
	}
}

// enumerateDocs lists every document with 1..maxOps operations over the alphabet, each in its
// fault-free form, with a parse error in each operation, and with an unknown field in each operation.
// Order: fewer operations first, fault-free before faulty (simplest first).
func enumerateDocs(maxOps int) []DocSpec {
	var out []DocSpec
	alpha := opAlphabet()
	var rec func(prefix []OpSpec, n int)
	rec = func(prefix []OpSpec, n int) {
		if len(prefix) == n {
			ops := append([]OpSpec(nil), prefix...)
			out = append(out, DocSpec{Ops: ops})
			for _, f := range []string{"parse", "unknown-field"} {
				for i := range ops {
					out = append(out, DocSpec{Ops: ops, Fault: f, FaultAt: i})
				}
			}
			return
		}
		for _, a := range alpha {
			rec(append(prefix, a), n)
		}
	}
	for n := 1; n <= maxOps; n++ {
		rec(nil, n)
	}
	return append(out, enumerateRelatedNameDocs(maxOps)...)
}

// enumerateRelatedNameDocs: every fault-free document of 1..maxOps NAMED operations (all kind
// sequences) under every name scheme. These are all valid documents; what varies is how close
// the operation names are to each other and (opNameChoices) to the requested operationName.
func enumerateRelatedNameDocs(maxOps int) []DocSpec {
	var out []DocSpec
	kinds := []string{"query", "mutation", "subscription"}
	var rec func(prefix []OpSpec, n int, scheme string)
	rec = func(prefix []OpSpec, n int, scheme string) {
		if len(prefix) == n {
			out = append(out, DocSpec{Ops: append([]OpSpec(nil), prefix...), Names: scheme})
			return
		}
		for _, k := range kinds {
			rec(append(prefix, OpSpec{k, "named"}), n, scheme)
		}
	}
	for n := 1; n <= maxOps; n++ {
		for _, sch := range nameSchemeOrder {
			rec(nil, n, sch)
		}
	}
	return out
}

// OpNameChoice is one operationName setting of a request.
type OpNameChoice struct {
	Has  bool   `json:"has"`
	Name string `json:"name"`
}

const unknownOpName = "Zz"

// nearMisses of a present name: other case, a proper prefix, an extension, surrounding space.
func nearMisses(n string) []string {
	out := []string{strings.ToUpper(n), strings.ToLower(n), n + "x", " " + n, n + " "}
	if len(n) > 1 {
		out = append(out, n[:len(n)-1])
		// first letter in the other case
		f := n[:1]
		if f == strings.ToUpper(f) {
			f = strings.ToLower(f)
		} else {
			f = strings.ToUpper(f)
		}
		out = append(out, f+n[1:])
	}
	return out
}

// opNameChoices: absent, each defined name, one unknown name; for documents with related names
// (d.Names != "") also every near-miss of every defined name. A near-miss that happens to equal
// another defined name is just that name (listed once).
func opNameChoices(d DocSpec) []OpNameChoice {
	out := []OpNameChoice{{}}
	seen := map[string]bool{}
	add := func(n string) {
		if !seen[n] {
			seen[n] = true
			out = append(out, OpNameChoice{true, n})
		}
	}
	for i := range d.Ops {
		if n := d.Name(i); n != "" {
			add(n)
		}
	}
	add(unknownOpName)
	if d.Names != "" {
		for i := range d.Ops {
			for _, m := range nearMisses(d.Name(i)) {
				add(m)
			}
		}
	}
	return out
}

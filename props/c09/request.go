package main

import (
	"bytes"
	"context"
	"crypto/sha256"
	"encoding/hex"
	"encoding/json"
	"mime/multipart"
	"net/http"
	"net/http/httptest"
	"net/url"
	"strings"

	"github.com/vektah/gqlparser/v2/ast"
	"github.com/vektah/gqlparser/v2/gqlerror"

	"github.com/99designs/gqlgen/graphql"
	"github.com/99designs/gqlgen/graphql/errcode"
	"github.com/99designs/gqlgen/graphql/handler"
	"github.com/99designs/gqlgen/graphql/handler/extension"
	"github.com/99designs/gqlgen/graphql/handler/lru"
	"github.com/99designs/gqlgen/graphql/handler/transport"

	"verif/handschema"
)

// Carrier is one way of putting (document, operationName) on the wire.
type Carrier struct {
	Name      string
	Transport string // gqlgen transport expected to answer; "none" = no transport supports it
	GetLike   bool   // HTTP GET semantics: only queries may execute
	OpName    bool   // can carry an operationName
	Executes  bool   // a GraphQL request the server is expected to act on
	APQ       bool   // needs the AutomaticPersistedQuery extension

	// Odd carriers: a non-POST method whose request nevertheless carries a body and a
	// Content-Type from the request media-type alphabet (see oddCarriers).
	Odd    bool
	Method string // HTTP method of an odd carrier
	ReqCT  string // its Content-Type header ("" = absent)
	Decoy  bool   // URL carries the case's document, the body a decoy mutation
}

var carriers = []Carrier{
	{Name: "GET", Transport: "GET", GetLike: true, OpName: true, Executes: true},
	{Name: "POST", Transport: "POST", OpName: true, Executes: true},
	// application/x-www-form-urlencoded: the transport documents three body forms
	// ("Form body can be json, urlencoded parameters or plain text")
	{Name: "FORM-json", Transport: "UrlEncodedForm", OpName: true, Executes: true},
	{Name: "FORM-escaped", Transport: "UrlEncodedForm", Executes: true}, // query=<percent-encoded document>
	{Name: "FORM-plain", Transport: "UrlEncodedForm", Executes: true},   // query=<document text>
	{Name: "GRAPHQL", Transport: "GRAPHQL", Executes: true},             // body is the document
	{Name: "MULTIPART", Transport: "MultipartForm", OpName: true, Executes: true},
	// GET whose query string holds the valid parameters plus one pair with a broken percent escape
	{Name: "GET-badqs", Transport: "GET", GetLike: true, OpName: true},
	{Name: "HEAD", Transport: "Options", GetLike: true, OpName: true},
	{Name: "OPTIONS", Transport: "Options", GetLike: true, OpName: true},
	{Name: "PUT", Transport: "none", OpName: true},
	// GET carrying only the sha256 of a document registered earlier by POST (APQ)
	{Name: "GET-apq", Transport: "GET", GetLike: true, OpName: true, Executes: true, APQ: true},
	// GET carrying a sha256 nobody registered
	{Name: "GET-apq-miss", Transport: "GET", GetLike: true, OpName: true, APQ: true},
}

// Request media types an odd carrier may announce. The body always matches the announced type
// (JSON for the json types, for text/plain and when absent; the document text for
// application/graphql; a JSON body for urlencoded, one of the forms that transport documents;
// an operations/map form for multipart).
var reqMediaTypes = []string{
	"application/json",
	"application/json; charset=utf-8",
	"application/graphql+json",
	"application/graphql+json; charset=utf-8",
	"application/graphql",
	"application/x-www-form-urlencoded",
	"multipart/form-data; boundary=" + boundary,
	"text/plain",
	"",
}

// oddCarriers: for every request media type
//
//	GET+body:<ct>    GET, empty query string, body carries the case's document/operationName.
//	                 Over GET the GraphQL parameters are those of the URL: this request names no
//	                 document, so nothing may run (whatever the body says).
//	GET+decoy:<ct>   GET whose URL carries the case's document/operationName (judged exactly like
//	                 a plain GET) while the body carries a mutation that must never run.
//	HEAD|PUT|DELETE|PATCH+body:<ct>   body carries the case's document; no resolver may run.
func oddCarriers() []Carrier {
	var out []Carrier
	for _, ct := range reqMediaTypes {
		label := ct
		if label == "" {
			label = "absent"
		}
		if i := strings.Index(label, "; boundary"); i > 0 {
			label = label[:i]
		}
		bodyCarriesName := essenceOf(ct) != "application/graphql"
		out = append(out,
			Carrier{Name: "GET+body:" + label, Transport: "GET", GetLike: true, OpName: bodyCarriesName, Odd: true, Method: "GET", ReqCT: ct},
			Carrier{Name: "GET+decoy:" + label, Transport: "GET", GetLike: true, OpName: true, Executes: true, Odd: true, Method: "GET", ReqCT: ct, Decoy: true},
			Carrier{Name: "HEAD+body:" + label, Transport: "Options", GetLike: true, OpName: bodyCarriesName, Odd: true, Method: "HEAD", ReqCT: ct},
		)
		for _, m := range []string{"PUT", "DELETE", "PATCH"} {
			out = append(out, Carrier{Name: m + "+body:" + label, Transport: "none", OpName: bodyCarriesName, Odd: true, Method: m, ReqCT: ct})
		}
	}
	return out
}

func essenceOf(ct string) string {
	if i := strings.IndexByte(ct, ';'); i >= 0 {
		ct = ct[:i]
	}
	return strings.TrimSpace(ct)
}

var carrierIndex = func() map[string]Carrier {
	carriers = append(carriers, oddCarriers()...)
	m := map[string]Carrier{}
	for _, c := range carriers {
		m[c.Name] = c
	}
	return m
}()

func carrierByName(n string) Carrier {
	c, ok := carrierIndex[n]
	if !ok {
		panic("unknown carrier " + n)
	}
	return c
}

const decoyDoc = "mutation Decoy { m(v: 9) }"

// ---- configuration alphabets ------------------------------------------------------------

const (
	mtJSON = "application/json"
	mtGR   = "application/graphql-response+json"
)

var acceptSingles = []string{"", "*/*", mtJSON, mtGR, "application/*", "text/html", "@@@"}

// acceptAlphabet: absent, six single values, every ordered pair of distinct single values.
func acceptAlphabet() []string {
	out := append([]string(nil), acceptSingles...)
	for _, a := range acceptSingles[1:] {
		for _, b := range acceptSingles[1:] {
			if a != b {
				out = append(out, a+", "+b)
			}
		}
	}
	return out
}

var rhAlphabet = []string{"nil", "custom", "ct-json", "ct-gr"}

// rhSpellingAlphabet: further ResponseHeaders settings, sent under a smaller product (see plan):
// the Content-Type key spelled all lower-case / all upper-case (http.Header and gqlgen's own
// negotiation treat header names case-insensitively), a charset parameter on
// application/graphql-response+json, and a non-Content-Type header in non-canonical spelling.
// Together with rhAlphabet every key spelling meets every value (application/json and
// application/graphql-response+json, with and without charset) at least once - a pairwise
// selection, not the full spelling x value x extra-header product.
var rhSpellingAlphabet = []string{"custom-lower", "ct-gr-lower", "ct-gr-upper", "ct-json-lower", "ct-json-upper", "ct-gr-charset", "ct-gr-charset-lower", "ct-json-charset-upper"}

func rhMap(rh string) map[string][]string {
	switch rh {
	case "custom":
		return map[string][]string{"X-Verif": {"1"}}
	case "ct-json":
		return map[string][]string{"Content-Type": {"application/json; charset=utf-8"}, "X-Verif": {"1"}}
	case "ct-gr":
		return map[string][]string{"Content-Type": {mtGR}}
	case "custom-lower":
		return map[string][]string{"x-verif": {"1"}}
	case "ct-gr-lower":
		return map[string][]string{"content-type": {mtGR}}
	case "ct-gr-upper":
		return map[string][]string{"CONTENT-TYPE": {mtGR}, "x-verif": {"1"}}
	case "ct-json-lower":
		return map[string][]string{"content-type": {mtJSON}, "x-verif": {"1"}}
	case "ct-json-upper":
		return map[string][]string{"CONTENT-TYPE": {mtJSON}}
	case "ct-gr-charset":
		return map[string][]string{"Content-Type": {mtGR + "; charset=utf-8"}}
	case "ct-gr-charset-lower":
		return map[string][]string{"content-type": {mtGR + "; charset=utf-8"}, "X-Verif": {"1"}}
	case "ct-json-charset-upper":
		return map[string][]string{"CONTENT-TYPE": {"application/json; charset=utf-8"}}
	}
	return nil
}

// configuredContentType is the Content-Type a ResponseHeaders setting configures (header names
// are case-insensitive).
func configuredContentType(rh string) (string, bool) {
	for k, v := range rhMap(rh) {
		if strings.EqualFold(k, "Content-Type") && len(v) > 0 {
			return v[0], true
		}
	}
	return "", false
}

var orderAlphabet = []string{"default", "reversed"}

// Step is one earlier request of a history (sent on the same server before the case's own request).
type Step struct {
	Doc     DocSpec      `json:"doc"`
	OpName  OpNameChoice `json:"operation_name"`
	Carrier string       `json:"carrier"`
	Accept  string       `json:"accept"`
}

// Case is one fully specified request against one server configuration.
//
// A case with History == "" is a single request on a server built like handler.New (no caches).
// A case with History != "" is a short history: a fresh server configured like
// handler.NewDefaultServer (LRU query-document cache of 1000 entries, AutomaticPersistedQuery)
// receives the requests in Before and then the case's own request; EVERY response of the
// history is judged by the same per-request oracle.
type Case struct {
	Doc     DocSpec      `json:"doc"`
	OpName  OpNameChoice `json:"operation_name"`
	Carrier string       `json:"carrier"`
	Accept  string       `json:"accept"` // "" = header absent
	RH      string       `json:"response_headers"`
	Order   string       `json:"order"`
	History string       `json:"history,omitempty"`
	Before  []Step       `json:"before,omitempty"`
	// server side: what the selected operation's resolver does ("" = returns its value) and how
	// errors are presented ("" = default presenter); see resolverOutcomes / presentations
	Resolver string `json:"resolver,omitempty"`
	Present  string `json:"presentation,omitempty"`
}

// resolverOutcomes: the resolver always returns its value; besides that it reports
//
//	value            nothing
//	error            a plain error
//	error-validation an error whose extensions.code is GRAPHQL_VALIDATION_FAILED (e.g. forwarded from upstream)
//	error-parse      ... GRAPHQL_PARSE_FAILED
//	error-protocol   ... VERIF_PROTOCOL, registered with errcode.RegisterErrorType as KindProtocol
//	error-user       ... VERIF_USER, registered as KindUser
var resolverOutcomes = []string{"value", "error", "error-validation", "error-parse", "error-protocol", "error-user"}

// presentations: default error presenter; a presenter that answers a copy of the error without
// extensions; an AroundResponses middleware that replaces every error of a response by a new one.
var presentations = []string{"default", "strip-extensions", "rewrite-middleware"}

func init() {
	errcode.RegisterErrorType("VERIF_PROTOCOL", errcode.KindProtocol)
	errcode.RegisterErrorType("VERIF_USER", errcode.KindUser)
}

func resolverError(outcome string) *gqlerror.Error {
	code := ""
	switch outcome {
	case "", "value":
		return nil
	case "error-validation":
		code = errcode.ValidationFailed
	case "error-parse":
		code = errcode.ParseFailed
	case "error-protocol":
		code = "VERIF_PROTOCOL"
	case "error-user":
		code = "VERIF_USER"
	}
	e := &gqlerror.Error{Message: "resolver reported " + outcome}
	if code != "" {
		e.Extensions = map[string]any{"code": code}
	}
	return e
}

// steps flattens a case into the single-request cases its responses are judged as.
func (c Case) steps() []Case {
	var out []Case
	for _, b := range c.Before {
		out = append(out, Case{Doc: b.Doc, OpName: b.OpName, Carrier: b.Carrier, Accept: b.Accept, RH: c.RH, Order: c.Order,
			Resolver: c.Resolver, Present: c.Present})
	}
	return append(out, Case{Doc: c.Doc, OpName: c.OpName, Carrier: c.Carrier, Accept: c.Accept, RH: c.RH, Order: c.Order,
		Resolver: c.Resolver, Present: c.Present})
}

// ---- servers -----------------------------------------------------------------------------

type rig struct {
	hs      *handschema.Schema
	servers map[string]*handler.Server // plain servers, reused (they hold no state); key rh|order|presentation
	outcome string                     // resolver outcome of the case being run
}

func newRig() *rig {
	hs := handschema.New(nil)
	r := &rig{hs: hs, servers: map[string]*handler.Server{}}
	// every resolver yields its value; per the case's resolver outcome it also reports an error
	hs.Hook = func(ctx context.Context, object, field string, args map[string]any) {
		if e := resolverError(r.outcome); e != nil {
			graphql.AddError(ctx, e)
		}
	}
	hs.Sub = func(ctx context.Context, field string, args map[string]any, call int) handschema.SubStep {
		if e := resolverError(r.outcome); e != nil {
			graphql.AddError(ctx, e)
		}
		return handschema.SubStep{Kind: "emit", Val: 7}
	}
	return r
}

func buildServer(hs *handschema.Schema, rh, order, present string) *handler.Server {
	h := rhMap(rh)
	// the order handler.NewDefaultServer uses (Options, GET, POST, MultipartForm), then the two
	// optional form transports
	ts := []graphql.Transport{
		transport.Options{},
		transport.GET{ResponseHeaders: h},
		transport.POST{ResponseHeaders: h},
		transport.MultipartForm{ResponseHeaders: h},
		transport.UrlEncodedForm{ResponseHeaders: h},
		transport.GRAPHQL{ResponseHeaders: h},
	}
	srv := handler.New(hs)
	// graphql.DefaultRecover without its stack dump to stderr (a defect that lets an unvalidated
	// document reach the schema would otherwise flood the output)
	srv.SetRecoverFunc(func(ctx context.Context, err any) error { return gqlerror.Errorf("internal system error") })
	switch present {
	case "strip-extensions":
		srv.SetErrorPresenter(func(ctx context.Context, err error) *gqlerror.Error {
			c := *graphql.DefaultErrorPresenter(ctx, err) // a copy: the caller's error is left alone
			c.Extensions = nil
			return &c
		})
	case "rewrite-middleware":
		srv.AroundResponses(func(ctx context.Context, next graphql.ResponseHandler) *graphql.Response {
			resp := next(ctx)
			if resp != nil && len(resp.Errors) > 0 {
				list := make(gqlerror.List, 0, len(resp.Errors))
				for _, e := range resp.Errors {
					list = append(list, &gqlerror.Error{Message: "rewritten: " + e.Message, Path: e.Path})
				}
				resp.Errors = list
			}
			return resp
		})
	}
	if order == "reversed" {
		for i := len(ts) - 1; i >= 0; i-- {
			srv.AddTransport(ts[i])
		}
	} else {
		for _, t := range ts {
			srv.AddTransport(t)
		}
	}
	return srv
}

func (r *rig) server(rh, order, present string) *handler.Server {
	k := rh + "|" + order + "|" + present
	if s, ok := r.servers[k]; ok {
		return s
	}
	s := buildServer(r.hs, rh, order, present)
	r.servers[k] = s
	return s
}

// defaultConfigServer builds a fresh server with the caches handler.NewDefaultServer configures:
// an LRU query-document cache and the APQ extension (with its own fresh cache).
func (r *rig) defaultConfigServer(rh, order, present string) *handler.Server {
	s := buildServer(r.hs, rh, order, present)
	s.SetQueryCache(lru.New[*ast.QueryDocument](1000))
	s.Use(extension.AutomaticPersistedQuery{Cache: graphql.MapCache[string]{}})
	return s
}

// ---- wire encodings ----------------------------------------------------------------------

type wire struct {
	Method      string `json:"method"`
	Target      string `json:"target"`
	ContentType string `json:"content_type,omitempty"`
	Body        string `json:"body,omitempty"`
}

func jsonBody(doc string, on OpNameChoice, ext map[string]any) string {
	m := map[string]any{}
	if doc != "" {
		m["query"] = doc
	}
	if on.Has {
		m["operationName"] = on.Name
	}
	if ext != nil {
		m["extensions"] = ext
	}
	b, _ := json.Marshal(m)
	return string(b)
}

func queryString(doc string, on OpNameChoice, ext map[string]any) string {
	var parts []string
	if doc != "" {
		parts = append(parts, "query="+url.QueryEscape(doc))
	}
	if on.Has {
		parts = append(parts, "operationName="+url.QueryEscape(on.Name))
	}
	if ext != nil {
		b, _ := json.Marshal(ext)
		parts = append(parts, "extensions="+url.QueryEscape(string(b)))
	}
	return strings.Join(parts, "&")
}

func apqExt(hash string) map[string]any {
	return map[string]any{"persistedQuery": map[string]any{"version": 1, "sha256Hash": hash}}
}

func sha(s string) string {
	h := sha256.Sum256([]byte(s))
	return hex.EncodeToString(h[:])
}

const boundary = "verifboundary0123456789"

func multipartBody(doc string, on OpNameChoice) string {
	var buf bytes.Buffer
	mw := multipart.NewWriter(&buf)
	mw.SetBoundary(boundary)
	mw.WriteField("operations", jsonBody(doc, on, nil))
	mw.WriteField("map", "{}")
	mw.Close()
	return buf.String()
}

func encodeOdd(c Carrier, doc string, on OpNameChoice) wire {
	w := wire{Method: c.Method, Target: "/query", ContentType: c.ReqCT}
	bodyDoc, bodyOn := doc, on
	if c.Decoy {
		w.Target = "/query?" + queryString(doc, on, nil)
		bodyDoc, bodyOn = decoyDoc, OpNameChoice{}
	}
	switch essenceOf(c.ReqCT) {
	case "application/graphql":
		w.Body = bodyDoc
	case "multipart/form-data":
		w.Body = multipartBody(bodyDoc, bodyOn)
	default:
		w.Body = jsonBody(bodyDoc, bodyOn, nil)
	}
	return w
}

func encode(c Carrier, doc string, on OpNameChoice) wire {
	if c.Odd {
		return encodeOdd(c, doc, on)
	}
	switch c.Name {
	case "GET", "HEAD", "OPTIONS":
		return wire{Method: c.Name, Target: "/query?" + queryString(doc, on, nil)}
	case "GET-badqs":
		return wire{Method: "GET", Target: "/query?" + queryString(doc, on, nil) + "&pad=%zz"}
	case "GET-apq":
		return wire{Method: "GET", Target: "/query?" + queryString("", on, apqExt(sha(doc)))}
	case "GET-apq-miss":
		return wire{Method: "GET", Target: "/query?" + queryString("", on, apqExt(sha("never registered "+doc)))}
	case "POST":
		return wire{Method: "POST", Target: "/query", ContentType: "application/json", Body: jsonBody(doc, on, nil)}
	case "PUT":
		return wire{Method: "PUT", Target: "/query", ContentType: "application/json", Body: jsonBody(doc, on, nil)}
	case "FORM-json":
		return wire{Method: "POST", Target: "/query", ContentType: "application/x-www-form-urlencoded", Body: jsonBody(doc, on, nil)}
	case "FORM-escaped":
		return wire{Method: "POST", Target: "/query", ContentType: "application/x-www-form-urlencoded", Body: "query=" + url.QueryEscape(doc)}
	case "FORM-plain":
		return wire{Method: "POST", Target: "/query", ContentType: "application/x-www-form-urlencoded", Body: "query=" + doc}
	case "GRAPHQL":
		return wire{Method: "POST", Target: "/query", ContentType: "application/graphql", Body: doc}
	case "MULTIPART":
		return wire{Method: "POST", Target: "/query", ContentType: "multipart/form-data; boundary=" + boundary, Body: multipartBody(doc, on)}
	}
	panic("no encoding for " + c.Name)
}

// ---- execution -----------------------------------------------------------------------------

// Obs is what the oracle looks at.
type Obs struct {
	Status      int      `json:"status"`
	ContentType []string `json:"content_type"`
	Body        string   `json:"body"`
	Resolvers   []string `json:"resolver_events"`
	ExecStarted bool     `json:"exec_event"`
}

func (r *rig) send(srv *handler.Server, w wire, accept string) Obs {
	var body *strings.Reader
	req := (*http.Request)(nil)
	if w.Body != "" || w.Method == "POST" || w.Method == "PUT" {
		body = strings.NewReader(w.Body)
		req = httptest.NewRequest(w.Method, w.Target, body)
	} else {
		req = httptest.NewRequest(w.Method, w.Target, nil)
	}
	if w.ContentType != "" {
		req.Header.Set("Content-Type", w.ContentType)
	}
	if accept != "" {
		req.Header.Set("Accept", accept)
	}
	r.hs.Log.Reset()
	rec := httptest.NewRecorder()
	srv.ServeHTTP(rec, req)
	o := Obs{Status: rec.Code, ContentType: rec.Header().Values("Content-Type"), Body: rec.Body.String()}
	for _, e := range r.hs.Log.Snapshot() {
		if strings.HasPrefix(e, "resolver:") {
			o.Resolvers = append(o.Resolvers, e)
		}
		if strings.HasPrefix(e, "exec:") {
			o.ExecStarted = true
		}
	}
	return o
}

// StepObs is one judged request of a case: its single-request view, what went on the wire, what came back.
type StepObs struct {
	Case Case `json:"case"`
	Wire wire `json:"request"`
	Obs  Obs  `json:"observed"`
}

// run executes one case on the real handler and returns one StepObs per judged request.
//
// Single requests go to a cache-less server. APQ carriers and histories get a fresh
// default-configuration server (query cache + APQ). For GET-apq the document is first registered
// by a POST carrying text and hash on that server (not judged), then the GET is observed.
func (r *rig) run(c Case) []StepObs {
	var srv *handler.Server
	steps := c.steps()
	if c.History != "" || carrierByName(c.Carrier).APQ {
		srv = r.defaultConfigServer(c.RH, c.Order, c.Present)
	} else {
		srv = r.server(c.RH, c.Order, c.Present)
	}
	r.outcome = c.Resolver
	defer func() { r.outcome = "" }()
	out := make([]StepObs, 0, len(steps))
	for _, st := range steps {
		car := carrierByName(st.Carrier)
		doc := st.Doc.Text()
		if car.Name == "GET-apq" {
			// registration names no operation: for multi-operation documents it is refused after
			// the APQ extension has stored the text, so registering never depends on the selection
			reg := wire{Method: "POST", Target: "/query", ContentType: "application/json",
				Body: jsonBody(doc, OpNameChoice{}, apqExt(sha(doc)))}
			r.send(srv, reg, "")
		}
		w := encode(car, doc, st.OpName)
		out = append(out, StepObs{Case: st, Wire: w, Obs: r.send(srv, w, st.Accept)})
	}
	return out
}

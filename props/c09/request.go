package main

import (
	"bytes"
	"context"
	"crypto/sha256"
	"encoding/hex"
	"encoding/json"
	"mime/multipart"
	"net/http"
	"net/http/httptest"
	"net/url"
	"strings"

	"github.com/99designs/gqlgen/graphql"
	"github.com/99designs/gqlgen/graphql/handler"
	"github.com/99designs/gqlgen/graphql/handler/extension"
	"github.com/99designs/gqlgen/graphql/handler/transport"

	"verif/handschema"
)

// Carrier is one way of putting (document, operationName) on the wire.
type Carrier struct {
	Name      string
	Transport string // gqlgen transport expected to answer; "none" = no transport supports it
	GetLike   bool   // HTTP GET semantics: only queries may execute
	OpName    bool   // can carry an operationName
	Executes  bool   // a GraphQL request the server is expected to act on
	APQ       bool   // needs the AutomaticPersistedQuery extension
}

var carriers = []Carrier{
	{Name: "GET", Transport: "GET", GetLike: true, OpName: true, Executes: true},
	{Name: "POST", Transport: "POST", OpName: true, Executes: true},
	// application/x-www-form-urlencoded: the transport documents three body forms
	// ("Form body can be json, urlencoded parameters or plain text")
	{Name: "FORM-json", Transport: "UrlEncodedForm", OpName: true, Executes: true},
	{Name: "FORM-escaped", Transport: "UrlEncodedForm", Executes: true}, // query=<percent-encoded document>
	{Name: "FORM-plain", Transport: "UrlEncodedForm", Executes: true},   // query=<document text>
	{Name: "GRAPHQL", Transport: "GRAPHQL", Executes: true},             // body is the document
	{Name: "MULTIPART", Transport: "MultipartForm", OpName: true, Executes: true},
	// GET whose query string holds the valid parameters plus one pair with a broken percent escape
	{Name: "GET-badqs", Transport: "GET", GetLike: true, OpName: true},
	{Name: "HEAD", Transport: "Options", GetLike: true, OpName: true},
	{Name: "OPTIONS", Transport: "Options", GetLike: true, OpName: true},
	{Name: "PUT", Transport: "none", OpName: true},
	// GET carrying only the sha256 of a document registered earlier by POST (APQ)
	{Name: "GET-apq", Transport: "GET", GetLike: true, OpName: true, Executes: true, APQ: true},
	// GET carrying a sha256 nobody registered
	{Name: "GET-apq-miss", Transport: "GET", GetLike: true, OpName: true, APQ: true},
}

func carrierByName(n string) Carrier {
	for _, c := range carriers {
		if c.Name == n {
			return c
		}
	}
	panic("unknown carrier " + n)
}

// ---- configuration alphabets ------------------------------------------------------------

const (
	mtJSON = "application/json"
	mtGR   = "application/graphql-response+json"
)

var acceptSingles = []string{"", "*/*", mtJSON, mtGR, "application/*", "text/html", "@@@"}

// acceptAlphabet: absent, six single values, every ordered pair of distinct single values.
func acceptAlphabet() []string {
	out := append([]string(nil), acceptSingles...)
	for _, a := range acceptSingles[1:] {
		for _, b := range acceptSingles[1:] {
			if a != b {
				out = append(out, a+", "+b)
			}
		}
	}
	return out
}

var rhAlphabet = []string{"nil", "custom", "ct-json", "ct-gr"}

func rhMap(rh string) map[string][]string {
	switch rh {
	case "custom":
		return map[string][]string{"X-Verif": {"1"}}
	case "ct-json":
		return map[string][]string{"Content-Type": {"application/json; charset=utf-8"}, "X-Verif": {"1"}}
	case "ct-gr":
		return map[string][]string{"Content-Type": {mtGR}}
	}
	return nil
}

var orderAlphabet = []string{"default", "reversed"}

// Case is one fully specified request against one server configuration.
type Case struct {
	Doc     DocSpec      `json:"doc"`
	OpName  OpNameChoice `json:"operation_name"`
	Carrier string       `json:"carrier"`
	Accept  string       `json:"accept"` // "" = header absent
	RH      string       `json:"response_headers"`
	Order   string       `json:"order"`
}

// ---- servers -----------------------------------------------------------------------------

type rig struct {
	hs      *handschema.Schema
	servers map[string]*handler.Server // key rh|order
	apqSrv  map[string]*handler.Server // key rh|order, with APQ extension
	apq     graphql.MapCache[string]
}

func newRig() *rig {
	hs := handschema.New(nil)
	hs.Sub = func(ctx context.Context, field string, args map[string]any, call int) handschema.SubStep {
		return handschema.SubStep{Kind: "emit", Val: 7}
	}
	return &rig{hs: hs, servers: map[string]*handler.Server{}, apqSrv: map[string]*handler.Server{},
		apq: graphql.MapCache[string]{}}
}

func buildServer(hs *handschema.Schema, rh, order string) *handler.Server {
	h := rhMap(rh)
	// the order handler.NewDefaultServer uses (Options, GET, POST, MultipartForm), then the two
	// optional form transports
	ts := []graphql.Transport{
		transport.Options{},
		transport.GET{ResponseHeaders: h},
		transport.POST{ResponseHeaders: h},
		transport.MultipartForm{ResponseHeaders: h},
		transport.UrlEncodedForm{ResponseHeaders: h},
		transport.GRAPHQL{ResponseHeaders: h},
	}
	srv := handler.New(hs)
	if order == "reversed" {
		for i := len(ts) - 1; i >= 0; i-- {
			srv.AddTransport(ts[i])
		}
	} else {
		for _, t := range ts {
			srv.AddTransport(t)
		}
	}
	return srv
}

func (r *rig) server(rh, order string, apq bool) *handler.Server {
	k := rh + "|" + order
	m := r.servers
	if apq {
		m = r.apqSrv
	}
	if s, ok := m[k]; ok {
		return s
	}
	s := buildServer(r.hs, rh, order)
	if apq {
		s.Use(extension.AutomaticPersistedQuery{Cache: r.apq})
	}
	m[k] = s
	return s
}

// ---- wire encodings ----------------------------------------------------------------------

type wire struct {
	Method      string `json:"method"`
	Target      string `json:"target"`
	ContentType string `json:"content_type,omitempty"`
	Body        string `json:"body,omitempty"`
}

func jsonBody(doc string, on OpNameChoice, ext map[string]any) string {
	m := map[string]any{}
	if doc != "" {
		m["query"] = doc
	}
	if on.Has {
		m["operationName"] = on.Name
	}
	if ext != nil {
		m["extensions"] = ext
	}
	b, _ := json.Marshal(m)
	return string(b)
}

func queryString(doc string, on OpNameChoice, ext map[string]any) string {
	var parts []string
	if doc != "" {
		parts = append(parts, "query="+url.QueryEscape(doc))
	}
	if on.Has {
		parts = append(parts, "operationName="+url.QueryEscape(on.Name))
	}
	if ext != nil {
		b, _ := json.Marshal(ext)
		parts = append(parts, "extensions="+url.QueryEscape(string(b)))
	}
	return strings.Join(parts, "&")
}

func apqExt(hash string) map[string]any {
	return map[string]any{"persistedQuery": map[string]any{"version": 1, "sha256Hash": hash}}
}

func sha(s string) string {
	h := sha256.Sum256([]byte(s))
	return hex.EncodeToString(h[:])
}

const boundary = "verifboundary0123456789"

func encode(c Carrier, doc string, on OpNameChoice) wire {
	switch c.Name {
	case "GET", "HEAD", "OPTIONS":
		return wire{Method: c.Name, Target: "/query?" + queryString(doc, on, nil)}
	case "GET-badqs":
		return wire{Method: "GET", Target: "/query?" + queryString(doc, on, nil) + "&pad=%zz"}
	case "GET-apq":
		return wire{Method: "GET", Target: "/query?" + queryString("", on, apqExt(sha(doc)))}
	case "GET-apq-miss":
		return wire{Method: "GET", Target: "/query?" + queryString("", on, apqExt(sha("never registered "+doc)))}
	case "POST":
		return wire{Method: "POST", Target: "/query", ContentType: "application/json", Body: jsonBody(doc, on, nil)}
	case "PUT":
		return wire{Method: "PUT", Target: "/query", ContentType: "application/json", Body: jsonBody(doc, on, nil)}
	case "FORM-json":
		return wire{Method: "POST", Target: "/query", ContentType: "application/x-www-form-urlencoded", Body: jsonBody(doc, on, nil)}
	case "FORM-escaped":
		return wire{Method: "POST", Target: "/query", ContentType: "application/x-www-form-urlencoded", Body: "query=" + url.QueryEscape(doc)}
	case "FORM-plain":
		return wire{Method: "POST", Target: "/query", ContentType: "application/x-www-form-urlencoded", Body: "query=" + doc}
	case "GRAPHQL":
		return wire{Method: "POST", Target: "/query", ContentType: "application/graphql", Body: doc}
	case "MULTIPART":
		var buf bytes.Buffer
		mw := multipart.NewWriter(&buf)
		mw.SetBoundary(boundary)
		mw.WriteField("operations", jsonBody(doc, on, nil))
		mw.WriteField("map", "{}")
		mw.Close()
		return wire{Method: "POST", Target: "/query", ContentType: "multipart/form-data; boundary=" + boundary, Body: buf.String()}
	}
	panic("no encoding for " + c.Name)
}

// ---- execution -----------------------------------------------------------------------------

// Obs is what the oracle looks at.
type Obs struct {
	Status      int      `json:"status"`
	ContentType []string `json:"content_type"`
	Body        string   `json:"body"`
	Resolvers   []string `json:"resolver_events"`
	ExecStarted bool     `json:"exec_event"`
}

func (r *rig) send(srv *handler.Server, w wire, accept string) Obs {
	var body *strings.Reader
	req := (*http.Request)(nil)
	if w.Body != "" || w.Method == "POST" || w.Method == "PUT" {
		body = strings.NewReader(w.Body)
		req = httptest.NewRequest(w.Method, w.Target, body)
	} else {
		req = httptest.NewRequest(w.Method, w.Target, nil)
	}
	if w.ContentType != "" {
		req.Header.Set("Content-Type", w.ContentType)
	}
	if accept != "" {
		req.Header.Set("Accept", accept)
	}
	r.hs.Log.Reset()
	rec := httptest.NewRecorder()
	srv.ServeHTTP(rec, req)
	o := Obs{Status: rec.Code, ContentType: rec.Header().Values("Content-Type"), Body: rec.Body.String()}
	for _, e := range r.hs.Log.Snapshot() {
		if strings.HasPrefix(e, "resolver:") {
			o.Resolvers = append(o.Resolvers, e)
		}
		if strings.HasPrefix(e, "exec:") {
			o.ExecStarted = true
		}
	}
	return o
}

// run executes one case on the real handler. For GET-apq the document is first registered by a
// POST carrying text and hash (on the same server, fresh cache), then the GET is observed.
func (r *rig) run(c Case) (Obs, wire) {
	car := carrierByName(c.Carrier)
	srv := r.server(c.RH, c.Order, car.APQ)
	doc := c.Doc.Text()
	if car.APQ {
		for k := range r.apq {
			delete(r.apq, k)
		}
		if car.Name == "GET-apq" {
			// registration names no operation: for multi-operation documents it is refused after
			// the APQ extension has stored the text, so registering never depends on the selection
			reg := wire{Method: "POST", Target: "/query", ContentType: "application/json",
				Body: jsonBody(doc, OpNameChoice{}, apqExt(sha(doc)))}
			r.send(srv, reg, "")
		}
	}
	w := encode(car, doc, c.OpName)
	return r.send(srv, w, c.Accept), w
}

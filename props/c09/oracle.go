package main

import (
	"bytes"
	"encoding/json"
	"fmt"
	"strings"
)

// ---- reference: media type negotiation --------------------------------------------------
//
// Written from the statement ("the Content-Type is the one negotiated from Accept and configured
// headers") with gqlgen's documented conventions filled in where the statement is silent:
//   - a Content-Type configured in the transport's ResponseHeaders always wins;
//   - GET and POST(application/json) negotiate between the two GraphQL-over-HTTP media types:
//     no Accept -> application/json (legacy default); otherwise the first listed range that a
//     supported type satisfies decides: application/json -> application/json,
//     application/graphql-response+json, application/*, */* -> application/graphql-response+json;
//     nothing usable listed -> the server's default for a present Accept header,
//     application/graphql-response+json;
//   - the urlencoded, application/graphql and multipart transports are documented to answer
//     "Content-Type: application/json" (they do not negotiate).
// q-weights and media type parameters in Accept are outside the alphabet.

// essence strips parameters and case from a media type string; "" when it is not type/subtype.
func essence(s string) string {
	if i := strings.IndexByte(s, ';'); i >= 0 {
		s = s[:i]
	}
	s = strings.ToLower(strings.TrimSpace(s))
	parts := strings.Split(s, "/")
	if len(parts) != 2 || parts[0] == "" || parts[1] == "" {
		return ""
	}
	for _, r := range s {
		ok := r == '/' || r == '*' || r == '+' || r == '-' || r == '.' || (r >= 'a' && r <= 'z') || (r >= '0' && r <= '9')
		if !ok {
			return ""
		}
	}
	return s
}

func negotiateFromAccept(accept string) string {
	if accept == "" {
		return mtJSON
	}
	for _, el := range strings.Split(accept, ",") {
		switch essence(el) {
		case mtJSON:
			return mtJSON
		case mtGR, "application/*", "*/*":
			return mtGR
		}
	}
	return mtGR
}

// refContentType is the Content-Type header value the response must carry.
func refContentType(transport, rh, accept string) string {
	if v, ok := configuredContentType(rh); ok {
		return v
	}
	switch transport {
	case "GET", "POST":
		return negotiateFromAccept(accept)
	default:
		return mtJSON
	}
}

// refClientErrorStatus: status for a document that fails parsing or validation, by media type
// (gqlgen: application/json -> 422, application/graphql-response+json -> 400).
func refClientErrorStatus(contentType string) int {
	if essence(contentType) == mtGR {
		return 400
	}
	return 422
}

// ---- reference: what must happen -----------------------------------------------------------

type Expect struct {
	// execute | refuse-doc | refuse-op | refuse-get | refuse-request | no-run
	Outcome   string   `json:"outcome"`
	Selected  int      `json:"selected_operation"` // index, -1 none
	Resolvers []string `json:"resolver_events"`
	Data      string   `json:"data,omitempty"`
	// "" = not asserted (no transport answers: only a JSON media type is required for a body)
	ContentType string `json:"content_type"`
	// 0 = not asserted; -4 = any 4xx
	Status int `json:"status"`
}

func expect(c Case) Expect {
	car := carrierByName(c.Carrier)
	e := Expect{Selected: -1}
	if car.Transport != "none" && car.Transport != "Options" {
		e.ContentType = refContentType(car.Transport, c.RH, c.Accept)
	}
	switch {
	case !car.Executes && car.Name == "GET-badqs":
		// the query string is not a valid urlencoded string: nothing may run. The statement does
		// not name the status for it.
		e.Outcome = "refuse-request"
		return e
	case !car.Executes && car.Name == "GET-apq-miss":
		e.Outcome = "refuse-request" // no document at all
		return e
	case !car.Executes && car.Odd && car.Method == "GET":
		// over GET the GraphQL parameters are the URL's; this URL has none, so the request names no
		// document and nothing may run, whatever body and Content-Type it carries
		e.Outcome = "refuse-request"
		return e
	case !car.Executes:
		e.Outcome = "no-run"
		return e
	}
	if cl := c.Doc.Class(); cl != "valid" {
		e.Outcome = "refuse-doc"
		e.Status = refClientErrorStatus(e.ContentType)
		return e
	}
	sel := c.Doc.Select(c.OpName.Has && car.OpName, c.OpName.Name)
	e.Selected = sel
	if sel < 0 {
		e.Outcome = "refuse-op" // names nothing / names no defined operation; status not defined by the statement
		return e
	}
	kind := c.Doc.Ops[sel].Kind
	if car.GetLike && kind != "query" {
		e.Outcome = "refuse-get"
		e.Status = -4
		return e
	}
	fi := fieldTable[kind][sel]
	e.Outcome = "execute"
	e.Resolvers = []string{fi.event}
	e.Data = fi.data
	e.Status = 200
	return e
}

// ---- comparison ------------------------------------------------------------------------------

// Violation is one disagreement. Group names the clause, the transport and what was expected and
// seen; Facets are the configuration classes it occurred under. After the run all violations of a
// group are merged and the final signature is Group plus, per facet, the sorted set of values seen,
// so one defect gives one signature and any widening of a known defect gives a new one.
type Violation struct {
	Group  string
	Facets [][2]string
	What   string
}

func isJSONMediaType(ct string) bool {
	m := essence(ct)
	return m == mtJSON || m == mtGR
}

type gqlBody struct {
	ok        bool
	problem   string
	hasData   bool
	dataNull  bool
	data      string
	numErrors int
}

// bodyCache memoises parseBody (a pure function); the same body recurs across configurations.
type bodyCache map[string]gqlBody

func (bc bodyCache) parse(b string) gqlBody {
	if g, ok := bc[b]; ok {
		return g
	}
	if len(bc) > 4096 {
		clear(bc)
	}
	g := parseBody(b)
	bc[b] = g
	return g
}

func parseBody(b string) gqlBody {
	var raw map[string]json.RawMessage
	dec := json.NewDecoder(strings.NewReader(b))
	if err := dec.Decode(&raw); err != nil || raw == nil {
		return gqlBody{problem: "not a JSON object"}
	}
	if dec.More() {
		return gqlBody{problem: "trailing bytes after the JSON value"}
	}
	g := gqlBody{ok: true}
	if d, ok := raw["data"]; ok {
		g.hasData = true
		var buf bytes.Buffer
		json.Compact(&buf, d)
		g.data = buf.String()
		g.dataNull = g.data == "null"
	}
	if e, ok := raw["errors"]; ok {
		var errs []map[string]json.RawMessage
		if err := json.Unmarshal(e, &errs); err != nil {
			return gqlBody{problem: "errors is not a list of objects"}
		}
		for _, x := range errs {
			var msg string
			if json.Unmarshal(x["message"], &msg) != nil {
				return gqlBody{problem: "error entry without string message"}
			}
		}
		g.numErrors = len(errs)
		if len(errs) == 0 {
			return gqlBody{problem: "errors present but empty"}
		}
	}
	if !g.hasData && g.numErrors == 0 {
		return gqlBody{problem: "neither data nor errors"}
	}
	return g
}

func sameStrings(a, b []string) bool {
	if len(a) != len(b) {
		return false
	}
	for i := range a {
		if a[i] != b[i] {
			return false
		}
	}
	return true
}

func opKinds(d DocSpec) string {
	var k []string
	for _, op := range d.Ops {
		k = append(k, op.Kind[:1]+":"+op.Form)
	}
	return strings.Join(k, ",")
}

// check compares one observation against the reference. Groups and facets name the clause, the
// transport and the configuration class, never the individual document.
func check(c Case, e Expect, o Obs, bc bodyCache) []Violation {
	car := carrierByName(c.Carrier)
	var v []Violation
	add := func(group string, facets [][2]string, what string, a ...any) {
		if c.Resolver != "" || c.Present != "" {
			facets = append(facets[:len(facets):len(facets)], [2]string{"resolver", c.Resolver}, [2]string{"presentation", c.Present})
			group = "server-side|" + group
		}
		v = append(v, Violation{group, facets, fmt.Sprintf(what, a...)})
	}
	tr := car.Transport

	// clause 5: no resolver has run for any request answered non-2xx (every method)
	if (o.Status < 200 || o.Status > 299) && len(o.Resolvers) > 0 {
		add(fmt.Sprintf("resolver-ran-non2xx|carrier=%s|status=%d", car.Name, o.Status), nil,
			"status %d but resolvers ran: %v", o.Status, o.Resolvers)
	}

	// clauses 1 and 2: which resolvers ran
	wrongOp := false
	if !sameStrings(o.Resolvers, e.Resolvers) {
		switch e.Outcome {
		case "execute":
			// the consequences (status, data) are not reported a second time
			wrongOp = true
			got := kindsOf(o.Resolvers)
			if got == "" {
				got = "nothing"
			}
			add(fmt.Sprintf("wrong-operation|carrier=%s|ran=%s", car.Name, got),
				[][2]string{{"selected", fmt.Sprintf("%s@%d/%d", c.Doc.Ops[e.Selected].Kind, e.Selected, len(c.Doc.Ops))}},
				"request names operation %d of %q: expected resolver log %v, got %v (status %d, body %s)",
				e.Selected, c.Doc.Text(), e.Resolvers, o.Resolvers, o.Status, clip(o.Body))
		default:
			add(fmt.Sprintf("resolver-ran|carrier=%s|outcome=%s|ran=%s", car.Name, e.Outcome, kindsOf(o.Resolvers)), nil,
				"%s: no resolver may run, got %v (document %q, operationName %v)", e.Outcome, o.Resolvers, c.Doc.Text(), c.OpName)
		}
	}

	// clause 3: body and Content-Type
	if len(o.Body) > 0 {
		g := bc.parse(o.Body)
		switch {
		case !g.ok:
			add(fmt.Sprintf("body|transport=%s|problem=%s", tr, g.problem), [][2]string{{"outcome", e.Outcome}},
				"body is not a GraphQL response (%s): %s", g.problem, clip(o.Body))
		case e.Outcome == "execute":
			// a resolver that reported an error next to its value yields data and errors
			resolverErr := c.Resolver != "" && c.Resolver != "value"
			if !wrongOp && ((g.numErrors != 0 && !resolverErr) || g.data != e.Data) {
				add(fmt.Sprintf("body|transport=%s|problem=data", tr), [][2]string{{"outcome", e.Outcome}},
					"expected data %s and no errors, got %s", e.Data, clip(o.Body))
			}
		case e.Outcome != "no-run" || tr == "none":
			if g.numErrors == 0 || (g.hasData && !g.dataNull) {
				add(fmt.Sprintf("body|transport=%s|problem=refusal-without-errors", tr), [][2]string{{"outcome", e.Outcome}},
					"refused request must carry errors and no data, got %s", clip(o.Body))
			}
		}
		ct := ""
		if len(o.ContentType) > 0 {
			ct = o.ContentType[0]
		}
		rh := c.RH
		if tr == "none" {
			rh = "-" // no transport, no configured headers
		}
		switch {
		case len(o.ContentType) > 1:
			add(fmt.Sprintf("ct-multiple|transport=%s", tr), [][2]string{{"rh", rh}}, "several Content-Type values: %v", o.ContentType)
		case !isJSONMediaType(ct):
			add(fmt.Sprintf("ct-missing|transport=%s", tr), [][2]string{{"rh", rh}, {"outcome", e.Outcome}},
				"JSON body sent with Content-Type %q (gqlgen set none; the recorder / a net/http server sniffs text/plain); expected %q", ct, e.ContentType)
		case e.ContentType != "" && ct != e.ContentType:
			add(fmt.Sprintf("ct-mismatch|transport=%s|rh=%s|accept=%s|want=%s|got=%s", tr, c.RH, c.Accept, e.ContentType, ct), nil,
				"Content-Type %q, reference negotiation gives %q (Accept %q, ResponseHeaders %s)", ct, e.ContentType, c.Accept, c.RH)
		}
	} else if e.Outcome != "no-run" {
		add(fmt.Sprintf("body|transport=%s|problem=empty", tr), [][2]string{{"outcome", e.Outcome}}, "empty response body")
	}

	// clause 4: status
	switch {
	case wrongOp:
	case e.Status > 0 && o.Status != e.Status:
		add(fmt.Sprintf("status|transport=%s|outcome=%s|mediatype=%s|want=%d|got=%d", tr, e.Outcome, essence(e.ContentType), e.Status, o.Status),
			[][2]string{{"rh", c.RH}, {"class", c.Doc.Class()}},
			"%s (%s document): expected status %d for media type %q, got %d", e.Outcome, c.Doc.Class(), e.Status, e.ContentType, o.Status)
	case e.Status == -4 && (o.Status < 400 || o.Status > 499):
		add(fmt.Sprintf("status|transport=%s|outcome=%s|want=4xx|got=%d", tr, e.Outcome, o.Status), nil,
			"GET selecting a %s must be refused with a client error, got %d", c.Doc.Ops[e.Selected].Kind, o.Status)
	}
	// a request whose execution started is always answered 200 (independent of the expectation)
	if o.ExecStarted && o.Status != 200 {
		add(fmt.Sprintf("status-after-exec|carrier=%s|got=%d", car.Name, o.Status), nil, "execution started but status is %d", o.Status)
	}
	return v
}

func kindsOf(events []string) string {
	var k []string
	for _, e := range events {
		e = strings.TrimPrefix(e, "resolver:")
		if i := strings.IndexByte(e, '.'); i > 0 {
			e = e[:i]
		}
		k = append(k, e)
	}
	return strings.Join(k, "+")
}

func clip(s string) string {
	if len(s) > 300 {
		return s[:300] + "…"
	}
	return s
}

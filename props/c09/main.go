// C09 — HTTP: GET never mutates; status and content type follow the request outcome.
//
// Bounded exhaustive enumeration: every document with 1..3 operations over
// {query, mutation, subscription} x {named, anonymous keyword form, query shorthand} with no
// fault / a parse error in each operation / an unknown field in each operation, x every
// operationName choice (absent, each defined name, unknown), x every carrier (GET, POST json,
// three urlencoded body forms, application/graphql, multipart, GET with a broken query string,
// HEAD, OPTIONS, PUT, GET via APQ hash, GET with unregistered APQ hash), x Accept alphabet x
// ResponseHeaders alphabet x transport registration orders, each sent through the real
// handler.Server.ServeHTTP (verif/handschema behind it) and compared with a reference written
// from the property statement (oracle.go).
package main

import (
	"encoding/json"
	"fmt"
	"os"
	"runtime"
	"runtime/debug"
	"runtime/pprof"
	"sort"
	"strings"
	"sync"
	"sync/atomic"
	"time"

	"verif/common"
)

type config struct{ accept, rh, order string }

// plan fixes, per tier, which (Accept, ResponseHeaders, order) configurations every
// (document, operationName, carrier) triple is sent under. "small" documents have at most
// fullOps operations.
type plan struct {
	maxOps, fullOps int
	// executing carriers / non-executing carriers (GET-badqs, HEAD, OPTIONS, PUT) / APQ carriers
	execSmall, execLarge   []config
	otherSmall, otherLarge []config
	apq                    []config
	// odd carriers (non-POST method with body and Content-Type); above fullOps operations only the
	// GET ones unless oddAllLarge
	oddSmall, oddLarge []config
	// related-name documents are sent under the reduced ("large") products
	relatedNamesReduced   bool
	namesExec, namesOther []config // thorough products for related-name documents
	// server-side dimensions (resolver outcome x error presentation): configurations per
	// combination; documents above fullOps get every combination only when sideAllLarge,
	// otherwise a thin slice
	side, sideLarge []config
	// ResponseHeaders spelling settings (rhSpellingAlphabet) for executing carriers on the standard
	// documents: up to fullOps operations / above
	spellSmall, spellLarge []config
	sideAllLarge           bool
	// thorough: product for the plain HEAD / OPTIONS / PUT carriers, which no Accept value can
	// make execute anything (nil = the non-executing products above)
	inert       []config
	oddAllLarge bool
	// histories: configurations per history; whether documents above fullOps also get the
	// cross-carrier and sibling shapes (they always get "the same request twice")
	hist               []config
	histAllShapesLarge bool
}

func product(accepts, rhs, orders []string) []config {
	var out []config
	for _, o := range orders {
		for _, r := range rhs {
			for _, a := range accepts {
				out = append(out, config{a, r, o})
			}
		}
	}
	return out
}

func makePlan(tier string) plan {
	all := product(acceptAlphabet(), rhAlphabet, orderAlphabet)
	singles := product(acceptSingles, rhAlphabet, orderAlphabet)
	if tier == "thorough" {
		// the complete product for every document and every carrier
		return plan{maxOps: 3, fullOps: 3, execSmall: all, execLarge: all, otherSmall: all, otherLarge: all, apq: singles,
			hist: product(acceptSingles[:4], []string{"nil", "ct-gr"}, orderAlphabet), histAllShapesLarge: true,
			oddSmall: product(acceptSingles[:4], rhAlphabet, orderAlphabet), oddLarge: product(acceptSingles[:4], rhAlphabet, orderAlphabet), oddAllLarge: true,
			side: product(acceptSingles[:4], []string{"nil", "ct-gr"}, []string{"default"}), sideAllLarge: true,
			spellSmall: product(acceptSingles[:4], rhSpellingAlphabet, orderAlphabet), spellLarge: product(acceptSingles[:4], rhSpellingAlphabet, orderAlphabet),
			sideLarge: product([]string{"", mtGR}, []string{"nil"}, []string{"default"}), inert: singles,
			namesExec: singles, namesOther: product([]string{"", mtGR}, []string{"nil", "custom"}, orderAlphabet)}
	}
	// quick: for executing carriers on documents with up to 2 operations, in the default order every
	// Accept value x {no ResponseHeaders, custom header} plus the single-value Accept headers x the two
	// configured Content-Types (a configured Content-Type overrides Accept), and the single-value
	// Accept headers x every ResponseHeaders setting in the reversed order; documents with 3
	// operations and non-executing carriers get smaller products
	execSmall := product(acceptAlphabet(), []string{"nil", "custom"}, []string{"default"})
	execSmall = append(execSmall, product(acceptSingles, []string{"ct-json", "ct-gr"}, []string{"default"})...)
	execSmall = append(execSmall, product(acceptSingles, rhAlphabet, []string{"reversed"})...)
	return plan{maxOps: 3, fullOps: 2,
		execSmall:  execSmall,
		execLarge:  product(acceptSingles[:4], rhAlphabet, []string{"default"}),
		otherSmall: singles,
		otherLarge: product([]string{"", mtGR}, []string{"nil", "custom"}, []string{"default"}),
		apq:        product(acceptSingles[:4], []string{"nil", "ct-gr"}, []string{"default"}),
		hist:       product([]string{"", mtGR}, []string{"nil"}, []string{"default"}),
		oddSmall:   product([]string{"", mtGR}, []string{"nil"}, orderAlphabet),
		oddLarge:   product([]string{""}, []string{"nil"}, orderAlphabet), relatedNamesReduced: true,
		side:       product([]string{"", mtGR}, []string{"nil"}, []string{"default"}),
		spellSmall: product([]string{"", mtGR}, rhSpellingAlphabet, []string{"default"}),
		spellLarge: product([]string{""}, []string{"custom-lower", "ct-gr-lower", "ct-gr-upper", "ct-gr-charset"}, []string{"default"})}
}

type hit struct {
	docIdx, k int
	c         Case
	what      string
	count     int
	facets    map[string]map[string]bool
}

func (h *hit) addFacets(fs [][2]string) {
	for _, f := range fs {
		if h.facets[f[0]] == nil {
			h.facets[f[0]] = map[string]bool{}
		}
		h.facets[f[0]][f[1]] = true
	}
}

// signature = group + "|facet=v1+v2…" for every facet, names and values sorted
func (h *hit) signature(group string) string {
	var names []string
	for n := range h.facets {
		names = append(names, n)
	}
	sort.Strings(names)
	sig := group
	for _, n := range names {
		var vals []string
		for v := range h.facets[n] {
			vals = append(vals, v)
		}
		sort.Strings(vals)
		sig += "|" + n + "=" + strings.Join(vals, "+")
	}
	return sig
}

type tally struct {
	evals, nontrivial int
	responses         int // judged responses (a history has several)
	sideCases         int // cases with a non-default resolver outcome or presentation
	byOutcome         map[string]int
	byCarrier         map[string]int
	byHistory         map[string]int
	hits              map[string]*hit // by group
}

func newTally() *tally {
	return &tally{byOutcome: map[string]int{}, byCarrier: map[string]int{}, byHistory: map[string]int{}, hits: map[string]*hit{}}
}

func (t *tally) record(docIdx, k int, cs Case, v Violation) {
	h, ok := t.hits[v.Group]
	if !ok {
		h = &hit{docIdx: docIdx, k: k, c: cs, what: v.What, facets: map[string]map[string]bool{}}
		t.hits[v.Group] = h
	}
	h.count++
	h.addFacets(v.Facets)
}

func (t *tally) merge(o *tally) {
	t.evals += o.evals
	t.nontrivial += o.nontrivial
	t.responses += o.responses
	t.sideCases += o.sideCases
	for k, v := range o.byHistory {
		t.byHistory[k] += v
	}
	for k, v := range o.byOutcome {
		t.byOutcome[k] += v
	}
	for k, v := range o.byCarrier {
		t.byCarrier[k] += v
	}
	for g, h := range o.hits {
		cur, ok := t.hits[g]
		if !ok {
			t.hits[g] = h
			continue
		}
		if h.docIdx < cur.docIdx || (h.docIdx == cur.docIdx && h.k < cur.k) {
			cur.docIdx, cur.k, cur.c, cur.what = h.docIdx, h.k, h.c, h.what
		}
		cur.count += h.count
		for n, vals := range h.facets {
			for v := range vals {
				cur.addFacets([][2]string{{n, v}})
			}
		}
	}
}

// casesFor enumerates every case of one document, in a fixed order.
func casesFor(d DocSpec, p plan, f func(Case)) {
	// documents with related names get the products of the documents above fullOps (quick)
	large := len(d.Ops) > p.fullOps || (d.Names != "" && p.relatedNamesReduced)
	for _, on := range opNameChoices(d) {
		for _, car := range carriers {
			if !car.OpName && on.Has {
				continue
			}
			if d.Names != "" {
				// related-name documents: odd carriers only for the two JSON request media types;
				// quick additionally drops the carriers that can never execute anything
				jsonCT := car.ReqCT == "application/json" || car.ReqCT == "application/graphql+json"
				if (car.Odd && !jsonCT) || (p.relatedNamesReduced && !car.Executes && !car.Odd) {
					continue
				}
			}
			var cs []config
			switch {
			case d.Names != "" && !p.relatedNamesReduced && !car.APQ:
				// thorough: single-value Accept headers x all ResponseHeaders x both orders for
				// executing carriers, a small product for the others
				cs = p.namesOther
				if car.Executes && !car.Odd {
					cs = p.namesExec
				}
			case car.Odd && !large:
				cs = p.oddSmall
			case car.Odd:
				if car.Method != "GET" && !p.oddAllLarge {
					continue
				}
				cs = p.oddLarge
			case car.APQ:
				cs = p.apq
			case p.inert != nil && !car.Executes && (car.Transport == "Options" || car.Transport == "none"):
				cs = p.inert
			case car.Executes && !large:
				cs = p.execSmall
			case car.Executes:
				cs = p.execLarge
			case !large:
				cs = p.otherSmall
			default:
				cs = p.otherLarge
			}
			for _, g := range cs {
				f(Case{Doc: d, OpName: on, Carrier: car.Name, Accept: g.accept, RH: g.rh, Order: g.order})
			}
			if car.Executes && !car.Odd && !car.APQ && d.Names == "" {
				sp := p.spellSmall
				if len(d.Ops) > p.fullOps {
					sp = p.spellLarge
				}
				for _, g := range sp {
					f(Case{Doc: d, OpName: on, Carrier: car.Name, Accept: g.accept, RH: g.rh, Order: g.order})
				}
			}
		}
	}
}

// sideCarriers are the carriers the server-side dimensions are enumerated over.
var sideCarriers = []string{"GET", "POST", "FORM-json", "FORM-plain", "GRAPHQL", "MULTIPART", "GET-apq"}

// sideCasesFor enumerates, for the standard documents, every (resolver outcome, presentation)
// combination other than (value, default) over the executing carriers. The reference does not
// change: status is 200 iff execution started, the media type's client-error status for a
// document refused before execution, whatever the resolver reports or the presentation does.
func sideCasesFor(d DocSpec, p plan, f func(Case)) {
	if d.Names != "" {
		return
	}
	large := len(d.Ops) > p.fullOps
	for _, on := range opNameChoices(d) {
		for _, cn := range sideCarriers {
			if !carrierByName(cn).OpName && on.Has {
				continue
			}
			for _, pr := range presentations {
				for _, ro := range resolverOutcomes {
					if pr == "default" && ro == "value" {
						continue
					}
					cfgs := p.side
					if len(d.Ops) > 2 && p.sideLarge != nil {
						cfgs = p.sideLarge // thorough: all combinations, fewer configurations
					}
					if large && !p.sideAllLarge {
						// thin slice: one protocol-kind resolver error, and each non-default presentation
						if !(pr == "default" && ro == "error-validation") && !(pr != "default" && ro == "value") {
							continue
						}
						cfgs = cfgs[:1]
					}
					for _, g := range cfgs {
						f(Case{Doc: d, OpName: on, Carrier: cn, Accept: g.accept, RH: g.rh, Order: g.order, Resolver: ro, Present: pr})
					}
				}
			}
		}
	}
}

// histCarriers are the carriers histories are built from (the urlencoded body forms other than
// JSON are left to the single-request product).
var histCarriers = []string{"GET", "POST", "FORM-json", "GRAPHQL", "MULTIPART"}

// historiesFor enumerates the histories whose LAST request carries document d, in a fixed order:
//
//	twice                       the same request twice
//	other-carrier-first         the same document and operationName over another carrier, then this one
//	valid-then-invalid-sibling  the fault-free document with the same operations, then d (d faulty)
//	invalid-sibling-then-valid  (enumerated at the faulty d) d first, then its fault-free sibling
//
// every history runs on a fresh default-configuration server (query cache + APQ).
func historiesFor(d DocSpec, p plan, f func(Case)) {
	// documents with related names get the products of the documents above fullOps (quick)
	large := len(d.Ops) > p.fullOps || (d.Names != "" && p.relatedNamesReduced)
	allShapes := !large || p.histAllShapesLarge
	base := DocSpec{Ops: d.Ops}
	for _, on := range opNameChoices(d) {
		for _, c2 := range histCarriers {
			if !carrierByName(c2).OpName && on.Has {
				continue
			}
			for _, c1 := range histCarriers {
				if !carrierByName(c1).OpName && on.Has {
					continue
				}
				shape := "twice"
				if c1 != c2 {
					shape = "other-carrier-first"
					if !allShapes {
						continue
					}
				}
				for _, g := range p.hist {
					f(Case{Doc: d, OpName: on, Carrier: c2, Accept: g.accept, RH: g.rh, Order: g.order, History: shape,
						Before: []Step{{Doc: d, OpName: on, Carrier: c1, Accept: g.accept}}})
				}
			}
			if d.Fault == "" || !allShapes {
				continue
			}
			for _, g := range p.hist {
				f(Case{Doc: d, OpName: on, Carrier: c2, Accept: g.accept, RH: g.rh, Order: g.order, History: "valid-then-invalid-sibling",
					Before: []Step{{Doc: base, OpName: on, Carrier: c2, Accept: g.accept}}})
				f(Case{Doc: base, OpName: on, Carrier: c2, Accept: g.accept, RH: g.rh, Order: g.order, History: "invalid-sibling-then-valid",
					Before: []Step{{Doc: d, OpName: on, Carrier: c2, Accept: g.accept}}})
			}
		}
	}
}

// judge runs one case and compares every response of it with the reference. Violations of a
// history carry the shape and the position of the offending response in their group.
func judge(r *rig, cs Case, bc bodyCache, t *tally, docIdx, k int) {
	res := r.run(cs)
	t.evals++
	t.responses += len(res)
	if cs.History != "" {
		t.byHistory[cs.History]++
	}
	for i, so := range res {
		e := expect(so.Case)
		if i == len(res)-1 {
			t.byOutcome[e.Outcome]++
			t.byCarrier[cs.Carrier]++
			if e.Outcome == "execute" || e.Outcome == "refuse-get" || e.Outcome == "refuse-doc" {
				t.nontrivial++
			}
		}
		for _, v := range check(so.Case, e, so.Obs, bc) {
			if cs.History != "" {
				v.Group = fmt.Sprintf("history=%s|response=%d/%d|%s", cs.History, i+1, len(res), v.Group)
			}
			t.record(docIdx, k, cs, v)
		}
	}
}

func main() {
	if p := common.ReplayArg(); p != "" {
		replay(p)
		return
	}
	c := common.New("C09", "exploration")
	if c.Tier == "thorough" {
		c.Budget(20 * time.Minute)
	} else {
		c.Budget(150 * time.Second)
	}
	// many short-lived allocations per request and a tiny live heap: keep the collector from
	// running every few megabytes
	debug.SetGCPercent(2000)
	if f := os.Getenv("C09_CPUPROFILE"); f != "" { // development aid
		if w, err := os.Create(f); err == nil {
			pprof.StartCPUProfile(w)
			defer pprof.StopCPUProfile()
		}
	}
	p := makePlan(c.Tier)
	docs := enumerateDocs(p.maxOps)

	var next int64 = -1
	var done int64
	workers := runtime.NumCPU()
	results := make([]*tally, workers)
	var wg sync.WaitGroup
	for w := 0; w < workers; w++ {
		wg.Add(1)
		go func(w int) {
			defer wg.Done()
			t := newTally()
			results[w] = t
			r := newRig()
			bc := bodyCache{}
			for {
				i := int(atomic.AddInt64(&next, 1))
				if i >= len(docs) || c.Expired() {
					return
				}
				k := 0
				casesFor(docs[i], p, func(cs Case) {
					k++
					judge(r, cs, bc, t, i, k)
				})
				historiesFor(docs[i], p, func(cs Case) {
					k++
					judge(r, cs, bc, t, i, k)
				})
				sideCasesFor(docs[i], p, func(cs Case) {
					k++
					t.sideCases++
					judge(r, cs, bc, t, i, k)
				})
				atomic.AddInt64(&done, 1)
			}
		}(w)
	}
	wg.Wait()

	total := newTally()
	for _, t := range results {
		total.merge(t)
	}
	exhaustive := int(done) == len(docs)

	// report in a fixed order, each signature with its first witness (lowest document, lowest case)
	var sigs []string
	bySig := map[string]*hit{}
	for g, h := range total.hits {
		s := h.signature(g)
		sigs = append(sigs, s)
		bySig[s] = h
	}
	sort.Strings(sigs)
	sigCounts := map[string]int{}
	r := newRig()
	for _, s := range sigs {
		h := bySig[s]
		sigCounts[s] = h.count
		c.Report(s, h.what, map[string]any{"case": h.c, "responses": describe(r, h.c), "cases_with_this_signature": h.count})
	}

	for _, cs := range sampleCases() {
		c.Sample(map[string]any{"case": cs, "responses": describe(r, cs)})
	}

	c.Cov["evaluations"] = total.evals
	c.Cov["distinct_nontrivial"] = total.nontrivial
	c.Cov["rule"] = "cases are enumerated without repetition as (document, operationName, carrier, Accept, ResponseHeaders, registration order) single requests on a cache-less server, " +
		"plus histories (one earlier request, then the case's request) on a fresh server with NewDefaultServer's query cache and APQ; every request goes through handler.Server.ServeHTTP and " +
		"every response of a history is judged (responses_judged). A case counts once, by its last request. Non-trivial = the reference expects an execution (non-empty resolver log and data compared, status 200), " +
		"a GET refusal of a selected mutation/subscription (empty resolver log, 4xx), or a parse/validation refusal (empty resolver log, media-type specific status); " +
		"trivial = requests naming no operation, broken query strings, non-POST requests whose document is only in the body, unregistered APQ hashes and HEAD/OPTIONS/PUT, where only 'no resolver ran', body shape and Content-Type are compared"
	c.Cov["exhaustive"] = exhaustive
	c.Cov["documents"] = len(docs)
	c.Cov["documents_completed"] = int(done)
	c.Cov["by_outcome"] = total.byOutcome
	c.Cov["by_carrier"] = total.byCarrier
	c.Cov["responses_judged"] = total.responses
	c.Cov["histories_by_shape"] = total.byHistory
	c.Cov["server_side_cases"] = total.sideCases
	c.Cov["disagreeing_cases_by_signature"] = sigCounts
	c.Cov["bounds"] = map[string]any{
		"operations_per_document":         fmt.Sprintf("1..%d", p.maxOps),
		"operation_alphabet":              opAlphabet(),
		"faults":                          []string{"none", "parse error in operation i", "unknown field in operation i", "(implied) anonymous operation not alone"},
		"operation_name":                  "absent, each defined name, one unknown name; related-name documents: also every near-miss of every defined name (upper, lower, first letter in other case, last character dropped, one character appended, leading space, trailing space)",
		"related_name_documents_carriers": map[bool]string{true: "executing carriers, APQ, GET+body/GET+decoy with application/json and application/graphql+json; reduced products", false: "all carriers except odd ones with non-JSON media types; single-value Accept x ResponseHeaders x orders for executing carriers, 8 configurations for the others"}[p.relatedNamesReduced],
		"related_name_documents":          "every fault-free document of 1..3 named operations (all kind sequences) under each name scheme",
		"name_schemes":                    nameSchemes,
		"carriers":                        carrierNames(),
		"accept_values":                   len(acceptAlphabet()),
		"accept_singles":                  acceptSingles,
		"response_headers":                rhAlphabet,
		"response_headers_spelling":       rhSpellingAlphabet,
		"response_headers_spelling_note":  "pairwise selection: every Content-Type key spelling (canonical, lower, upper) meets every value (application/json, application/graphql-response+json, each with and without charset) at least once across response_headers + response_headers_spelling; not the full spelling x value x extra-header product; sent for executing carriers on the standard documents",
		"registration_orders":             orderAlphabet,
		"configs_per_triple": map[string]int{
			fmt.Sprintf("executing carriers, documents with <=%d operations", p.fullOps):     len(p.execSmall),
			fmt.Sprintf("executing carriers, documents with >%d operations", p.fullOps):      len(p.execLarge),
			fmt.Sprintf("non-executing carriers, documents with <=%d operations", p.fullOps): len(p.otherSmall),
			fmt.Sprintf("non-executing carriers, documents with >%d operations", p.fullOps):  len(p.otherLarge),
			"APQ carriers":             len(p.apq),
			"histories":                len(p.hist),
			"server-side combinations": len(p.side),
			fmt.Sprintf("ResponseHeaders spelling settings, documents with <=%d operations", p.fullOps): len(p.spellSmall),
			fmt.Sprintf("ResponseHeaders spelling settings, documents with >%d operations", p.fullOps):  len(p.spellLarge),
			"server-side combinations, documents with 3 operations (thorough; 0 = n/a)":                 len(p.sideLarge),
			"plain HEAD/OPTIONS/PUT (0 = the non-executing products)":                                   len(p.inert),
			fmt.Sprintf("odd carriers, documents with <=%d operations", p.fullOps):                      len(p.oddSmall),
			fmt.Sprintf("odd carriers, documents with >%d operations", p.fullOps):                       len(p.oddLarge),
		},
		"history_shapes":                                  []string{"twice", "other-carrier-first", "valid-then-invalid-sibling", "invalid-sibling-then-valid"},
		"history_carriers":                                histCarriers,
		"odd_carriers":                                    "GET+body, GET+decoy, HEAD+body, PUT+body, DELETE+body, PATCH+body, each x request media types",
		"request_media_types_of_odd_carriers":             reqMediaTypes,
		"odd_carriers_for_documents_above_full_product":   map[bool]string{true: "all", false: "GET+body and GET+decoy only"}[p.oddAllLarge],
		"history_shapes_for_documents_above_full_product": map[bool]string{true: "all", false: "twice only"}[p.histAllShapesLarge],
	}
	c.Assume = []string{
		"handler.Server is driven through ServeHTTP with httptest recorders; no sockets, no net/http server (so net/http's own Content-Type sniffing and HEAD body stripping are not in the loop)",
		"media type rules the statement leaves open are taken from gqlgen's documented conventions: absent Accept -> application/json; first usable Accept range wins; */* and application/* -> application/graphql-response+json; nothing usable -> application/graphql-response+json; urlencoded, application/graphql and multipart transports answer application/json unless a Content-Type is configured; parse/validation failure is 422 for application/json and 400 for application/graphql-response+json",
		"q-weights and parameters inside Accept are outside the alphabet; the status of requests that name no (existing) operation, of broken query strings and of unsupported methods is not asserted",
		"over GET (and HEAD/PUT/DELETE/PATCH) a request body names nothing, whatever Content-Type announces it: the GraphQL parameters of a GET are those of its URL (GraphQL over HTTP); so a GET with a body and an empty query string must run no resolver, and a GET with URL parameters is judged on those alone",
		"resolvers always yield their value; a non-'value' resolver outcome additionally reports an error through graphql.AddError (data and errors in one response); the strip-extensions presenter answers a copy of the error, never mutating the list a transport holds",
		"subscriptions are scripted to emit one event, so a subscription executed over POST yields one data payload",
		"gqlparser's parser and validator decide parse/validation failures inside gqlgen; the reference classifies documents by construction (injected fault, lone-anonymous rule)",
	}
	pprof.StopCPUProfile()
	c.Finish()
}

// describe re-runs a case and writes out every judged response next to what the reference expects.
func describe(r *rig, cs Case) []map[string]any {
	var out []map[string]any
	for _, so := range r.run(cs) {
		so.Obs.Body = clip(so.Obs.Body)
		out = append(out, map[string]any{"document": so.Case.Doc.Text(), "request": so.Wire, "accept": so.Case.Accept,
			"expected": expect(so.Case), "observed": so.Obs})
	}
	return out
}

func carrierNames() []string {
	var n []string
	for _, c := range carriers {
		n = append(n, c.Name)
	}
	return n
}

func sampleCases() []Case {
	two := DocSpec{Ops: []OpSpec{{"query", "named"}, {"mutation", "named"}}}
	return []Case{
		{Doc: two, OpName: OpNameChoice{true, "B"}, Carrier: "GET", Accept: "", RH: "nil", Order: "default"},
		{Doc: two, OpName: OpNameChoice{true, "B"}, Carrier: "POST", Accept: mtGR, RH: "nil", Order: "reversed"},
		{Doc: two, OpName: OpNameChoice{true, "A"}, Carrier: "GET-apq", Accept: "*/*", RH: "custom", Order: "default"},
		{Doc: DocSpec{Ops: []OpSpec{{"query", "short"}}, Fault: "parse"}, Carrier: "GET", Accept: "text/html, application/json", RH: "nil", Order: "default"},
		{Doc: DocSpec{Ops: []OpSpec{{"subscription", "anon"}}}, Carrier: "GET", Accept: mtJSON, RH: "ct-gr", Order: "default"},
		{Doc: DocSpec{Ops: []OpSpec{{"query", "named"}}}, Carrier: "POST", Accept: mtGR, RH: "nil", Order: "default", Resolver: "error-validation", Present: "default"},
		{Doc: DocSpec{Ops: []OpSpec{{"mutation", "named"}}, Fault: "unknown-field"}, Carrier: "POST", Accept: "", RH: "nil", Order: "default",
			History: "other-carrier-first", Before: []Step{{Doc: DocSpec{Ops: []OpSpec{{"mutation", "named"}}, Fault: "unknown-field"}, Carrier: "GET"}}},
		{Doc: DocSpec{Ops: []OpSpec{{"query", "named"}, {"query", "named"}, {"mutation", "named"}}, Fault: "unknown-field", FaultAt: 2},
			OpName: OpNameChoice{true, "A"}, Carrier: "MULTIPART", Accept: mtGR, RH: "nil", Order: "default"},
	}
}

func replay(path string) {
	b, err := os.ReadFile(path)
	if err != nil {
		common.Broken("cannot read replay file: %v", err)
	}
	var f struct {
		Signature string `json:"signature"`
		Replay    struct {
			Case Case `json:"case"`
		} `json:"replay"`
	}
	if err := json.Unmarshal(b, &f); err != nil || f.Replay.Case.Carrier == "" {
		common.Broken("replay file does not hold a case: %v", err)
	}
	cs := f.Replay.Case
	r := newRig()
	show := func(k string, v any) {
		j, _ := json.MarshalIndent(v, "  ", " ")
		fmt.Printf("%s:\n  %s\n", k, j)
	}
	show("case", cs)
	res := r.run(cs)
	bad := false
	for i, so := range res {
		e := expect(so.Case)
		fmt.Printf("---- response %d/%d ----\ndocument: %s\n", i+1, len(res), so.Case.Doc.Text())
		show("request", so.Wire)
		fmt.Printf("accept: %q\n", so.Case.Accept)
		show("reference expects", e)
		show("observed", so.Obs)
		for _, v := range check(so.Case, e, so.Obs, bodyCache{}) {
			bad = true
			fmt.Printf("oracle: %s %v\n  %s\n", v.Group, v.Facets, v.What)
		}
	}
	if !bad {
		fmt.Println("oracle: no disagreement")
		os.Exit(0)
	}
	os.Exit(1)
}

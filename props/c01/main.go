// C01: generated executors implement GraphQL execution semantics (data and errors).
// Bounded-exhaustive enumeration: operations (<= N selection nodes) x outcome plans
// (<= d deviations) x generator configurations, each executed on a server generated from
// the tree under test at check time and compared with a reference executor written from
// the specification.
package main

import (
	"os"
	"time"

	"verif/common"
	"verif/exech/driver"
	"verif/probe"
)

func main() {
	c := common.New("C01", "exploration")
	cfgs := []driver.ProbeConfig{driver.CfgDefault, driver.CfgFollowSchema, driver.CfgFuncSyntax, driver.CfgWorker1, driver.CfgSplitFieldDir}
	budget := 140 * time.Second
	if c.Tier == "thorough" {
		budget = 14 * time.Minute
		cfgs = append(cfgs, driver.CfgWorker2, driver.CfgFieldDir, driver.CfgRenamedRoots,
			driver.Opt("omit-slice-element-pointers", "omit_slice_element_pointers: true\n"),
			driver.Opt("resolvers-no-pointers", "resolvers_always_return_pointers: false\n"),
			driver.Opt("omit-getters", "omit_getters: true\n"),
			driver.Opt("omit-complexity", "omit_complexity: true\n"),
			driver.Opt("fields-no-pointers", "struct_fields_always_pointers: false\n"),
		)
	}
	// second probe schema (nested lists, enums, object-valued struct fields, method-bound
	// fields, map-backed model, interface implementing an interface)
	shapeCfgs := []driver.ProbeConfig{driver.CfgDefault}
	if c.Tier == "thorough" {
		shapeCfgs = append(shapeCfgs, driver.CfgFollowSchema, driver.CfgFuncSyntax, driver.CfgWorker2,
			driver.Opt("omit-slice-element-pointers", "omit_slice_element_pointers: true\n"),
			driver.Opt("resolvers-no-pointers", "resolvers_always_return_pointers: false\n"))
	}
	t0 := time.Now()
	builds := driver.BuildBoth(cfgs, shapeCfgs)
	c.Cov["build_s"] = time.Since(t0).Seconds()
	for _, b := range builds {
		if b.Err != nil {
			probe.Cleanup()
			common.Broken("config %s: %v", b.Cfg.Name, b.Err)
		}
	}
	if rp := common.ReplayArg(); rp != "" {
		code := driver.Replay(builds, rp)
		probe.Cleanup()
		os.Exit(code)
	}
	results := driver.RunMass("C01", c.Tier, builds, budget)
	driver.Report(c, results)
	c.Cov["rule"] = "every operation over the exec probe schema with at most N selection nodes from the grammar {field, alias, repeated field, inline fragment with/without type condition, named fragment spread, repeated spread, one @skip/@include} plus a hand-written corpus, accepted by gqlparser's validator, times every plan with at most d deviating resolver/directive/list-element outcomes {null, error, len0, len1, alt concrete type, typed nil}; non-trivial = invoked at least one resolver or has a deviating plan; cases are distinct by construction (operation text x plan key x configuration)"
	c.Cov["bounds"] = map[string]any{"tier": c.Tier, "configs": len(cfgs), "shapes_configs": len(shapeCfgs)}
	c.Assume = []string{
		"gqlparser's parser is trusted to turn text into AST; its validator is only a yes/no gate",
		"errors compared as a multiset of (path, kind); messages are not compared",
		"siblings of a failed field are still executed (gqlgen does not cancel; the spec allows either)",
		"two hand-written probe schemas (exec, shapes) chosen to carry every shape class of the generated code; random schemas are not generated (sampling is another technique)",
	}
	probe.Cleanup()
	c.Finish()
}
